#!/bin/bash
# refcheck.sh <patch.diff>: apply a (supposedly behaviour-preserving) change to /repo, run every quick check,
# report those that raise an alarm or fail internally, undo.  (A tool, not a check.)
patch=$1
git -C /repo apply $patch || { echo "PATCH DOES NOT APPLY"; exit 3; }
mkdir -p /tmp/refcheck; rm -f /tmp/refcheck/*
for i in $(seq -w 1 20); do
  ( ./check.py C$i --tier quick > /tmp/refcheck/C$i.log 2>&1; echo "exit=$?" >> /tmp/refcheck/C$i.log ) &
done
wait
git -C /repo checkout -- .
git -C /repo clean -fdq wheatley
for i in $(seq -w 1 20); do
  if ! grep -q "exit=0" /tmp/refcheck/C$i.log; then echo "--- C$i"; grep -E "VIOLATION|no longer|exit=|Error|error" /tmp/refcheck/C$i.log | head -6; fi
done
echo "refcheck done"
