"""Writes MANIFEST.json from the property modules (so the two cannot drift apart)."""
import importlib
import json
import os
import sys

sys.path.insert(0, os.path.dirname(os.path.dirname(os.path.abspath(__file__))))

NOT_YET = {}

DESIGN = {"C01": "6.1", "C02": "6.2", "C03": "6.3", "C04": "6.4", "C05": "6.5", "C06": "6.6", "C07": "6.7",
          "C08": "6.8", "C09": "6.9", "C10": "6.10", "C11": "6.11", "C12": "6.12", "C13": "6.13", "C14": "6.14",
          "C15": "6.15", "C16": "6.16", "C17": "6.17", "C18": "6.18", "C19": "6.19", "C20": "6.20"}


def main():
    checks = []
    na = []
    for i in range(1, 21):
        pid = f"C{i:02d}"
        try:
            mod = importlib.import_module("harness.props." + pid.lower())
        except ModuleNotFoundError:
            na.append({"property_id": pid, "reason": NOT_YET.get(pid, "check not built yet in this session; see DESIGN.md section " + DESIGN[pid])})
            continue
        p = mod.PROP
        checks.append({
            "property_id": pid,
            "quick_cmd": f"./check.py {pid} --tier quick",
            "thorough_cmd": f"./check.py {pid} --tier thorough",
            "evidence_file": f"evidence/{pid}.json",
            "replay_cmd_template": f"./check.py {pid} --replay {{path}}",
            "engine": "lean4-proof+correspondence",
            "level_claimed": {
                "category": "proof",
                "text": p.level_text,
                "design_ref": "DESIGN.md section " + DESIGN[pid],
            },
            "level_note": getattr(p, "level_note", None) or (
                "Theorems are about the hand-written Lean model (lean/Wheatley/Model); the model is tied to /repo by "
                "the differential correspondence run in the same check (model driver vs real code on the same "
                "inputs) and by constants/arithmetic regenerated from the source on every run. Trusted: Lean kernel, "
                "axioms propext/Classical.choice/Quot.sound only, the translator harness/extract.py, the harness "
                "fakes (socketio stub, fake Ringing Room, virtual clock). Modelled not verified: CPython thread "
                "pre-emption inside a handler, OS timers, IEEE rounding, numpy.linalg.inv."),
            "technique": getattr(p, "technique", "Lean 4 theorems over an executable model + checked model/code correspondence"),
        })
    man = {
        "version": 1,
        "setup_cmd": "/venv/bin/python harness/extract.py /repo && cd lean && lake build driver Wheatley",
        "hooks": {
            "guard": "WHEATLEY_VERIF",
            "enable": "no hooks are compiled into /repo: the harness imports /repo's working tree with a stub socketio module and patched time/requests",
            "baseline_off_cmd": "cd /repo && /venv/bin/python -m pytest -ra -q -p no:cacheprovider --timeout=900 --continue-on-collection-errors",
            "source_commits": [],
            "add_only": True,
        },
        "engines": [{
            "name": "lean4-proof+correspondence", "path": "check.py",
            "serves_properties": [c["property_id"] for c in checks],
            "kind_free_text": "Lean 4 theorems about a hand-written executable model; model tied to the code by a differential correspondence check and a source-to-Lean translator for constants and arithmetic helpers",
        }],
        "checks": checks,
        "not_applicable": na,
        "notes": "fix: commits in /repo (genuine defects repaired) are listed in known_findings.json / known_findings.txt.",
    }
    path = os.path.join(os.path.dirname(os.path.dirname(os.path.abspath(__file__))), "MANIFEST.json")
    json.dump(man, open(path, "w"), indent=1)
    print("wrote", path, len(checks), "checks", len(na), "not applicable")


if __name__ == "__main__":
    main()
