"""Deterministic line-level scheduler for the real server-mode handlers (C19).

Two (or more) handler calls run on real Python threads.  A `sys.settrace` hook stops each thread
before every source line of `wheatley/bot.py` / `wheatley/tower.py`; a central scheduler decides
which thread executes its next line.  `next_row_generator_lock` is replaced by a cooperative
re-entrant lock that reports contention to the scheduler instead of blocking.  Schedules are
enumerated depth-first (stateless search: a schedule is the list of choices made at the decision
points), optionally with a bound on the number of pre-emptions.
"""
import os
import sys
import threading

from harness import core, implrun, sim  # noqa: F401
import socketio as fake_socketio

from wheatley.tower import RingingRoomTower
from wheatley.bot import Bot
from wheatley.row_generation.place_holder_generator import PlaceHolderGenerator

TRACED = tuple(os.path.join(core.REPO, "wheatley", f) for f in ("bot.py", "tower.py"))


class CoopLock:
    """Re-entrant lock whose contention is visible to the scheduler."""

    def __init__(self, sched):
        self.sched = sched
        self.owner = None
        self.depth = 0

    def acquire(self, blocking=True, timeout=-1):
        me = threading.get_ident()
        while True:
            if self.owner is None or self.owner == me:
                self.owner = me
                self.depth += 1
                return True
            self.sched.yield_point(blocked_on=self)

    def release(self):
        if self.owner != threading.get_ident():
            raise RuntimeError("cannot release un-acquired lock")
        self.depth -= 1
        if self.depth == 0:
            self.owner = None

    def __enter__(self):
        self.acquire()
        return self

    def __exit__(self, *a):
        self.release()


class Scheduler:
    def __init__(self, switches, first=0):
        """`switches`: the decision points (0-based, counted only where more than one thread is enabled)
        at which the running thread is pre-empted; `first`: which thread starts."""
        self.switches = set(switches)
        self.first = first
        self.decisions = []          # (chosen index, number of enabled threads, chosen tid, previous tid)
        self.cv = threading.Condition()
        self.state = {}              # tid -> 'ready' | 'running' | 'done'
        self.blocked = {}            # tid -> lock it waits for
        self.order = []              # tids in creation order
        self.current = None
        self.lines = 0

    def _tracer(self, frame, event, arg):
        if event == "call":
            return self._tracer if frame.f_code.co_filename in TRACED else None
        if event == "line" and frame.f_code.co_filename in TRACED:
            self.yield_point()
        return self._tracer

    def yield_point(self, blocked_on=None):
        me = threading.get_ident()
        with self.cv:
            self.lines += 1
            if blocked_on is not None:
                self.blocked[me] = blocked_on
            else:
                self.blocked.pop(me, None)
            self.state[me] = "ready"
            self.current = None
            self.cv.notify_all()
            while self.current != me:
                self.cv.wait()
            self.state[me] = "running"

    def run(self, funcs):
        threads = []
        errors = {}

        def body(i, f):
            me = threading.get_ident()
            with self.cv:
                self.order.append(me)
                self.state[me] = "ready"
                self.cv.notify_all()
                while self.current != me:
                    self.cv.wait()
                self.state[me] = "running"
            sys.settrace(self._tracer)
            try:
                f()
            except BaseException as e:  # noqa
                errors[i] = type(e).__name__
            finally:
                sys.settrace(None)
                with self.cv:
                    self.state[me] = "done"
                    self.blocked.pop(me, None)
                    self.current = None
                    self.cv.notify_all()

        for i, f in enumerate(funcs):
            t = threading.Thread(target=body, args=(i, f), daemon=True)
            threads.append(t)
            t.start()
            with self.cv:
                while len(self.order) <= i:
                    self.cv.wait()
        prev = None
        while True:
            with self.cv:
                while self.current is not None:
                    self.cv.wait(timeout=5)
                enabled = [tid for tid in self.order if self.state.get(tid) == "ready"
                           and (tid not in self.blocked or self.blocked[tid].owner is None)]
                if not enabled:
                    if all(self.state.get(tid) == "done" for tid in self.order):
                        break
                    # deadlock: every live thread waits for a lock
                    errors["deadlock"] = True
                    break
                k = len(self.decisions)
                if len(enabled) > 1:
                    if prev is None:
                        idx = min(self.first, len(enabled) - 1)
                    elif prev in enabled:
                        idx = enabled.index(prev)
                        if k in self.switches:
                            idx = (idx + 1) % len(enabled)
                    else:
                        idx = 0
                    self.decisions.append((idx, len(enabled), enabled[idx], prev))
                else:
                    idx = 0
                tid = enabled[idx]
                prev = tid
                self.current = tid
                self.cv.notify_all()
        for t in threads:
            t.join(timeout=5)
        return errors


def explore(make_run, max_schedules=2000, preemption_bound=None, rng=None):
    """Enumerate schedules in order of the number of pre-emptions: none, every single pre-emption
    point, then pairs, triples (sampled when there are more than the budget allows).
    `make_run()` returns (funcs, finish, install) for a fresh system.  Yields (description, outcome, errors)."""
    import itertools
    import random
    rng = rng or random.Random(0)
    seen = 0
    npoints = {}
    for first in (0, 1):
        sched = Scheduler([], first)
        funcs, finish, install = make_run()
        install(sched)
        errors = sched.run(funcs)
        npoints[first] = len(sched.decisions)
        seen += 1
        yield {"first": first, "switch": []}, finish(), errors
    bound = preemption_bound if preemption_bound is not None else 3
    for k in range(1, bound + 1):
        combos = []
        for first in (0, 1):
            n = npoints[first] + 8
            total = 1
            for i in range(k):
                total = total * (n - i) // (i + 1)
            if total <= max(0, (max_schedules - seen)) // 2 or k == 1:
                combos += [(first, c) for c in itertools.combinations(range(n), k)]
            else:
                want = max(0, (max_schedules - seen) // (2 * (bound - k + 1)))
                combos += [(first, tuple(sorted(rng.sample(range(n), k)))) for _ in range(want)]
        for first, sw in combos:
            if seen >= max_schedules:
                return
            sched = Scheduler(sw, first)
            funcs, finish, install = make_run()
            install(sched)
            errors = sched.run(funcs)
            seen += 1
            yield {"first": first, "switch": list(sw)}, finish(), errors


# ---- the systems under test -------------------------------------------------------------------

def method_json(stage):
    pn = "x1" if stage % 2 == 0 else "1234567890ETABCD"[stage - 1] + ".1"
    return {"type": "method", "stage": stage, "notation": pn, "bob": {"0": "14"}, "single": {"0": "1234"}}


class CountingRhythm(sim.StubRhythm):
    """Stub rhythm that remembers whether a touch was started on it (`initialise_line`)."""

    def __init__(self, w):
        super().__init__(w)
        self.inits = 0

    def initialise_line(self, *a):
        self.inits += 1


def fresh_bot(size, cur_stage, queued_stage):
    box = []

    class Backend:
        def __init__(self, c):
            box.append(c)

        def on_connect(self, url):
            pass

        def on_emit(self, e, d):
            pass
    fake_socketio.set_factory(lambda c: Backend(c))
    try:
        tower = RingingRoomTower(1234, "http://x")
        rhythm = CountingRhythm(0.0)
        bot = Bot(tower, PlaceHolderGenerator(), True, True, True, rhythm, user_name="Wheatley",
                  server_instance_id=1)
        bot.verif_rhythm = rhythm
        tower.__enter__()
    finally:
        fake_socketio.set_factory(None)
    client = box[0]
    client.handlers["s_global_state"]({"global_bell_state": [True] * size})
    if cur_stage:
        client.handlers["s_wheatley_row_gen"](method_json(cur_stage))
        bot.row_generator = bot.next_row_generator
        bot.next_row_generator = None
    if queued_stage:
        client.handlers["s_wheatley_row_gen"](method_json(queued_stage))
    return bot, tower, client


def outcome_of(bot, tower):
    return [bot.row_generator.stage, None if bot.next_row_generator is None else bot.next_row_generator.stage,
            tower.number_of_bells, bot.verif_rhythm.inits > 0]


def system(pair, p):
    """(funcs, finish, install) for one of the two racing pairs."""
    bot, tower, client = fresh_bot(p["size"], p["cur"], p["queued"])
    f_row = lambda: client.handlers["s_wheatley_row_gen"](method_json(p["new"]))  # noqa: E731
    if pair == "rowgen_size":
        f_other = lambda: client.handlers["s_size_change"]({"size": p["new_size"]})  # noqa: E731
    else:
        f_other = lambda: client.handlers["s_call"]({"call": "Look to"})  # noqa: E731

    def install(sched):
        bot.next_row_generator_lock = CoopLock(sched)
    return [f_row, f_other], (lambda: outcome_of(bot, tower)), install


def sequential(pair, p):
    outs = []
    for order in ([0, 1], [1, 0]):
        funcs, finish, install = system(pair, p)
        for i in order:
            funcs[i]()
        outs.append(finish())
    return outs


def run_pair(pair, p, max_schedules, preemption_bound):
    seq = sequential(pair, p)
    outcomes = []
    bad = None
    n = 0
    errs = []
    for choices, outcome, errors in explore(lambda: system(pair, p), max_schedules, preemption_bound):
        n += 1
        if outcome not in outcomes:
            outcomes.append(outcome)
        if errors:
            errs.append([choices, {str(k): v for k, v in errors.items()}])
        if outcome not in seq and bad is None:
            bad = {"choices": choices, "outcome": outcome}
    return {"sequential": seq, "outcomes": sorted(outcomes, key=str), "schedules": n, "errors": errs[:3], "bad": bad}
