"""Shared machinery of the checks: locating things, building the Lean project, talking to the
model driver, auditing axioms, comparing replies, writing evidence and deciding the verdict."""
import fcntl
import hashlib
import json
import os
import re
import subprocess
import sys
import time

VERIF = os.path.dirname(os.path.dirname(os.path.abspath(__file__)))
REPO = os.environ.get("WHEATLEY_REPO", "/repo")
LEAN = os.path.join(VERIF, "lean")
DRIVER = os.path.join(LEAN, ".lake", "build", "bin", "driver")
ALLOWED_AXIOMS = {"propext", "Classical.choice", "Quot.sound"}
GUARD = "WHEATLEY_VERIF"

os.environ.setdefault(GUARD, "1")
sys.path.insert(0, os.path.join(VERIF, "harness", "fakes"))
sys.path.insert(0, REPO)


class Lock:
    def __init__(self, name):
        os.makedirs(os.path.join(LEAN, ".lake"), exist_ok=True)
        self.path = os.path.join(LEAN, ".lake", name)

    def __enter__(self):
        self.f = open(self.path, "w")
        fcntl.flock(self.f, fcntl.LOCK_EX)

    def __exit__(self, *a):
        fcntl.flock(self.f, fcntl.LOCK_UN)
        self.f.close()


def sh(cmd, cwd=None, timeout=3600):
    p = subprocess.run(cmd, cwd=cwd, stdout=subprocess.PIPE, stderr=subprocess.STDOUT, text=True,
                       timeout=timeout)
    return p.returncode, p.stdout


def translate():
    """Regenerate lean/Wheatley/Generated/*.lean from /repo's current source. Returns (ok, msg, report)."""
    from harness import extract
    with Lock("verif.lock"):
        return extract.run(REPO, os.path.join(LEAN, "Wheatley", "Generated"))


def build(targets):
    """lake build the given targets. Returns (ok, log)."""
    with Lock("verif.lock"):
        rc, out = sh(["lake", "build"] + list(targets), cwd=LEAN)
    return rc == 0, out


_STRIP_BLOCK = re.compile(r"/-.*?-/", re.S)
_STRIP_LINE = re.compile(r"--.*$", re.M)
_FORBIDDEN = re.compile(r"\bsorry\b|\badmit\b|^\s*axiom\s|native_decide|bv_decide|implemented_by|\bunsafe\s|maxHeartbeats\s+0\b", re.M)


def grep_forbidden():
    """Scan the model / lemma / property sources for forbidden constructs (comments stripped)."""
    hits = []
    for root, _, files in os.walk(os.path.join(LEAN, "Wheatley")):
        for f in files:
            if f.endswith(".lean"):
                p = os.path.join(root, f)
                s = _STRIP_LINE.sub("", _STRIP_BLOCK.sub("", open(p).read()))
                for m in _FORBIDDEN.finditer(s):
                    hits.append(f"{os.path.relpath(p, LEAN)}: {m.group(0).strip()}")
    return hits


def audit(module, theorems):
    """`#print axioms` for each theorem. Returns dict name -> (ok, axioms or error text)."""
    src = f"import {module}\n" + "".join(f"#print axioms {t}\n" for t in theorems)
    path = os.path.join(LEAN, ".lake", f"audit_{module.split('.')[-1]}_{os.getpid()}.lean")
    open(path, "w").write(src)
    try:
        rc, out = sh(["lake", "env", "lean", path], cwd=LEAN)
    finally:
        os.unlink(path)
    res = {}
    text = out.replace("\n  ", " ").replace("\n ", " ")
    for t in theorems:
        m = re.search(r"'" + re.escape(t) + r"' depends on axioms: \[(.*?)\]", text, re.S)
        if m:
            ax = {a.strip() for a in m.group(1).split(",") if a.strip()}
            res[t] = (ax <= ALLOWED_AXIOMS, sorted(ax))
        elif re.search(r"'" + re.escape(t) + r"' does not depend on any axioms", text):
            res[t] = (True, [])
        else:
            res[t] = (False, "missing: " + out[-400:])
    return res


class Driver:
    """The compiled Lean model behind its line protocol."""

    def run(self, requests):
        if not requests:
            return []
        data = "".join(json.dumps(r, ensure_ascii=False, separators=(",", ":")) + "\n" for r in requests)
        p = subprocess.run([DRIVER], input=data.encode("utf-8"), stdout=subprocess.PIPE,
                           stderr=subprocess.PIPE, timeout=3600)
        lines = p.stdout.decode("utf-8").splitlines()
        if p.returncode != 0 or len(lines) != len(requests):
            raise RuntimeError(f"driver failed rc={p.returncode} lines={len(lines)}/{len(requests)} "
                               f"stderr={p.stderr.decode()[-500:]}")
        return [json.loads(l) for l in lines]


def bits_to_float(b):
    import struct
    return struct.unpack("<d", struct.pack("<Q", b))[0]


def float_to_bits(x):
    import struct
    return struct.unpack("<Q", struct.pack("<d", float(x)))[0]


def canon(x):
    return json.dumps(x, sort_keys=True, ensure_ascii=False, separators=(",", ":"))


def key_of(x):
    return hashlib.sha1(canon(x).encode("utf-8")).hexdigest()[:12]


def now():
    return time.time()
