#!/bin/bash
# every recorded behaviour-preserving refactoring against every quick check, on a private snapshot of /repo
export WHEATLEY_REPO=$VP_RUN_REPO
/venv/bin/python harness/extract.py $WHEATLEY_REPO && (cd lean && lake build driver Wheatley >/dev/null 2>&1)
/venv/bin/python harness/refall.py
