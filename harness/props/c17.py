from harness import gens, scen
from harness.scen import call, LOOK_TO, GO


class C17(scen.WorldProp):
    id = "C17"
    fuzz_kinds = {"ring", "r_init", "call"}
    fuzz_times = False
    lean_module = "Wheatley.Props.C17"
    theorems = ["Wheatley.C17.gate_iff",
                "Wheatley.C17.look_to_refused",
                "Wheatley.C17.look_to_accepted",
                "Wheatley.C17.covers_in_order",
                "Wheatley.C17.padded_row",
                "Wheatley.C17.size_change_recomputes",
                "Wheatley.C17.size_message",
                "Wheatley.C17.default_opening",
                "Wheatley.C17.rhythm_follows_tower_size",
                "Wheatley.C17.refused_look_to_rings_nothing"]
    level_text = ("theorems: Look To starts ringing iff the opening row has exactly the tower's length and the "
                  "generator that will be rung has a stage in 1..N; a generated row shorter than the opening row is "
                  "padded with the opening row's tail; a size change recomputes opening row and rounds from the new "
                  "size and discards a queued generator iff it no longer fits (arbitrary states). correspondence: "
                  "(stage 1..16) x (size 4..16) grid, custom start rows shorter/equal/longer than the tower, sequences "
                  "of size changes between touches, queued generators in server mode; oracle: rings iff it fits, "
                  "covers in order, rhythm initialised with the new size. non-trivial = a size change or a misfit")

    def cases(self, rng, tier):
        pairs = [(s, n) for s in range(1, 17) for n in [4, 5, 6, 8, 10, 12, 14, 16]]
        rng.shuffle(pairs)
        if tier == "quick":
            pairs = pairs[:70]
        for stage, N in pairs:
            server = rng.random() < 0.3
            spec = {"type": "plainhunt", "stage": stage, "start_row": None}
            if not server and rng.random() < 0.4:
                k = rng.choice([stage, max(1, stage - 1), min(16, stage + 1), N, min(16, N + 1)])
                bells = list(range(1, k + 1))
                rng.shuffle(bells)
                spec["start_row"] = "".join(gens.BELLS[b - 1] for b in bells)
            ps = 60
            t0 = 1000.0 + rng.random()
            events = []
            sizes = [N]
            t = t0
            # size changes before / between touches
            for _ in range(rng.choice([0, 0, 1, 2])):
                n2 = rng.choice([4, 5, 6, 8, 10, 12, 16])
                # (the size arrives as a size message, or - a missed message, a reconnection - only as the length of
                # the next global state)
                events.append([t - 0.4, "msg", {"m": "size_change", "size": n2} if rng.random() < 0.7
                               else {"m": "global_state", "state": [True] * n2}])
                sizes.append(n2)
                t += 0.1
            cur = sizes[-1]
            queued = None
            on_join = []
            bot = scen.bot_cfg(spec, up_down_in=True)
            if server:
                bot = scen.bot_cfg({"type": "placeholder"}, up_down_in=True, stop_at_rounds=True, user_name="Wheatley",
                                   server_id=3)
                on_join = scen.humans_on_join([], "Wheatley", list(range(1, 17)))
                qs = rng.randint(1, 16)
                queued = {"type": "pn", "stage": qs, "method": "x1" if qs % 2 == 0 else gens.BELLS[qs - 1] + ".1",
                          "bob": None, "single": None, "start_index": 0, "start_row": None}
                js = {"type": "method", "stage": qs, "notation": queued["method"], "bob": {"0": "14"}, "single": {"0": "1234"}}
                queued = dict(queued, bob=[[0, "14"]], single=[[0, "1234"]])
                events.append([t0 - 0.7, "msg", {"m": "row_gen", "json": js, "model_gen": queued}])
                if rng.random() < 0.5:
                    n3 = rng.choice([4, 6, 8, 12])
                    events.append([t0 - 0.2, "msg", {"m": "size_change", "size": n3} if rng.random() < 0.7
                                   else {"m": "global_state", "state": [True] * n3}])
                    cur = n3
            events.append(call(t0, LOOK_TO))
            I = scen.interval(ps, max(cur, 4))
            end = t0 + 3 + 5 * I * (cur + 1)
            events.sort(key=lambda e: e[0])
            sc = {"start": 1000.0 - 1.0, "end": end, "tower_size": N, "events": events, "on_join": on_join,
                  "bot": bot, "rhythm": scen.rhythm_cfg("wait", inertia=1.0 if server else 0.5, peal_speed=ps)}
            yield {"k": "world", "scenario": sc, "final_size": cur, "queued": queued, "server": server}

        # a start row that is itself rounds, or a rotation of it, on more bells than the method: it still needs a
        # tower of its own length (given on the command line of the real main when it has a spelling there)
        for _ in range(14 if tier == "quick" else 140):
            stage = rng.randint(3, 12)
            L = rng.randint(stage + 1, min(16, stage + 5))
            bells = list(range(1, L + 1))
            if rng.random() < 0.3:
                bells = bells[1:stage] + bells[:1] + bells[stage:]
            N0 = rng.choice([n for n in [4, 5, 6, 8, 10, 12, 14, 16] if n >= 4])
            final = rng.choice([stage, max(stage, L - 1), L, min(16, L + 1), N0])
            t0 = 1000.0 + rng.random()
            events = []
            if final != N0:
                events.append([t0 - 0.5, "msg", {"m": "size_change", "size": final}])
            events.append(call(t0, LOOK_TO))
            ty = rng.choice(["plainhunt", "pn"])
            spec = {"type": "plainhunt", "stage": stage, "start_row": "".join(gens.BELLS[b - 1] for b in bells)}
            if ty == "pn":
                spec = {"type": "pn", "stage": stage, "method": "x1" if stage % 2 == 0 else gens.BELLS[stage - 1] + ".1",
                        "bob": None, "single": None, "start_index": 0, "start_row": spec["start_row"]}
            I = scen.interval(60, max(final, 4))
            sc = {"start": 999.0, "end": t0 + 3 + 5 * I * (final + 1), "tower_size": N0, "events": events, "on_join": [],
                  "bot": scen.bot_cfg(spec, up_down_in=True), "rhythm": scen.rhythm_cfg("wait", inertia=0.5, peal_speed=60),
                  "prefer_main": True}
            yield {"k": "world", "scenario": sc, "final_size": final, "queued": None, "server": False}

        # two touches on towers of different sizes: the second is timed for the new size (rhythm re-initialised)
        for _ in range(15 if tier == "quick" else 150):
            N1, N2 = rng.sample([4, 5, 6, 8, 10, 12], 2)
            stage = rng.randint(3, min(N1, N2))
            ps = rng.choice([60, 90])
            g = rng.choice([0.0, 1.0, 1.0, 2.0])
            t0 = 1000.0 + rng.random()
            I1 = scen.interval(ps, N1)
            t_stand = t0 + 3 + rng.uniform(2.2, 5.5) * I1 * (N1 + 1)
            t1 = t_stand + 2 * I1 * (N1 + 2) + 1.5 + rng.random()
            I2 = scen.interval(ps, N2)
            rows2 = rng.randint(3, 7)
            events = [call(t0, LOOK_TO), call(t_stand, scen.STAND),
                      [t1 - 0.6, "msg", {"m": "size_change", "size": N2}], call(t1, LOOK_TO)]
            sc = {"start": 999.0, "end": t1 + 3 + I2 * scen.blow_index(N2, g, rows2, 0) + 0.5 * I2, "tower_size": N1,
                  "events": events, "on_join": [],
                  "bot": scen.bot_cfg({"type": "plainhunt", "stage": stage, "start_row": None}, up_down_in=True),
                  "rhythm": scen.rhythm_cfg(rng.choice(["wait", "regression"]), inertia=0.5, peal_speed=ps, gap=g)}
            yield {"k": "world", "scenario": sc, "final_size": N2, "queued": None, "server": False,
                   "second": {"t1": t1, "N": N2, "I": I2, "gap": g}}
        # server mode: a selection discarded by a shrink, the tower grown back, the same selection made again
        for _ in range(12 if tier == "quick" else 120):
            N = rng.choice([6, 8, 10])
            qs = rng.randint(4, N)
            small = rng.randint(max(1, qs - 3), qs - 1)
            t0 = 1000.0 + rng.random()
            queued = {"type": "pn", "stage": qs, "method": "x1" if qs % 2 == 0 else gens.BELLS[qs - 1] + ".1",
                      "bob": [[0, "14"]], "single": [[0, "1234"]], "start_index": 0, "start_row": None}
            js = {"type": "method", "stage": qs, "notation": queued["method"], "bob": {"0": "14"}, "single": {"0": "1234"}}
            sel = {"m": "row_gen", "json": js, "model_gen": queued}
            events = [[t0 - 2.0, "msg", dict(sel)], [t0 - 1.5, "msg", {"m": "size_change", "size": small}],
                      [t0 - 1.0, "msg", {"m": "size_change", "size": N}]]
            if rng.random() < 0.75:
                events.append([t0 - 0.6, "msg", dict(sel)])
            events.append(call(t0, LOOK_TO))
            I = scen.interval(60, N)
            sc = {"start": 999.0, "end": t0 + 3 + 5 * I * (N + 1), "tower_size": N, "events": events,
                  "on_join": scen.humans_on_join([], "Wheatley", list(range(1, 17))),
                  "bot": scen.bot_cfg({"type": "placeholder"}, up_down_in=True, stop_at_rounds=True, user_name="Wheatley",
                                      server_id=3),
                  "rhythm": scen.rhythm_cfg("wait", inertia=1.0, peal_speed=60)}
            yield {"k": "world", "scenario": sc, "final_size": N, "queued": queued, "server": True}

    def nontrivial(self, req, reply):
        sc = req["scenario"]
        return len(sc["events"]) > 1 or sc["bot"]["gen"].get("start_row") is not None \
            or sc["bot"]["gen"].get("stage", 0) != sc["tower_size"]

    def tag(self, req, reply):
        g = req["queued"] or req["scenario"]["bot"]["gen"]
        rang = any(o[1][0] == "ring" for o in reply["obs"])
        return f"stage{g.get('stage')}:N{req['final_size']}:{'server' if req['server'] else 'cli'}:{'rings' if rang else 'silent'}"

    def oracle(self, req, reply):
        sc = req["scenario"]
        if reply["crashed"] or reply["handler_crashes"]:
            return f"crash: main={reply['crashed']} handlers={reply['handler_crashes']}"
        if req.get("second"):
            # the second touch, rung by Wheatley alone on the new tower size, is timed for that size
            sec = req["second"]
            N2, I2, gap, t1 = sec["N"], sec["I"], sec["gap"], sec["t1"]
            rings2 = [x for x in scen.rings(reply) if x[0] >= t1]
            if len(rings2) < N2:
                return f"after the size change to {N2} Wheatley rang {len(rings2)} strikes of the second touch"
            for k, (t, b, h) in enumerate(rings2):
                r, p = divmod(k, N2)
                want = t1 + 3 + I2 * scen.blow_index(N2, gap, r, p)
                if abs(t - want) > 2e-6:
                    return (f"second touch on {N2} bells: strike {k} (row {r}, place {p}) at {t - t1:.6f} s after Look To, "
                            f"the rhythm for {N2} bells gives {want - t1:.6f}")
            stage = sc["bot"]["gen"]["stage"]
            bells = [b for (t, b, h) in rings2]
            for i in range(0, len(bells) - len(bells) % N2, N2):
                if bells[i:i + N2][stage:] != list(range(stage + 1, N2 + 1)):
                    return f"second touch on {N2} bells: row {i // N2} = {bells[i:i + N2]}: the covers are not {list(range(stage + 1, N2 + 1))}"
            return None
        N = req["final_size"]
        g = req["queued"] or sc["bot"]["gen"]
        # the queued generator may have been discarded by a later size change that made it too big
        discarded = False
        if req["queued"] is not None:
            size = sc["tower_size"]
            seen = False
            for ev in sc["events"]:
                m = ev[2]
                if m["m"] == "row_gen":
                    seen = True
                    discarded = False          # (selected again: queued afresh)
                elif m["m"] in ("size_change", "global_state"):
                    new = m["size"] if m["m"] == "size_change" else len(m["state"])
                    if m["m"] == "global_state" or new != size:      # (a global state always has the queue looked at)
                        size = new
                        if seen and size < g["stage"]:
                            discarded = True
        stage = g["stage"]
        sr = g.get("start_row")
        need = max(stage, len(sr) if sr else 0)
        fits = need <= N and not discarded
        rings = scen.rings(reply)
        if not fits and rings:
            return f"Wheatley rang although the tower ({N}) is too small for stage {stage} / start row {sr}"
        if fits and not rings:
            return f"Wheatley rang nothing although stage {stage} / start row {sr} fits the tower ({N})"
        inits = [o for _, o in reply["obs"] if o[0] == "r_init"]
        if fits and inits and inits[-1][1] != N:
            return f"rhythm initialised with stage {inits[-1][1]}, tower has {N}"
        if fits:
            rows = scen.rows_from_strikes(reply, N)
            if sr:
                start = [gens.BELLS.index(c) + 1 for c in sr]
                opening = start + [b for b in range(1, N + 1) if b not in start]
            else:
                opening = list(range(1, N + 1))
            if rows and rows[0] != opening:
                return f"opening row {rows[0]}, expected {opening} on {N} bells"
            for i, r in enumerate(rows):
                if r[stage:] != opening[stage:]:
                    return (f"row {i} = {r}: the bells above the method's stage ({stage}) are not covering in the order "
                            f"the opening row gives them, {opening[stage:]}")
        return None


PROP = C17()
