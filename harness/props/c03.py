from harness import gens, scen
from harness.props import rowgen
from harness.props import c05 as _c05


class C03(rowgen.RowGenProp):
    id = "C03"
    lean_module = "Wheatley.Props.C03"
    theorems = ["Wheatley.C03.permute_legal", "Wheatley.C03.permute_twice", "Wheatley.C03.gen_step_legal",
                "Wheatley.C03.gen_rows_covers", "Wheatley.C03.named_places_made",
                "Wheatley.C03.unnamed_places_swap",
                "Wheatley.C03.covers_ring_behind_the_method", "Wheatley.C03.covers_are_the_opening_rows"]
    level_text = ("theorems: every (stage, place set, row) gives a change in which each bell stays or swaps with a "
                  "neighbour and places above the stage are untouched; lifted to every generator history. "
                  "correspondence: all (stage, place set) pairs to a stage bound, random generators with calls; "
                  "oracle: bell displacement <= 1, covers fixed, named places made when parity-consistent. "
                  "non-trivial = >=2 rows without error. Bot level: sessions of the real Bot in which the method is "
                  "started twice (Go, That's all / Rounds, Go) with Bobs and Singles; oracle: every row that is not "
                  "rounds is a legal change of the row rung before it")

    def cases(self, rng, tier):
        ex = 10 if tier == "quick" else 16
        yield from rowgen.permute_cases(rng, tier, ex, 150)
        n = 400 if tier == "quick" else 4000
        for i in range(n):
            r = rng.random()
            if r < 0.65:
                spec = gens.rand_pn_spec(rng, start_row_p=0.5)
            else:
                spec = gens.rand_special_spec(rng)
            yield rowgen.gen_case(rng, spec, rng.randint(2, 60), call_p=0.2, reset_p=0.02)

        # through the Bot: every change rung - also the first one after a second Go - is a legal change of the
        # row rung before it
        # (no custom start rows here: a method restarted from its start row after rounds is a jump by design)
        yield from _c05.PROP.world_cases(rng, 25 if tier == "quick" else 250, long_start_p=0.0)

    def impl(self, req):
        return _c05.PROP.impl(req) if req["k"] == "world" else super().impl(req)

    def to_model(self, req):
        return _c05.PROP.to_model(req) if req["k"] == "world" else super().to_model(req)

    def compare(self, req, ir, mr):
        return _c05.PROP.compare(req, ir, mr) if req["k"] == "world" else super().compare(req, ir, mr)

    def nontrivial(self, req, reply):
        return _c05.PROP.nontrivial(req, reply) if req["k"] == "world" else super().nontrivial(req, reply)

    def tag(self, req, reply):
        return "bot:start-and-restart" if req["k"] == "world" else super().tag(req, reply)

    def oracle_world(self, req, reply):
        sc = req["scenario"]
        if reply["crashed"] or reply["handler_crashes"]:
            return f"crash: main={reply['crashed']} handlers={reply['handler_crashes']}"
        N = sc["tower_size"]
        stage = sc["bot"]["gen"]["stage"]
        rows = scen.rows_from_strikes(reply, N)
        rounds = list(range(1, N + 1))
        for i in range(len(rows) - 1):
            a, b = rows[i], rows[i + 1]
            if b == rounds:
                continue        # coming round / back into rounds after That's all or Rounds: not a change of the method
            for p, bell in enumerate(a):
                if bell not in b or abs(b.index(bell) - p) > 1:
                    return f"row {i+1}: bell {bell} jumps ({a} -> {b})"
            if b[stage:] != a[stage:]:
                return f"row {i+1}: cover bells moved ({a} -> {b})"
        return None

    def oracle(self, req, reply):
        if req["k"] == "world":
            return self.oracle_world(req, reply)
        return rowgen.oracle_legal(req, reply)


PROP = C03()
