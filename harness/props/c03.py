from harness import gens
from harness.props import rowgen


class C03(rowgen.RowGenProp):
    id = "C03"
    lean_module = "Wheatley.Props.C03"
    theorems = ["Wheatley.C03.permute_legal", "Wheatley.C03.permute_twice", "Wheatley.C03.gen_step_legal",
                "Wheatley.C03.gen_rows_covers", "Wheatley.C03.named_places_made",
                "Wheatley.C03.unnamed_places_swap"]
    level_text = ("theorems: every (stage, place set, row) gives a change in which each bell stays or swaps with a "
                  "neighbour and places above the stage are untouched; lifted to every generator history. "
                  "correspondence: all (stage, place set) pairs to a stage bound, random generators with calls; "
                  "oracle: bell displacement <= 1, covers fixed, named places made when parity-consistent. "
                  "non-trivial = >=2 rows without error")

    def cases(self, rng, tier):
        ex = 10 if tier == "quick" else 16
        yield from rowgen.permute_cases(rng, tier, ex, 150)
        n = 400 if tier == "quick" else 4000
        for i in range(n):
            r = rng.random()
            if r < 0.65:
                spec = gens.rand_pn_spec(rng, start_row_p=0.5)
            else:
                spec = gens.rand_special_spec(rng)
            yield rowgen.gen_case(rng, spec, rng.randint(2, 60), call_p=0.2, reset_p=0.02)

    def oracle(self, req, reply):
        return rowgen.oracle_legal(req, reply)


PROP = C03()
