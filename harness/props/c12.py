from harness import scen
from harness.scen import call, LOOK_TO

LAT = 0.001


def steady_band(N, humans, a, c, gap, rows, change=None):
    """Human strikes that Wheatley *hears* exactly on the line a + c*blow (server time = heard - latency).
    `change` = (row, c2): from that row on the tempo is c2, continuous at the row's first blow."""
    ev = []
    for r in range(rows):
        for b in humans:
            bt = scen.blow_index(N, gap, r, b - 1)
            if change is not None and r >= change[0]:
                b0 = scen.blow_index(N, gap, change[0], 0)
                t = a + c * b0 + change[1] * (bt - b0)
            else:
                t = a + c * bt
            ev.append([t - LAT, "strike", b])
    return ev


class C12(scen.WorldProp):
    id = "C12"
    fuzz_kinds = {"ring", "r_init", "r_bell", "r_setting"}
    lean_module = "Wheatley.Props.C12"
    theorems = ["Wheatley.C12.wls_recovers",
                "Wheatley.C12.system_nonsingular",
                "Wheatley.C12.contraction",
                "Wheatley.C12.inertia0_exact",
                "Wheatley.C12.geometric",
                "Wheatley.C12.fixed_point",
                "Wheatley.C12.memory_bounded",
                "Wheatley.C12.forgets_oldest",
                "Wheatley.C12.look_to_forgets_data",
                "Wheatley.C12.memInvariant",
                "Wheatley.C12.memory_stays_bounded",
                "Wheatley.C12.cfgInvariant",
                "Wheatley.C12.configuration_never_changes",
                "Wheatley.C12.centred_evaluation_is_the_same_fit",
                "Wheatley.det_pos",
                "Wheatley.regress_eq",
                "Wheatley.C12.cli_memory"]
    # the command line: what of the built configuration this property is about
    cli_fields = ['max_bells', 'min_bells']
    level_text = ("theorems (any ordered field): weighted least squares recovers a line exactly from any data set "
                  "lying on it (any positive weights, two distinct blows); the determinant is a sum of squares, "
                  "positive for positive weights; one update moves the line to lerp(regression, line, inertia), so on "
                  "collinear data the error to the humans' line is multiplied by the inertia (0: exact at once; "
                  "<= 1/2: geometric) and a line the data already lie on is a fixed point for every inertia; system "
                  "level: in every state of every run on any events the regression holds fewer than max_bells "
                  "strikes (the memory turns over). "
                  "correspondence: calculate_regression (numpy) vs the closed form on every regression of every run; "
                  "timed keep-going sessions over tempo ratio 0.93..1.07 x human sets >= N/3 x inertia 0..0.5 x towers "
                  "4..16 x data-set sizes 5..30, human or Wheatley leading, tempo changes of 2-5 %; two-touch sessions at two tempi each led by a human (look_to_forgets_data); oracle: distance of "
                  "Wheatley's strikes from the humans' line. non-trivial = humans on a line of their own")

    def cases(self, rng, tier):
        n = 200 if tier == "quick" else 1500
        for i in range(n):
            N = rng.choice([4, 6, 8, 8, 12, 16])
            nh = rng.randint(max(2, (N + 2) // 3), N - 1)
            mode = rng.choice(["fixed", "inertia0", "geometric", "geometric", "change", "inertia0", "inert_then_change",
                               "later_touch"])
            if mode == "later_touch":
                yield self.later_touch_case(rng, N, nh)
                continue
            human_leads = rng.random() < 0.35 and mode != "fixed"
            pool = list(range(2, N + 1))
            humans = sorted(rng.sample(pool, nh - 1 if human_leads else nh) + ([1] if human_leads else []))
            ps = rng.choice([120, 150, 178, 200])
            gap = rng.choice([1.0, 1.0, 0.0, 2.0])
            I = scen.interval(ps, N)
            t0 = 1000.0 + rng.random()
            rho = 1.0 if mode == "fixed" else rng.uniform(0.93, 1.07)
            inertia = {"fixed": rng.choice([0.0, 0.3, 0.5, 0.9, 1.0]), "inertia0": 0.0,
                       "geometric": rng.choice([0.1, 0.25, 0.5]), "change": rng.choice([0.0, 0.25]),
                       "inert_then_change": 1.0}[mode]
            if mode == "inert_then_change":
                rho = 1.0
                human_leads = False
                humans = sorted(rng.sample(pool, nh))
            maxb = rng.choice([5, 8, 15, 15, 30])
            rows = 16 if mode != "change" else 16 + (maxb // max(1, len(humans))) + 8
            inert_rows = 0
            if mode == "inert_then_change":
                # inertia 1 (the server-mode default) for a long stretch, then the band is given inertia 0 by
                # a setting message and changes tempo: the memory must still turn over
                inert_rows = rng.randint(2 * (maxb // len(humans)) + 6, 2 * (maxb // len(humans)) + 14)
                rows = inert_rows + 2 + (maxb // len(humans)) + 10
            a = (t0 + rng.uniform(2.0, 6.0)) if human_leads else t0 + 3
            c = I * rho
            change = None
            if mode == "change":
                change = (rng.randint(5, 8), c * rng.choice([0.95, 0.97, 1.03, 1.05]))
            kind = "regression"
            if mode == "inert_then_change":
                change = (inert_rows + 2, c * rng.choice([0.96, 0.97, 1.03, 1.04]))
                if change[1] < c and rng.random() < 0.6:
                    # through the waiting wrapper, as on a Ringing Room server (the band gets faster, so that
                    # nobody is ever late for Wheatley and no hold-up blurs the line)
                    kind = "wait"
            events = [call(t0, LOOK_TO)] + steady_band(N, humans, a, c, gap, rows, change)
            if mode == "inert_then_change":
                t_set = a + c * scen.blow_index(N, gap, inert_rows, 0) + 0.3 * c
                events.append([t_set, "msg", {"m": "setting", "kvs": [["inertia", 0]]}])
            end = a + max(c, change[1] if change else c) * scen.blow_index(N, gap, rows, 0) + 0.5
            server = mode == "inert_then_change"
            wb = [b for b in range(1, N + 1) if b not in humans]
            # the method may be on fewer bells than the tower (covers behind it): the rhythm is the tower's, N blows
            # to the row, whatever the stage of what is rung
            st = rng.choice([N, N, N - 1, N - 2]) if N >= 6 else N
            sc = {"start": 1000.0, "end": end, "tower_size": N, "events": events,
                  "on_join": scen.humans_on_join(humans, "Wheatley", wb) if server else scen.humans_on_join(humans),
                  "bot": scen.bot_cfg({"type": "plainhunt", "stage": st, "start_row": None},
                                      user_name="Wheatley" if server else None, server_id=7 if server else None),
                  "rhythm": scen.rhythm_cfg(kind, inertia=inertia, peal_speed=ps, gap=gap, max_bells=maxb)}
            yield {"k": "world", "scenario": sc, "mode": mode, "a": a, "c": c, "change": change, "humans": humans,
                   "inertia": inertia, "rows": rows, "N": N, "gap": gap, "t0": t0, "maxb": maxb}

    def later_touch_case(self, rng, N, nh):
        """Two touches in one session, each led by a human, each at a tempo of its own: the second touch
        must be fitted to the second touch's strikes only (nothing remembered from the first)."""
        humans = sorted(rng.sample(range(2, N + 1), nh - 1) + [1])
        ps = rng.choice([120, 150, 178, 200])
        gap = rng.choice([1.0, 1.0, 0.0, 2.0])
        I = scen.interval(ps, N)
        inertia = rng.choice([0.0, 0.0, 0.25, 0.5])
        maxb = rng.choice([8, 15, 15, 30])
        t0 = 1000.0 + rng.random()
        a1, c1 = t0 + rng.uniform(2.0, 6.0), I * rng.uniform(0.93, 1.07)
        rows1 = rng.choice([4, 6, 8])
        t_stand = a1 + c1 * scen.blow_index(N, gap, rows1 - 2, N // 2)
        t1 = a1 + c1 * scen.blow_index(N, gap, rows1, 0) + 1.0 + rng.random()
        a2, c2 = t1 + rng.uniform(2.0, 6.0), I * rng.uniform(0.93, 1.07)
        rows2 = 16
        # (the first touch may collapse: the band stops ringing some rows before Wheatley - who, told to keep going,
        # rings on alone, still expecting them - is stood)
        collapse = rng.choice([0, 0, 2, 3, 4]) if rows1 >= 6 else 0
        events = ([call(t0, LOOK_TO)] + steady_band(N, humans, a1, c1, gap, rows1 - collapse) + [call(t_stand, scen.STAND)]
                  + [[t1 - 0.3, "msg", {"m": "global_state", "state": [True] * N}], call(t1, LOOK_TO)]
                  + steady_band(N, humans, a2, c2, gap, rows2))
        events.sort(key=lambda e: e[0])
        end = a2 + c2 * scen.blow_index(N, gap, rows2, 0) + 0.5
        sc = {"start": 1000.0, "end": end, "tower_size": N, "events": events,
              "on_join": scen.humans_on_join(humans),
              "bot": scen.bot_cfg({"type": "plainhunt", "stage": rng.choice([N, N, N - 1, N - 2]) if N >= 6 else N,
                                   "start_row": None}),
              "rhythm": scen.rhythm_cfg("regression", inertia=inertia, peal_speed=ps, gap=gap, max_bells=maxb)}
        return {"k": "world", "scenario": sc, "mode": "later_touch", "a": a2, "c": c2, "change": None, "humans": humans,
                "inertia": inertia, "rows": rows2, "N": N, "gap": gap, "t0": t0, "maxb": maxb, "t1": t1,
                "first": [a1, c1, rows1]}

    def nontrivial(self, req, reply):
        return req["mode"] != "fixed" and len(scen.rings(reply)) > 4

    def tag(self, req, reply):
        return f"{req['mode']}:N{req['N']}:inertia{req['inertia']}:max{req['maxb']}"

    def oracle(self, req, reply):
        if reply["crashed"] or reply["handler_crashes"]:
            return f"crash: main={reply['crashed']} handlers={reply['handler_crashes']}"
        if req["mode"] == "later_touch":
            sub = "inertia0" if req["inertia"] == 0 else "geometric"
            a1, c1, rows1 = req["first"]
            t1 = req["t1"]
            v = self.oracle(dict(req, mode=sub, a=a1, c=c1, rows=rows1),
                            dict(reply, obs=[o for o in reply["obs"] if scen.b2f(o[0]) < t1]))
            if v:
                return "first touch: " + v
            v = self.oracle(dict(req, mode=sub), dict(reply, obs=[o for o in reply["obs"] if scen.b2f(o[0]) >= t1]))
            return "second touch (nothing of the first may be remembered): " + v if v else None
        N, gap, a, c = req["N"], req["gap"], req["a"], req["c"]
        humans = req["humans"]
        wbells = [b for b in range(1, N + 1) if b not in humans]
        rings = scen.rings(reply)
        nh = len(humans)

        def line(r, p):
            bt = scen.blow_index(N, gap, r, p)
            ch = req["change"]
            if ch is not None and r >= ch[0]:
                b0 = scen.blow_index(N, gap, ch[0], 0)
                return a + c * b0 + ch[1] * (bt - b0)
            return a + c * bt
        count = {}
        prev_t = float("-inf")
        for (t, b, h) in rings:
            r = count.get(b, 0)
            count[b] = r + 1
            p = b - 1
            # number of human strikes heard before this strike
            # a wait that is already in progress when a regression happens is not re-timed, so the claim
            # is checked for turns that began after the strikes were heard: count those heard before
            # Wheatley's previous strike
            heard = sum(1 for hb in humans for rr in range(req["rows"]) if line(rr, hb - 1) <= prev_t - 1e-9)
            prev_t = t
            err = abs(t - line(r, p))
            mode = req["mode"]
            if mode == "fixed":
                if err > 1e-6:
                    return f"humans on Wheatley's own line, yet row {r} bell {b} is {err:.2e} s off it"
            elif mode == "inertia0":
                if heard >= 4 and r >= 1 and err > 1e-6:
                    return f"inertia 0, {heard} human strikes heard, row {r} bell {b} is {err:.2e} s off the humans' line"
            elif mode == "geometric":
                if r >= 12 and err > 1e-3:
                    return f"inertia {req['inertia']}: after {r} rows bell {b} is still {err:.4f} s off the humans' line"
            elif mode in ("change", "inert_then_change"):
                ch = req["change"]
                turnover = ch[0] + (req["maxb"] // nh) + 4
                # (through the waiting wrapper a strike heard at the very instant it is due may or may not cost
                # one 10 ms poll, so there the line is only followed to within a few polls)
                tol = 0.03 if req["scenario"]["rhythm"]["kind"] == "wait" else (1e-6 if req["inertia"] == 0 else 2e-3)
                if req["scenario"]["rhythm"]["kind"] == "wait" and req["maxb"] < 15:
                    # the property is stated for keep-going mode; through the waiting wrapper every hold-up of a
                    # poll or two shifts the inner rhythm's time frame, and a fit over a single row of strikes
                    # (memory 5 or 8) amplifies that when it is extrapolated over the handstroke gap: no claim
                    # there (those sessions still go through the correspondence)
                    continue
                if r >= turnover + (6 if req["inertia"] > 0 else 0) and err > tol:
                    return (f"tempo change at row {ch[0]} (inertia {req['inertia']}, memory {req['maxb']}): row {r} bell {b} "
                            f"is {err:.2e} s off the new line")
        return None


PROP = C12()
