from harness import gens, scen
from harness.scen import call, LOOK_TO, GO


class C08(scen.WorldProp):
    id = "C08"
    fuzz_kinds = {"ring", "r_expect"}
    fuzz_times = False
    lean_module = "Wheatley.Props.C08"
    theorems = ["Wheatley.C08.ownership_spec",
                "Wheatley.C08.turn_sample",
                "Wheatley.C08.strike_law",
                "Wheatley.C08.strike_owner",
                "Wheatley.C08.at_most_one_strike",
                "Wheatley.C08.place_advances",
                "Wheatley.C08.cli_name",
                "Wheatley.C08.only_the_main_thread_strikes", "Wheatley.C08.no_strike_while_asleep"]
    # the command line: what of the built configuration this property is about
    cli_fields = ['name']
    level_text = ("theorems: a strike is emitted only for a bell that was Wheatley's when its turn began, at most one "
                  "per place, with the stroke equal both to the view's stroke of that bell and to the row's parity; "
                  "the ownership test is exactly 'unassigned and no name configured, or assigned to a user of the "
                  "configured name' (arbitrary states). correspondence: timed sessions with follower humans and random "
                  "assign / unassign / join / leave messages at random instants, with and without --name; oracle: each "
                  "Wheatley strike's bell was Wheatley's (by an independent replay of the message history) at some "
                  "instant of its turn, strokes of a bell alternate, no server rejection when no human touches a "
                  "Wheatley bell. non-trivial = ownership changed during the touch")

    def stopped_then_again(self, rng):
        """Under Ringing Room's control: the touch is ended by Stop Touch - at any moment, in a handstroke or a
        backstroke row -, the bells are set at hand and Look To is called again: Wheatley strikes each of its bells
        once a row in the new touch, from the first row on."""
        from harness.props.c19 import method_msg
        N = rng.choice([4, 6, 8])
        ps = rng.choice([90, 120])
        I = scen.interval(ps, N)
        row_t = I * (N + 0.5)
        t0 = 1000.5 + rng.random()
        t_stop = t0 + 3 + rng.uniform(2.0, 7.0) * row_t
        t1 = t_stop + 1.0 + rng.random()
        events = [[t0 - 0.3, "msg", method_msg(N)], call(t0, LOOK_TO), [t_stop, "msg", {"m": "stop_touch"}],
                  [t1 - 0.4, "msg", {"m": "global_state", "state": [True] * N}], call(t1, LOOK_TO)]
        sc = {"start": 1000.0, "end": t1 + 3 + 6 * row_t, "tower_size": N, "events": events,
              "on_join": scen.humans_on_join([], "Wheatley", list(range(1, 17))),
              "bot": scen.bot_cfg({"type": "placeholder"}, up_down_in=True, stop_at_rounds=False, user_name="Wheatley",
                                  server_id=rng.randint(1, 9)),
              "rhythm": scen.rhythm_cfg("wait", inertia=1.0, peal_speed=ps)}
        return {"k": "world", "scenario": sc, "humans": [], "lag": 0.0, "churn": 0, "again": t1}

    def cases(self, rng, tier):
        n = 200 if tier == "quick" else 2000
        for i in range(n // 8):
            yield self.stopped_then_again(rng)
        for i in range(n):
            N = rng.choice([4, 6, 6, 8, 10, 12, 12])
            named = rng.random() < 0.4
            name = "Wheatley" if named else None
            humans = sorted(rng.sample(range(1, N + 1), rng.randint(0, N - 1)))
            wbells = [b for b in range(1, N + 1) if b not in humans]
            spec = {"type": "plainhunt", "stage": N, "start_row": None}
            if rng.random() < (0.3 if N < 10 else 0.6):
                # a custom start row (shorter than, or as long as, the tower): every bell still has one owner and is
                # struck once a row
                k = max(3, rng.choice([N, N - 1, N - 2, N - 2, N - 3, N - 4]))
                bells = list(range(1, k + 1))
                rng.shuffle(bells)
                if k >= 3 and rng.random() < 0.5:
                    # (bells 1 and 2 next to each other, in that order: the row reads "...12...")
                    bells = [b for b in bells if b not in (1, 2)]
                    j = rng.randint(0, len(bells))
                    bells[j:j] = [1, 2]
                # (the method may be on fewer bells than the start row names: the others cover where the row put them)
                # ... or on more (the start row is then completed for the stage first, for the tower after)
                st = rng.choice([k, k, max(3, k - 1), max(3, k - 2), min(N, k + 1), min(N, k + 2), min(N, k + 1),
                                 min(N, k + 2)])
                spec = {"type": "plainhunt", "stage": st, "start_row": "".join(gens.BELLS[b - 1] for b in bells)}
            ps = 60
            I = scen.interval(ps, N)
            row_t = I * (N + 0.5)
            t0 = 1000.0 + rng.random()
            end = t0 + 3 + 16 * row_t
            events = [call(t0, LOOK_TO), call(t0 + 3 + rng.uniform(0.2, 3) * row_t, GO)]
            churn = rng.random() < 0.7
            ch = 0
            if churn:
                for _ in range(rng.randint(1, 10)):
                    t = rng.uniform(t0 - 0.5, end - 1)
                    r = rng.random()
                    if r < 0.45:
                        events.append([t, "msg", {"m": "assign", "bell": rng.randint(1, N), "user": rng.choice([11, 12, 5 if named else 12])}])
                    elif r < 0.7:
                        events.append([t, "msg", {"m": "assign", "bell": rng.randint(1, N), "user": 0}])
                    elif r < 0.8:
                        events.append([t, "msg", {"m": "user_left", "id": rng.choice([11, 12])}])
                    elif r < 0.88:
                        # another user list (a reconnection): it adds to what is known, whoever it omits
                        pool = [{"id": 11, "name": "Alice"}, {"id": 12, "name": "Bob"}, {"id": 13, "name": "Cara"}]
                        events.append([t, "msg", {"m": "user_list", "users": rng.sample(pool, rng.randint(0, 2))}])
                    else:
                        events.append([t, "msg", {"m": "user_entered", "id": 12, "name": rng.choice(["Bob", "Wheatley", "wheatley", "Wheatley ", "Wheat", "W", "heat", "ley"])}])
                    ch += 1
            on_join = scen.humans_on_join(humans, name, wbells)
            on_join[0]["users"].append({"id": 12, "name": "Bob"})
            N0 = N
            if rng.random() < 0.3:
                # the tower is bigger when Wheatley joins and shrinks to N before the touch: assignments
                # of the removed bells are forgotten, those of bells 1..N (the new tenor included) are kept
                N0 = N + rng.choice([1, 2, 4])
                extra = [b for b in range(N + 1, N0 + 1) if rng.random() < 0.5]
                on_join = scen.humans_on_join(sorted(humans + extra), name, wbells + list(range(N + 1, N0 + 1)))
                on_join[0]["users"].append({"id": 12, "name": "Bob"})
                events.append([t0 - rng.uniform(0.3, 0.8), "msg", {"m": "size_change", "size": N}])
                ch += 1
            sc = {"start": 1000.0, "end": end, "tower_size": N0, "events": events, "on_join": on_join,
                  "bot": scen.bot_cfg(spec, user_name=name),
                  "rhythm": scen.rhythm_cfg(rng.choice(["wait", "wait", "regression"]), peal_speed=ps)}
            yield {"k": "world", "scenario": sc, "humans": humans, "lag": rng.choice([0.0, 0.05, 0.2]), "churn": ch}

    def agents(self, req):
        humans = req["humans"]
        lag = req["lag"]
        name = req["scenario"]["bot"]["user_name"]

        def make(s):
            # the humans ring whatever is not Wheatley's *now* (they see the assignments too)
            class Band(scen.Follower):
                def tick(self2, s2, t):
                    tw = getattr(s2, "tower", None)
                    if tw is not None:
                        self2.bells = {b for b in range(1, s2.size + 1)
                                       if not tw.is_bell_assigned_to(__import__("wheatley.bell", fromlist=["Bell"]).Bell.from_number(b), name)}
                    super().tick(s2, t)
            return [Band(s, humans, lambda r, p: lag)]
        return make

    def nontrivial(self, req, reply):
        return req["churn"] > 0 and len(scen.rings(reply)) >= 2

    def oracle(self, req, reply):
        sc = req["scenario"]
        if reply["crashed"] or reply["handler_crashes"]:
            return f"crash: main={reply['crashed']} handlers={reply['handler_crashes']}"
        if req.get("again") is not None:
            N = sc["tower_size"]
            mine = [b for (t, b, by) in reply["strikes"] if by == "wheatley" and scen.b2f(t) >= req["again"]]
            if len(mine) < 3 * N:
                return (f"after Stop Touch, the bells set at hand and a new Look To, Wheatley (every bell its own) struck "
                        f"{len(mine)} times in {sc['end'] - req['again']:.1f} s")
            for i in range(0, len(mine) - len(mine) % N, N):
                if sorted(mine[i:i + N]) != list(range(1, N + 1)):
                    return f"new touch after Stop Touch: for row {i // N} Wheatley struck {mine[i:i + N]}: not each of its bells once"
            if reply["rejects"]:
                return f"the server rejected {reply['rejects']} of Wheatley's strikes (wrong stroke)"
            return None
        name = sc["bot"]["user_name"]
        # independent replay of the message history: who holds which bell, when
        model_req = req.get("_model_req_copy")
        hist = reply.get("_delivered", [])
        owner = {}
        names = {}
        timeline = []   # (t, bell -> is Wheatley's) snapshots after each message
        N = 16

        def wheatleys(b):
            u = owner.get(b)
            if u is None:
                return name is None
            return names.get(u) == name
        snap = {b: wheatleys(b) for b in range(1, N + 1)}
        timeline.append((float("-inf"), dict(snap)))
        for tb, m in hist:
            t = scen.b2f(tb)
            k = m["m"]
            if k == "user_list":
                for u in m["users"]:
                    names[u["id"]] = u["name"]
            elif k == "user_entered":
                names[m["id"]] = m["name"]
            elif k == "assign":
                if m["user"] == 0:
                    owner.pop(m["bell"], None)
                else:
                    owner[m["bell"]] = m["user"]
            elif k == "user_left":
                for b in [b for b, u in owner.items() if u == m["id"]]:
                    del owner[b]
            elif k == "size_change":
                # bells that no longer exist lose their ringer; bells 1..size keep theirs
                for b in [b for b in owner if b > m["size"]]:
                    del owner[b]
            else:
                continue
            timeline.append((t, {b: wheatleys(b) for b in range(1, N + 1)}))
        strikes = reply["strikes"]
        prev_t = scen.look_to_times(req)[0] if scen.look_to_times(req) else 0.0
        last_stroke = {}
        human_touched_wheatley = False
        si = 0
        for tb, b, by in strikes:
            t = scen.b2f(tb)
            if by == "wheatley":
                ok = False
                for i, (tt, snp) in enumerate(timeline):
                    nxt = timeline[i + 1][0] if i + 1 < len(timeline) else float("inf")
                    if tt <= t and nxt >= prev_t and snp.get(b):
                        ok = True
                        break
                if not ok:
                    return f"Wheatley struck bell {b} at {t:.3f} although it was not its bell at any instant of its turn (since {prev_t:.3f})"
            else:
                cur = [snp for (tt, snp) in timeline if tt <= t][-1]
                if cur.get(b):
                    human_touched_wheatley = True
            # the turn of the next bell began when the previous turn ended.  A human's turn ends when the
            # human is heard, or at its time on the line when it is not awaited (keep-going mode, a bell
            # marked as rung early), so only Wheatley's own previous strike bounds the next turn
            if by == "wheatley":
                prev_t = t
        for (t, b, h) in scen.rings(reply):
            pass
        # with assignments changing mid-turn a human may legitimately strike a bell Wheatley sampled
        # as its own (turn-start reading); the no-rejection clause is checked on static ownership
        if req["churn"] == 0:
            # static ownership: every bell is somebody's, so every row is struck complete - once per row each
            own = sorted(b for b in range(1, sc["tower_size"] + 1) if timeline[-1][1].get(b))
            mine = [b for (_, b, by) in strikes if by == "wheatley"]
            k = len(own)
            for i in range(0, len(mine) - len(mine) % k if k else 0, k):
                if sorted(mine[i:i + k]) != own:
                    return (f"Wheatley's bells are {own}; for row {i // k} it struck {mine[i:i + k]}: not each of them "
                            f"exactly once")
        if reply["rejects"] and not human_touched_wheatley and req["churn"] == 0:
            return f"the server rejected {reply['rejects']} of Wheatley's strikes (wrong stroke)"
        return None

    def impl(self, req):
        rep = super().impl(req)
        rep["_delivered"] = [[t, m] for t, m in req["_model_req"]["events"]]
        return rep


PROP = C08()
