from harness import scen
from harness.scen import call, LOOK_TO
from harness.props.c12 import steady_band, LAT


class C13(scen.PairProp):
    id = "C13"
    fuzz_kinds = {"ring", "r_init", "r_bell", "r_setting"}
    lean_module = "Wheatley.Props.C13"
    theorems = ["Wheatley.C13.inertia1_line_invariant",
                "Wheatley.C13.inertia1_strike",
                "Wheatley.C13.exp_neg9",
                "Wheatley.C13.blunder_weight",
                "Wheatley.C13.blunder_dropped",
                "Wheatley.C13.blunder_harmless",
                "Wheatley.C13.threshold_value",
                "Wheatley.C13.unexpected_stroke_ignored",
                "Wheatley.C13.inertia_setting_applies",
                "Wheatley.C13.expectation_used_once",
                "Wheatley.C13.cli_inertia",
                "Wheatley.C13.onBellRing_deaf", "Wheatley.C13.mainStep_deaf", "Wheatley.C13.deliver_deaf",
                "Wheatley.C13.line_never_moves"]
    # the command line: what of the built configuration this property is about
    cli_fields = ['inertia']
    level_text = ("theorems: with inertia 1 a data point never changes start or interval (the early return), so the "
                  "line after row 0 is independent of every later strike; system level (line_never_moves): in every state of every run of the timed world on events other than Look To and settings, a rhythm with inertia 1 past its first row keeps its line - start and interval; exp(-9) < 1/1000 (proved for the real "
                  "exponential), hence a strike 3 or more places from its slot gets a weight below the rejection "
                  "threshold, is filtered out at once, and on a settled data set (all points on the line) leaves data "
                  "set and line exactly as they were. correspondence: pairs of keep-going sessions - inertia 1 with "
                  "human timings that agree on rows 0-1 and differ by up to a row afterwards; server-mode sessions in "
                  "which the inertia is set to 1 through the settings channel (from 0, 0.5, or 1 via 0) and the humans "
                  "then ring differently; settled touches with one "
                  "strike displaced 3..N places early or late (any inertia, human set, memory size); oracle: Wheatley's "
                  "strike times in the two runs are equal. non-trivial = the two human histories differ")

    def cases(self, rng, tier):
        n = 120 if tier == "quick" else 900
        for i in range(n):
            N = rng.choice([6, 8, 8, 12])
            humans = sorted(rng.sample(range(2, N + 1), rng.randint(1, N - 2)))
            ps = rng.choice([120, 178])
            gap = 1.0
            I = scen.interval(ps, N)
            t0 = 1000.0 + rng.random()
            rows = 10
            a = t0 + 3
            mode = rng.choice(["inertia1", "blunder", "blunder", "inertia1_set"])
            base = steady_band(N, humans, a, I, gap, rows)
            pre = []
            server = False
            evA = [list(e) for e in base]
            evB = [list(e) for e in base]
            if mode == "inertia1":
                inertia = 1.0
                for e, f in zip(evA, evB):
                    idx = base.index(e) if False else None
                k = 0
                for r in range(rows):
                    for b in humans:
                        if r >= 2:
                            evA[k][0] += rng.uniform(-0.45, 0.45) * I * N
                            evB[k][0] += rng.uniform(-0.45, 0.45) * I * N
                        else:
                            j = rng.uniform(-0.03, 0.03)
                            evA[k][0] += j
                            evB[k][0] += j
                        k += 1
                detail = None
            elif mode == "inertia1_set":
                # server-mode Bot (the settings channel) over the keep-going rhythm: the inertia is *set*
                # to 1 at run time, from another value; afterwards the humans' timings differ between the runs
                server = True
                inertia = rng.choice([1.0, 1.0, 0.0, 0.5])
                vals = [0, 1] if inertia == 1.0 else [1]
                when = rng.choice(["before", "during"])
                ts = t0 - 0.5 if when == "before" else a + I * N * 1.5
                pre = [[ts + 0.01 * j, "msg", {"m": "setting", "kvs": [["inertia", v]]}] for j, v in enumerate(vals)]
                if inertia == 1.0 and rng.random() < 0.6:
                    # ... and later in the touch the band asks for another speed (the same request in both runs): the
                    # line bends where Wheatley has got to, which the humans' timings have no say in
                    pre.append([a + I * N * rng.uniform(3.5, 7.5), "msg",
                                {"m": "setting", "kvs": [["peal_speed", rng.choice([100, 150, 200, 240])]]}])
                k = 0
                for r in range(rows):
                    for b in humans:
                        if r >= 3:
                            evA[k][0] += rng.uniform(-0.45, 0.45) * I * N
                            evB[k][0] += rng.uniform(-0.45, 0.45) * I * N
                        else:
                            j = rng.uniform(-0.03, 0.03)
                            evA[k][0] += j
                            evB[k][0] += j
                        k += 1
                detail = None
            else:
                inertia = rng.choice([0.0, 0.25, 0.5, 0.9])
                r = rng.randint(3, rows - 3)
                cand = [b for b in humans]
                b = rng.choice(cand)
                kmax = N
                early_ok = [k for k in range(3, kmax + 1) if k <= b - 1]
                late_ok = list(range(3, N + 1))
                if early_ok and rng.random() < 0.5:
                    k = -rng.choice(early_ok)
                else:
                    k = rng.choice(late_ok)
                idx = r * len(humans) + humans.index(b)
                if rng.random() < 0.3:
                    # under Ringing Room's control, the (same) peal speed sent again shortly before the blunder:
                    # a setting is no reason to start believing every strike
                    server = True
                    t_bl = min(evB[idx][0], evB[idx][0] + k * I)
                    pre = [[t_bl - rng.uniform(0.2, 2.5) * I, "msg", {"m": "setting", "kvs": [["peal_speed", ps]]}]]
                evB[idx][0] += k * I
                detail = [r, b, k]
            end = a + I * scen.blow_index(N, gap, rows, 0) + 0.5
            maxb = rng.choice([5, 15, 30, 3, 2])

            def mk(evs, server=server, pre=pre, inertia=inertia, maxb=maxb, mode=mode):
                if server:
                    js = {"type": "method", "stage": N, "notation": "x1", "bob": {"0": "14"}, "single": {"0": "1234"}}
                    evs = sorted([[t0 - 0.7, "msg", {"m": "row_gen", "json": js}]] + pre + [call(t0, LOOK_TO)] + evs,
                                 key=lambda e: e[0])
                    return {"start": 1000.0, "end": end, "tower_size": N, "events": evs,
                            "on_join": scen.humans_on_join(humans, "Wheatley", [b for b in range(1, 17) if b not in humans]),
                            # (for the blunder pairs the band rings rounds throughout: the method is never started)
                            "bot": scen.bot_cfg({"type": "placeholder"}, up_down_in=(mode != "blunder"),
                                                user_name="Wheatley", server_id=4),
                            "rhythm": scen.rhythm_cfg("regression", inertia=inertia, peal_speed=ps, gap=gap, max_bells=maxb)}
                return {"start": 1000.0, "end": end, "tower_size": N, "events": [call(t0, LOOK_TO)] + evs,
                        "on_join": scen.humans_on_join(humans),
                        "bot": scen.bot_cfg({"type": "plainhunt", "stage": N, "start_row": None}),
                        "rhythm": scen.rhythm_cfg("regression", inertia=inertia, peal_speed=ps, gap=gap, max_bells=maxb)}
            yield {"k": "pair", "scenarios": [mk(evA), mk(evB)], "mode": mode, "detail": detail, "N": N, "I": I,
                   "t0": t0}

    def nontrivial(self, req, reply):
        return len(scen.rings(reply["runs"][0])) > 4

    def tag(self, req, reply):
        return f"{req['mode']}:N{req['N']}"

    def oracle(self, req, reply):
        for r in reply["runs"]:
            if r["crashed"] or r["handler_crashes"]:
                return f"crash: main={r['crashed']} handlers={r['handler_crashes']}"
        A, B = (scen.rings(r) for r in reply["runs"])
        tol = 1e-9 if req["mode"].startswith("inertia1") else 1e-6
        if abs(len(A) - len(B)) > 1:       # (a strike due at the very end of the run may be cut off in one of them)
            return f"{req['mode']}: {len(A)} strikes in one run, {len(B)} in the other"
        for i, ((ta, ba, _), (tb, bb, _)) in enumerate(zip(A, B)):
            if ba != bb or abs(ta - tb) > tol:
                what = ("human timings after the first whole pull changed Wheatley's strike" if req["mode"].startswith("inertia1")
                        else f"a strike displaced by {req['detail'][2]} places (row {req['detail'][0]}, bell {req['detail'][1]}) moved Wheatley's strike")
                return f"{what} {i} (bell {ba}) from {ta - req['t0']:.6f} to {tb - req['t0']:.6f} s after Look To"
        return None


PROP = C13()
