import math
from harness import scen
from harness.scen import call, LOOK_TO


def base_scenario(rng, N, humans, ps, origin, t0, rows, kind="wait", inertia=1.0, gap=1.0, initial_inertia=1.0):
    I = scen.interval(ps, N)
    end = t0 + 3 + I * scen.blow_index(N, gap, rows, 0) + 1.0
    return {"start": origin, "end": end, "tower_size": N, "events": [call(t0, LOOK_TO)],
            "on_join": scen.humans_on_join(humans),
            "bot": scen.bot_cfg({"type": "plainhunt", "stage": N, "start_row": None}),
            "rhythm": scen.rhythm_cfg(kind, inertia=inertia, peal_speed=ps, gap=gap,
                                      initial_inertia=initial_inertia)}, I


def human_strikes(N, humans, I, gap, t0, rows, early=0.004, shift_after=None, shift=0.0, late_at=None, late_by=0.0,
                  early0=None):
    """Humans ring rounds on Wheatley's own line, `early` seconds before their slot.  From
    `shift_after` = (row, place) on, every strike is `shift` later; the strike at `late_at` is `late_by` late."""
    ev = []
    for r in range(rows):
        for b in humans:
            p = b - 1
            e = early0 if (r == 0 and early0 is not None) else early
            t = t0 + 3 + I * scen.blow_index(N, gap, r, p) - e
            if shift_after is not None and (r, p) > shift_after:
                t += shift
            if late_at == (r, p):
                t += late_by + e
            ev.append([t, "strike", b])
    return ev


class C14(scen.PairProp):
    id = "C14"
    fuzz_kinds = {"ring", "r_init", "r_bell", "r_setting"}
    lean_module = "Wheatley.Props.C14"
    theorems = ["Wheatley.C14.wake_is_inner_plus_delay",
                "Wheatley.C14.delay_after_wait",
                "Wheatley.C14.poll_adds_one_step",
                "Wheatley.C14.regression_origin_free",
                "Wheatley.C14.position_origin_free",
                "Wheatley.C14.real_time_origin_free",
                "Wheatley.C14.lerp_origin_free",
                "Wheatley.C14.applyOut_delay",
                "Wheatley.C14.deliver_delay",
                "Wheatley.C14.hold_up_never_forgotten",
                "Wheatley.C14.hold_up_monotone_from_start",
                "Wheatley.C14.run_kept",
                "Wheatley.C14.pollsLaw",
                "Wheatley.C14.hold_up_is_whole_polls"]
    level_text = ("theorems (any ordered field): the waiting wrapper hands the inner rhythm 'now - delay' and wakes at "
                  "inner time + delay; delay never decreases and grows only by whole polls slept - system level: in every "
                  "state of every run on ANY events (Look To, its sleeping handler, settings, Stop Touch included) the "
                  "accumulated delay is at least what it was, and is what it was plus a whole number of 10 ms polls, and "
                  "no handler changes it; the regression is "
                  "translation-equivariant (moving every time by c moves the start by c and leaves the interval), so "
                  "positions in blows are origin-independent. correspondence: pairs of sessions (punctual band vs the "
                  "same band with one strike D late, D from 1 ms to 40 s, at any row/place; same session with the "
                  "clock origin moved by up to 1.8e9 s; a band that restarts with Look To D and D+extra seconds "
                  "into a hold-up - the handler's 20 ms sleep runs on its own thread while the main thread leaves the "
                  "hold-up); oracle: later strikes are exactly k polls later with "
                  "D <= k*10ms < D + 11 ms and unchanged intervals; offsets from Look To agree to 2e-6 s. "
                  "non-trivial = Wheatley was held up")

    def cases(self, rng, tier):
        n = 120 if tier == "quick" else 900
        for i in range(n):
            N = rng.choice([4, 6, 8])
            humans = sorted(rng.sample(range(2, N + 1), rng.randint(1, N - 2)))
            ps = rng.choice([60, 120, 178])
            rows = rng.randint(4, 9)
            gap = 1.0
            r_mode = rng.random()
            if r_mode < 0.12:
                # the hold-up is the pull-off: a human leads and goes dA (run A) or dA + D (run B) seconds after
                # Look To, the rest of the band keeps to the leader's line.  Everything Wheatley rings is D later.
                origin = 1000.0
                t0 = origin + 0.3 + rng.random()
                hs = sorted(set([1] + rng.sample(range(2, N + 1), rng.randint(1, N - 2))))
                I = scen.interval(ps, N)
                dA = rng.uniform(1.0, 4.0)
                D = rng.choice([0.5, 3.0, 8.0, 12.3, 25.7, 41.0]) * rng.uniform(0.9, 1.1)

                def mk3(d):
                    sc, _ = base_scenario(rng, N, hs, ps, origin, t0, rows)
                    ev = []
                    for r in range(rows):
                        for b in hs:
                            early = 0.0 if (r, b) == (0, 1) else 0.004
                            ev.append([t0 + d + I * scen.blow_index(N, gap, r, b - 1) - early, "strike", b])
                    sc["events"] = sc["events"] + ev
                    sc["end"] = t0 + d + I * scen.blow_index(N, gap, rows, 0) + 1.0
                    return sc
                yield {"k": "pair", "scenarios": [mk3(dA), mk3(dA + D)], "mode": "pulloff", "D": D, "t0": t0, "I": I, "N": N}
                continue
            if r_mode < 0.15:
                # the band restarts while Wheatley is held up: a human stops ringing at (r0, p0), and
                # Look To is called again D seconds into the hold-up (run B: D + extra).  Everything after
                # the hold-up - the second Look To included - is `extra` later in B, so the second touch
                # must have the same offsets from its own Look To in both runs.
                origin = 1000.0
                t0 = origin + 0.3 + rng.random()
                rows = rng.randint(3, 6)
                I = scen.interval(ps, N)
                r0 = rng.randint(1, rows - 1)
                hb = rng.choice(humans)
                band = [e for e in human_strikes(N, humans, I, gap, t0, rows)
                        if e[0] < t0 + 3 + I * scen.blow_index(N, gap, r0, hb - 1) - 0.5 * I]
                t_h = t0 + 3 + I * scen.blow_index(N, gap, r0, hb - 1)
                D = rng.choice([0.5, 2.0, 7.0]) * rng.uniform(0.9, 1.1)
                extra = rng.choice([100, 137, 450]) * 0.01

                def mk2(T2):
                    sc, _ = base_scenario(rng, N, humans, ps, origin, t0, rows)
                    sc["events"] = sc["events"] + [list(e) for e in band] + [
                        [T2 - 0.2, "msg", {"m": "global_state", "state": [True] * N}], call(T2, LOOK_TO)]
                    sc["end"] = T2 + 3 + I * (3 * N + 2)
                    sc["_restart"] = {"T2": T2, "humans": humans}      # (the band rings on in the new touch)
                    return sc
                yield {"k": "pair", "scenarios": [mk2(t_h + D), mk2(t_h + D + extra)], "mode": "restart", "D": D,
                       "extra": extra, "T2": [t_h + D, t_h + D + extra], "t0": t0, "I": I, "N": N, "at": [r0, hb - 1]}
            elif r_mode < 0.35:
                # server mode: a hold-up, then the peal speed is changed; later strikes must still be
                # exactly the hold-up later than in the session without it
                origin = 1000.0
                t0 = origin + 0.5 + rng.random()
                # (the change lands between places 0 and 1 of a row: both must be Wheatley's, because a
                # wait that is already in progress is not re-timed by the change)
                humans = sorted(rng.sample(range(3, N + 1), rng.randint(1, N - 2)))
                during = rng.random() < 0.4
                if during and N not in humans:
                    humans = sorted(humans[:-1] + [N])     # (the late ringer is on the tenor: Wheatley's 1 and 2 follow)
                ps = 180
                ps2 = rng.choice([150, 200, 240])
                rows = 10
                name = "Wheatley"
                wb = [b for b in range(1, N + 1) if b not in humans]
                I = scen.interval(ps, N)
                D = rng.choice([0.3, 1.0, 2.5]) * rng.uniform(0.9, 1.1)
                r0 = rng.randint(1, 3)
                hb = N if during else rng.choice(humans)
                k = math.floor((D + 0.001) / 0.01) + 1
                delta_true = k * 0.01
                delta = max(0, k - 2) * 0.01
                r_sp = rng.randint(5, 7)
                t_sp = t0 + 3 + I * scen.blow_index(N, gap, r_sp, 0) + 0.4 * I
                cur_pos = scen.blow_index(N, gap, r_sp, 0) + 0.4
                if during:
                    # the peal speed is changed just after the hold-up has begun (the main thread is polling for the
                    # late ringer): the bend is placed by the clock the rhythm had when the message arrived
                    D = rng.choice([1.0, 2.5, 6.0]) * rng.uniform(0.9, 1.1)
                    k = math.floor((D + 0.001) / 0.01) + 1
                    delta_true = k * 0.01
                    delta = max(0, k - 2) * 0.01
                    bt0 = scen.blow_index(N, gap, r0, hb - 1)
                    t_sp = t0 + 3 + I * bt0 + 0.015
                    cur_pos = bt0 + 0.015 / I
                I2 = scen.interval(ps2, N)

                def band(shift_after, shift, late_at, late_by):
                    ev = []
                    for r in range(rows):
                        for b in humans:
                            p = b - 1
                            bt = scen.blow_index(N, gap, r, p)
                            cur = cur_pos
                            if bt <= cur:
                                t = t0 + 3 + I * bt
                            else:
                                t = t0 + 3 + I * cur + I2 * (bt - cur)
                            t -= 0.004
                            if shift_after is not None and (r, p) > shift_after:
                                t += shift
                            if late_at == (r, p):
                                t += late_by + 0.004
                            ev.append([t, "strike", b])
                    return ev

                def mk(evs, dshift):
                    return {"start": origin, "end": t0 + 3 + I * scen.blow_index(N, gap, rows, 0) * 1.5 + 6,
                            "tower_size": N,
                            "events": [call(t0, LOOK_TO),
                                       [t_sp + dshift, "msg", {"m": "setting", "kvs": [["peal_speed", ps2]]}]] + evs,
                            "on_join": scen.humans_on_join(humans, name, wb),
                            "bot": scen.bot_cfg({"type": "plainhunt", "stage": N, "start_row": None}, user_name=name,
                                                server_id=4, up_down_in=False),
                            "rhythm": scen.rhythm_cfg("wait", inertia=1.0, peal_speed=ps, gap=gap, initial_inertia=1.0)}
                scA = mk(band(None, 0, None, 0), 0.0)
                scB = mk(band((r0, hb - 1), delta, (r0, hb - 1), D), 0.0 if during else delta_true)
                yield {"k": "pair", "scenarios": [scA, scB], "mode": "holdup", "D": D, "at": [r0, hb - 1], "t0": t0,
                       "I": I, "N": N, "speed_change": True, "skip_first": during}
            elif r_mode < 0.75:
                origin = 1000.0
                t0 = origin + 0.25 + rng.random()
                # half of the pairs with the rhythm as the command line really builds it (the first row regresses
                # with inertia 0, the rhythm is inert from the second row on) and a band that follows Wheatley:
                # every ringer pulls half an interval after their turn has begun, in one run one of them D late
                # once; any bell may be in human hands, the treble included
                real = rng.random() < 0.5
                if real:
                    humans = sorted(rng.sample(range(1, N + 1), rng.randint(1, N - 2)))
                ii = 0.0 if real else 1.0
                scA, I = base_scenario(rng, N, humans, ps, origin, t0, rows, initial_inertia=ii)
                scB, _ = base_scenario(rng, N, humans, ps, origin, t0, rows, initial_inertia=ii)
                D = rng.choice([0.001, 0.004, 0.02, 0.3, 1.7, 9.0, 40.0]) * rng.uniform(0.8, 1.2)
                r0 = rng.randint(1, rows - 2)
                hb = rng.choice(humans)
                lat = 0.001
                k = math.floor((D + lat) / 0.01) + 1
                # the rest of the band resumes a little less than the hold-up later, so that it stays
                # (slightly) early for Wheatley and causes no second hold-up
                delta = max(0, k - 2) * 0.01
                if real:
                    scA["_band"] = {"humans": humans, "I": I, "late_at": None, "late_by": 0.0}
                    scB["_band"] = {"humans": humans, "I": I, "late_at": [r0, hb - 1], "late_by": D}
                    scA["end"] += 1.0
                    scB["end"] += D + 1.0
                else:
                    scA["events"] += human_strikes(N, humans, I, gap, t0, rows)
                    scB["events"] += human_strikes(N, humans, I, gap, t0, rows, shift_after=(r0, hb - 1), shift=delta,
                                                   late_at=(r0, hb - 1), late_by=D)
                    scB["end"] += delta + 1
                yield {"k": "pair", "scenarios": [scA, scB], "mode": "holdup", "D": D, "at": [r0, hb - 1], "t0": t0,
                       "I": I, "N": N, "real": real}
            else:
                shift = rng.choice([1.0, 1.0e6, 1.7e9, 1.8e9 - 1000.0])
                spawn = rng.random() < 0.25
                origin = 1000.0 if not spawn else rng.choice([0.5, 2.0, 1000.0])
                t0 = origin + 0.25 + rng.random()
                kind = rng.choice(["wait", "regression"])
                inertia = rng.choice([0.0, 0.5, 1.0])
                scA, I = base_scenario(rng, N, humans, ps, origin, t0, rows, kind, inertia, 1.0, 0.0)
                scB, _ = base_scenario(rng, N, humans, ps, origin + shift, t0 + shift, rows, kind, inertia, 1.0, 0.0)
                jit = [rng.uniform(-0.03, 0.03) for _ in range(rows * N)]
                evs = human_strikes(N, humans, I, gap, t0, rows)
                for j, e in enumerate(evs):
                    e[0] += jit[j % len(jit)]
                scA["events"] += evs
                scB["events"] += [[e[0] + shift, e[1], e[2]] for e in evs]
                if spawn:
                    # the same with Wheatley spawned by Ringing Room just after Look To (--look-to-time): the time
                    # given on the command line and the clock must be read in the same frame
                    from harness.props.c19 import method_msg
                    for sc, o, t in ((scA, origin, t0), (scB, origin + shift, t0 + shift)):
                        sc["events"] = [e for e in sc["events"] if not (e[1] == "msg" and e[2].get("call") == LOOK_TO)]
                        sc["look_to_time"] = scen.f2b(t)
                        sc["start"] = t + 0.05
                        sc["on_join"] = scen.humans_on_join(humans, "Wheatley", [b for b in range(1, 17) if b not in humans]) \
                            + [method_msg(N)]
                        sc["bot"] = scen.bot_cfg({"type": "placeholder"}, up_down_in=False, stop_at_rounds=False,
                                                 user_name="Wheatley", server_id=3)
                yield {"k": "pair", "scenarios": [scA, scB], "mode": "origin", "shift": shift, "t0": t0, "I": I, "N": N}

    def agents(self, req):
        band = req["scenario"].get("_band")
        if band is not None:
            late = tuple(band["late_at"]) if band["late_at"] else None
            return lambda s: [scen.Follower(
                s, band["humans"], lambda r, p: 0.5 * band["I"] + (0.5 * band["I"] + band["late_by"] if (r, p) == late else 0.0))]
        rs = req["scenario"].get("_restart")
        if rs is None:
            return None
        return lambda s: [scen.Follower(s, rs["humans"], lambda r, p: 0.05, start=rs["T2"])]

    def nontrivial(self, req, reply):
        return len(scen.rings(reply["runs"][0])) > 4

    def oracle(self, req, reply):
        for r in reply["runs"]:
            if r["crashed"] or r["handler_crashes"]:
                return f"crash: main={r['crashed']} handlers={r['handler_crashes']}"
        A, B = (scen.rings(r) for r in reply["runs"])
        N = req["N"]
        if req["mode"] == "origin":
            # (the runs end at a fixed offset: at an epoch of 1.8e9 s a strike due at the very end may fall a
            # rounding error on the other side of it)
            if abs(len(A) - len(B)) > 1:
                return f"clock origin moved by {req['shift']}: {len(A)} strikes became {len(B)}"
            # (doubles at an epoch of 1e9 s carry 2e-7 s, and the implementation's fit - uncentred normal equations -
            # multiplies that by its condition number, some hundreds after a dozen rows of scattered strikes: half a
            # millisecond is rounding there, not a dependence on the origin; a real one shows as milliseconds to seconds)
            tol = 5e-5 if abs(req["shift"]) < 1e8 else 5e-4
            for (ta, ba, ha), (tb, bb, hb) in zip(A, B):
                if ba != bb or abs((tb - req["shift"]) - ta) > tol:
                    return (f"clock origin moved by {req['shift']}: bell {ba} at offset {ta - req['t0']:.6f} became bell "
                            f"{bb} at {tb - req['shift'] - req['t0']:.6f}")
            return None
        if req["mode"] == "pulloff":
            if len(A) < 3 or abs(len(A) - len(B)) > 1:
                return f"pull-off {req['D']:.2f} s later: {len(A)} strikes became {len(B)}"
            for (ta, ba, _), (tb, bb, _) in zip(A, B):
                if ba != bb or abs((tb - ta) - req["D"]) > 0.0101:
                    return (f"the leader pulled off {req['D']:.3f} s later: bell {ba} at {ta - req['t0']:.4f} s became bell "
                            f"{bb} at {tb - req['t0']:.4f} s ({tb - ta:.4f} s later)")
            return None
        if req["mode"] == "restart":
            Ta, Tb = req["T2"]
            A1, B1 = [x for x in A if x[0] < Ta - 0.2], [x for x in B if x[0] < Tb - 0.2]
            if [(round(t, 9), b) for t, b, _ in A1] != [(round(t, 9), b) for t, b, _ in B1]:
                return "restart during a hold-up: the strikes before the hold-up differ between the runs"
            A2, B2 = [x for x in A if x[0] >= Ta - 0.2], [x for x in B if x[0] >= Tb - 0.2]
            if len(A2) < 2 or len(B2) < 2:
                return (f"restart during a hold-up: Wheatley rang {len(A2)} / {len(B2)} strikes in the "
                        f"{3 * req['N']} blows after the second Look To")
            m = min(len(A2), len(B2))          # (the runs end at a fixed offset: the last strike may be cut off)
            if abs(len(A2) - len(B2)) > 1:
                return f"restart during a hold-up: {len(A2)} strikes in the second touch of one run, {len(B2)} in the other"
            A2, B2 = A2[:m], B2[:m]
            if [b for _, b, _ in A2] != [b for _, b, _ in B2]:
                return (f"restart {req['D']:.2f} s / {req['D'] + req['extra']:.2f} s into a hold-up: the second touch "
                        f"rings {[b for _, b, _ in A2][:8]} in one run and {[b for _, b, _ in B2][:8]} in the other")
            for (ta, ba, _), (tb, bb, _) in zip(A2, B2):
                if abs((ta - Ta) - (tb - Tb)) > 0.0101 + 1e-6:
                    return (f"Look To called {req['D']:.2f} s into a hold-up: bell {ba} strikes {ta - Ta:.4f} s after it; "
                            f"called {req['extra']:.2f} s later into the same hold-up: {tb - Tb:.4f} s after it "
                            f"(the interrupted hold-up leaks into the new touch)")
            return None
        D = req["D"]
        r0, p0 = req["at"]
        nw = N - len([1 for _ in range(0)])  # unused
        # Wheatley's strikes strictly after (r0, p0) in ringing order are all delta later
        wbells = sorted(set(b for _, b, _ in A))
        per_row = len(wbells)
        cut = None
        for idx, (t, b, h) in enumerate(A):
            r = idx // per_row
            if (r, b - 1) > (r0, p0):
                cut = idx
                break
        if cut is None or len(B) <= cut:
            return None
        deltas = [tb - ta for (ta, _, _), (tb, _, _) in zip(A[cut:], B[cut:])]
        if req.get("skip_first"):
            # (the wait that is in progress when the setting arrives is not re-timed: it is the wait for the next bell
            # in the run without the hold-up, the hold-up itself in the other)
            deltas = deltas[1:]
        if not deltas:
            return None
        d0 = deltas[0]
        # (the regression is inert - inertia 1 on every row - so Wheatley's line is the configured one
        # and the wait it had is D plus the 1 ms latency, rounded up to whole polls)
        # (with the command line's own rhythm the first row regresses: the band's row-0 strikes, heard a millisecond
        # of latency late, may have moved Wheatley's line by up to a poll, and the hold-up counts from that line)
        if req.get("real"):
            # (a band that follows: how late the late ringer was against Wheatley's line is only roughly D - the turn
            # began somewhere in the interval before - so only the rest of the law is judged: whole polls, and
            # everything afterwards later by exactly that much)
            if not (0 <= d0 <= D + 2 * req["I"] + 0.03):
                return f"a ringer {D:.4f} s late delayed the next strike by {d0:.4f} s"
        elif not (D - 1e-9 <= d0 <= D + 0.011 + 1e-6):
            return f"a hold-up of {D:.4f} s delayed the next strike by {d0:.4f} s"
        if abs(d0 / 0.01 - round(d0 / 0.01)) > 1e-4:
            return f"the delay {d0:.6f} s is not a whole number of 10 ms polls"
        for d in deltas:
            if abs(d - d0) > 1e-6:
                return f"after a hold-up of {D:.4f} s later strikes are delayed by {d:.6f} s instead of {d0:.6f} s"
        for (ta, ba, _), (tb, bb, _) in zip(A[:cut], B[:cut]):
            if abs(ta - tb) > 1e-9 or ba != bb:
                return "strikes before the hold-up differ"
        return None


PROP = C14()
