from harness import gens, scen
from harness.scen import call, LOOK_TO, GO


class C16(scen.WorldProp):
    id = "C16"
    fuzz_kinds = {"ring", "call"}
    fuzz_times = False
    lean_module = "Wheatley.Props.C16"
    theorems = ["Wheatley.C16.comp_next",
                "Wheatley.C16.comp_rows",
                "Wheatley.C16.no_stand_in_calls",
                "Wheatley.C16.comp_start_stroke",
                "Wheatley.C16.calls_with_lead",
                "Wheatley.C16.no_calls_tick",
                "Wheatley.C16.no_calls_go",
                "Wheatley.C16.late_go_flush",
                "Wheatley.C16.rounds_carry_no_stale_calls",
                "Wheatley.C16.cli_no_calls", "Wheatley.C16.cli_comp_with_start_row", "Wheatley.C16.no_calls_when_told_not_to"]
    # the command line: what of the built configuration this property is about
    cli_fields = ['call_comps', 'source']
    level_text = ("theorems: a composition generator yields the payload's rows in order then rounds for ever; calls "
                  "attached to a row are exactly the payload's (minus 'Stand'); with calls off no call is ever emitted "
                  "(arbitrary payloads / states). correspondence: fake CompLib payloads (stage 4-10, 1-3 opening "
                  "rounds, calls on random rows incl. ';' lists), Go at a random instant or up-down-in, calls on/off; "
                  "oracle: rows after the opening = payload rows then rounds, call sequence and the strike each call "
                  "accompanies. non-trivial = at least one payload row with a call was rung")

    def server_case(self, rng):
        """Under Ringing Room's control: a composition selected by its CompLib address before Look To is rung row for
        row and called call for call - also when the band, during the opening rounds, selects something for the
        *next* touch (that fits the tower or does not)."""
        from harness import implrun
        from harness.props.c19 import method_msg
        stage = rng.choice([4, 6])
        N = stage + rng.choice([0, 2])
        comp = gens.rand_comp_spec(rng, stage=stage, calls=True, nrows=rng.randint(3, 10))
        for r in comp["rows"]:
            r[1] = r[1].replace("That's all", "Plain").replace("Stand", "Bob")
        cid = rng.randint(10000, 99999)
        ps = 90
        I = scen.interval(ps, N)
        row_t = I * (N + 0.5)
        t0 = 1000.6 + rng.random()
        sel = {"m": "row_gen", "json": {"type": "composition", "url": f"https://complib.org/composition/{cid}"},
               "model_gen": comp}
        events = [[t0 - 0.4, "msg", sel], call(t0, LOOK_TO),
                  [t0 + rng.uniform(0.3, 3 + 1.5 * row_t), "msg", method_msg(rng.choice([N + 2, N + 4, 4, N]))]]
        sc = {"start": 1000.0, "end": t0 + 3 + (len(comp["rows"]) + 8) * row_t, "tower_size": N, "events": events,
              "complib": {"id": cid, "key": None, "text": implrun.comp_payload(comp), "subst": {}},
              "on_join": scen.humans_on_join([], "Wheatley", list(range(1, 17))),
              "bot": scen.bot_cfg({"type": "placeholder"}, up_down_in=True, stop_at_rounds=False, user_name="Wheatley",
                                  server_id=rng.randint(1, 9)),
              "rhythm": scen.rhythm_cfg("wait", inertia=1.0, peal_speed=ps)}
        return {"k": "world", "scenario": sc, "t0": t0, "again": False, "twice": None, "comp": comp}

    def cases(self, rng, tier):
        n = 240 if tier == "quick" else 2400
        for i in range(n // 10):
            yield self.server_case(rng)
        for i in range(n):
            stage = rng.randint(4, 10)
            N = stage + rng.choice([0, 0, 1, 2]) if stage < 15 else stage
            spec = gens.rand_comp_spec(rng, stage=stage, calls=True, nrows=rng.randint(2, 14))
            # calls Wheatley itself reacts to are outside the property's hypothesis (its own echo)
            for r in spec["rows"]:
                r[1] = r[1].replace("That's all", "Plain").replace("Stand", "Stand" if rng.random() < 0.8 else "Bob")
            udi = rng.random() < 0.4
            cc = rng.random() < 0.8
            ps = 60
            I = scen.interval(ps, N)
            row_t = I * (N + 0.5)
            t0 = 1000.0 + rng.random()
            events = []
            again = rng.random() < 0.3
            if again:
                # an earlier touch of the same loaded composition in this session: rung for a while
                # (part of it, or all of it), stood, and then the touch that is judged
                tA = t0 + 0.3
                k = rng.uniform(2, len(spec["rows"]) + 4)
                events += [call(tA, LOOK_TO), call(tA + 3 + k * row_t, scen.STAND)]
                if not udi:
                    events.append(call(tA + 3 + rng.uniform(0, 2) * row_t, GO))
                t0 = tA + 3 + (k + 3) * row_t + 1 + rng.random()
                events.append([t0 - 0.3, "msg", {"m": "global_state", "state": [True] * N}])
            events.append(call(t0, LOOK_TO))
            if not udi:
                events.append(call(t0 + 3 + rng.uniform(-0.5, 5) * row_t, GO))
            events.sort(key=lambda e: e[0])
            end = t0 + 3 + (len(spec["rows"]) + 10) * row_t
            twice = None
            if not udi and not again and rng.random() < 0.3:
                # twice through after one Look To: the composition comes round, That's all, rounds go on, Go again -
                # the second time through is the composition again, call for call (the one that is judged)
                ta = t0 + 3 + (len(spec["rows"]) + 7) * row_t
                g2 = ta + rng.uniform(1.5, 5) * row_t
                events += [call(ta, scen.THATS_ALL), call(g2, GO)]
                end = g2 + (len(spec["rows"]) + 9) * row_t
                twice = ta
            sc = {"start": 1000.0, "end": end, "tower_size": N, "events": events,
                  "bot": scen.bot_cfg(spec, up_down_in=udi, call_comps=cc),
                  "rhythm": scen.rhythm_cfg("regression", peal_speed=ps)}
            yield {"k": "world", "scenario": sc, "t0": t0, "again": again, "twice": twice}

    def tag(self, req, reply):
        return ("second-touch:" if req.get("again") else "twice-through:" if req.get("twice") else "") + super().tag(req, reply)

    def nontrivial(self, req, reply):
        return len(scen.calls_made(reply)) > 0

    def oracle(self, req, reply):
        sc = req["scenario"]
        if reply["crashed"] or reply["handler_crashes"]:
            return f"crash: main={reply['crashed']} handlers={reply['handler_crashes']}"
        N = sc["tower_size"]
        spec = req.get("comp") or sc["bot"]["gen"]
        stage = spec["stage"]
        if req.get("again"):
            # judge the touch that follows the last Look To (the earlier one only sets the scene)
            reply = dict(reply, strikes=[x for x in reply["strikes"] if scen.b2f(x[0]) >= req["t0"]],
                         obs=[o for o in reply["obs"] if scen.b2f(o[0]) >= req["t0"]])
        if req.get("twice") is not None:
            # judge the second time through: from the first whole row after That's all
            k = sum(1 for x in reply["strikes"] if scen.b2f(x[0]) < req["twice"])
            k += (-k) % N
            if k >= len(reply["strikes"]):
                return None
            cut = scen.b2f(reply["strikes"][k][0])
            reply = dict(reply, strikes=reply["strikes"][k:], obs=[o for o in reply["obs"] if scen.b2f(o[0]) >= cut - 1e-9])
        rows = scen.rows_from_strikes(reply, N)
        calls = scen.calls_made(reply)
        if not sc["bot"]["call_comps"]:
            if calls:
                return f"calls were made although calling is off: {calls[:3]}"
        if any(c == "Stand" for _, c in calls):
            return "Wheatley called 'Stand'"
        payload = spec["rows"]
        nsr = 0
        while payload[nsr][0] == payload[0][0]:
            nsr += 1
        covers = list(range(stage + 1, N + 1))
        opening = list(range(1, N + 1))
        method = [[gens.BELLS.index(c) + 1 for c in r[0]] + covers for r in payload[nsr:]]
        m = next((i for i, r in enumerate(rows) if r != opening), None)
        if m is None:
            return None
        if (m % 2 == 0) != (nsr % 2 == 0):
            return f"first composition row rung at row {m}, but {nsr} opening rounds imply the other stroke"
        for j, want in enumerate(method):
            if m + j >= len(rows):
                return None
            if rows[m + j] != want:
                return f"composition row {j}: rung {rows[m+j]}, payload says {want}"
        for i in range(m + len(method), len(rows)):
            if rows[i] != opening:
                return f"row {i} after the composition = {rows[i]}, expected rounds"
        if sc["bot"]["call_comps"]:
            def proc(s):
                return [] if s == "" else [x.strip() for x in s.split(";") if x.strip() != "Stand"]
            want_calls = [c for r in payload for c in proc(r[1])]
            got = [c for _, c in calls]
            if got != want_calls[:len(got)] or (len(rows) >= m + len(method) + 1 and got != want_calls):
                return f"calls made {got} differ from the payload's {want_calls}"
            # each call of a method row accompanies that row's first strike
            strikes = reply["strikes"]
            ci = sum(len(proc(r[1])) for r in payload[:nsr])
            for j, r in enumerate(payload[nsr:]):
                for c in proc(r[1]):
                    if ci < len(calls) and (m + j) * N < len(strikes):
                        t_first = scen.b2f(strikes[(m + j) * N][0])
                        if abs(calls[ci][0] - t_first) > 1e-9:
                            return f"call {c!r} of composition row {j} made at {calls[ci][0]:.3f}, row led at {t_first:.3f}"
                    ci += 1
        return None


PROP = C16()
