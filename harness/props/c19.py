from harness import implrun
from harness import core, gens, scen, sched
from harness.scen import call, LOOK_TO, GO

BAD_ROWGEN = [
    {"type": "method", "stage": 6},                                              # no notation
    {"type": "method", "notation": "x16"},                                       # no stage
    {"type": "method", "stage": None, "notation": "x16"},
    {"type": "method", "stage": "six", "notation": "x16"},
    {"type": "method", "stage": 6, "notation": "zz"},
    {"type": "method", "stage": 6, "notation": None},
    {"type": "method", "stage": 6, "notation": ["x16"]},
    {"type": "method", "stage": 6, "notation": "x16", "bob": "14"},
    {"type": "method", "stage": 6, "notation": "x16", "bob": {"a": "14"}},
    {"type": "method", "stage": 6, "notation": "x16", "bob": {"0": "zz"}},
    {"type": "method", "stage": 6, "notation": "x16", "single": {"0": None}},
    {"type": "method", "stage": 17, "notation": "x16"},
    {"type": "method", "stage": 0, "notation": "x16"},
    {"type": "composition"},
    {"type": "composition", "url": "http:complib.org/composition/1"},
    {"type": "composition", "url": "https://[complib.org/composition/1"},
    {"type": "composition", "url": "complib.org/method/5"},
    {"type": "composition", "url": None},
    {"type": "other"},
    {},
    {"stage": 6, "notation": "x16"},
]

BAD_SETTINGS = [["peal_speed", "abc"], ["peal_speed", None], ["peal_speed", -5], ["peal_speed", 0], ["inertia", None],
                ["inertia", "abc"], ["inertia", 7], ["use_up_down_in", "maybe"], ["stop_at_rounds", None],
                ["call_composition", 3], ["sensitivity", 5], ["unknown_key", "x"]]


def method_msg(stage, rng=None):
    pn = "x1" if stage % 2 == 0 else gens.BELLS[stage - 1] + ".1"
    js = {"type": "method", "stage": stage, "notation": pn, "bob": {"0": "14"}, "single": {"0": "1234"}}
    return {"m": "row_gen", "json": js}


def plain_rows(stage, n):
    pn = [[], [1]] if stage % 2 == 0 else [[stage], [1]]
    return gens.ref_rows(stage, pn, list(range(1, stage + 1)), 0, n)


class C19(scen.WorldProp):
    id = "C19"
    fuzz_kinds = "all"
    lean_module = "Wheatley.Props.C19"
    theorems = ["Wheatley.C19.ir_disciplined",
                "Wheatley.C19.step_keeps_mutex",
                "Wheatley.C19.mutex",
                "Wheatley.C19.at_most_one_inside",
                "Wheatley.C19.init_mutex",
                "Wheatley.C19.run_keeps_disc",
                "Wheatley.C19.protected_access_by_owner",
                "Wheatley.C19.handlers_protected_access_by_owner",
                "Wheatley.C19.rowgen_size_serialisable",
                "Wheatley.C19.rowgen_lookto_serialisable",
                "Wheatley.C19.selection_fate",
                "Wheatley.C19.discarded_iff",
                "Wheatley.C19.selection_waits_for_look_to",
                "Wheatley.C19.turn_keeps_selection",
                "Wheatley.C19.look_to_applies_queued",
                "Wheatley.C19.rowgen_only_queues",
                "Wheatley.C19.speed_change_continuous",
                "Wheatley.C19.speed_change_keeps_position",
                "Wheatley.C19.stop_touch_law",
                "Wheatley.C19.no_new_turn_when_stopped",
                "Wheatley.C19.roll_call_on_start",
                "Wheatley.C19.bot_never_roll_calls",
                "Wheatley.C19.return_request_raises_flag",
                "Wheatley.C19.return_request_survives_inner_wait",
                "Wheatley.C19.return_request_ends_hold_up",
                "Wheatley.C19.finishTick_leaves_wait",
                "Wheatley.C19.look_to_is_activity",
                "Wheatley.C19.look_to_is_activity_atomic",
                "Wheatley.C19.exit_law",
                "Wheatley.C19.inactivity_is_300s",
                "Wheatley.C19.server_mode_starts_empty", "Wheatley.C19.method_changes_only_at_look_to"]
    generated_deps = ["Constants.lean", "Arith.lean", "HandlerIR.lean", "CliDefaults.lean"]
    quick_budget_s = 150
    level_text = ("theorems: the handlers' lock/cell action sequences, regenerated from bot.py on every run, obey the "
                  "lock discipline; for any number of threads and every schedule at most one is inside a critical "
                  "section (mutual-exclusion invariant by induction on the schedule); at that granularity every "
                  "interleaving of row-generator change with size change or with Look To ends in one of the two "
                  "sequential outcomes and the selection is exactly one of applied / queued / refused; no message "
                  "except Look To and no turn changes the current generator; a peal-speed change keeps the current "
                  "position; Stop Touch / roll-call / exit laws of the main loop; a return request raised while the main thread "
                  "sleeps towards a human's place survives that sleep and ends the hold-up at its first test. correspondence: (i) a sys.settrace "
                  "scheduler runs the real handlers on real threads one source line at a time and enumerates "
                  "schedules (all outcomes must be sequential ones; sequential outcomes = the Lean critical-section "
                  "model's); (ii) timed server-mode sessions with row-generator / setting / size / stop / Look To "
                  "messages in random orders incl. malformed payloads, and Stop Touch at every phase of a turn with human "
                  "ringers in the band followed by 300 s of silence; oracle: no handler raises, rows follow the "
                  "generator current at Look To, <= 1 strike after Stop Touch, roll calls = starts, exit only after "
                  "300 s idle. non-trivial = a selection raced with another handler / arrived mid-touch")

    def cases(self, rng, tier):
        # (i) schedules of the real handlers
        budget = 400 if tier == "quick" else 6000
        combos = [("rowgen_size", {"size": 8, "cur": 6, "queued": None, "new": 8, "new_size": 6}),
                  ("rowgen_size", {"size": 8, "cur": 8, "queued": 8, "new": 6, "new_size": 6}),
                  ("rowgen_size", {"size": 6, "cur": 6, "queued": None, "new": 8, "new_size": 8}),
                  ("rowgen_size", {"size": 6, "cur": 6, "queued": 4, "new": 6, "new_size": 6}),
                  ("rowgen_lookto", {"size": 6, "cur": 6, "queued": None, "new": 8}),
                  ("rowgen_lookto", {"size": 8, "cur": 6, "queued": None, "new": 8}),
                  ("rowgen_lookto", {"size": 6, "cur": 8, "queued": 6, "new": 8}),
                  ("rowgen_lookto", {"size": 6, "cur": None, "queued": None, "new": 6})]
        for pair, p in combos:
            yield {"k": "sched", "pair": pair, "p": p, "max": budget, "bound": 3 if tier == "quick" else None}
        # (ii) timed server-mode sessions
        n = 40 if tier == "quick" else 400
        for i in range(n):
            yield self.session(rng)
        # (iii) Stop Touch with human ringers in the band: while Wheatley sleeps towards a human's place,
        # while it holds up for that human, or between its own strikes; then 300 s of silence
        for i in range(12 if tier == "quick" else 150):
            yield self.stop_with_humans(rng)
        # (iv) a peal-speed change after a human has held Wheatley up: the bend must be at the current
        # position of the *held-up* rhythm
        for i in range(16 if tier == "quick" else 200):
            yield self.speed_after_hold_up(rng)
        # (vi) a peal-speed setting while Wheatley is waiting for a human to pull off: nothing may be rung before
        # the leader goes, and the first row is then placed from the leader's strike at the new speed
        for i in range(10 if tier == "quick" else 120):
            yield self.speed_before_pull_off(rng)
        # (v) the real server-mode start-up, with the answers to the join arriving at once or a millisecond later
        for i in range(14 if tier == "quick" else 90):
            yield self.startup_case(rng)
        for i in range(12 if tier == "quick" else 100):
            yield self.server_cli_case(rng)

    def server_cli_case(self, rng):
        """`main(["server-mode", room, --port, --id])` up to the construction of the Bot: the constants of
        server_main against `Cli.serverMain`."""
        req = {"k": "server_cli", "room": rng.randint(100000000, 999999999)}
        if rng.random() < 0.9:
            req["port"] = rng.choice([5000, 8080, 1, 65535, rng.randint(1024, 60000)])
        if rng.random() < 0.8:
            req["id"] = rng.randint(0, 99)
        return req

    def impl_server_cli(self, req):
        import struct
        from harness import climain
        argv = ["server-mode", str(req["room"])]
        if "port" in req:
            argv += ["--port", str(req["port"])]
        if "id" in req:
            argv += ["-i", str(req["id"])] if req["id"] % 2 else ["--id=" + str(req["id"])]
        r = climain.run(argv)
        if r.get("outcome") != "built":
            return {"outcome": r.get("outcome"), "detail": str(r.get("exc") or r.get("code"))[:100]}
        f2b = lambda x: struct.unpack("<Q", struct.pack("<d", float(x)))[0]      # noqa: E731
        rh, bot = list(r["rhythm_args"].values()), list(r["bot"].values())
        inner = getattr(r["rhythm"], "_inner_rhythm", r["rhythm"])
        out = {"url": r["tower_args"][1], "udi": bot[2], "sar": bot[3], "call_comps": bot[4], "name": bot[6],
               "server_id": bot[7] if len(bot) > 7 else None, "peal_speed": rh[0], "inertia": f2b(rh[1]),
               "max_bells": rh[2], "gap": f2b(rh[3]), "use_wait": rh[4], "initial_inertia": f2b(rh[5]) if len(rh) > 5 else None,
               "min_bells": getattr(inner, "_min_bells_in_dataset", None),
               "placeholder": type(r["gen"]).__name__ == "PlaceHolderGenerator", "room": r["tower_args"][0]}
        return out

    def startup_case(self, rng):
        """The real `main(["server-mode", ...])`: Ringing Room answers the join with the user list, the assignments
        and the selected method - either a millisecond later or at once, while `emit("c_join")` is still running."""
        N = rng.choice([6, 8])
        stage = rng.choice([4, 5, 6, N])
        t0 = 1001.0 + rng.random()
        I = scen.interval(180, N)
        sc = {"start": 1000.0, "end": t0 + 3 + 7 * I * (N + 1), "tower_size": N,
              "tower_id": rng.randint(100000000, 999999999),
              "on_join": scen.humans_on_join([], "Wheatley", list(range(1, 17))) + [method_msg(stage)],
              "sync_join": rng.random() < 0.5, "events": [call(t0, LOOK_TO)], "bot": None, "rhythm": None}
        req = {"k": "startup", "scenario": sc, "stage": stage, "N": N, "t0": t0, "id": rng.randint(1, 9)}
        if rng.random() < 0.4:
            # spawned *by* the Look To (`--look-to-time`): no Look To message will come; what Ringing Room sends in
            # answer to the join - the selected method included - is in force for that touch
            t_lt = 1000.0 - rng.uniform(0.0, 1.5)
            sc["events"] = []
            sc["end"] = t_lt + 3 + 7 * I * (N + 1)
            req.update(t0=t_lt, look_to_time=t_lt)
        return req

    def corpus(self):
        # witness of the repaired exit race: Look To lands in the last 10 ms idle poll before the deadline
        out = []
        for dt in (300.095, 300.1005, 300.104, 300.108):
            N = 6
            t0 = 1000.0 + dt
            on_join = scen.humans_on_join([], "Wheatley", list(range(1, 17)))
            sc = {"start": 1000.0, "end": t0 + 8.0, "tower_size": N, "on_join": on_join,
                  "events": [[1001.0, "msg", method_msg(6)], call(t0, LOOK_TO)],
                  "bot": scen.bot_cfg({"type": "placeholder"}, up_down_in=True, stop_at_rounds=False,
                                      user_name="Wheatley", server_id=2),
                  "rhythm": scen.rhythm_cfg("wait", inertia=1.0, peal_speed=180)}
            out.append({"k": "world", "scenario": sc, "plan": {"first": 6, "t0": t0, "N": N, "edge": True}})
        return out

    def session(self, rng):
        N = rng.choice([6, 8])
        ps = 180
        I0 = scen.interval(ps, N)
        t0 = 1000.5 + rng.random()
        events = []
        s1 = rng.choice([4, 5, 6, N])
        events.append([t0 - 0.3, "msg", method_msg(s1)])
        events.append(call(t0, LOOK_TO))
        row_t = I0 * (N + 0.5)
        end = t0 + 3 + 9 * row_t
        plan = {"first": s1, "t0": t0, "N": N}
        r = rng.random()
        if r < 0.3:
            # a selection arrives mid-touch, then the touch is stopped and a new one started
            # (the selection may be too big for the tower, and may arrive while the opening rounds are still being
            # rung: it is for the next touch and must leave this one alone)
            s2 = rng.choice([4, 6, N, N, N + 2, 12])
            t_sel = t0 + (3 + rng.uniform(1, 5) * row_t if rng.random() < 0.6 else rng.uniform(0.2, 3 + 2 * row_t))
            t_stop = max(t_sel, t0 + 3 + 3 * row_t) + rng.uniform(0.5, 2) * row_t
            t1 = t_stop + 1.0 + rng.random()
            sel = method_msg(s2)
            complib = None
            if rng.random() < 0.35:
                # the selection is a composition on CompLib, referred to the way Ringing Room passes it on: the
                # address as the user pasted it, a private one with its access key, perhaps a substituted method
                comp = gens.rand_comp_spec(rng, stage=rng.choice([4, 6, N]), calls=False, nrows=rng.randint(4, 9))
                s2 = comp["stage"]
                cid = rng.randint(10000, 99999)
                key = "".join(rng.choice("0123456789abcdef") for _ in range(40)) if rng.random() < 0.6 else None
                sub = rng.randint(10000, 40000) if rng.random() < 0.4 else None
                other = gens.rand_comp_spec(rng, stage=s2, calls=False, nrows=5)
                complib = {"id": cid, "key": key, "text": implrun.comp_payload(other if sub else comp),
                           "subst": {str(sub): implrun.comp_payload(comp)} if sub else {}}
                q = ([f"accessKey={key}"] if key else []) + ([f"substitutedmethodid={sub}"] if sub else [])
                url = rng.choice(["https://complib.org/composition/", "complib.org/composition/",
                                  "https://www.complib.org/composition/"]) + str(cid) + ("?" + "&".join(q) if q else "")
                sel = {"m": "row_gen", "json": {"type": "composition", "url": url}, "model_gen": comp}
                plan.update(comp=comp)
            events += [[t_sel, "msg", sel], [t_stop, "msg", {"m": "stop_touch"}],
                       [t1 - 0.4, "msg", {"m": "global_state", "state": [True] * N}],     # bells set at hand
                       call(t1, LOOK_TO)]
            if complib is None and rng.random() < 0.4:
                # between the touches the tower shrinks below the selection (which is discarded), grows back, the
                # bells are given to Wheatley again and the very same selection is made once more: it must be rung
                small = max(1, min(s2 - 1, rng.choice([3, 4, 5])))
                t1 = t_stop + 2.0 + rng.random()
                events = events[:-2]
                events += [[t_stop + 0.3, "msg", {"m": "size_change", "size": small}],
                           [t_stop + 0.6, "msg", {"m": "size_change", "size": N}]]
                events += [[t_stop + 0.7 + 0.01 * b, "msg", {"m": "assign", "bell": b, "user": 5}] for b in range(small + 1, N + 1)]
                events += [[t1 - 0.5, "msg", method_msg(s2)],
                           [t1 - 0.3, "msg", {"m": "global_state", "state": [True] * N}], call(t1, LOOK_TO)]
                plan.update(reselected=True)
            end = t1 + 3 + 7 * row_t
            plan.update(second=s2, t_sel=t_sel, t_stop=t_stop, t1=t1)
        elif r < 0.55:
            sp = rng.choice([120, 150, 240, 200])
            t_sp = t0 + 3 + rng.uniform(1.2, 5) * row_t
            events.append([t_sp, "msg", {"m": "setting", "kvs": [["peal_speed", rng.choice([sp, str(sp)])]]}])
            plan.update(speed=sp, t_sp=t_sp)
            end = t_sp + 5 * row_t * 1.4
        elif r < 0.8:
            for _ in range(rng.randint(1, 5)):
                t = rng.uniform(t0 - 0.2, end - 1)
                if rng.random() < 0.6:
                    events.append([t, "msg", {"m": "row_gen", "json": rng.choice(BAD_ROWGEN)}])
                else:
                    events.append([t, "msg", {"m": "setting", "kvs": [rng.choice(BAD_SETTINGS)]}])
            plan.update(malformed=True)
        else:
            t_stop = t0 + 3 + rng.uniform(0.5, 6) * row_t
            events.append([t_stop, "msg", {"m": "stop_touch"}])
            plan.update(t_stop=t_stop)
            if rng.random() < 0.4:
                end = t_stop + 305.0       # long enough for the inactivity exit
                plan.update(long=True)
        events.sort(key=lambda e: e[0])
        on_join = scen.humans_on_join([], "Wheatley", list(range(1, 17)))
        sc = {"start": 1000.0, "end": end, "tower_size": N, "events": events, "on_join": on_join,
              "bot": scen.bot_cfg({"type": "placeholder"}, up_down_in=True, stop_at_rounds=False, user_name="Wheatley",
                                  server_id=rng.randint(1, 9)),
              "rhythm": scen.rhythm_cfg("wait", inertia=1.0, peal_speed=ps)}
        if plan.get("comp"):
            sc["complib"] = complib
        return {"k": "world", "scenario": sc, "plan": plan}

    def stop_with_humans(self, rng):
        N = rng.choice([4, 6])
        I0 = scen.interval(180, N)
        t0 = 1000.5 + rng.random()
        humans = sorted(rng.sample(range(2, N + 1), rng.randint(1, 2)))
        lag = rng.choice([0.0, 0.0, 0.15, 0.4])
        # a whole number of blows into the touch plus a fraction: before / after the next place is due
        k = rng.randint(2, 4 * N) + rng.choice([0.3, 0.5, 0.8, 0.97])
        t_stop = t0 + 3 + k * I0
        events = [[t0 - 0.3, "msg", method_msg(N)], call(t0, LOOK_TO), [t_stop, "msg", {"m": "stop_touch"}]]
        wheatley_bells = [b for b in range(1, 17) if b not in humans]
        sc = {"start": 1000.0, "end": t_stop + 306.0, "tower_size": N, "events": events,
              "on_join": scen.humans_on_join(humans, "Wheatley", wheatley_bells),
              "bot": scen.bot_cfg({"type": "placeholder"}, up_down_in=True, stop_at_rounds=False, user_name="Wheatley",
                                  server_id=rng.randint(1, 9)),
              "rhythm": scen.rhythm_cfg("wait", inertia=1.0, peal_speed=180)}
        return {"k": "world", "scenario": sc,
                "plan": {"first": N, "t0": t0, "N": N, "t_stop": t_stop, "long": True, "humans": humans, "lag": lag}}

    def speed_after_hold_up(self, rng):
        N = rng.choice([6, 8])
        I0 = scen.interval(180, N)
        t0 = 1000.5 + rng.random()
        human = rng.randint(2, N)
        D = rng.choice([0.4, 1.0, 2.5]) * rng.uniform(0.9, 1.1)
        sp = rng.choice([120, 150, 240])
        r_sp = rng.randint(4, 6)
        # between two of Wheatley's own places of row r_sp (a wait in progress is not re-timed)
        own = [p for p in range(N - 1) if p + 1 != human and p + 2 != human and p != human - 1]
        p_sp = rng.choice(own) if own else 0
        t_sp = t0 + 3 + I0 * (scen.blow_index(N, 1.0, r_sp, p_sp) + 0.4) + D + 0.02
        events = [[t0 - 0.3, "msg", method_msg(N)], call(t0, LOOK_TO),
                  [t_sp, "msg", {"m": "setting", "kvs": [["peal_speed", sp]]}]]
        sc = {"start": 1000.0, "end": t_sp + 4 * scen.interval(sp, N) * (N + 1), "tower_size": N, "events": events,
              "on_join": scen.humans_on_join([human], "Wheatley", [b for b in range(1, 17) if b != human]),
              "bot": scen.bot_cfg({"type": "placeholder"}, up_down_in=True, stop_at_rounds=False, user_name="Wheatley",
                                  server_id=rng.randint(1, 9)),
              "rhythm": scen.rhythm_cfg("wait", inertia=1.0, peal_speed=180, initial_inertia=1.0)}
        return {"k": "world", "scenario": sc,
                "plan": {"first": N, "t0": t0, "N": N, "speed": sp, "t_sp": t_sp, "held": human, "D": D}}

    def speed_before_pull_off(self, rng):
        N = rng.choice([4, 6, 8])
        t0 = 1000.5 + rng.random()
        lead_lag = rng.choice([3.0, 4.5, 8.0, 15.0]) + rng.random()
        sp = rng.choice([120, 150, 180, 240])
        n_set = rng.choice([1, 1, 2])
        t_sets = sorted(t0 + rng.uniform(0.1, lead_lag - 0.1) for _ in range(n_set))
        others = sorted(rng.sample(range(2, N + 1), rng.choice([0, 0, 1])))
        humans = [1] + others
        events = [[t0 - 0.3, "msg", method_msg(N)], call(t0, LOOK_TO)]
        for k, t in enumerate(t_sets):
            events.append([t, "msg", {"m": "setting", "kvs": [["peal_speed", sp if k == len(t_sets) - 1 else 200]]}])
        I1 = scen.interval(sp, N)
        sc = {"start": 1000.0, "end": t0 + lead_lag + 3 * I1 * (N + 1), "tower_size": N, "events": events,
              "on_join": scen.humans_on_join(humans, "Wheatley", [b for b in range(1, 17) if b not in humans]),
              "bot": scen.bot_cfg({"type": "placeholder"}, up_down_in=True, stop_at_rounds=False, user_name="Wheatley",
                                  server_id=rng.randint(1, 9)),
              "rhythm": scen.rhythm_cfg("wait", inertia=1.0, peal_speed=180, initial_inertia=1.0)}
        return {"k": "world", "scenario": sc,
                "plan": {"first": N, "t0": t0, "N": N, "pull_off": {"lag": lead_lag, "speed": sp, "humans": humans}}}

    def agents(self, req):
        plan = req.get("plan") or {}
        if "pull_off" in plan:
            po = plan["pull_off"]
            return lambda s: [scen.Follower(s, po["humans"], lambda r, p: po["lag"] if (r, p) == (0, 0) else 0.0)]
        if "held" in plan:
            # the human is D late once, in row 2, and punctual (slightly early) otherwise
            return lambda s: [scen.Follower(s, [plan["held"]], lambda r, p: plan["D"] if r == 2 else 0.0)]
        if "humans" not in plan:
            return None
        return lambda s: [scen.Follower(s, plan["humans"], lambda r, p: plan["lag"], stop=plan["t_stop"])]

    def impl_startup(self, req):
        import time as _time
        import wheatley.tower as wtower
        from harness import sim
        import socketio as fake_socketio
        from wheatley import main as wmain
        sc = req["scenario"]
        s = sim.Sim(sc)
        saved = (_time.time, _time.sleep, wtower.sleep)
        fake_socketio.set_factory(lambda c: sim._bind(s, c))
        _time.time, _time.sleep, wtower.sleep = s.time, s.sleep, s.sleep
        err = None
        try:
            wmain.main(["server-mode", str(sc["tower_id"]), "--port", "5000", "--id", str(req["id"])]
                       + (["--look-to-time", repr(req["look_to_time"])] if req.get("look_to_time") is not None else []))
            err = "returned"
        except sim.Stop:
            pass
        except SystemExit:
            err = "SystemExit"
        except Exception as e:  # noqa
            err = type(e).__name__
        finally:
            s.abort_handlers()
            _time.time, _time.sleep, wtower.sleep = saved
            fake_socketio.set_factory(None)
        return {"obs": s.obs, "strikes": [[core.float_to_bits(t), b, by] for (t, b, by) in s.strikes], "err": err,
                "handler_crashes": s.handler_crashes, "crashed": None, "exited": False}

    def impl(self, req):
        if req["k"] == "server_cli":
            return self.impl_server_cli(req)
        if req["k"] == "startup":
            return self.impl_startup(req)
        if req["k"] == "sched":
            return sched.run_pair(req["pair"], req["p"], req["max"], req["bound"])
        return super().impl(req)

    def to_model(self, req):
        if req["k"] == "server_cli":
            return {k: v for k, v in req.items() if k != "room"}
        if req["k"] == "startup":
            return None
        if req["k"] == "sched":
            p = req["p"]
            return {"k": "cs", "pair": req["pair"], "cur": p["cur"] or 0, "queued": p["queued"], "size": p["size"],
                    "new": p["new"], "new_size": p.get("new_size", 0)}
        return super().to_model(req)

    def compare(self, req, ir, mr):
        if req["k"] == "server_cli":
            a = {k: v for k, v in ir.items() if k != "room"}
            b = dict(mr)
            if a.get("min_bells") is None:
                a.pop("min_bells", None)
                b.pop("min_bells", None)
            if a != b:
                return f"server-mode construction: impl={a} model={b}"
            return None
        if req["k"] == "sched":
            if ir["sequential"] != mr["sequential"]:
                return f"sequential outcomes: impl={ir['sequential']} critical-section model={mr['sequential']}"
            return None
        return super().compare(req, ir, mr)

    def tag(self, req, reply):
        if req["k"] == "server_cli":
            return "server-cli"
        if req["k"] == "startup":
            return ("startup:" + ("spawned-by-look-to:" if req.get("look_to_time") is not None else "")
                    + ("join-answered-at-once" if req["scenario"]["sync_join"] else "join-answered-1ms-later"))
        if req["k"] == "sched":
            return "sched:" + req["pair"]
        plan = req["plan"]
        return "session:" + ("speed-after-hold-up" if "held" in plan else "stop+humans" if "humans" in plan else "second-composition" if "comp" in plan else "second" if "second" in plan else "speed" if "speed" in plan else
                             "malformed" if "malformed" in plan else "long" if "long" in plan else "stop")

    def nontrivial(self, req, reply):
        if req["k"] == "server_cli":
            return "url" in reply
        if req["k"] == "sched":
            return reply["schedules"] > 10
        return len(scen.rings(reply)) > 4

    def oracle_startup(self, req, reply):
        if reply["err"] or reply["handler_crashes"]:
            return f"server-mode start-up: main ended with {reply['err']}, handlers raised {reply['handler_crashes']}"
        N, stage = req["N"], req["stage"]
        bells = [b for (t, b, by) in reply["strikes"] if scen.b2f(t) >= req["t0"]]
        rows = [bells[i:i + N] for i in range(0, len(bells) - len(bells) % N, N)]
        want = [list(range(1, N + 1))] * 2 + [r + list(range(stage + 1, N + 1)) for r in plain_rows(stage, 30)]
        if len(rows) < 3:
            return (f"the method Ringing Room sent in answer to the join (stage {stage}) was lost: after Look To Wheatley "
                    f"rang {len(rows)} rows")
        for i, r in enumerate(rows):
            if i < len(want) and r != want[i]:
                return f"after start-up, row {i} = {r}, the selected method gives {want[i]}"
        return None

    def oracle(self, req, reply):
        if req["k"] == "server_cli":
            if "url" not in reply:
                return f"server-mode did not get as far as building the Bot: {reply}"
            if reply["room"] != req["room"] or reply["server_id"] != req.get("id"):
                return f"server-mode: tower id / instance id {reply['room']} / {reply['server_id']}, given {req['room']} / {req.get('id')}"
            if "port" in req and reply["url"] != f"http://127.0.0.1:{req['port']}":
                return f"server-mode: socket server {reply['url']}, the port given is {req['port']}"
            return None
        if req["k"] == "startup":
            return self.oracle_startup(req, reply)
        if req["k"] == "sched":
            if reply["bad"] is not None:
                return (f"{req['pair']} {req['p']}: schedule {reply['bad']['choices']} ends in "
                        f"{reply['bad']['outcome']} (gen, queued, size, ringing), which is neither sequential outcome "
                        f"{reply['sequential']}")
            if reply["errors"]:
                return f"{req['pair']}: a handler raised {reply['errors'][0][1]} under schedule {reply['errors'][0][0]}"
            return None
        sc, plan = req["scenario"], req["plan"]
        if reply["crashed"]:
            return f"the main loop died with {reply['crashed']}"
        if reply["handler_crashes"]:
            return f"a handler raised {reply['handler_crashes']}"
        N = plan["N"]
        obs = reply["obs"]
        starts = sum(1 for _, o in obs if o[0] == "is_ringing" and o[1] is True)
        rolls = sum(1 for _, o in obs if o[0] == "roll_call")
        if starts != rolls:
            return f"{rolls} roll-call replies for {starts} starts of ringing"
        rings = scen.rings(reply)
        # exit law
        accepted = any(o[0] == "r_init" for _, o in obs)
        if plan.get("edge"):
            if accepted and reply["exited"] and not rings:
                return "Wheatley accepted Look To and then exited on the inactivity time-out without ringing"
            return None
        if reply["exited"]:
            if not plan.get("long"):
                return "Wheatley exited although it was never idle for 300 s"
        elif plan.get("long"):
            return "Wheatley did not exit after 300 s of inactivity"
        # stop touch: at most the one strike already due
        if "t_stop" in plan:
            nxt = plan.get("t1", float("inf"))
            late = [t for (t, b, h) in rings if plan["t_stop"] + 0.0011 < t < nxt]
            if len(late) > 1:
                return f"{len(late)} strikes after Stop Touch"
        # rows follow the generator current at Look To
        def touch_rows(t_from, t_to):
            bells = [b for (t, b, h) in rings if t_from <= t < t_to]
            return [bells[i:i + N] for i in range(0, len(bells) - len(bells) % N, N)]
        if "pull_off" in plan:
            po = plan["pull_off"]
            strikes = [(scen.b2f(t), b, by) for t, b, by in reply["strikes"]]
            lead = next((t for (t, b, by) in strikes if b == 1 and by == "human"), None)
            own = [(t, b) for (t, b, by) in strikes if by == "wheatley"]
            if lead is None:
                return "the human leader never struck" if not own else \
                    f"Wheatley struck bell {own[0][1]} although the human leader never pulled off"
            if own and own[0][0] < lead:
                return (f"peal-speed setting while waiting for the pull-off: Wheatley struck bell {own[0][1]} "
                        f"{lead - own[0][0]:.3f} s before the leader pulled off")
            I1 = scen.interval(po["speed"], N)
            first_row = strikes[:N]
            for p, (t, b, by) in enumerate(first_row):
                if by == "wheatley" and all(x[2] == "wheatley" or x[1] == 1 for x in first_row[:p]):
                    if abs(t - (lead + p * I1)) > 0.0201:
                        return (f"after the pull-off at the new speed {po['speed']}: place {p} struck {t - lead:.4f} s "
                                f"after the leader, the new interval gives {p * I1:.4f} s")
            return None
        if "held" in plan:
            # every accepted strike in server order: index k is blow k // N * N + k % N (+ one gap per whole pull)
            strikes = [(scen.b2f(t), b, by) for t, b, by in reply["strikes"]]
            blow = lambda k: scen.blow_index(N, 1.0, k // N, k % N)      # noqa: E731
            I0, I1 = scen.interval(180, N), scen.interval(plan["speed"], N)
            tc = plan["t_sp"]
            own = [(t, blow(k)) for k, (t, b, by) in enumerate(strikes) if by == "wheatley"]
            before = [x for x in own if x[0] <= tc]
            after = [x for x in own if x[0] > tc]
            if not before or len(after) < 3:
                return None
            tA, bA = before[-1]
            pos_c = bA + (tc - tA) / I0                 # the position the rhythm has reached when the setting arrives
            for (tB, bB) in after[1:4]:                 # (the wait in progress at the change is not re-timed)
                want = tc + (bB - pos_c) * I1
                if abs(tB - want) > 0.0201:
                    return (f"peal speed {180} -> {plan['speed']} after a {plan['D']:.2f} s hold-up: blow {bB} struck at "
                            f"{tB - tc:.4f} s after the change, a bend at the current position gives {want - tc:.4f} s "
                            f"(jump of {(tB - want) / I1:+.3f} places)")
            return None
        if "humans" in plan:
            return None
        first_end = plan.get("t1", float("inf"))
        rows = touch_rows(plan["t0"], first_end)
        want = [list(range(1, N + 1))] * 2 + [r + list(range(plan["first"] + 1, N + 1)) for r in plain_rows(plan["first"], 30)]
        for i, r in enumerate(rows):
            if i < len(want) and r != want[i] and "malformed" not in plan:
                return f"touch 1 row {i} = {r}, the method selected before Look To gives {want[i]}"
        if "second" in plan:
            rows2 = touch_rows(plan["t1"], float("inf"))
            # (a selection that is too big for the tower is dropped when the bells are set at hand before the next
            # Look To - the tower's state arrives, `_on_size_change` looks at the queue - and the method rung
            # before is rung again)
            if plan.get("comp"):
                comp = plan["comp"]
                st = comp["stage"]
                body = [[gens.BELLS.index(c) + 1 for c in r[0]] + list(range(st + 1, N + 1)) for r in comp["rows"]]
                nsr = next(i for i, r in enumerate(body) if r != body[0])
                m = next((i for i, r in enumerate(rows2) if r != list(range(1, N + 1))), None)
                if len(rows2) >= 5 and m is None:
                    return (f"touch 2 is {len(rows2)} rows of rounds: the composition selected during touch 1 "
                            f"({req['scenario']['events'] and [e[2]['json']['url'] for e in req['scenario']['events'] if e[2].get('m') == 'row_gen' and e[2]['json'].get('type') == 'composition'][0]}) was not rung")
                if m is not None:
                    for j in range(min(len(rows2) - m, len(body) - nsr)):
                        if rows2[m + j] != body[nsr + j]:
                            return (f"touch 2 row {m + j} = {rows2[m + j]}, the composition selected during touch 1 has "
                                    f"{body[nsr + j]} there")
                return None
            s2 = plan["second"] if plan["second"] <= N else plan["first"]
            want2 = [list(range(1, N + 1))] * 2 + [r + list(range(s2 + 1, N + 1)) for r in plain_rows(s2, 30)]
            for i, r in enumerate(rows2):
                if i < len(want2) and r != want2[i]:
                    return f"touch 2 row {i} = {r}, the method selected during touch 1 gives {want2[i]}"
        if "speed" in plan:
            I1 = scen.interval(plan["speed"], N)
            I0 = scen.interval(180, N)
            after = [t for (t, b, h) in rings if t > plan["t_sp"]]
            before = [t for (t, b, h) in rings if t <= plan["t_sp"]]
            if before and after:
                gap = after[0] - before[-1]
                if gap > (1 + 1) * max(I0, I1) + 0.03:
                    return f"peal-speed change: a jump of {gap:.3f} s between consecutive strikes"
            k = 0
            catching_up = True
            for a, b in zip(after[1:], after[2:]):
                k += 1
                d = b - a
                # (a wait that was in progress when a faster speed arrived ends at its old, later time: the next
                # strikes, already due on the new line, follow at once until Wheatley is back on it)
                if catching_up and k <= 3 and d < I1 - 1e-6:
                    continue
                catching_up = False
                steps = round(d / I1)
                if steps in (1, 2) and abs(d - steps * I1) > 1e-6:
                    return f"after the peal-speed change consecutive strikes are {d:.6f} s apart, interval is {I1:.6f}"
        return None


PROP = C19()
