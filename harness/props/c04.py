from harness import gens
from harness.props import rowgen


def call_history(rng, spec, nrows):
    """Ops with Bob/Single placed at random rows, never both pending at once (tracked with the
    reference machine's notion of pending)."""
    L = len(gens.denote([(p, c) for p, c in spec["_ast"]]))
    bob = {(p - 1) % L for p in spec["_bob_ref"]}
    single = {(p - 1) % L for p in spec["_single_ref"]}
    si = spec.get("start_index") or 0
    hand = si % 2 == 0
    ops = []
    pending = None
    k = 0
    for _ in range(nrows):
        if pending is None and rng.random() < 0.12:
            pending = rng.choice("bs")
            ops.append(pending)
        li = (k + si) % L
        if pending == "b" and li in bob or pending == "s" and li in single:
            pending = None
        ops.append("H" if hand else "B")
        hand = not hand
        k += 1
    return "".join(ops)


class C04(rowgen.RowGenProp):
    id = "C04"
    lean_module = "Wheatley.Props.C04"
    theorems = ["Wheatley.C04.call_inert_before_position", "Wheatley.C04.undefined_call_no_immediate_change",
                "Wheatley.C04.bob_fires", "Wheatley.C04.single_fires", "Wheatley.C04.queued_call_runs_out",
                "Wheatley.C04.plain_stays_plain", "Wheatley.C04.dixon_bob_law", "Wheatley.C04.deterministic",
                "Wheatley.C04.cli_calls_are_the_given_ones"]
    # the command line: what of the built configuration this property is about
    cli_fields = ['source']
    level_text = ("theorems: a pending call is inert until a row whose lead index has a definition; there its first "
                  "change is used and the flags clear; a queued call of length n occupies exactly n rows and leaves a "
                  "plain state; plain states stay plain (all unbounded). correspondence: random methods x call "
                  "definitions (positions -L..2L, lengths 1-4) x start indices x call histories over many leads, and "
                  "arbitrary (also doubly pending) histories; oracle = independent reference call machine. "
                  "non-trivial = a call fired (rows differ from the plain course)")

    def cases(self, rng, tier):
        n = 700 if tier == "quick" else 8000
        for i in range(n):
            if rng.random() < 0.15:
                spec = gens.rand_special_spec(rng)
                yield rowgen.gen_case(rng, spec, rng.randint(10, 120), call_p=0.1)
                continue
            spec = gens.rand_pn_spec(rng, start_row_p=0.1)
            if not spec.get("start_index") and spec.get("start_row") is None and rng.random() < 0.6:
                spec["via_json"] = True       # built from server-mode JSON instead of the constructor
            L = len(gens.denote([(p, c) for p, c in spec["_ast"]]))
            nrows = rng.randint(2, min(12 * L, 150))
            if rng.random() < 0.8:
                yield {"k": "gen", "gen": spec, "ops": call_history(rng, spec, nrows)}
            else:
                yield rowgen.gen_case(rng, spec, nrows, call_p=0.25)

    def _plain(self, req, reply):
        spec = req["gen"]
        ast = [(p, c) for p, c in spec["_ast"]]
        n = len(rowgen.rows_of(reply))
        return gens.ref_rows(spec["stage"], gens.denote(ast), reply["start_row"], spec.get("start_index") or 0, n)

    def nontrivial(self, req, reply):
        if "err" in reply or "_ast" not in req["gen"] or "r" in req["ops"]:
            return False
        return rowgen.rows_of(reply) != self._plain(req, reply)

    def oracle(self, req, reply):
        if req["k"] != "gen" or "err" in reply:
            return None
        spec = req["gen"]
        if "_ast" in spec:
            changes = gens.denote([(p, c) for p, c in spec["_ast"]])
            bob_ref, single_ref = spec["_bob_ref"], spec["_single_ref"]
        else:
            ref = gens.special_reference(spec["type"], spec["stage"])
            if ref is None:
                return None
            changes, bob_ref, single_ref = ref
        want, ok = gens.ref_call_rows(spec["stage"], changes, spec.get("start_index") or 0,
                                      reply["start_row"], bob_ref, single_ref, req["ops"])
        if not ok:
            return None
        rows = rowgen.rows_of(reply)
        if rows != want:
            i = next(i for i in range(min(len(rows), len(want))) if rows[i] != want[i])
            return f"row {i} is {rows[i]}, the call history defines {want[i]}"
        return None


PROP = C04()
