from harness import gens, scen
from harness.props import rowgen
from harness.scen import call, LOOK_TO, GO, BOB, SINGLE

_WORLD = scen.WorldProp()


def call_history(rng, spec, nrows):
    """Ops with Bob/Single placed at random rows, never both pending at once (tracked with the
    reference machine's notion of pending)."""
    L = len(gens.denote([(p, c) for p, c in spec["_ast"]]))
    bob = {(p - 1) % L for p in spec["_bob_ref"]}
    single = {(p - 1) % L for p in spec["_single_ref"]}
    si = spec.get("start_index") or 0
    hand = si % 2 == 0
    ops = []
    pending = None
    k = 0
    for _ in range(nrows):
        if pending is None and rng.random() < 0.12:
            pending = rng.choice("bs")
            ops.append(pending)
        li = (k + si) % L
        if pending == "b" and li in bob or pending == "s" and li in single:
            pending = None
        ops.append("H" if hand else "B")
        hand = not hand
        k += 1
    return "".join(ops)


class C04(rowgen.RowGenProp):
    id = "C04"
    lean_module = "Wheatley.Props.C04"
    theorems = ["Wheatley.C04.call_inert_before_position", "Wheatley.C04.undefined_call_no_immediate_change",
                "Wheatley.C04.bob_fires", "Wheatley.C04.single_fires", "Wheatley.C04.queued_call_runs_out",
                "Wheatley.C04.plain_stays_plain", "Wheatley.C04.dixon_bob_law", "Wheatley.C04.deterministic",
                "Wheatley.C04.cli_calls_are_the_given_ones", "Wheatley.C04.call_changes_no_row_now"]
    # the command line: what of the built configuration this property is about
    cli_fields = ['source']
    level_text = ("theorems: a pending call is inert until a row whose lead index has a definition; there its first "
                  "change is used and the flags clear; a queued call of length n occupies exactly n rows and leaves a "
                  "plain state; plain states stay plain (all unbounded); system level: the delivery of a Bob or Single, in "
                  "any state of the timed world, changes no row, place, generator position or queued notation and "
                  "strikes nothing. correspondence: random methods x call "
                  "definitions (positions -L..2L, lengths 1-4) x start indices x call histories over many leads, and "
                  "arbitrary (also doubly pending) histories; oracle = independent reference call machine. "
                  "non-trivial = a call fired (rows differ from the plain course)")

    def cases(self, rng, tier):
        n = 700 if tier == "quick" else 8000
        for i in range(n):
            if rng.random() < 0.15:
                spec = gens.rand_special_spec(rng)
                yield rowgen.gen_case(rng, spec, rng.randint(10, 120), call_p=0.1)
                continue
            spec = gens.rand_pn_spec(rng, start_row_p=0.1)
            if not spec.get("start_index") and spec.get("start_row") is None and rng.random() < 0.6:
                spec["via_json"] = True       # built from server-mode JSON instead of the constructor
            L = len(gens.denote([(p, c) for p, c in spec["_ast"]]))
            nrows = rng.randint(2, min(12 * L, 150))
            if rng.random() < 0.8:
                yield {"k": "gen", "gen": spec, "ops": call_history(rng, spec, nrows)}
            else:
                yield rowgen.gen_case(rng, spec, nrows, call_p=0.25)
        for i in range(n // 6):
            yield self.world_case(rng)

    def world_case(self, rng):
        """The calls as a conductor makes them: `s_call` messages at arbitrary instants of a touch rung by the
        real Bot on its real rhythm (Wheatley alone, so every strike is on the line) - half of them in the last
        blow interval of a row, where the row that follows is about to be generated."""
        N = rng.choice([4, 5, 6, 6, 8])
        stage = rng.choice([N, N - 1]) if N > 4 else N
        spec = gens.rand_pn_spec(rng, stage=stage, calls=True, start_row_p=0.0)
        spec["start_index"] = rng.choice([0, 0, 1, -1])
        ps = rng.choice([60, 90])
        I = scen.interval(ps, N)
        t0 = 1000.3 + rng.random()
        udi = True          # (up, down and in: the method starts after two rounds, three when it starts at backstroke)
        events = [call(t0, LOOK_TO)]
        nrows = rng.randint(14, 30)
        t, calls = 0, []
        for _ in range(rng.randint(1, 4)):
            r = rng.randint(3, nrows - 4)
            p = rng.uniform(N - 1.95, N - 1.05) if rng.random() < 0.5 else rng.uniform(0.1, N - 1.1)
            calls.append(call(t0 + 3 + I * scen.blow_index(N, 1.0, r, p), rng.choice([BOB, SINGLE])))
        end = t0 + 3 + I * scen.blow_index(N, 1.0, nrows, 0)
        go2 = None
        if rng.random() < 0.35:
            # the touch is brought round and the method started again without a Look To (That's all, rounds, Go):
            # a call still pending, made in the rounds in between, or cut short by That's all belongs to the past -
            # the second start is judged, with the calls made after it
            r1 = rng.randint(6, 10)
            ta = t0 + 3 + I * scen.blow_index(N, 1.0, r1, rng.uniform(0.2, N - 1.2))
            rg = r1 + rng.randint(4, 6)
            go2 = t0 + 3 + I * scen.blow_index(N, 1.0, rg, rng.uniform(0.2, N - 1.2))
            calls = [call(t0 + 3 + I * scen.blow_index(N, 1.0, rng.randint(3, rg - 1), rng.uniform(0.1, N - 1.1)),
                          rng.choice([BOB, SINGLE])) for _ in range(rng.randint(1, 3))]
            calls += [call(t0 + 3 + I * scen.blow_index(N, 1.0, rg + rng.randint(3, 9), rng.uniform(0.1, N - 1.1)),
                           rng.choice([BOB, SINGLE])) for _ in range(rng.randint(0, 2))]
            events += [call(ta, scen.THATS_ALL), call(go2, GO)]
            end = t0 + 3 + I * scen.blow_index(N, 1.0, rg + 16, 0)
        sc = {"start": 1000.0, "end": end, "tower_size": N, "events": sorted(events + calls, key=lambda e: e[0]),
              "bot": scen.bot_cfg(spec, up_down_in=udi),
              "rhythm": scen.rhythm_cfg("regression", inertia=1.0, peal_speed=ps)}
        return {"k": "world", "scenario": sc, "t0": t0, "go2": go2}

    def impl(self, req):
        if req["k"] == "world":
            return scen.WorldProp.impl(_WORLD, req)
        return super().impl(req)

    def to_model(self, req):
        if req["k"] == "world":
            return req.pop("_model_req", None)
        return super().to_model(req)

    def compare(self, req, ir, mr):
        if req["k"] == "world":
            return scen.WorldProp.compare(_WORLD, req, ir, mr)
        return super().compare(req, ir, mr)

    def tag(self, req, reply):
        if req["k"] == "world":
            return "bot:timed-calls"
        return super().tag(req, reply)

    def oracle_world(self, req, reply):
        sc = req["scenario"]
        if reply["crashed"] or reply["handler_crashes"]:
            return f"crash: main={reply['crashed']} handlers={reply['handler_crashes']}"
        N, spec = sc["tower_size"], sc["bot"]["gen"]
        stage = spec["stage"]
        strikes = reply["strikes"]
        rows = scen.rows_from_strikes(reply, N)
        opening = list(range(1, N + 1))
        hand_start = (spec.get("start_index") or 0) % 2 == 0
        m = 2 if hand_start else 3
        if len(rows) <= m or any(r != opening for r in rows[:m]):
            return None
        if req.get("go2") is not None:
            k = sum(1 for (t, _, _) in strikes if scen.b2f(t) < req["go2"]) // N
            if k >= len(rows) or rows[k] != opening:
                return None          # (the second Go did not arrive during rounds: nothing to judge)
            m = k + 1
            while (m % 2 == 0) != hand_start:
                m += 1
            if m >= len(rows):
                return None
        # method row j (= rows[m + j]) is generated when the last bell of the row before it strikes
        gen_t = [scen.b2f(strikes[(m + j) * N - 1][0]) for j in range(len(rows) - m)]
        made = sorted((ev[0], ev[2]["call"]) for ev in sc["events"] if ev[2].get("call") in (BOB, SINGLE))
        if any(abs(tc - g) < 0.006 for tc, _ in made for g in gen_t):
            return None          # (a call within a few ms of a row boundary: either side is right)
        ops, k = [], 0
        made = [(tc, c) for tc, c in made if tc > gen_t[0]]       # (what is called before the start is forgotten by it)
        for j, g in enumerate(gen_t):
            while k < len(made) and made[k][0] < g:
                ops.append("b" if made[k][1] == BOB else "s")
                k += 1
            ops.append("H" if (m + j) % 2 == 0 else "B")
        changes = gens.denote([(p, c) for p, c in spec["_ast"]])
        ref = lambda d: {int(pos): chs for pos, chs in d.items()}      # noqa: E731 (keys are strings in a replay file)
        want, ok = gens.ref_call_rows(stage, changes, spec.get("start_index") or 0, opening[:stage],
                                      ref(spec["_bob_ref"]), ref(spec["_single_ref"]), "".join(ops))
        if not ok:
            return None
        for j, w in enumerate(want):
            if rows[m + j] != w + opening[stage:]:
                return (f"calls {[(round(tc - req['t0'], 3), c) for tc, c in made]} (s after Look To): method row {j} is "
                        f"{rows[m + j]}, the calls made before it was due define {w + opening[stage:]}")
        return None

    def oracle(self, req, reply):
        if req["k"] == "world":
            return self.oracle_world(req, reply)
        return self.oracle_gen(req, reply)

    def _plain(self, req, reply):
        spec = req["gen"]
        ast = [(p, c) for p, c in spec["_ast"]]
        n = len(rowgen.rows_of(reply))
        return gens.ref_rows(spec["stage"], gens.denote(ast), reply["start_row"], spec.get("start_index") or 0, n)

    def nontrivial(self, req, reply):
        if req["k"] == "world":
            return len(scen.rings(reply)) > 8
        if "err" in reply or "_ast" not in req["gen"] or "r" in req["ops"]:
            return False
        return rowgen.rows_of(reply) != self._plain(req, reply)

    def oracle_gen(self, req, reply):
        if req["k"] != "gen" or "err" in reply:
            return None
        spec = req["gen"]
        if "_ast" in spec:
            changes = gens.denote([(p, c) for p, c in spec["_ast"]])
            bob_ref, single_ref = spec["_bob_ref"], spec["_single_ref"]
        elif spec["type"] == "dixon" and spec["stage"] == 6:
            want, ok = gens.ref_dixon_rows(6, reply["start_row"], req["ops"])
            rows = rowgen.rows_of(reply)
            if ok and rows != want:
                i = next(i for i in range(min(len(rows), len(want))) if rows[i] != want[i])
                return f"Dixon's Bob Minor: row {i} is {rows[i]}, the rules and the call history define {want[i]}"
            return None
        else:
            ref = gens.special_reference(spec["type"], spec["stage"])
            if ref is None:
                return None
            changes, bob_ref, single_ref = ref
        want, ok = gens.ref_call_rows(spec["stage"], changes, spec.get("start_index") or 0,
                                      reply["start_row"], bob_ref, single_ref, req["ops"])
        if not ok:
            return None
        rows = rowgen.rows_of(reply)
        if rows != want:
            i = next(i for i in range(min(len(rows), len(want))) if rows[i] != want[i])
            return f"row {i} is {rows[i]}, the call history defines {want[i]}"
        return None


PROP = C04()
