from harness import gens, scen
from harness.scen import call, LOOK_TO, GO, THATS_ALL


def first_method_rows(spec, start_row, n):
    ast = [(p, c) for p, c in spec["_ast"]]
    return gens.ref_rows(spec["stage"], gens.denote(ast), start_row, spec.get("start_index") or 0, n)


class C06(scen.WorldProp):
    id = "C06"
    fuzz_kinds = {"ring", "call"}
    fuzz_times = False
    lean_module = "Wheatley.Props.C06"
    theorems = ["Wheatley.C06.go_arms_counter",
                "Wheatley.C06.go_during_method_noop",
                "Wheatley.C06.row_numbers",
                "Wheatley.C06.opening_until_go",
                "Wheatley.C06.countdown",
                "Wheatley.C06.start_at_zero",
                "Wheatley.C06.crash_iff",
                "Wheatley.C06.go_starts_next_row",
                "Wheatley.C06.go_starts_row_after_next",
                "Wheatley.C06.second_go_same_start",
                "Wheatley.C06.look_to_counter",
                "Wheatley.C06.udi_hand_start",
                "Wheatley.C06.udi_back_start",
                "Wheatley.C06.opening_row_rung",
                "Wheatley.startNextRow_ctl",
                "Wheatley.C06.cli_up_down_in", "Wheatley.C06.opening_row_until_go", "Wheatley.C06.opening_row_is_rung"]
    # the command line: what of the built configuration this property is about
    cli_fields = ['udi']
    level_text = ("theorems: Go arms the counter by stroke parity, the method starts at the least later row of the "
                  "start stroke, the stroke assertion never fires, Go during the method is a no-op, up-down-in counts "
                  "2/3 rows (all for arbitrary states). correspondence: timed sessions over the real Bot.main_loop, "
                  "all bells Wheatley's or some human followers, Go (and a second Go) at random instants incl. the "
                  "handstroke gap, start index -3..3, backstroke-start compositions, up-down-in on/off, tower >= stage; "
                  "oracle: index of first non-opening row vs the row in progress when Go was delivered. "
                  "non-trivial = the method started")

    def server_case(self, rng):
        """Under Ringing Room's control (up, down and in): the method selected before Look To starts after two
        rounds - also when the band, meanwhile, selects something for the *next* touch that would not fit the tower."""
        from harness.props.c19 import method_msg
        N = rng.choice([6, 8])
        stage = rng.choice([4, 6, N])
        ps = rng.choice([90, 120])
        I = scen.interval(ps, N)
        row_t = I * (N + 0.5)
        t0 = 1000.5 + rng.random()
        events = [[t0 - 0.3, "msg", method_msg(stage)], call(t0, LOOK_TO),
                  [t0 + rng.uniform(0.2, 3 + 1.8 * row_t), "msg", method_msg(rng.choice([N + 2, N + 4, 4, N]))]]
        sc = {"start": 1000.0, "end": t0 + 3 + 9 * row_t, "tower_size": N, "events": events,
              "on_join": scen.humans_on_join([], "Wheatley", list(range(1, 17))),
              "bot": scen.bot_cfg({"type": "placeholder"}, up_down_in=True, stop_at_rounds=False, user_name="Wheatley",
                                  server_id=rng.randint(1, 9)),
              "rhythm": scen.rhythm_cfg("wait", inertia=1.0, peal_speed=ps)}
        return {"k": "world", "scenario": sc, "go": None, "t0": t0, "first_touch": None, "server_stage": stage}

    def cases(self, rng, tier):
        n = 300 if tier == "quick" else 3000
        for i in range(n // 10):
            yield self.server_case(rng)
        for i in range(n):
            stage = rng.randint(3, 8)
            N = min(16, stage + rng.choice([0, 0, 1, 2]))
            if rng.random() < 0.75:
                spec = gens.rand_pn_spec(rng, stage=stage, calls=False, start_row_p=0.2)
                spec["start_index"] = rng.randint(-3, 3)
                if spec["start_row"] is not None and len(spec["start_row"]) > N:
                    spec["start_row"] = None
            else:
                spec = gens.rand_comp_spec(rng, stage=stage, calls=False, nrows=rng.randint(3, 12))
            udi = rng.random() < 0.3
            ps = rng.choice([60, 90, 120])
            I = scen.interval(ps, N)
            row_t = I * (N + 0.5)
            two_touches = (not udi) and rng.random() < 0.35
            t0 = 1000.0 + rng.random() + (6.5 * row_t + 6 if two_touches else 0)
            events = [call(t0, LOOK_TO)]
            go_t = None
            if not udi or rng.random() < 0.3:
                go_t = t0 + 3 + rng.uniform(-1, 7) * row_t
                events.append(call(go_t, GO))
                if rng.random() < 0.4:
                    events.append(call(go_t + rng.uniform(0, 3) * row_t, GO))
            end = t0 + 3 + 14 * row_t
            first_touch = None
            if two_touches:
                # an earlier touch in the same session that is cut short right after a Go: Stand next
                # during the opening rows, Go in the last row before Wheatley stands, then this touch
                k = rng.choice([1, 1, 3])
                tA = t0 - (k + 1.6) * row_t - 3 - 1.5
                stand_t = tA + 3 + (k - 0.5) * row_t + rng.uniform(-0.3, 0.3) * row_t
                go1 = tA + 3 + (k + rng.uniform(0.05, 0.9)) * row_t
                if tA > 1000.2:
                    events = [call(tA, LOOK_TO), call(stand_t, scen.STAND), call(go1, GO)] + events
                    first_touch = tA
                    if spec["type"] == "pn" and rng.random() < 0.7:
                        # backstroke start: the Go in backstroke row k leaves the counter armed when
                        # Wheatley stands at the next handstroke
                        spec["start_index"] = rng.choice([1, -1, 3])
            if first_touch is None and rng.random() < 0.2:
                # Look To is called twice before anybody has pulled off, a Go in between (somebody too quick off the
                # mark): the second Look To starts afresh - that Go is forgotten
                tA = t0 - rng.uniform(0.2, 2.8)
                if not udi and rng.random() < 0.5:
                    events = [e for e in events if e[2].get("call") != GO]
                    go_t = None
                events = [call(tA, LOOK_TO), call(rng.uniform(tA + 0.05, t0 - 0.05), GO)] + events
                first_touch = tA
            sc = {"start": 1000.0, "end": end, "tower_size": N, "events": events,
                  "bot": scen.bot_cfg(spec, up_down_in=udi),
                  "rhythm": scen.rhythm_cfg(rng.choice(["wait", "regression"]), inertia=0.5, peal_speed=ps,
                                            gap=rng.choice([0.0, 1.0, 2.0]))}
            yield {"k": "world", "scenario": sc, "go": go_t, "t0": t0, "first_touch": first_touch}

    def nontrivial(self, req, reply):
        N = req["scenario"]["tower_size"]
        rows = scen.rows_from_strikes(reply, N)
        return any(r != rows[0] for r in rows)

    def oracle(self, req, reply):
        sc = req["scenario"]
        if reply["crashed"] or reply["handler_crashes"]:
            return f"crash: main={reply['crashed']} handlers={reply['handler_crashes']}"
        N = sc["tower_size"]
        spec = sc["bot"]["gen"]
        if req.get("server_stage") is not None:
            from harness.props.c19 import plain_rows
            st = req["server_stage"]
            rows = scen.rows_from_strikes(reply, N)
            want = [list(range(1, N + 1))] * 2 + [r + list(range(st + 1, N + 1)) for r in plain_rows(st, 30)]
            for i, r in enumerate(rows):
                if i < len(want) and r != want[i]:
                    return (f"server mode, the method of stage {st} selected before Look To: row {i} = {r}, expected "
                            f"{want[i]} (two rounds, then the method)")
            return None
        if req.get("first_touch") is not None:
            # judge the touch that follows the last Look To (the earlier one only sets the scene)
            reply = dict(reply, strikes=[s for s in reply["strikes"] if scen.b2f(s[0]) >= req["t0"]],
                         obs=[o for o in reply["obs"] if scen.b2f(o[0]) >= req["t0"]])
        rows = scen.rows_from_strikes(reply, N)
        if not rows:
            return None
        strikes = reply["strikes"]
        # strokes alternate from handstroke
        for (t, b, h) in scen.rings(reply)[:N]:
            if not h:
                return "first row not rung at handstroke"
        if spec["type"] == "pn":
            from harness import implrun
            start_row = implrun.row_nums(implrun.build_gen(gens.strip_private(spec)).start_row)
            hand_start = (spec.get("start_index") or 0) % 2 == 0
            method = first_method_rows(spec, start_row, 40)
        else:
            start_row = list(range(1, spec["stage"] + 1))
            nsr = 0
            while spec["rows"][nsr][0] == spec["rows"][0][0]:
                nsr += 1
            hand_start = nsr % 2 == 0
            method = [[gens.BELLS.index(c) + 1 for c in r[0]] for r in spec["rows"][nsr:]]
        opening = start_row + [b for b in range(1, N + 1) if b not in start_row]
        covers = opening[len(start_row):]
        # the row in progress when Go was delivered = number of rows completely struck before it
        go = req.get("go")
        udi = sc["bot"]["up_down_in"]
        t_first = scen.b2f(strikes[0][0])
        m = (2 if hand_start else 3) if udi else None
        if go is not None and go >= req["t0"]:
            done = sum(1 for (t, _, _) in strikes if scen.b2f(t) < go)
            k = done // N
            if m is None or k < m:      # still in the opening rows: this Go (re-)arms the start
                m = k + 1
                while (m % 2 == 0) != hand_start:
                    m += 1
        for i, r in enumerate(rows):
            if m is None or i < m:
                if r != opening:
                    return f"row {i} = {r} before the method may start (opening row {opening}, start at {m})"
            else:
                j = i - m
                want = (method[j] + covers) if j < len(method) else None
                if want is None:
                    break
                if spec["type"] == "comp" and j >= len(method):
                    break
                if r != want:
                    return f"row {i} = {r}, expected method row {j} = {want} (method start row {m})"
        return None


PROP = C06()
