from harness import gens, scen
from harness.scen import call, LOOK_TO


class C15(scen.WorldProp):
    id = "C15"
    fuzz_kinds = {"ring", "r_init", "r_bell"}
    lean_module = "Wheatley.Props.C15"
    theorems = ["Wheatley.C15.who_leads",
                "Wheatley.C15.anchor_is_look_to_plus_3",
                "Wheatley.C15.wheatley_leads",
                "Wheatley.C15.human_leads",
                "Wheatley.C15.leader_turn_is_pull_off",
                "Wheatley.C15.pull_off_only_polls",
                "Wheatley.C15.only_leader_anchors",
                "Wheatley.C15.leader_anchors",
                "Wheatley.C15.first_row_from_leader",
                "Wheatley.C15.look_to_with_hold_up",
                "Wheatley.C15.wait_cancels_hold_up",
                "Wheatley.C15.first_strike_despite_hold_up",
                "Wheatley.C15.lookToRest_keeps",
                "Wheatley.C15.resume_anchors_with_current_hold_up",
                "Wheatley.C15.speed_change_keeps_waiting",
                "Wheatley.C15.pull_off_survives_delivery",
                "Wheatley.C15.silent_until_the_leader_pulls_off"]
    level_text = ("theorems (any ordered field): initialise_line anchors the line at Look To + 3 s when Wheatley leads "
                  "and at the 'not yet' sentinel when a human leads; with the sentinel a user-controlled turn is the "
                  "pull-off loop, which cannot end before the leader's strike re-anchors the line at that strike's "
                  "time; the leader's own strike is never re-weighted; for every hold-up accumulated by the waiting rhythm in "
                  "earlier touches the first strike's wait still ends at Look To + 3 s of the real clock. correspondence: timed sessions, every owner of "
                  "the leading bell, default and custom start rows, pull-off delays 0..120 s (also < 3 s), other "
                  "humans early or not, both modes, and later touches of a session after humans held Wheatley up; oracle: first strike at T+3 / nothing before the leader / row 0 "
                  "placed from the leader's strike. non-trivial = a human leads")

    def later_touch(self, rng):
        """A touch that follows an earlier one in the same session in which humans held Wheatley up
        (the waiting rhythm has accumulated a hold-up), with Wheatley leading the later touch."""
        N = rng.choice([4, 6, 6, 8])
        opening = list(range(1, N + 1))
        humans = sorted(rng.sample(opening[1:], rng.randint(1, N - 2)))
        ps = rng.choice([60, 120, 178])
        I = scen.interval(ps, N)
        row_t = I * (N + 0.5)
        touches = rng.choice([2, 2, 3])
        t = 1000.3 + rng.random()
        events = []
        look_tos = []
        for k in range(touches):
            look_tos.append(t)
            events.append([t - 0.2, "msg", {"m": "global_state", "state": [True] * N}])   # bells set at hand
            events.append(call(t, LOOK_TO))
            if k < touches - 1:
                stand = t + 3 + rng.uniform(0.5, 3.5) * row_t
                events.append(call(stand, scen.STAND))
                # (the hold-ups stretch the touch: leave room for them)
                t = stand + 3 * row_t + 12 * len(humans) * 0.8 + 2 + rng.random()
        end = look_tos[-1] + 3 + I * (N + 2) + 1
        sc = {"start": 1000.0, "end": end, "tower_size": N, "events": events,
              "on_join": scen.humans_on_join(humans),
              "bot": scen.bot_cfg({"type": "plainhunt", "stage": N, "start_row": None}, up_down_in=rng.random() < 0.5),
              "rhythm": scen.rhythm_cfg("wait", peal_speed=ps, inertia=rng.choice([0.0, 0.5, 1.0]),
                                        max_bells=rng.choice([15, 15, 15, 30, 5, 3, 2, 1]))}
        return {"k": "world", "scenario": sc, "t0": look_tos[-1], "t_lead": None, "opening": opening,
                "humans": humans, "I": I, "early_others": False, "later": True,
                "lags": [rng.choice([0.05, 0.2, 0.4, 0.8]) for _ in range(5)], "look_tos": look_tos}

    def agents(self, req):
        if not req.get("later"):
            return None
        lags = req["lags"]
        return lambda s: [scen.Follower(s, req["humans"], lambda r, p: lags[(r + p) % len(lags)])]

    def cases(self, rng, tier):
        n = 240 if tier == "quick" else 2000
        for i in range(n):
            if i % 4 == 3:
                yield self.later_touch(rng)
                continue
            N = rng.choice([4, 6, 6, 8, 12])
            spec = {"type": "plainhunt", "stage": N, "start_row": None}
            if rng.random() < 0.25:
                # the built-in methods take the start row too (Stedman Doubles has a constructor of its own)
                ty = rng.choice(["stedman", "stedman", "grandsire"])
                N = rng.choice([5, 5, 7] if ty == "stedman" else [5, 6, 7, 8])
                spec = {"type": ty, "stage": N, "start_row": None}
            if rng.random() < (0.4 if spec["type"] == "plainhunt" else 0.7):
                bells = list(range(1, N + 1))
                rng.shuffle(bells)
                spec["start_row"] = "".join(gens.BELLS[b - 1] for b in bells)
                opening = bells
            else:
                opening = list(range(1, N + 1))
            leader = opening[0]
            human_leads = rng.random() < 0.65
            others = [b for b in opening[1:] if rng.random() < 0.3]
            humans = ([leader] if human_leads else []) + others
            if len(humans) == N:
                humans.remove(others[0])
                others = others[1:]
            ps = rng.choice([60, 120, 178])
            I = scen.interval(ps, N)
            t0 = 1000.3 + rng.random()      # (after wait_loaded: the main loop is running)
            d = rng.choice([0.0, 0.5, 1.5, 2.9, 3.0, 3.7, 8.0, 30.0, 120.0]) + rng.random() * 0.3
            t_lead = t0 + d
            events = [call(t0, LOOK_TO)]
            early_others = rng.random() < 0.3
            if human_leads:
                events.append([t_lead, "strike", leader])
                if d > 0.5 and rng.random() < 0.3:
                    # Look To is called again while everybody is still waiting for the leader
                    events.append(call(t0 + rng.uniform(0.1, d - 0.1), LOOK_TO))
                    early_others = True       # (strikes heard before the second Look To are forgotten by it)
            server = False
            if human_leads and d > 0.5 and spec["start_row"] is None and N % 2 == 0 and rng.random() < 0.25:
                # on a Ringing Room server: the peal speed is changed (or re-sent) while the band waits
                # for the leader; the wait must go on and the row is then placed at the speed now in force
                server = True
                ps2 = rng.choice([ps, 100, 150, 200])
                events.append([t0 + rng.uniform(0.1, d - 0.1), "msg", {"m": "setting", "kvs": [["peal_speed", ps2]]}])
                I = scen.interval(ps2, N)
            base = t_lead if human_leads else t0 + 3
            for b in others:
                p = opening.index(b)
                if early_others and human_leads:
                    events.append([t0 + rng.uniform(0.1, max(0.2, d - 0.05)), "strike", b])
                else:
                    events.append([base + I * p + rng.uniform(-0.02, 0.02), "strike", b])
            end = base + I * (N + 2)
            kind = rng.choice(["wait", "regression"])
            events.sort(key=lambda e: e[0])
            sc = {"start": 1000.0, "end": end, "tower_size": N, "events": events,
                  "on_join": scen.humans_on_join(humans),
                  "bot": scen.bot_cfg(spec),
                  "rhythm": scen.rhythm_cfg(kind, peal_speed=ps, max_bells=rng.choice([15, 15, 15, 8, 4, 2, 1]))}
            twice = rng.random() < 0.5          # Wheatley's name is in the tower twice, its bells shared between the two
            if not server and rng.random() < 0.3:
                # Wheatley rings for a name (--name): the bells assigned to users of that name are its own
                nm = rng.choice(["Bob", "Wheatley", "a b"])
                sc["on_join"] = scen.humans_on_join(humans, nm, [b for b in range(1, N + 1) if b not in humans], namesake=twice)
                sc["bot"] = scen.bot_cfg(spec, user_name=nm)
            elif not server and human_leads and rng.random() < 0.25:
                # the tower was bigger when Wheatley joined and the leader also held one of the bells that are then
                # taken away: they still hold the leading bell
                extra = rng.choice([1, 2])
                sc["tower_size"] = N + extra
                sc["on_join"] = scen.humans_on_join(sorted(humans + [N + extra]))
                sc["events"] = [[t0 - 0.2, "msg", {"m": "size_change", "size": N}]] + events
            if server:
                js = {"type": "method", "stage": N, "notation": "x1", "bob": {"0": "14"}, "single": {"0": "1234"}}
                sc["events"] = [[1000.05, "msg", {"m": "row_gen", "json": js}]] + events
                sc["on_join"] = scen.humans_on_join(humans, "Wheatley", [b for b in range(1, 17) if b not in humans],
                                                    namesake=twice)
                sc["bot"] = scen.bot_cfg({"type": "placeholder"}, up_down_in=True, user_name="Wheatley", server_id=6)
                sc["rhythm"] = scen.rhythm_cfg("wait", inertia=1.0, peal_speed=ps)
            yield {"k": "world", "scenario": sc, "t0": t0, "t_lead": t_lead if human_leads else None,
                   "opening": opening, "humans": humans, "I": I, "early_others": early_others}

    def nontrivial(self, req, reply):
        if req.get("later"):
            return scen.b2f(reply.get("delay", 0)) > 0.01 if "delay" in reply else True
        return req["t_lead"] is not None and len(scen.rings(reply)) >= 1

    def tag(self, req, reply):
        return ("later-touch:" if req.get("later") else "") + super().tag(req, reply)

    def oracle(self, req, reply):
        sc = req["scenario"]
        if reply["crashed"] or reply["handler_crashes"]:
            return f"crash: main={reply['crashed']} handlers={reply['handler_crashes']}"
        rings = scen.rings(reply)
        T = req["t0"]
        I = req["I"]
        opening = req["opening"]
        humans = req["humans"]
        if req["t_lead"] is None:
            if req.get("later"):
                # every touch of the session: the first strike after each Look To
                for k, Tk in enumerate(req["look_tos"]):
                    nxt = req["look_tos"][k + 1] if k + 1 < len(req["look_tos"]) else float("inf")
                    rk = [x for x in rings if Tk <= x[0] < nxt]
                    if not rk:
                        return f"Wheatley leads touch {k + 1} but rang nothing"
                    t, b, h = rk[0]
                    if b != opening[0] or abs(t - (Tk + 3)) > 1e-6:
                        return (f"touch {k + 1} of the session: Wheatley leads, first strike bell {b} at "
                                f"{t - Tk:.6f} s after Look To, expected bell {opening[0]} at 3 s")
                return None
            if not rings:
                return "Wheatley leads but rang nothing"
            t, b, h = rings[0]
            if b != opening[0] or abs(t - (T + 3)) > 1e-6:
                return f"Wheatley leads: first strike bell {b} at {t - T:.6f} s after Look To, expected bell {opening[0]} at 3 s"
            return None
        # a human leads: nothing before the leader has rung (as Wheatley hears it: + latency)
        t_lead = req["t_lead"]
        for (t, b, h) in rings:
            if t < t_lead:
                return f"Wheatley struck bell {b} at {t - T:.3f} s, before the human leader's strike at {t_lead - T:.3f} s"
        # the rest of row 0 is placed from the leader's strike when nobody else is heard first
        if not req["early_others"]:
            heard = t_lead + sc.get("latency", 0.001)
            for tb, o in reply["obs"]:
                if o[0] == "r_bell" and o[1] == opening[0]:
                    heard = scen.b2f(tb)     # the instant Wheatley's handler ran
                    break
            n_seen = 0
            seen = set()
            for (t, b, h) in rings:
                if b in seen or not h:
                    break       # row 0 only
                seen.add(b)
                p = opening.index(b)
                prior_humans = [x for x in humans if x != opening[0] and opening.index(x) < p]
                if prior_humans:
                    break       # later human strikes may move the line (inertia 0 on the first row)
                want = heard + I * p
                if abs(t - want) > 0.0101 + 1e-6 or t < want - 1e-6:
                    return (f"bell {b} (place {p}) struck {t - heard:.4f} s after the leader was heard, expected "
                            f"{I * p:.4f} (+ at most one 10 ms poll)")
                n_seen += 1
                if n_seen >= len(opening) - 1:
                    break
        return None


PROP = C15()
