from harness import gens, scen
from harness.scen import call, LOOK_TO, GO


class Band(scen.Follower):
    """Humans who may ring late, early within the row (when their place is up to `ahead` places away),
    and sometimes double-click (ringing the next stroke early)."""

    stale_p = 0.0

    def __init__(self, s, bells, rng, late, ahead, double_p, scripted_lead=None, second=None):
        self.scripted_lead = scripted_lead      # this bell's row-0 strike is scripted in the scenario
        self.second = second                    # (time of the second Look To, bell, lag): that bell is late in its first row
        self.rng = rng
        self.late = late
        self.ahead = ahead
        self.double_p = double_p
        super().__init__(s, bells, None)

    def tick(self, s, t):
        v = s.view
        if v.ringing and v.turn is not None:
            row_number, place, cur, _ = v.turn
            hp = dict(v.rows.get(row_number, {}))      # the human places announced for this row
            hp[place] = cur
            for q in range(place, place + 1 + self.ahead):
                if q not in hp:
                    continue
                bell = hp[q]
                key = (v.touch, row_number, q)
                if bell in self.bells and key not in self.done:
                    self.done.add(key)
                    if bell == self.scripted_lead and row_number == 0:
                        continue
                    lag = self.rng.choice(self.late)
                    if self.second is not None and t >= self.second[0] and row_number == 0 and bell == self.second[1]:
                        lag = self.second[2]
                    s.push(t + lag, "internal", lambda tt, b=bell: s.human_strike(tt, b))
                    if self.rng.random() < self.double_p:
                        s.push(t + lag + 0.15, "internal", lambda tt, b=bell: s.human_strike(tt, b))
                    if self.stale_p and self.rng.random() < self.stale_p:
                        # a click with an out-of-date stroke (double click, second device) before or after the
                        # real one: the server leaves the bell alone but still announces it
                        dt = max(0.001, lag + self.rng.choice([-0.2, -0.05, 0.03, 0.1, 0.4, 1.0]))
                        s.push(t + dt, "internal", lambda tt, b=bell: s.stale_click(tt, b))
        s.push(t + self.poll, "internal", lambda tt: self.tick(s, tt))


class C09(scen.WorldProp):
    id = "C09"
    fuzz_kinds = {"ring", "r_expect", "r_bell"}
    lean_module = "Wheatley.Props.C09"
    theorems = ["Wheatley.C09.wait_holds",
                "Wheatley.C09.poll_returns_to_test",
                "Wheatley.C09.expect_arms",
                "Wheatley.C09.early_only_by_strike",
                "Wheatley.C09.strike_disarms_only_itself",
                "Wheatley.C09.own_strike_disarms",
                "Wheatley.C09.expect_keeps_armed",
                "Wheatley.C09.look_to_forgets_early",
                "Wheatley.C09.first_row_arms",
                "Wheatley.C09.waits_as_long_as_it_takes",
                "Wheatley.C09.setting_keeps_waiting",
                "Wheatley.C09.keep_going_never_waits",
                "Wheatley.C09.cli_waits_unless_keep_going",
                "Wheatley.C09.poll_survives_delivery",
                "Wheatley.C09.silent_until_the_bell_rings"]
    # the command line: what of the built configuration this property is about
    cli_fields = ['use_wait']
    level_text = ("theorems: while a user-controlled bell is in the expected set of the stroke being rung the wait "
                  "loop only sleeps (no strike, no progress); expect_bell puts every not-yet-heard human bell of the "
                  "row into that set; only a strike of that bell on that stroke (or Look To / Stop Touch) takes it "
                  "out (arbitrary states and histories). correspondence: timed sessions in waiting mode with human "
                  "bands that are late by ms..seconds, early within the row, a stroke ahead (double clicks), plain "
                  "hunt / place notation with Go; oracle: at every Wheatley strike of row r, every human bell due "
                  "earlier in r has rung r+1 times and every human bell r times. two-touch sessions in which a human strikes once more after the first touch has stood (Look To forgets who was early: look_to_forgets_early, first_row_arms). non-trivial = humans held Wheatley up")

    def cases(self, rng, tier):
        n = 200 if tier == "quick" else 2000
        for i in range(n):
            N = rng.choice([4, 6, 6, 8])
            humans = sorted(rng.sample(range(1, N + 1), rng.randint(1, N - 1)))
            stage = N if rng.random() < 0.7 else N - 1
            spec = {"type": "plainhunt", "stage": stage, "start_row": None}
            ps = rng.choice([60, 100])
            I = scen.interval(ps, N)
            t0 = 1000.0 + rng.random()
            events = [call(t0, LOOK_TO)]
            udi = rng.random() < 0.5
            if not udi:
                events.append(call(t0 + 3 + rng.uniform(0.5, 3) * I * N, GO))
            end = t0 + 3 + 14 * I * (N + 1) + 6
            style = rng.choice(["late", "late", "mixed", "early", "erratic"])
            lead = None
            if rng.random() < 0.15:
                yield self.second_touch_case(rng, N, humans, spec, ps, udi)
                continue
            if stage == N and rng.random() < 0.2:
                # a human leads and pulls off late; meanwhile Look To is called again
                lead = 1
                if 1 not in humans:
                    humans = sorted(humans + [1])[:N - 1] if len(humans) < N - 1 else [1] + humans[1:]
                    humans = sorted(set(humans))
                d = rng.choice([2.0, 5.0, 20.0, 90.0]) + rng.random()
                events.append([t0 + d, "strike", 1])
                events.append(call(t0 + rng.uniform(0.2, d - 0.2), LOOK_TO))
                if not udi:
                    events = [e for e in events if e[2].get("call") != GO] if False else events
                    events.append(call(t0 + d + 3 + rng.uniform(0.5, 3) * I * N, GO))
                end += d
                events.sort(key=lambda e: e[0])
            if lead is None and rng.random() < 0.2:
                # under Ringing Room's control: the band moves the sliders (peal speed, inertia) while Wheatley is
                # waiting for somebody - a setting is no reason to stop waiting
                from harness.props.c19 import method_msg
                wb = [b for b in range(1, 17) if b not in humans]
                ev2 = [[t0 - 0.3, "msg", method_msg(stage)]] + [e for e in events if e[2].get("call") != GO]
                for _ in range(rng.randint(2, 6)):
                    kv = rng.choice([["peal_speed", ps], ["peal_speed", ps + rng.choice([-10, 10, 20])], ["inertia", 1],
                                     ["inertia", 0], ["sensitivity", 0.5]])
                    ev2.append([rng.uniform(t0 + 3, end - 2), "msg", {"m": "setting", "kvs": [kv]}])
                ev2.sort(key=lambda e: e[0])
                sc = {"start": 1000.0, "end": end + 4, "tower_size": N, "events": ev2,
                      "on_join": scen.humans_on_join(humans, "Wheatley", wb),
                      "bot": scen.bot_cfg({"type": "placeholder"}, up_down_in=True, stop_at_rounds=False,
                                          user_name="Wheatley", server_id=5),
                      "rhythm": scen.server_rhythm_cfg(ps),
                      # (half of them through the real `main(["server-mode", ...])`: server mode is waiting mode)
                      "server_mode_waits": True, "prefer_main": rng.random() < 0.5}
                yield {"k": "world", "scenario": sc, "humans": humans, "style": rng.choice(["late", "late", "mixed"]),
                       "seed": rng.getrandbits(32), "lead": None, "server": True}
                continue
            N0, join_humans = N, humans
            if lead is None and rng.random() < 0.2:
                # the tower is bigger when Wheatley joins, and the ringer who holds the human bells also holds some
                # of the bells that are then taken away: they keep the others
                N0 = N + rng.choice([1, 2, 4])
                join_humans = sorted(humans + [b for b in range(N + 1, N0 + 1) if rng.random() < 0.7] + [N0])
                join_humans = sorted(set(join_humans))
                events = events + [[t0 - rng.uniform(0.3, 0.8), "msg", {"m": "size_change", "size": N}]]
                events.sort(key=lambda e: e[0])
            sc = {"start": 1000.0, "end": end, "tower_size": N0, "events": events,
                  "on_join": scen.humans_on_join(join_humans),
                  "bot": scen.bot_cfg(spec, up_down_in=udi),
                  "rhythm": scen.rhythm_cfg("wait", inertia=rng.choice([0.0, 0.5, 1.0]), peal_speed=ps,
                                            max_bells=rng.choice([15, 15, 15, 30, 5, 3, 2]))}
            yield {"k": "world", "scenario": sc, "humans": humans, "style": style, "seed": rng.getrandbits(32),
                   "lead": lead}

    def second_touch_case(self, rng, N, humans, spec, ps, udi):
        """Two touches in one session.  The first is stood; afterwards one human bell strikes once more
        (a handstroke that belongs to no row), the bells are set at hand and Look To is called again.  In
        the first row of the second touch that ringer is late: Wheatley must wait for them all the same."""
        I = scen.interval(ps, N)
        row_t = I * (N + 1)
        t0 = 1000.0 + rng.random()
        events = [call(t0, LOOK_TO)]
        if not udi:
            events.append(call(t0 + 3 + rng.uniform(0.5, 2) * row_t, GO))
        t_stand = t0 + 3 + rng.uniform(3, 6) * row_t
        events.append(call(t_stand, scen.STAND))
        # the humans of this scenario are at most 0.3 s late per blow: the touch is over well before this
        t_over = t_stand + 3 * row_t + 0.3 * 3 * N + 1.0
        h = rng.choice(humans)
        overshoot = rng.random() < 0.8
        if overshoot:
            events.append([t_over, "strike", h])
        t1 = t_over + 1.0 + rng.random()
        events.append([t1 - 0.2, "msg", {"m": "global_state", "state": [True] * N}])
        events.append(call(t1, LOOK_TO))
        if not udi:
            events.append(call(t1 + 3 + rng.uniform(0.5, 2) * row_t, GO))
        lag = rng.choice([0.4, 1.2, 3.0])
        end = t1 + 3 + lag + 7 * row_t + 0.3 * 7 * N
        sc = {"start": 1000.0, "end": end, "tower_size": N, "events": events,
              "on_join": scen.humans_on_join(humans),
              "bot": scen.bot_cfg(spec, up_down_in=udi),
              "rhythm": scen.rhythm_cfg("wait", inertia=rng.choice([0.0, 0.5, 1.0]), peal_speed=ps)}
        return {"k": "world", "scenario": sc, "humans": humans, "style": "second", "seed": rng.getrandbits(32),
                "lead": None, "second": [t1, h, lag], "t_over": t_over}

    def agents(self, req):
        import random
        rng = random.Random(req["seed"])
        style = req["style"]
        if style == "second":
            return lambda s: [Band(s, req["humans"], rng, [0.0, 0.02, 0.3], 0, 0.0, None, req["second"])]
        late = {"late": [0.0, 0.02, 0.3, 1.5], "mixed": [0.0, 0.0, 0.05, 0.4], "early": [0.0, 0.01],
                "erratic": [0.0, 0.003, 0.011, 0.2, 2.5]}[style]
        ahead = {"late": 0, "mixed": 1, "early": 4, "erratic": 2}[style]
        dbl = {"late": 0.0, "mixed": 0.05, "early": 0.1, "erratic": 0.15}[style]
        stale = {"late": 0.1, "mixed": 0.1, "early": 0.05, "erratic": 0.2}[style] if req["seed"] % 2 else 0.0

        def make(s):
            b = Band(s, req["humans"], rng, late, ahead, dbl, req.get("lead"))
            b.stale_p = stale
            return [b]
        return make

    def nontrivial(self, req, reply):
        return scen.b2f(reply.get("delay_bits", 0)) > 0 if "delay_bits" in reply else len(scen.rings(reply)) > 4

    def oracle(self, req, reply):
        sc = req["scenario"]
        if reply["crashed"] or reply["handler_crashes"]:
            return f"crash: main={reply['crashed']} handlers={reply['handler_crashes']}"
        N = sc["tower_size"]
        for ev in sc["events"]:
            if isinstance(ev[2], dict) and ev[2].get("m") == "size_change":
                N = ev[2]["size"]
        humans = set(req["humans"])
        if req.get("second"):
            # each touch is judged on its own: strike counts restart when the bells have been set at hand
            t1, t_over = req["second"][0], req["t_over"]
            first = self.judge(N, humans, [x for x in reply["obs"] if scen.b2f(x[0]) < t_over],
                               [x for x in reply["strikes"] if scen.b2f(x[0]) < t_over])
            if first:
                return "first touch: " + first
            second = self.judge(N, humans, [x for x in reply["obs"] if scen.b2f(x[0]) >= t1 - 0.1],
                                [x for x in reply["strikes"] if scen.b2f(x[0]) >= t1 - 0.1])
            return "second touch: " + second if second else None
        return self.judge(N, humans, reply["obs"], reply["strikes"])

    def judge(self, N, humans, obs, all_strikes):
        reply = {"obs": obs, "strikes": all_strikes}
        # the order in which Wheatley processed events: its own strikes and the human strikes it heard
        # rows as Wheatley saw them: from r_expect (human places) and its own strikes (remaining places)
        expects = {}
        for t, o in reply["obs"]:
            if o[0] == "r_expect":
                expects.setdefault(o[2], {})[o[3]] = o[1]        # row -> place -> human bell
        heard = {b: 0 for b in range(1, N + 1)}
        server = {b: 0 for b in range(1, N + 1)}
        strikes = [(scen.b2f(t), b, by) for t, b, by in reply["strikes"]]
        si = 0
        wcount = {b: 0 for b in range(1, N + 1)}
        for t, o in reply["obs"]:
            if o[0] != "ring":
                continue
            tt = scen.b2f(t)
            while si < len(strikes) and strikes[si][0] < tt:
                if strikes[si][2] == "human":
                    server[strikes[si][1]] += 1
                si += 1
            b = o[1]
            r = wcount[b]              # this is Wheatley's (r+1)-th strike of b: row r
            wcount[b] += 1
            # find b's place in row r: the places not taken by humans, in order of Wheatley's strikes
            hp = expects.get(r, {})
            for q, h in hp.items():
                pass
            # every human bell must have rung all previous rows
            for h in humans:
                if server[h] < r:
                    return (f"Wheatley struck bell {b} for row {r} at {tt:.3f} although human bell {h} had rung only "
                            f"{server[h]} times")
            # human bells due earlier in this row: those whose place is smaller than the number of strikes
            # (Wheatley's + humans') that precede b in row r
            row_pos = sum(1 for x in range(1, N + 1) if x not in humans and wcount[x] > r and x != b)
            # places are filled in order: Wheatley's own earlier strikes of this row plus the human places before
            humans_before = sorted(q for q in hp)
            place = None
            k = row_pos
            q = 0
            while True:
                if q in hp:
                    q += 1
                    continue
                if k == 0:
                    place = q
                    break
                k -= 1
                q += 1
            for q2, h in hp.items():
                if q2 < place and server[h] < r + 1:
                    return (f"Wheatley struck bell {b} at place {place} of row {r} at {tt:.3f} although human bell {h} "
                            f"(place {q2}) had rung only {server[h]} times")
        return None

    def impl(self, req):
        rep = super().impl(req)
        return rep


PROP = C09()
