import itertools

from harness import gens
from harness.props import rowgen
from harness.props import c05 as _c05

ALPHABET = "x-.&+, 1234560ETe"


class C02(rowgen.RowGenProp):
    id = "C02"
    lean_module = "Wheatley.Props.C02"
    theorems = ["Wheatley.C02.plain_rows", "Wheatley.C02.leadIndex_spec", "Wheatley.C02.runOps_next_pn",
                "Wheatley.C02.plainHunt_course", "Wheatley.C02.grandsire_course",
                "Wheatley.C02.stedman_course", "Wheatley.C02.builtin_lead_lengths",
                "Wheatley.C02.plain_bob_minor",
                "Wheatley.C02.notation_round_trip",
                "Wheatley.C02.generator_rings_the_notation",
                "Wheatley.C02.permute_is_the_change", "Wheatley.C02.plain_rows_denoted",
                "Wheatley.C02.method_rows_are_the_generators", "Wheatley.C02.fresh_bot_inv"]
    # the command line: what of the built configuration this property is about
    cli_fields = ['source']
    level_text = ("theorems: row k = start row transformed by the first k changes read cyclically from the start "
                  "index (unbounded k, any notation/stage/start index); course lengths of the built-in methods on "
                  "every supported stage (finite tables by decide +kernel). correspondence: notation strings "
                  "exhaustively to a length bound over the alphabet 'x-.&+, 1234560ETe', grammar-directed notation "
                  "rendered from an AST with random dot placement, start index -30..30, custom start rows, CCCBR XML "
                  "through the real _parse_xml; the notation round trip convertPN (textOf blocks) = denoteAll blocks is a theorem (any dots around crosses, & / + prefixes, commas) and its statement is run against the real convert_pn; oracle = independent Python reference interpreter on the AST. "
                  "non-trivial = converts without error to >=2 changes / produces >=2 rows")

    def cases(self, rng, tier):
        maxlen = 3 if tier == "quick" else 5
        for n in range(0, maxlen + 1):
            for t in itertools.product(ALPHABET, repeat=n):
                yield {"k": "convert", "s": "".join(t)}
        n = 500 if tier == "quick" else 6000
        for i in range(n):
            r = rng.random()
            if r < 0.7:
                spec = gens.rand_pn_spec(rng, calls=False)
                if rng.random() < 0.15:
                    # deliver the same notation through the CCCBR XML path as a single <block>
                    spec = dict(spec, type="method_xml", block=spec["method"])
                    del spec["method"]
                yield rowgen.gen_case(rng, spec, rng.randint(2, 80))
            elif r < 0.8:
                stage = rng.randint(2, 16)
                a = gens.rand_ast(rng, stage, max_blocks=1)[0][1]
                b = gens.rand_ast(rng, stage, max_blocks=1, max_len=2)[0][1]
                spec = {"type": "method_xml", "stage": stage,
                        "sym": [gens.render_block(rng, "", a), gens.render_block(rng, "", b)],
                        "start_index": rng.randint(-5, 5), "start_row": None, "bob": None, "single": None,
                        "_ast": [["&", a], ["&", b]]}
                yield rowgen.gen_case(rng, spec, rng.randint(2, 60))
            elif r < 0.95:
                spec = gens.rand_special_spec(rng)
                spec["start_row"] = None
                n_rows = {"grandsire": 2 * spec["stage"] * (spec["stage"] - 2), "stedman": 12 * spec["stage"],
                          "plainhunt": 2 * spec["stage"], "dixon": 30}[spec["type"]]
                yield rowgen.gen_case(rng, spec, n_rows)
            else:
                yield {"k": "convert", "s": gens.render_ast(rng, gens.rand_ast(rng, rng.randint(2, 16)))}
        # the statement of `notation_round_trip` against the real convert_pn: blocks with explicit dots around
        # the crosses, written out by `RoundTrip.textOf` (driver) and by the harness, converted by the real code
        for i in range(300 if tier == "quick" else 4000):
            stage = rng.randint(2, 16)
            blocks = []
            for _ in range(rng.choice([1, 1, 2, 2, 3])):
                toks = []
                for _ in range(rng.randint(1, 7)):
                    if rng.random() < 0.4:
                        toks.append([rng.choice("x-"), rng.choice([0, 0, 1, 2, 3]), rng.choice([0, 0, 1, 2, 3])])
                    else:
                        k = rng.randint(1, min(4, stage))
                        toks.append(["p", sorted(rng.sample(range(1, stage + 1), k)) if rng.random() < 0.8
                                     else [rng.randint(1, stage) for _ in range(k)], 0])
                blocks.append({"pre": rng.choice(["", "", "&", "+"]), "toks": toks})
            yield {"k": "roundtrip", "blocks": blocks}
        # the statement of `permute_is_the_change` against the real permute: every place set to stage 8 (10),
        # sampled above; the driver evaluates `Spec.apply` and the hypothesis `Consistent`
        yield from rowgen.permute_cases(rng, tier, 8 if tier == "quick" else 10, 60)
        # through the Bot: every start of the method in a session (first Go, a second Go after That's all /
        # Rounds) rings the notation's rows from the start index
        yield from _c05.PROP.world_cases(rng, 25 if tier == "quick" else 250)

    def impl(self, req):
        return _c05.PROP.impl(req) if req["k"] == "world" else super().impl(req)

    def to_model(self, req):
        return _c05.PROP.to_model(req) if req["k"] == "world" else super().to_model(req)

    def compare(self, req, ir, mr):
        return _c05.PROP.compare(req, ir, mr) if req["k"] == "world" else super().compare(req, ir, mr)

    def nontrivial(self, req, reply):
        if req["k"] == "roundtrip":
            return reply["denote"] is not None and len(reply["denote"]) >= 2
        if req["k"] == "world":
            return _c05.PROP.nontrivial(req, reply)
        if req["k"] == "convert":
            return "ok" in reply["convert"] and len(reply["convert"]["ok"]) >= 2
        return super().nontrivial(req, reply)

    def tag(self, req, reply):
        if req["k"] == "roundtrip":
            return f"roundtrip:{len(req['blocks'])}block"
        if req["k"] == "world":
            return "bot:start-and-restart"
        if req["k"] == "convert":
            return f"convert:len{len(req['s'])}:{'ok' if 'ok' in reply['convert'] else 'err'}"
        return super().tag(req, reply)

    def oracle(self, req, reply):
        if req["k"] == "roundtrip":
            from harness import implrun
            want = implrun.rt_denote(req["blocks"])
            if reply["denote"] != want:
                return f"convert_pn({reply['text']!r}) = {reply['denote']}, the conventions define {want}"
            return None
        if req["k"] == "world":
            return _c05.PROP.oracle_world(req, reply)
        if req["k"] == "permute":
            stage, places, row = req["stage"], req["places"], req["row"]
            if "row" in reply and places == sorted(set(places)) and len(row) >= stage \
                    and gens.ref_well_formed(stage, places):
                want = gens.ref_apply(stage, places, row)
                if reply["row"] != want:
                    return f"permute({row}, {places}) on {stage} = {reply['row']}, the change denotes {want}"
            return None
        if req["k"] != "gen" or "err" in reply:
            return None
        spec = req["gen"]
        rows = rowgen.rows_of(reply)
        if "_ast" in spec:
            ast = [(p, c) for p, c in spec["_ast"]]
            changes = gens.denote(ast)
            want = gens.ref_rows(spec["stage"], changes, reply["start_row"], spec.get("start_index") or 0, len(rows))
            if rows != want:
                i = next(i for i in range(len(rows)) if rows[i] != want[i])
                return f"row {i} is {rows[i]}, the notation defines {want[i]}"
            return None
        ty, n = spec["type"], spec["stage"]
        rounds = list(range(1, n + 1))
        if spec.get("start_row") is None and ty in ("grandsire", "stedman", "plainhunt") and rows:
            first = next((i + 1 for i, r in enumerate(rows) if r == rounds), None)
            want = {"grandsire": 2 * n * (n - 2), "stedman": 12 * n, "plainhunt": 2 * n}[ty]
            if ty == "plainhunt" and n <= 2:
                return None
            if len(rows) >= want and first != want:
                return f"{ty} on {n} first comes round after {first} rows, not {want}"
            if ty == "grandsire" and len(rows) >= 2 * n:
                # lead head of Grandsire: 1 2 5 3 7 4 ... (the bell in 3rd's place becomes the hunt bell's partner)
                if rows[2 * n - 1][:2] != [1, 2]:
                    return f"Grandsire lead head {rows[2*n-1]} does not start 1 2"
        return None


PROP = C02()
