from harness import gens, scen
from harness.scen import call, LOOK_TO, GO, BOB, SINGLE, THATS_ALL, ROUNDS, STAND
from harness.props.c09 import Band


class C10(scen.WorldProp):
    id = "C10"
    fuzz_kinds = {"ring", "call"}
    fuzz_times = False
    lean_module = "Wheatley.Props.C10"
    theorems = ["Wheatley.C10.assertion_passes",
                "Wheatley.C10.boundary_keeps_inv",
                "Wheatley.C10.boundary_ok",
                "Wheatley.C10.turn_ok",
                "Wheatley.C10.go_ok",
                "Wheatley.C10.look_to_ok",
                "Wheatley.C10.msg_ok",
                "Wheatley.C10.init_ok",
                "Wheatley.C10.turn_begins",
                "Wheatley.C10.turn_keeps_place",
                "Wheatley.C10.look_to_place",
                "Wheatley.C10.size_change_keeps_place",
                "Wheatley.C10.size_change_rows",
                "Wheatley.C10.wait_ends_when_heard",
                "Wheatley.C10.holder_boundary",
                "Wheatley.C10.holder_turn",
                "Wheatley.C10.holder_look_to",
                "Wheatley.C10.holder_call_other",
                "Wheatley.C09.keep_going_never_waits",
                "Wheatley.C10.run_inv", "Wheatley.C10.never_fails_the_stroke_assertion",
                "Wheatley.C10.run_inv2", "Wheatley.C10.never_indexes_past_the_row", "Wheatley.C10.loaded_ok"]
    level_text = ("theorems: the main loop's two failure points are unreachable - the place always indexes the row "
                  "being rung (invariant over every message and every turn, including tower-size changes mid-row) and "
                  "the stroke assertion of start_next_row cannot fail (counter/parity invariant over every message and "
                  "row boundary); a wait loop ends as soon as the awaited bell has been heard (or Look To / Stop Touch); "
                  "keep-going never enters a wait loop. correspondence: closed-loop bands (punctual, lagging, erratic, "
                  "early), all calls at random instants, assignment churn, tower-size changes between and during "
                  "touches, both modes; oracle: no exception leaves the main loop or a handler, rows keep completing, "
                  "a keep-going Wheatley keeps its pace with silent humans. server-mode instances spawned with --look-to-time before any row generator has arrived (theorems holder_*: with the place holder Wheatley stays in rounds, NullRowGenError unreachable). non-trivial = a fault (size change / "
                  "churn / call) hit a running touch")

    def spawn_case(self, rng):
        """Server mode, the instance is spawned with --look-to-time: `look_to_has_been_called` runs straight
        after the tower has loaded, whether or not a row generator has arrived yet (with only the place
        holder Wheatley rings rounds, calls Stand at the start of the method and stands)."""
        from harness.props.c19 import method_msg
        N = rng.choice([4, 6, 8])
        stage = rng.choice([N, N - 1, 4])
        humans = sorted(rng.sample(range(2, N + 1), rng.choice([0, 0, 1, 2])))
        wheatley_bells = [b for b in range(1, 17) if b not in humans]
        on_join = scen.humans_on_join(humans, "Wheatley", wheatley_bells)
        arrive = rng.choice(["never", "never", "late", "loading"])
        events = []
        if arrive == "loading":
            on_join = on_join + [method_msg(stage)]
        elif arrive == "late":
            events.append([1000.0 + rng.uniform(0.3, 8), "msg", method_msg(stage)])
        faults = 1
        t_lt = 1000.0 - rng.uniform(0.0, 2.5)
        I = scen.interval(180, N)
        row_t = I * (N + 0.5)
        end = 1000.0 + 3 + 12 * row_t
        if rng.random() < 0.5:
            # a second touch, called in the ordinary way, after the first has stood or been stopped
            t1 = 1000.0 + 3 + rng.uniform(5, 8) * row_t
            events += [[t1 - 0.6, "msg", {"m": "stop_touch"}],
                       [t1 - 0.3, "msg", {"m": "global_state", "state": [True] * N}], call(t1, LOOK_TO)]
            end = t1 + 3 + 8 * row_t
            faults += 1
        events.sort(key=lambda e: e[0])
        sc = {"start": 1000.0, "end": end, "tower_size": N, "events": events, "on_join": on_join,
              "look_to_time": scen.f2b(t_lt),
              "bot": scen.bot_cfg({"type": "placeholder"}, up_down_in=rng.random() < 0.7, stop_at_rounds=False,
                                  user_name="Wheatley", server_id=rng.randint(1, 9)),
              "rhythm": scen.rhythm_cfg("wait", inertia=1.0, peal_speed=180)}
        return {"k": "world", "scenario": sc, "humans": humans, "seed": rng.getrandbits(32), "faults": faults,
                "silent": False, "t0": t_lt, "spawn": arrive}

    def stopped_case(self, rng):
        """Server mode, a human on the leading bell: the first touch is cut off by Stop Touch at some instant (also
        while Wheatley is waiting for that ringer), then Look To again.  The band keeps ringing: so must Wheatley."""
        from harness.props.c19 import method_msg
        N = rng.choice([4, 6])
        humans = sorted(set([1] + rng.sample(range(2, N + 1), rng.choice([0, 1]))))
        wb = [b for b in range(1, 17) if b not in humans]
        I = scen.interval(180, N)
        row_t = I * (N + 0.5)
        t0 = 1000.5 + rng.random()
        t_stop = t0 + 3 + rng.uniform(1.0, 4.0) * row_t
        t1 = t_stop + 1.5 + rng.random()
        events = [[t0 - 0.3, "msg", method_msg(N)], call(t0, LOOK_TO), [t_stop, "msg", {"m": "stop_touch"}],
                  [t1 - 0.4, "msg", {"m": "global_state", "state": [True] * N}], call(t1, LOOK_TO)]
        end = t1 + 3 + 8 * row_t + 4
        sc = {"start": 1000.0, "end": end, "tower_size": N, "events": events,
              "on_join": scen.humans_on_join(humans, "Wheatley", wb),
              "bot": scen.bot_cfg({"type": "placeholder"}, up_down_in=True, stop_at_rounds=False,
                                  user_name="Wheatley", server_id=rng.randint(1, 9)),
              "rhythm": scen.rhythm_cfg("wait", inertia=rng.choice([0.5, 1.0]), peal_speed=180)}
        return {"k": "world", "scenario": sc, "humans": humans, "seed": rng.getrandbits(32), "faults": 1,
                "silent": False, "t0": t0, "spawn": "stopped", "again": t1, "stop_at": t_stop}

    def preempted_case(self, rng):
        """Two touches, with the socket thread pre-empted at some of its log records (a slow log sink): the handler
        that is running pauses for 15-80 ms between two statements while the main thread carries on.  The timed
        model treats a handler as atomic, so these sessions are judged by the oracle only: nothing dies, and the
        second touch is rung."""
        N = rng.choice([4, 6, 8])
        w = 0.25
        row_t = (w + 0.01) * N
        t0 = 1000.3 + rng.random()
        t_stand = t0 + 3 + rng.uniform(2, 5) * row_t
        t1 = t_stand + 3 * row_t + 0.5 + rng.random()
        end = t1 + 3 + 6 * row_t
        kind = rng.choice(["stub", "wait", "regression"])
        rh = scen.stub_rhythm(w) if kind == "stub" else scen.rhythm_cfg(kind, peal_speed=60)
        events = [call(t0, LOOK_TO), call(t_stand, scen.STAND),
                  [t1 - 0.3, "msg", {"m": "global_state", "state": [True] * N}], call(t1, LOOK_TO)]
        sc = {"start": 1000.0, "end": end, "tower_size": N, "events": events,
              "bot": scen.bot_cfg({"type": "plainhunt", "stage": N, "start_row": None}, up_down_in=True), "rhythm": rh,
              "preempt": {"nth": sorted(rng.sample(range(1, 60), rng.randint(1, 6))), "d": rng.choice([0.015, 0.03, 0.08])}}
        return {"k": "world", "scenario": sc, "humans": [], "faults": 1, "silent": True, "t0": t0, "again": t1,
                "preempted": True, "seed": rng.getrandbits(32)}

    def to_model(self, req):
        m = super().to_model(req)
        return None if req.get("preempted") else m

    def cases(self, rng, tier):
        n = 300 if tier == "quick" else 3000
        for i in range(n // 10):
            yield self.spawn_case(rng)
        for i in range(n // 15):
            yield self.stopped_case(rng)
        for i in range(n // 6):
            yield self.preempted_case(rng)
        for i in range(n):
            N = rng.choice([4, 5, 6, 8, 10])
            humans = sorted(rng.sample(range(1, N + 1), rng.randint(0, N - 1)))
            kind = rng.choice(["wait", "wait", "regression"])
            r = rng.random()
            if r < 0.5:
                spec = {"type": "plainhunt", "stage": rng.choice([N, N - 1]), "start_row": None}
            elif r < 0.8:
                spec = gens.rand_pn_spec(rng, stage=rng.choice([N, N - 1]), start_row_p=0.3)
                if spec["start_row"] is not None and len(spec["start_row"]) > N:
                    spec["start_row"] = None
            elif r < 0.9:
                spec = {"type": "dixon", "stage": 6, "start_row": None} if N >= 6 else {"type": "plainhunt", "stage": N, "start_row": None}
            else:
                spec = gens.rand_comp_spec(rng, stage=N, nrows=rng.randint(2, 10))
                for row in spec["rows"]:
                    row[1] = row[1].replace("That's all", "Plain")
            ps = rng.choice([60, 90])
            I = scen.interval(ps, N)
            row_t = I * (N + 0.5)
            t0 = 1000.0 + rng.random()
            end = t0 + 3 + 18 * row_t + 3
            events = [call(t0, LOOK_TO)]
            udi = rng.random() < 0.4
            if not udi:
                events.append(call(t0 + 3 + rng.uniform(0, 3) * row_t, GO))
            faults = 0
            for _ in range(rng.choice([0, 1, 2, 4])):
                t = rng.uniform(t0, end - 1)
                events.append(call(t, rng.choice([GO, BOB, SINGLE, THATS_ALL, ROUNDS, STAND, LOOK_TO, GO, BOB])))
                faults += 1
            if rng.random() < 0.3:
                # calls made while Wheatley is idle (before Look To): they must not poison the touch
                for _ in range(rng.randint(1, 3)):
                    events.append(call(rng.uniform(1000.02, max(1000.03, t0 - 0.01)),
                                       rng.choice([GO, GO, BOB, SINGLE, THATS_ALL, ROUNDS, STAND])))
                    faults += 1
            if rng.random() < 0.25:
                # the touch is stood and another one started in the same session
                t_st = rng.uniform(t0 + 3, t0 + 3 + 8 * row_t)
                t_again = t_st + rng.uniform(2.5, 5) * row_t
                events += [call(t_st, STAND), [t_again - 0.2, "msg", {"m": "global_state", "state": [True] * N}],
                           call(t_again, LOOK_TO)]
                if not udi and rng.random() < 0.8:
                    events.append(call(t_again + 3 + rng.uniform(0, 3) * row_t, GO))
                faults += 1
            for _ in range(rng.choice([0, 0, 1, 3])):
                t = rng.uniform(t0 - 0.5, end - 1)
                events.append([t, "msg", rng.choice([
                    {"m": "assign", "bell": rng.randint(1, N), "user": rng.choice([0, 11, 12])},
                    {"m": "user_left", "id": 11},
                    {"m": "user_entered", "id": 12, "name": "Bob"}])])
                faults += 1
            for _ in range(rng.choice([0, 0, 1, 2])):
                t = rng.uniform(t0 - 0.5, end - 1)
                events.append([t, "msg", {"m": "size_change", "size": rng.choice([4, 5, 6, 8, 10, 12])}])
                faults += 1
            events.sort(key=lambda e: e[0])
            sc = {"start": 1000.0, "end": end, "tower_size": N, "events": events,
                  "on_join": scen.humans_on_join(humans),
                  "bot": scen.bot_cfg(spec, up_down_in=udi, stop_at_rounds=rng.random() < 0.2),
                  "rhythm": scen.rhythm_cfg(kind, inertia=rng.choice([0.0, 0.5, 1.0]), peal_speed=ps,
                                            max_bells=rng.choice([15, 15, 15, 30, 1, 2, 3, 4, 5]))}
            yield {"k": "world", "scenario": sc, "humans": humans, "seed": rng.getrandbits(32), "faults": faults,
                   "silent": kind == "regression" and rng.random() < 0.3, "t0": t0}

    def agents(self, req):
        import random
        rng = random.Random(req["seed"])
        if req["silent"]:
            return None
        humans = req["humans"]
        if req.get("spawn") == "stopped":
            # the ringer on the leading bell hesitates now and then, so that Stop Touch can find Wheatley waiting
            return lambda s: [Band(s, humans, rng, [0.0, 0.05, 0.6, 1.0], 0, 0.0)]
        if req.get("spawn"):
            return lambda s: [Band(s, humans, rng, rng.choice([[0.0], [0.0, 0.05], [0.3]]), 0, 0.0)]

        def make(s):
            class B(Band):
                def tick(self2, s2, t):
                    tw = getattr(s2, "tower", None)
                    if tw is not None:   # the band rings whatever is currently not Wheatley's
                        from wheatley.bell import Bell
                        self2.bells = {b for b in range(1, s2.size + 1)
                                       if not tw.is_bell_assigned_to(Bell.from_number(b), None)}
                    super().tick(s2, t)
            return [B(s, humans, rng, rng.choice([[0.0], [0.0, 0.05], [0.0, 0.02, 0.5], [0.3]]), rng.choice([0, 0, 1]), 0.0)]
        return make

    def nontrivial(self, req, reply):
        return req["faults"] > 0 and len(scen.rings(reply)) > 2

    def oracle(self, req, reply):
        sc = req["scenario"]
        if reply["crashed"]:
            return f"the main loop died with {reply['crashed']}"
        if reply["handler_crashes"]:
            return f"a handler raised {reply['handler_crashes']}"
        if reply["exited"] and sc["bot"].get("server_id") is None:
            return "the main loop returned although this is not server mode"
        if req.get("again") is not None:
            # the band kept ringing throughout the second touch: Wheatley completed rows
            N = sc["tower_size"]
            mine = [x for x in scen.rings(reply) if x[0] >= req["again"]]
            nw = N - len(req["humans"])
            if len(mine) < 3 * nw:
                return (f"after Stop Touch and a new Look To the band rang on, but Wheatley struck only {len(mine)} times "
                        f"in {sc['end'] - req['again']:.1f} s (its {nw} bells, rows of {N})")
        # no pause in mid-touch: between two strikes of one touch (no Look To in between) there is never a silence
        # of seconds - every strike follows within a bounded time of its scheduled moment and of the humans it
        # waited for (who lag by a second at most here), whatever arrived meanwhile (a bigger tower, say)
        strikes = [scen.b2f(t) for (t, _, _) in reply.get("strikes", [])]
        look_tos = [ev[0] for ev in sc["events"] if isinstance(ev[2], dict) and ev[2].get("call") == LOOK_TO]
        cur, shrunk = sc["tower_size"], False
        for ev in sc["events"]:
            if isinstance(ev[2], dict) and ev[2].get("m") == "size_change":
                shrunk = shrunk or ev[2]["size"] < cur      # (a smaller tower leaves holes in the line: pauses by design)
                cur = ev[2]["size"]
        # (with an inertia below 1 and humans in the band the fitted line may stretch - slow ringing, by design: the
        # clause is for a line that nothing bends, inertia 1 or Wheatley alone)
        fixed_line = scen.b2f(sc["rhythm"].get("inertia", scen.f2b(1.0))) == 1.0 or not req["humans"]
        if (not req["silent"] or sc["rhythm"]["kind"] == "regression") and not shrunk and fixed_line:
            for a, b in zip(strikes, strikes[1:]):
                if b - a > 2.5 and not any(t <= b <= t + 4.5 for t in look_tos):   # (a touch opens 3 s after its Look To)
                    return (f"a silence of {b - a:.2f} s in mid-touch (from {a - req['t0']:.2f} s after the first Look To), "
                            f"no Look To in between: Wheatley's next strike did not follow its scheduled moment")
        # keep-going with silent humans: Wheatley keeps the configured pace (never pauses for anyone)
        if req["silent"] and sc["rhythm"]["kind"] == "regression" and req["faults"] == 0 \
                and not sc["bot"]["stop_at_rounds"] and sc["bot"]["gen"]["type"] != "comp":
            rings = scen.rings(reply)
            N = sc["tower_size"]
            I = scen.interval(sc["rhythm"]["peal_speed"], N)
            nw = N - len(req["humans"])
            if 1 not in req["humans"] and nw > 0:
                span = sc["end"] - (req["t0"] + 3)
                rows_due = int(span / (I * (N + 0.5))) - 1
                if len(rings) < nw * max(0, rows_due - 1):
                    return f"keep-going: only {len(rings)} strikes in {span:.1f} s, expected about {nw * rows_due}"
        return None


PROP = C10()
