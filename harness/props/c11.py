from harness import scen
from harness.scen import call, LOOK_TO
from wheatley.parsing import parse_peal_speed


def speed_strings(rng):
    m = rng.choice([rng.randint(14, 240), rng.randint(100, 220), 178])
    forms = [str(m), f"{m}m", f"{m // 60}h{m % 60}", f"{m // 60}h{m % 60:02d}m", f" {m // 60}h {m % 60} "]
    if m % 60 == 0:
        forms.append(f"{m // 60}h")
    return m, rng.choice(forms)


def after_straggler(req, rings):
    """Wheatley's strikes of the touch that follows the last Look To - and whether a strike of the touch that Stop
    Touch had just ended went out *after* that Look To (the two messages less than a blow interval apart, Wheatley
    asleep towards that strike): the known finding C11-look-to-overtakes-last-strike."""
    T = req["t0"]
    out = [x for x in rings if x[0] >= T]
    req["_straggler"] = bool("stop_at" in req and out and out[0][0] < T + 3 - 1e-3)
    return out


class C11(scen.WorldProp):
    id = "C11"
    fuzz_kinds = {"ring", "r_init", "r_bell", "r_setting"}
    lean_module = "Wheatley.Props.C11"
    theorems = ["Wheatley.C11.interval_formula",
                "Wheatley.C11.blow_index",
                "Wheatley.C11.real_time",
                "Wheatley.C11.line_after_look_to",
                "Wheatley.C11.lookToDuration_is_3",
                "Wheatley.C11.tickSleep_is_10ms",
                "Wheatley.C11.wait_hits_line",
                "Wheatley.C11.solo_closed_form",
                "Wheatley.C11.step_in_row",
                "Wheatley.C11.step_to_next_row",
                "Wheatley.C11.peal_exact",
                "Wheatley.C11.handstroke_gap",
                "Wheatley.C11.world_solo_turn",
                "Wheatley.C11.world_solo_rows",
                "Wheatley.C11.cli_speed_and_gap"]
    # the command line: what of the built configuration this property is about
    cli_fields = ['peal_speed', 'gap']
    level_text = ("theorems (any ordered field): blow index = r*N + p + floor(r/2)*g; I = m*60/2520/(2N+1); a wait "
                  "that starts before the bell's time ends exactly on it; hence every strike of a solo touch is at "
                  "T+3+I*index for any number of rows provided the 10 ms tick sleep is shorter than I; 5040 rows at "
                  "gap 1 take exactly m minutes. correspondence: timed sessions, all bells Wheatley's, N 4..16, peal "
                  "speeds through the real parse_peal_speed in every documented form, gaps 0..3, up to 40 rows, clock "
                  "origins 1e3..1.8e9, both rhythm wrappers, and touches that follow an accompanied touch of the same "
                  "session; the tick loop `soloTimes` that `solo_closed_form` is about is itself evaluated by the driver "
                  "for each configuration and compared with the implementation's strike times; the same closed form proved for the real main loop World.run (world_solo_turn, world_solo_rows: any number of turns, each output stamped line time + hold-up); touches that follow an interrupted hold-up in server mode; oracle: closed form on every strike (abs tol 2e-6 s). "
                  "non-trivial = at least 3 rows rung")

    def after_accompanied(self, rng, tier):
        """An unaccompanied touch that follows, in the same session, a touch in which a human (late by
        `lags`) held Wheatley up; the human's bells are handed back before the second Look To."""
        N = rng.choice([4, 6, 8, 12])
        ps = rng.choice([90, 120, 178, 200])
        g = rng.choice([0.0, 1.0, 1.0, 2.0])
        I = scen.interval(ps, N)
        row_t = I * (N + 1)
        humans = sorted(rng.sample(range(2, N + 1), rng.randint(1, 2)))
        tA = 1000.3 + rng.random()
        stand = tA + 3 + rng.uniform(0.5, 2.5) * row_t
        t0 = stand + 3 * row_t + 12 * len(humans) * 0.8 + 2 + rng.random()
        events = [call(tA, LOOK_TO), call(stand, scen.STAND)]
        events += [[t0 - 0.5, "msg", {"m": "assign", "bell": b, "user": 0}] for b in humans]
        events += [[t0 - 0.3, "msg", {"m": "global_state", "state": [True] * N}], call(t0, LOOK_TO)]
        rows = rng.randint(3, 12)
        end = t0 + 3 + I * scen.blow_index(N, g, rows, 0) + 0.5 * I
        sc = {"start": 1000.0, "end": end, "tower_size": N, "events": events, "on_join": scen.humans_on_join(humans),
              "bot": scen.bot_cfg({"type": "plainhunt", "stage": N, "start_row": None}, up_down_in=rng.random() < 0.5),
              "rhythm": scen.rhythm_cfg("wait", inertia=rng.choice([0.0, 0.5, 1.0]), peal_speed=ps, gap=g)}
        return {"k": "world", "scenario": sc, "t0": t0, "speed_text": None, "humans_before": humans,
                "lags": [rng.choice([0.05, 0.2, 0.4, 0.8]) for _ in range(5)]}

    def after_interrupted(self, rng, tier):
        """Server mode: a ringer walks away in the middle of a touch, so Wheatley is held up; their bells
        are given to Wheatley, the bells are set at hand, and Stop Touch and Look To arrive back to back
        while the main thread is still inside that hold-up.  The new touch is Wheatley's alone."""
        from harness.props.c19 import method_msg
        N = rng.choice([4, 6, 8])
        ps = rng.choice([120, 178, 200])
        g = rng.choice([0.0, 1.0, 1.0, 2.0])
        I = scen.interval(ps, N)
        row_t = I * (N + 1)
        humans = sorted(rng.sample(range(2, N + 1), rng.randint(1, 2)))
        wb = [b for b in range(1, 17) if b not in humans]
        tA = 1000.3 + rng.random()
        t_away = tA + 3 + rng.uniform(1.0, 3.0) * row_t
        t0 = t_away + row_t + rng.uniform(1.0, 6.0)
        events = [[tA - 0.2, "msg", method_msg(N)], call(tA, LOOK_TO)]
        events += [[t0 - 0.5, "msg", {"m": "assign", "bell": b, "user": 5}] for b in humans]
        events += [[t0 - 0.3, "msg", {"m": "global_state", "state": [True] * N}],
                   [t0 - rng.choice([0.001, 0.002, 0.004, 0.05, 0.2]), "msg", {"m": "stop_touch"}], call(t0, LOOK_TO)]
        rows = rng.randint(3, 10)
        end = t0 + 3 + I * scen.blow_index(N, g, rows, 0) + 0.5 * I
        sc = {"start": 1000.0, "end": end, "tower_size": N, "events": events,
              "on_join": scen.humans_on_join(humans, "Wheatley", wb),
              "bot": scen.bot_cfg({"type": "placeholder"}, up_down_in=True, user_name="Wheatley", server_id=4),
              "rhythm": scen.rhythm_cfg("wait", inertia=rng.choice([0.0, 0.5, 1.0, 1.0]), peal_speed=ps, gap=g)}
        return {"k": "world", "scenario": sc, "t0": t0, "speed_text": None, "humans_before": humans,
                "lags": [rng.choice([0.0, 0.05, 0.2]) for _ in range(5)], "stop_at": t_away}

    def agents(self, req):
        if "humans_before" not in req:
            return None
        lags = req["lags"]
        return lambda s: [scen.Follower(s, req["humans_before"], lambda r, p: lags[(r + p) % len(lags)],
                                        stop=req.get("stop_at", req["t0"] - 1))]

    def tag(self, req, reply):
        return ("after-interrupted:" if "stop_at" in req else "after-accompanied:" if "humans_before" in req else "") \
            + super().tag(req, reply)

    def cases(self, rng, tier):
        n = 200 if tier == "quick" else 1500
        for i in range(n):
            if i % 5 == 4:
                yield self.after_accompanied(rng, tier)
                continue
            if i % 10 == 7:
                yield self.after_interrupted(rng, tier)
                continue
            if i % 10 == 3:
                yield self.spawned_solo(rng)
                continue
            N = rng.randint(4, 16)
            m, s = speed_strings(rng)
            if rng.random() < 0.08:
                m, s = rng.choice([3, 5, 8]), None          # faster than the 10 ms tick allows: known finding
            ps = parse_peal_speed(s) if s is not None else m
            assert ps == m
            g = rng.choice([0.0, 1.0, 1.0, 2.0, 0.5, 3.0])
            if rng.random() < 0.08:
                # very slow ringing on a small tower with a wide handstroke gap: single waits of many seconds
                N = rng.choice([4, 4, 5, 6])
                m = rng.choice([420, 570, 600, 715])
                s = rng.choice([str(m), f"{m // 60}h{m % 60:02d}"])
                ps = m
                g = rng.choice([2.0, 3.0, 4.0])
            origin = rng.choice([1000.0, 1.0e6, 1.7e9, 1.8e9, 12345.678])
            t0 = origin + 0.25 + rng.random()      # (after the tower state has loaded)
            I = scen.interval(ps, N)
            rows = rng.randint(3, 40 if tier == "thorough" else 20)
            end = t0 + 3 + I * scen.blow_index(N, g, rows, 0) + 0.5 * I
            sc = {"start": origin, "end": end, "tower_size": N, "events": [call(t0, LOOK_TO)],
                  "bot": scen.bot_cfg({"type": "plainhunt", "stage": N, "start_row": None}, up_down_in=rng.random() < 0.5),
                  "rhythm": scen.rhythm_cfg(rng.choice(["wait", "regression"]), inertia=rng.choice([0.0, 0.5, 1.0]),
                                            peal_speed=ps, gap=g)}
            yield {"k": "world", "scenario": sc, "t0": t0, "speed_text": s}

    def spawned_solo(self, rng):
        """Spawned by Ringing Room with --look-to-time (Look To was called a moment before Wheatley existed), every
        bell Wheatley's: the law holds from *that* time, whatever the clock's origin."""
        from harness.props.c19 import method_msg
        N = rng.choice([4, 6, 8, 12])
        origin = rng.choice([1000.0, 1.0e6, 946684800.0, 1.7e9, 1.8e9])
        t_lt = origin - rng.uniform(0.0, 2.0)
        # (the band's speed arrives with the answers to the join, before the touch is laid out: it is the speed of
        # the whole touch, first blow 3 s after Look To as ever)
        ps = rng.choice([180, 180, 120, 150, 210, 240])
        speed = [] if ps == 180 else [{"m": "setting", "kvs": [["peal_speed", rng.choice([ps, str(ps)])]]}]
        I = scen.interval(ps, N)
        rows = rng.randint(4, 12)
        sc = {"start": origin, "end": t_lt + 3 + I * scen.blow_index(N, 1.0, rows, 0) + 0.5 * I, "tower_size": N,
              "events": [], "on_join": scen.humans_on_join([], "Wheatley", list(range(1, 17))) + [method_msg(N)] + speed,
              "look_to_time": scen.f2b(t_lt),
              "bot": scen.bot_cfg({"type": "placeholder"}, up_down_in=True, stop_at_rounds=False, user_name="Wheatley",
                                  server_id=rng.randint(1, 9)),
              "rhythm": scen.rhythm_cfg("wait", inertia=1.0, peal_speed=180, gap=1.0)}
        return {"k": "world", "scenario": sc, "t0": t_lt, "speed_text": None, "spawned": True, "speed_now": ps}

    def to_model(self, req):
        if req.get("spawned"):
            return super().to_model(req)
        world = super().to_model(req)
        sc = req["scenario"]
        rh = sc["rhythm"]
        N = sc["tower_size"]
        rows = 0 if world is None else 1 + int((sc["end"] - req["t0"] - 3) / (scen.interval(rh["peal_speed"], N) * N))
        solo = {"k": "solo", "N": N, "rows": min(rows, 60), "inertia": rh["inertia"], "peal_speed": rh["peal_speed"],
                "gap": rh["gap"], "start": scen.f2b(req["t0"] + 3), "now": scen.f2b(req["t0"] + 0.03)}
        return {"k": "multi", "reqs": [world, solo]}

    def compare(self, req, ir, mr):
        if "driver_error" in mr:
            return "driver_error: " + mr["driver_error"]
        if req.get("spawned"):
            return super().compare(req, ir, mr)
        world, solo = mr["replies"]
        d = super().compare(req, ir, world)
        if d:
            return d
        sc = req["scenario"]
        if scen.interval(sc["rhythm"]["peal_speed"], sc["tower_size"]) <= 0.010001:
            return None                     # (outside the domain of the closed form: known finding)
        # the tick loop the theorem `solo_closed_form` is about, evaluated for this configuration
        rings = [t for (t, b, h) in after_straggler(req, scen.rings(ir))]
        if req.get("_straggler"):
            return None                     # (known finding: judged by the oracle, reported as such)
        times = [scen.b2f(x) for x in solo["times"]]
        for k, (a, b) in enumerate(zip(rings, times)):
            if abs(a - b) > 2e-6:
                return f"strike {k}: implementation at {a!r}, the tick-loop model soloTimes says {b!r}"
        if len(times) < min(len(rings), 60 * sc["tower_size"]):
            return f"soloTimes produced {len(times)} strikes, the implementation {len(rings)}"
        return None

    def nontrivial(self, req, reply):
        if "humans_before" in req and scen.b2f(reply.get("delay", 0)) <= 0.01:
            return False
        return len([x for x in scen.rings(reply) if x[0] >= req["t0"]]) >= 3 * req["scenario"]["tower_size"]

    def matches_finding(self, finding, req, msg):
        sc = req["scenario"]
        I = scen.interval(sc["rhythm"]["peal_speed"], sc["tower_size"])
        if finding["id"] == "C11-look-to-overtakes-last-strike":
            return bool(req.get("_straggler"))
        return finding["id"] == "C11-interval-below-tick" and I <= 0.010001

    def oracle(self, req, reply):
        sc = req["scenario"]
        if reply["crashed"] or reply["handler_crashes"]:
            return f"crash: main={reply['crashed']} handlers={reply['handler_crashes']}"
        N = sc["tower_size"]
        ps = req.get("speed_now") or sc["rhythm"]["peal_speed"]
        g = scen.b2f(sc["rhythm"]["gap"])
        I = scen.interval(ps, N)
        T = req["t0"]
        rings = after_straggler(req, scen.rings(reply))           # (the touch after the last Look To)
        if len(rings) < N:
            return "Wheatley did not ring a whole row"
        for k, (t, b, h) in enumerate(rings):
            r, p = divmod(k, N)
            want = T + 3 + I * scen.blow_index(N, g, r, p)
            if abs(t - want) > 2e-6:
                return (f"strike {k} (row {r}, place {p}) at {t - T:.6f} s after Look To, closed form says "
                        f"{want - T:.6f} (I={I:.6f}, N={N}, gap={g}, speed={ps})")
        return None


PROP = C11()
