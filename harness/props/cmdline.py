"""The console command line as a whole (request kind `cli`): the options as given -> what `main(argv)` builds
(row generator, rhythm parameters, Bot flags) or how it refuses.  Model: `Wheatley/Model/Cli.lean`
(`consoleMain`); implementation: the real `wheatley.main.main(argv)` through `harness/climain.py`."""
import struct
from urllib.parse import urlparse

from harness import climain, gens, implrun
from harness.props import rowgen

from wheatley import parsing

SWITCHES = {"udi": ["-u", "--use-up-down-in"], "sar": ["-s", "--stop-at-rounds"], "handbell": ["-H", "--handbell-style"],
            "no_calls": ["--no-calls"], "keep_going": ["-k", "--keep-going"], "wait": ["-w", "--wait"]}
VALUED = {"comp": ["-c", "--comp"], "method": ["-m", "--method"], "pn": ["-p", "--place-notation"],
          "bob": ["-b", "--bob"], "single": ["-n", "--single"], "start_index": ["--start-index"],
          "start_row": ["--start-row"], "inertia": ["-I", "--inertia"], "peal_speed": ["-S", "--peal-speed"],
          "gap": ["-G", "--handstroke-gap"], "max_bells": ["-X", "--max-bells-in-dataset"], "name": ["--name"]}


def f2b(x):
    return struct.unpack("<Q", struct.pack("<d", float(x)))[0]


def b2f(b):
    return struct.unpack("<d", struct.pack("<Q", b))[0]


def comp_url(arg):
    url = arg if "complib.org" in arg else "https://complib.org/composition/" + arg
    if not url.startswith("http"):
        url = "https://" + url
    return url


def rand_opts(rng):
    """An option list: mostly a sensible command line, with the odd refused value, repeated option, missing or
    doubled generator option."""
    opts = []
    kind = rng.choice(["pn", "pn", "pn", "method", "method", "comp", "none", "two"])
    stage = rng.randint(4, 12)
    pn_texts = ["x1", "x16x16x16,12", "&x1x1x1,2", "3.1.5.1.5,125", "x18x18x18x18,12", "e", "", "x1z", "5.1.5.1.5"]

    good = [(6, "x16x16x16,12"), (4, "x14x14,12"), (8, "x18x18x18x18,12"), (5, "5.1.5.1.5,125"), (6, "&x1x1x1,2"),
            (7, "7.1.7.1.7.1.7,127"), (6, "34x34.16x12x16x12x56,12"), (10, "x10x10x10x10x10,12"), (12, "x1Tx1T,12"),
            (6, "+x.x.14.12"), (3, "3.1.3.1.3.1"), (16, "xD")]

    def gen_opt(k):
        if k == "pn" and rng.random() < 0.65:
            st, text = rng.choice(good)
            return ["pn", f"{st}:{text}"]
        if k == "pn":
            st = rng.choice([str(stage), str(stage), "6", "0", "17", "٨", "x", ""])
            return ["pn", rng.choice([f"{st}:{rng.choice(pn_texts)}", f"{st}:{rng.choice(pn_texts)}", f"{st}{rng.choice(pn_texts)}"])]
        if k == "method":
            name = rng.choice(["Plain Hunt", "plain hunt on", "Grandsire", "Stedman", "Dixon's Bob", "  Plain Hunt ",
                               "Cambridge Surprise", "PlainHunt", "Grandsire"])
            st = rng.choice([str(stage), climain.STAGE_NAMES.get(stage, "Minor").title(), "6", "Minor", "7", "Triples", "99",
                             "Septuples", ""])
            return ["method", f"{name} {st}".rstrip() if rng.random() < 0.9 else name]
        base = rng.choice(["73916", "complib.org/composition/73916", "https://complib.org/composition/5/rows", "12abc",
                           "complib.org/method/5", "http:complib.org/composition/1", "https://[complib.org/composition/1"])
        q = rng.choice(["", "", "?accessKey=abc123", "?substitutedmethodid=27600", "?accessKey=a&substitutedmethodid=5",
                        "?substitutedmethodid=x", "?accessKey=", "?substitutedmethodid=0"])
        return ["comp", base + q]
    if kind == "two":
        a, b = rng.sample(["pn", "method", "comp"], 2)
        opts += [gen_opt(a), gen_opt(b)]
    elif kind != "none":
        opts.append(gen_opt(kind))
        if rng.random() < 0.1:
            opts.append(gen_opt(kind))          # the same option again: the last one counts
    calls = ["14", "1234", "16", "-1:3", "-1: 3.123", "0:14/4:16", "3:5/9:5", "6:14", "0:16", "2:12/0:14", "14", "1234",
             "zz", "", "1:2:3", "4:14/4:16", " 14 ", "x"]
    for name in ("bob", "single"):
        for _ in range(rng.choice([0, 0, 1, 1, 2])):
            opts.append([name, rng.choice(calls)])
    if rng.random() < 0.3:
        opts.append(["start_index", rng.randint(-7, 9)])
    if rng.random() < 0.35:
        n = rng.choice([stage, stage, stage + 2, 4, 1])
        bells = list(gens.BELLS[:max(1, min(16, n))])
        if rng.random() < 0.7:
            rng.shuffle(bells)
        s = "".join(bells)
        r = rng.random()
        if r < 0.07:
            s = s[:-1] + "z"
        elif r < 0.14 and len(s) > 1:
            s = s[1:]
        opts.append(["start_row", s])
    for sw in SWITCHES:
        if rng.random() < (0.25 if sw != "wait" else 0.05):
            opts.append([sw])
            if rng.random() < 0.1:
                opts.append([sw])
    if rng.random() < 0.5:
        opts.append(["peal_speed", rng.choice(["2h58", "178", "3h", "2h58m", "200m", " 3h4 ", "2h58", "90", "3x", "", "3h60", "-5", "h"])])
    if rng.random() < 0.3:
        opts.append(["inertia", f2b(rng.choice([0.0, 0.25, 0.5, 1.0, 0.9]))])
    if rng.random() < 0.3:
        opts.append(["gap", f2b(rng.choice([0.0, 1.0, 2.0, 0.5]))])
    if rng.random() < 0.4:
        opts.append(["max_bells", rng.choice([15, 30, 8, 5, 4, 3, 2, 1])])
    if rng.random() < 0.25:
        opts.append(["name", rng.choice(["Wheatley", "Bob", "a b"])])
    rng.shuffle(opts)
    return opts


def render(opts, rng):
    argv = ["763451928", "--url", "http://fake-rr"]
    for o in opts:
        if len(o) == 1:
            argv.append(rng.choice(SWITCHES[o[0]]))
            continue
        name, v = o
        if name in ("inertia", "gap"):
            v = repr(b2f(v))
        v = str(v)
        spell = VALUED[name]
        long = [s for s in spell if s.startswith("--")][0]
        if v.startswith("-") or v == "" or rng.random() < 0.4:
            argv.append(f"{long}={v}")
        else:
            argv += [rng.choice(spell), v]
    return argv


def usable(opts):
    """(argparse itself mangles a value that is exactly `--`; values starting with `-` are given as `--opt=value`)"""
    return all(len(o) == 1 or str(o[1]) != "--" for o in opts)


def make_request(rng):
    while True:
        opts = rand_opts(rng)
        if usable(opts):
            break
    req = {"k": "cli", "opts": opts, "ops": "HBHBHBHBbHBHBHBHBsHBHBHBHBHBHB", "seed": rng.getrandbits(32)}
    comp = [o for o in opts if o[0] == "comp"]
    if comp:
        try:
            p = urlparse(comp_url(comp[-1][1]))
            req["urlparse"] = {"path": p.path, "query": p.query}
        except ValueError:
            pass
    return req


COMP_TEXT = implrun.comp_payload({"rows": [["123456", "", ""], ["123456", "", ""], ["214365", "", ""]], "stage": 6})
XML = ('<?xml version="1.0"?><methods xmlns="http://methods.ringing.org/NS/method"><method><title>T</title>'
       '<stage>6</stage><pn><symblock>-16-16-16</symblock><symblock>12</symblock></pn></method></methods>')


def impl(req):
    import random
    rng = random.Random(req["seed"])
    argv = render(req["opts"], rng)
    n_log = len(implrun.HTTP.log)
    r = climain.run(argv, comp_text=COMP_TEXT, xml_text=XML)
    last = {o[0]: o[1] for o in req["opts"] if len(o) == 2}
    out = {"argv": argv}
    if r["outcome"] == "exit":
        code = r["code"]
        if code == 2:
            out["out"] = "usage"
        elif isinstance(code, str):
            kind = None
            if code.startswith("Bad value for '--place-notation'"):
                kind = "exit_pn"
            elif code.startswith("Bad value for '--method'"):
                kind = "exit_method"
            elif code.startswith("You may not specify a custom start row with a composition"):
                kind = "exit_comp_start_row"
            else:
                for key, fn, k2 in (("start_row", parsing.parse_start_row, "exit_start_row"),
                                    ("peal_speed", parsing.parse_peal_speed, "exit_peal_speed")):
                    if key in last:
                        try:
                            fn(last[key])
                        except ValueError as e:
                            if str(e) == code:
                                kind = k2
                                break
            out["out"] = kind or ("exit_other: " + code[:80])
        else:
            out["out"] = f"exit_code: {code!r}"
    elif r["outcome"] == "raise":
        out["out"] = "raised"
        out["cls"] = type(r["exc"]).__name__
    elif r["outcome"] == "built":
        out["out"] = "built"
        bot = list((r["bot"] or {}).values())
        rh = list((r["rhythm_args"] or {}).values())
        gen = r["gen"]
        out.update({"udi": bot[2], "sar": bot[3], "call_comps": bot[4], "name": bot[6] if len(bot) > 6 else None,
                    "peal_speed": rh[0], "inertia": f2b(rh[1]), "max_bells": rh[2], "gap": f2b(rh[3]), "use_wait": rh[4]})
        inner = getattr(r["rhythm"], "_inner_rhythm", r["rhythm"])
        out["min_bells"] = getattr(inner, "_min_bells_in_dataset", None)
        if out["min_bells"] is None and rh[2] >= 6:
            # the private name is gone: measure it (number of data points at the first regression; possible when
            # the inertia given lets the first row regress and the memory is large enough to get there)
            try:
                from harness import genprobe
                import time as _t
                saved = _t.sleep
                _t.sleep = lambda d: None
                try:
                    out["min_bells"] = genprobe._min_bells(r["rhythm"])
                finally:
                    _t.sleep = saved
            except Exception:  # noqa
                out["min_bells"] = None
        cls = type(gen).__name__
        if "Complib" in cls:
            urls = [u for (u, p) in implrun.HTTP.log[n_log:] if "complib" in u]
            out["source"] = {"kind": "comp", "url": urls[-1] if urls else None}
        elif "MethodPlaceNotation" in cls:
            out["source"] = {"kind": "library"}
        else:
            rep = implrun.impl_gen_on(gen, req["ops"])
            out["source"] = {"kind": "gen", "start_row": rep["start_row"], "start_hand": rep["start_hand"],
                             "stage": rep["stage"], "outs": rep["outs"]}
    else:
        out["out"] = r["outcome"]
    return out


ALL_FIELDS = ["source", "udi", "sar", "call_comps", "use_wait", "peal_speed", "inertia", "gap", "max_bells", "min_bells",
              "name"]


def compare(req, ir, mr, fields=None):
    """`fields`: the parts of what is built that the property at hand is about (None = all of them).  The way a
    command line is refused is compared only by the property the refusal belongs to (`fields` containing
    "refusals"); for the others a refused command line just has to be refused by both."""
    if "driver_error" in mr:
        return "driver_error: " + mr["driver_error"]
    a = {k: v for k, v in ir.items() if k != "argv"}
    b = dict(mr)
    if fields is not None:
        keep = set(fields) | {"out"}
        if "refusals" not in fields:
            if (a.get("out") == "built") != (b.get("out") == "built"):
                return (f"main({' '.join(ir['argv'][1:])!r}): " +
                        ("built, the model refuses" if a.get("out") == "built" else f"{a.get('out')}, the model builds"))
            if a.get("out") != "built":
                return None
        else:
            keep |= {"cls"}
        a = {k: v for k, v in a.items() if k in keep}
        b = {k: v for k, v in b.items() if k in keep}
    if a.get("min_bells") is None:
        # (a private attribute of the rhythm: when it has been renamed the figure cannot be read, which is no difference)
        a.pop("min_bells", None)
        b.pop("min_bells", None)
    if a.get("out") == "built" and b.get("out") == "built" and "source" in a:
        sa, sb = a.pop("source"), b.pop("source")
        if sa["kind"] != sb["kind"]:
            return f"main({' '.join(ir['argv'][1:])!r}): rows come from {sa['kind']}, the model says {sb['kind']}"
        if sa["kind"] == "comp":
            q = []
            if sb["key"]:
                q.append(f"accessKey={sb['key']}")
            if sb["sub"]:
                q.append(f"substitutedmethodid={sb['sub']}")
            want = f"https://api.complib.org/composition/{sb['id']}/rows" + ("?" + "&".join(q) if q else "")
            if sa["url"] != want:
                return f"main({' '.join(ir['argv'][1:])!r}): CompLib was asked for {sa['url']}, the reference means {want}"
        elif sa["kind"] == "gen":
            if sa != sb:
                return (f"main({' '.join(ir['argv'][1:])!r}): the generator rings {str(sa)[:200]}, the options define "
                        f"{str(sb)[:200]}")
    if a != b:
        return f"main({' '.join(ir['argv'][1:])!r}): impl={a} model={b}"
    return None


def tag(req, reply):
    kinds = sorted({o[0] for o in req["opts"] if o[0] in ("pn", "method", "comp")})
    out = reply.get("out", "?")
    return f"cli:{'+'.join(kinds) or 'none'}:{out if not out.startswith('exit_other') else 'exit_other'}"


def oracle(req, reply, fields=None):
    """Independent of the model: the flags are what the switches say, the numbers what was given, and a refusal
    names the option at fault."""
    out = reply.get("out", "")
    how = " ".join(reply["argv"][1:])
    on = (lambda k: fields is None or k in fields)
    if on("refusals") and (out.startswith("exit_other") or out.startswith("exit_code") or out == "returned"):
        return f"main({how!r}) ended with {out}"
    given = {o[0] for o in req["opts"]}
    if out == "built":
        want = {"udi": "udi" in given or "handbell" in given, "sar": "sar" in given or "handbell" in given,
                "call_comps": "no_calls" not in given, "use_wait": "keep_going" not in given}
        for k, v in want.items():
            if on(k) and reply[k] != v:
                return f"main({how!r}): {k} = {reply[k]}, the switches given say {v}"
        last = {o[0]: o[1] for o in req["opts"] if len(o) == 2}
        for k, default in (("inertia", f2b(0.5)), ("gap", f2b(1.0)), ("max_bells", 15)):
            if on(k) and reply[k] != last.get(k, default):
                return f"main({how!r}): {k} = {reply[k]!r}, given {last.get(k, default)!r}"
        src = reply.get("source") or {}
        comps = [o[1] for o in req["opts"] if o[0] == "comp"]
        if on("source") and src.get("kind") == "comp" and comps:
            # a plainly written reference (an id or a complib.org address, with at most an access key and a
            # substituted method): CompLib is asked for exactly that composition with exactly those two things
            import re
            m = re.fullmatch(r"(?:https?://)?(?:www\.)?(?:complib\.org/composition/)?([0-9]+)(?:\?([A-Za-z0-9=&]*))?", comps[-1])
            if m:
                parts = dict(p.split("=", 1) for p in (m.group(2) or "").split("&") if p.count("=") == 1)
                if set(parts) <= {"accessKey", "substitutedmethodid"} and parts.get("substitutedmethodid", "1").isdigit() \
                        and (m.group(2) or "").count("accessKey") <= 1 and (m.group(2) or "").count("substitutedmethodid") <= 1:
                    q = ([f"accessKey={parts['accessKey']}"] if parts.get("accessKey") else []) + \
                        ([f"substitutedmethodid={int(parts['substitutedmethodid'])}"] if int(parts.get("substitutedmethodid", "0")) else [])
                    want = f"https://api.complib.org/composition/{int(m.group(1))}/rows" + ("?" + "&".join(q) if q else "")
                    if src.get("url") != want:
                        return f"main({how!r}): CompLib was asked for {src.get('url')}, the reference {comps[-1]!r} means {want}"
        got, names = reply["name"], [o[1] for o in req["opts"] if o[0] == "name"]
        # (how the name is handed on is Wheatley's business - a string, or a collection of the names given;
        # what is judged is which names it is: the model comparison reports a change of representation)
        if isinstance(got, (list, tuple, set, frozenset)):
            got = last.get("name") if (set(got) == set(names[-1:]) or list(got) == names) else got
        if on("name") and got != last.get("name"):
            return f"main({how!r}): name = {reply['name']!r}, given {last.get('name')!r}"
    return None


_HANDLERS = {}


def handler_for(prop):
    """The object that runs, compares, judges and labels command-line cases on behalf of `prop`, restricted to
    the fields of the built configuration that `prop` is about (`prop.cli_fields`)."""
    if prop.id in _HANDLERS:
        return _HANDLERS[prop.id]
    from harness.framework import Prop

    class CliFor(Prop):
        id = prop.id

        def impl(self, req):
            return impl(req)

        def to_model(self, req):
            return {k: v for k, v in req.items() if k != "seed"}

        def compare(self, req, ir, mr):
            return compare(req, ir, mr, prop.cli_fields)

        def oracle(self, req, reply):
            return oracle(req, reply, prop.cli_fields)

        def tag(self, req, reply):
            return tag(req, reply)

        def nontrivial(self, req, reply):
            return reply.get("out") == "built"
    _HANDLERS[prop.id] = CliFor()
    return _HANDLERS[prop.id]
