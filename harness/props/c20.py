from harness import core, implrun, sim, scen
from harness.framework import Prop

import socketio as fake_socketio
from wheatley.tower import RingingRoomTower
from wheatley.bell import Bell
from wheatley import page_parser, main as wmain

NAMES = [None, "Alice", "Wheatley", "Bob", "alice"]


def rand_history(rng, n, neg=False):
    """Well-formed: users are announced before they are assigned; bells within 1..16."""
    msgs = []
    size = rng.choice([4, 6, 8, 12])
    msgs.append({"m": "global_state", "state": [True] * size})
    known = []
    # (namesakes, and names that differ from another only in case or in surrounding blanks: different people)
    pool = [(11, "Alice"), (12, "Bob"), (5, "Wheatley"), (13, "Alice"), (14, "Cara"), (15, "alice"), (16, " Wheatley"),
            (17, "wheatley"), (18, "BOB")]
    if neg:
        # (user ids are whatever the server says they are: some of its built-in users have ids below zero)
        pool += [(-1, "Wheatley"), (-7, "Alice"), (-2, "Dan")]
    for _ in range(n):
        r = rng.random()
        if r < 0.12 or not known:
            u = rng.choice(pool)
            if rng.random() < 0.5:
                msgs.append({"m": "user_entered", "id": u[0], "name": u[1]})
                known.append(u[0])
            else:
                us = rng.sample(pool, rng.randint(1, 3))
                msgs.append({"m": "user_list", "users": [{"id": a, "name": b} for a, b in us]})
                known += [a for a, _ in us]
        elif r < 0.45:
            msgs.append({"m": "assign", "bell": rng.randint(1, 16 if rng.random() < 0.2 else size),
                         "user": rng.choice(known)})
        elif r < 0.55:
            msgs.append({"m": "assign", "bell": rng.randint(1, size), "user": 0})
        elif r < 0.65:
            msgs.append({"m": "user_left", "id": rng.choice(known + [99])})
        elif r < 0.75:
            size2 = rng.choice([4, 5, 6, 8, 10, 12, 16, size])
            msgs.append({"m": "size_change", "size": size2})
            size = size2
        elif r < 0.92:
            b = rng.randint(1, size)
            st = [rng.random() < 0.5 for _ in range(size)]
            msgs.append({"m": "bell_rung", "state": st, "who": b})
        elif r < 0.96:
            size = rng.choice([4, 6, 8])
            msgs.append({"m": "global_state", "state": [rng.random() < 0.7 for _ in range(size)]})
        else:
            msgs.append({"m": "call", "call": rng.choice(["Go", "Bob", "Look to"])})
    return msgs


def spec_view(msgs):
    """Independent replay 'what the history implies' (no data structure shared with the code)."""
    out = []
    for k in range(1, len(msgs) + 1):
        hist = msgs[:k]
        strokes = []
        for m in hist:
            if m["m"] in ("bell_rung", "global_state"):
                strokes = list(m["state"])
            elif m["m"] == "size_change" and m["size"] != len(strokes):
                strokes = [True] * m["size"]
        held = []
        for b in range(1, 17):
            h = None
            cur = []
            for m in hist:
                if m["m"] in ("bell_rung", "global_state"):
                    cur = list(m["state"])
                elif m["m"] == "size_change":
                    if m["size"] != len(cur):
                        cur = [True] * m["size"]
                        if b > m["size"]:
                            h = None
                elif m["m"] == "assign" and m["bell"] == b:
                    h = m["user"] or None
                elif m["m"] == "user_left" and h == m["id"]:
                    h = None
            held.append(h)
        names = {}
        for m in hist:
            if m["m"] == "user_entered":
                names[m["id"]] = m["name"]
            elif m["m"] == "user_list":
                for u in m["users"]:
                    names[u["id"]] = u["name"]
        mine = [[(name is None) if held[b] is None else names.get(held[b]) == name for b in range(16)] for name in NAMES]
        out.append({"size": len(strokes), "strokes": strokes, "held": held, "mine": mine})
    return out


def impl_tower(req):
    client_box = []

    class Backend:
        def __init__(self, c):
            client_box.append(c)

        def on_connect(self, url):
            pass

        def on_emit(self, e, d):
            pass
    fake_socketio.set_factory(lambda c: Backend(c))
    try:
        t = RingingRoomTower(1234, "http://x")
        t.__enter__()
        client = client_box[0]
        views = []
        for m in req["msgs"]:
            ev, data = sim.msg_to_socket(m)
            client.handlers[ev](data)
            n = t.number_of_bells
            strokes = [t.get_stroke(Bell.from_number(b)).is_hand() for b in range(1, n + 1)]
            try:        # (a private field: when it is renamed, who-holds-what is still judged through `mine`)
                held = [t._assigned_users.get(Bell.from_number(b)) for b in range(1, 17)]
            except AttributeError:
                held = None
            mine = [[t.is_bell_assigned_to(Bell.from_number(b), name) for b in range(1, 17)] for name in req["names"]]
            views.append({"size": n, "strokes": strokes, "held": held, "mine": mine})
        return {"views": views}
    finally:
        fake_socketio.set_factory(None)


def impl_page(req):
    implrun.HTTP.routes = [lambda url, params: implrun.FakeResponse(req["html"])]
    implrun.HTTP.log = []
    try:
        try:
            got = page_parser.get_load_balancing_url(req["tower_id"], req["url"])
        except page_parser.TowerNotFoundError:
            got = None
        fetched = implrun.HTTP.log[0][0] if implrun.HTTP.log else None
        fix = getattr(page_parser, "_fix_url", None)
        return {"fixed": fix(req["url"]) if fix else None, "extract": got, "fetched": fetched}
    finally:
        implrun.HTTP.routes = []


def impl_startup(req):
    """Run the real `main.main(argv, stop_on_join_tower=True)` against the fake page + socket server."""
    html = req["html"]
    implrun.HTTP.routes = [lambda url, params: implrun.FakeResponse(html)]
    sc = {"start": 1000.0, "end": 1003.0, "tower_size": 8, "tower_id": req["tower_id"], "events": [],
          "on_join": [], "bot": None, "rhythm": None}
    s = sim.Sim(sc)
    import time as _time
    import wheatley.tower as wtower
    saved = (_time.time, _time.sleep, wtower.sleep)
    fake_socketio.set_factory(lambda c: sim._bind(s, c))
    _time.time, _time.sleep, wtower.sleep = s.time, s.sleep, s.sleep
    err = None
    try:
        wmain.main([str(req["tower_id"]), "--url", req["url"], "-p", "6:x16x16x16,12"], stop_on_join_tower=True)
    except SystemExit as e:
        err = "SystemExit"
    except sim.Stop:
        err = "Stop"
    except Exception as e:  # noqa
        err = type(e).__name__
    finally:
        _time.time, _time.sleep, wtower.sleep = saved
        fake_socketio.set_factory(None)
        implrun.HTTP.routes = []
    return {"obs": [o for _, o in s.obs], "err": err, "shape_errors": s.shape_errors, "connect": s.connect_urls}


_WORLD = None


def _world():
    global _WORLD
    if _WORLD is None:
        from harness import scen

        class W(scen.WorldProp):
            def agents(self, req):
                return req.get("_make")
        _WORLD = W()
    return _WORLD


class C20(Prop):
    id = "C20"
    lean_module = "Wheatley.Props.C20"
    theorems = ["Wheatley.C20.step", "Wheatley.C20.tower_refines_spec", "Wheatley.C20.size_spec",
                "Wheatley.C20.is_assigned_spec", "Wheatley.C20.bot_keeps_view", "Wheatley.C20.extract_roundtrip",
                "Wheatley.C20.extract_fails_without_marker", "Wheatley.C20.startup_emissions",
                "Wheatley.alGet_alSet", "Wheatley.alGet_filter",
                "Wheatley.C20.deliver_tower", "Wheatley.C20.mainStep_tower",
                "Wheatley.C20.view_is_the_fold_of_the_history", "Wheatley.C20.view_matches_spec_throughout"]
    level_text = ("theorems: refinement - after any history of server messages the handlers' association-list view "
                  "(strokes, holder of each bell, name of each user, hence 'is this bell assigned to <name>') equals a "
                  "data-structure-free 'last relevant message' specification, and the Bot's callbacks never touch the "
                  "view; system level: in every state of every run of the timed world the view is the fold of the messages delivered so far, a prefix of the history (view_is_the_fold_of_the_history); the server_ip extraction returns the URL of the first template line; start-up sends c_join "
                  "then c_request_global_state first. correspondence: random well-formed histories through the real "
                  "handlers compared after every message (size, strokes, holders, ownership for four names) with the "
                  "model and with an independent Python replay; page bodies from a generator through the real "
                  "get_load_balancing_url; real main.main start-up against the fake page and socket server. "
                  "timed sessions in which Wheatley itself rings over a connection with a round trip of 40-400 ms, the view sampled every 23 ms against the messages received so far. non-trivial = history with assignments and a size change or a leaver")

    def cases(self, rng, tier):
        n = 250 if tier == "quick" else 3000
        for i in range(n):
            yield {"k": "tower", "msgs": rand_history(rng, rng.randint(3, 40)), "names": NAMES}
        for i in range(n // 6):
            # (the model's user ids are natural numbers: these histories are judged by the replay alone)
            yield {"k": "tower", "msgs": rand_history(rng, rng.randint(3, 40), neg=True), "names": NAMES, "neg": True}
        for i in range(n // 8):
            yield self.ringing_case(rng)
        for i in range(120 if tier == "quick" else 1500):
            url = rng.choice(["https://rr1.ringingroom.com", "http://127.0.0.1:8080", "rr.example.org", "", "x\"y"])
            pre = rng.choice(["<html>", "<script>var a = 1;\n", "server", "server_i", "window.tower_parameters = {\n  id: 1,\n  "])
            post = rng.choice(["\n};</script>", "\", other: \"z\"", ""])
            r = rng.random()
            if r < 0.7:
                html = pre + 'server_ip: "' + url + '"' + post
            elif r < 0.8:
                html = pre + 'server_ip: "' + url          # no closing quote
            elif r < 0.9:
                html = pre + post                            # no marker
            else:
                html = pre + "server_ip" + post             # marker at the very end
            yield {"k": "page", "html": html, "url": rng.choice(["https://ringingroom.com", "ringingroom.co.uk", "http://localhost:5000/"]),
                   "tower_id": rng.randint(100000000, 999999999)}
        for i in range(10 if tier == "quick" else 60):
            tid = rng.randint(100000000, 999999999)
            srv = rng.choice(["https://rr2.ringingroom.com", "http://127.0.0.1:9000"])
            yield {"k": "startup", "tower_id": tid, "url": "https://ringingroom.com", "server": srv,
                   "html": '<script>window.tower_parameters = { id: %d, server_ip: "%s" };</script>' % (tid, srv)}

    def ringing_case(self, rng):
        """The view while Wheatley itself is ringing, on a connection with a real round-trip time: between the
        moment Wheatley sends a strike and the moment the server's `s_bell_rung` for it comes back (tens to hundreds
        of milliseconds), the view is still what the messages *received* so far imply - sampled every 23 ms."""
        from harness import scen
        N = rng.choice([4, 6, 6, 8])
        humans = sorted(rng.sample(range(1, N + 1), rng.randint(0, N - 2)))
        ps = rng.choice([90, 120])
        I = scen.interval(ps, N)
        t0 = 1000.3 + rng.random()
        sc = {"start": 1000.0, "end": t0 + 3 + I * scen.blow_index(N, 1.0, rng.randint(5, 9), 0), "tower_size": N,
              "latency": rng.choice([0.02, 0.05, 0.1, 0.2]),
              "events": [scen.call(t0, scen.LOOK_TO)], "on_join": scen.humans_on_join(humans),
              "bot": scen.bot_cfg({"type": "plainhunt", "stage": N, "start_row": None}, up_down_in=True),
              "rhythm": scen.rhythm_cfg(rng.choice(["wait", "regression"]), inertia=0.5, peal_speed=ps)}
        return {"k": "world", "scenario": sc, "humans": humans, "lag": rng.choice([0.0, 0.03])}

    def impl(self, req):
        if req["k"] == "world":
            from harness import scen
            from wheatley.bell import Bell
            samples = []

            def make(s):
                class Sampler:
                    def on_strike(self, s2, t, bell, by):
                        pass

                    def tick(self, s2, t):
                        tw = getattr(s2, "tower", None)
                        if tw is not None:
                            n = tw.number_of_bells
                            strokes = [tw.get_stroke(Bell.from_number(b)) for b in range(1, n + 1)]
                            samples.append([t, [None if x is None else bool(x.is_hand()) for x in strokes]])
                        s2.push(t + 0.023, "internal", lambda tt: self.tick(s2, tt))
                smp = Sampler()
                s.push(s.now + 0.0117, "internal", lambda tt: smp.tick(s, tt))
                return [smp, scen.Follower(s, req["humans"], lambda r, p: req["lag"])]
            sub = dict(req, _make=make)
            rep = _world().impl(sub)
            req["_model_req"] = sub.get("_model_req")
            rep["_delivered"] = [[t, m] for t, m in req["_model_req"]["events"]]
            rep["_samples"] = samples
            return rep
        if req["k"] == "tower":
            return impl_tower(req)
        if req["k"] == "page":
            return impl_page(req)
        return impl_startup(req)

    def to_model(self, req):
        if req["k"] == "startup":
            return None
        if req["k"] == "world":
            return req.pop("_model_req", None)
        if req.get("neg"):
            return None
        return req

    def compare(self, req, ir, mr):
        if req["k"] == "world":
            from harness import scen
            return scen.WorldProp.compare(_world(), req, {k: v for k, v in ir.items() if not k.startswith("_")}, mr)
        if req["k"] == "page":
            if (ir["fixed"] is not None and ir["fixed"] != mr["fixed"]) or ir["extract"] != mr["extract"]:
                return f"impl={ir} model={mr}"
            return None
        if req["k"] == "tower" and any(v.get("held") is None for v in ir.get("views", [])):
            strip = lambda r: {"views": [{k: x for k, x in v.items() if k != "held"} for v in r["views"]]}  # noqa: E731
            ir, mr = strip(ir), strip(mr)
        return super().compare(req, ir, mr)

    def tag(self, req, reply):
        if req["k"] == "world":
            return f"ringing:round-trip-{int(2000 * req['scenario']['latency'])}ms"
        if req["k"] == "tower":
            kinds = {m["m"] for m in req["msgs"]}
            return "tower:" + ("+size" if "size_change" in kinds else "") + ("+left" if "user_left" in kinds else "")
        if req["k"] == "page":
            return "page:" + ("found" if reply["extract"] is not None else "notfound")
        return "startup"

    def nontrivial(self, req, reply):
        if req["k"] == "world":
            return len(reply.get("_samples", [])) > 20 and len(reply.get("strikes", [])) > 8
        if req["k"] == "tower":
            kinds = {m["m"] for m in req["msgs"]}
            return "assign" in kinds and ("size_change" in kinds or "user_left" in kinds)
        return True

    def oracle(self, req, reply):
        if req["k"] == "world":
            if reply["crashed"] or reply["handler_crashes"]:
                return f"crash: main={reply['crashed']} handlers={reply['handler_crashes']}"
            from harness import scen
            # the strokes the received messages imply, as a step function of time
            steps, cur = [], None
            for tb, m in reply["_delivered"]:
                if m["m"] in ("bell_rung", "global_state"):
                    cur = list(m["state"])
                elif m["m"] == "size_change" and (cur is None or m["size"] != len(cur)):
                    cur = [True] * m["size"]
                else:
                    continue
                steps.append((scen.b2f(tb), cur))
            for t, strokes in reply["_samples"]:
                before = [st for (ts, st) in steps if ts < t - 1e-7]
                upto = [st for (ts, st) in steps if ts <= t + 1e-7]
                if not upto:
                    continue
                ok = [upto[-1]] + ([before[-1]] if before else [])
                if strokes not in ok:
                    b = next((i + 1 for i, (x, y) in enumerate(zip(strokes, upto[-1])) if x != y), None)
                    return (f"at {t:.3f} Wheatley's view has bell {b} at {'hand' if strokes[b - 1] else 'back'}stroke "
                            f"(view {strokes}), every message received so far says {upto[-1]}") if b else \
                        f"at {t:.3f} the view has {len(strokes)} bells, the messages received so far {len(upto[-1])}"
            return None
        if req["k"] == "tower":
            want = spec_view(req["msgs"])
            for i, (a, b) in enumerate(zip(reply["views"], want)):
                if a.get("held") is None:
                    b = {k: x for k, x in b.items() if k != "held"}
                    a = {k: x for k, x in a.items() if k != "held"}
                if a != b:
                    key = next(k for k in a if a[k] != b[k])
                    return (f"after message {i} ({req['msgs'][i]}) the view's {key} is {a[key]}, the history implies "
                            f"{b[key]}")
            return None
        if req["k"] == "page":
            html = req["html"]
            i = html.find("server_ip")
            want = None
            if i >= 0:
                rest = html[i + len('server_ip: "'):]
                if '"' in rest:
                    want = rest[:rest.index('"')]
            if reply["extract"] != want:
                return f"extracted {reply['extract']!r}, the page says {want!r}"
            want_fetch = (req["url"] if req["url"].startswith("http") else "https://" + req["url"])
            if reply["fetched"] is None or str(req["tower_id"]) not in reply["fetched"]:
                return f"the tower page was fetched from {reply['fetched']}"
            return None
        obs = reply["obs"]
        if reply["err"] is not None:
            return f"start-up ended with {reply['err']}"
        if reply["connect"] != [req["server"]]:
            return f"connected to {reply['connect']}, the page names {req['server']}"
        kinds = [o[0] for o in obs]
        if kinds[:3] != ["connect", "join", "request_state"]:
            return f"start-up emissions are {kinds[:4]}, expected connect, join, request_state"
        if reply["shape_errors"]:
            return f"malformed emission: {reply['shape_errors'][0]}"
        return None


PROP = C20()
