from harness import gens, scen, implrun
from harness.scen import call, LOOK_TO, GO, THATS_ALL, ROUNDS, STAND


class C07(scen.WorldProp):
    id = "C07"
    fuzz_kinds = {"ring", "call"}
    fuzz_times = False
    lean_module = "Wheatley.Props.C07"
    theorems = ["Wheatley.C07.stand_law",
                "Wheatley.C07.stops_only_before_handstroke",
                "Wheatley.C07.stops_only_on_request",
                "Wheatley.C07.stop_at_rounds_law",
                "Wheatley.C07.thats_all_sets",
                "Wheatley.C07.thats_all_one_more_row",
                "Wheatley.C07.thats_all_in_rounds",
                "Wheatley.C07.flags_persist",
                "Wheatley.C07.rounds_row_rung",
                "Wheatley.C07.rounds_call_law",
                "Wheatley.C07.stand_call_law",
                "Wheatley.C07.stopped_stays_stopped",
                "Wheatley.C07.silent_when_stopped",
                "Wheatley.C07.only_look_to_starts",
                "Wheatley.C07.setting_keeps_stand",
                "Wheatley.startNextRow_ctl",
                "Wheatley.C07.cli_stop_at_rounds",
                "Wheatley.C07.silent_until_look_to", "Wheatley.C07.nothing_before_the_first_look_to"]
    # the command line: what of the built configuration this property is about
    cli_fields = ['sar']
    level_text = ("theorems: That's all gives at most one more method row then rounds; Rounds returns to the opening "
                  "row from the next row; Stand / stop-at-rounds stop ringing only at a row boundary whose next row is "
                  "a handstroke; only Look To can start ringing again (all for arbitrary states). correspondence: "
                  "timed sessions, That's all / Rounds / Stand at random instants in rounds or in changes on either "
                  "stroke, with Go or up-down-in, stop-at-rounds on/off, methods coming round at hand or back; oracle: "
                  "row kinds after the call, even strike counts, silence afterwards. non-trivial = the stop call was "
                  "delivered while Wheatley was ringing")

    def cases(self, rng, tier):
        n = 300 if tier == "quick" else 3000
        for i in range(n):
            N = rng.choice([4, 5, 6, 6, 8])
            kind = rng.choice(["plainhunt", "plainhunt", "pn", "comp"])
            if kind == "plainhunt":
                stage = rng.choice([N, N - 1, N - 1]) if N > 4 else N
                spec = {"type": "plainhunt", "stage": stage, "start_row": None}
            elif kind == "pn":
                stage = rng.choice([N, N - 1])
                spec = gens.rand_pn_spec(rng, stage=stage, calls=False, start_row_p=0.0)
                spec["start_index"] = rng.choice([0, 0, 1, -1])
            else:
                spec = gens.rand_comp_spec(rng, stage=N, calls=False, nrows=rng.randint(3, 9))
            if kind != "comp" and rng.random() < 0.3:
                # a custom start row (not rounds): the touch opens with it, "Rounds" returns to it,
                # "That's all" ends in real rounds
                bells = list(range(1, rng.choice([spec["stage"], N]) + 1))
                rng.shuffle(bells)
                spec["start_row"] = "".join(gens.BELLS[b - 1] for b in bells)
            udi = rng.random() < 0.5
            sar = rng.random() < 0.35
            ps = rng.choice([60, 90])
            I = scen.interval(ps, N)
            row_t = I * (N + 0.5)
            t0 = 1000.0 + rng.random()
            events = [call(t0, LOOK_TO)]
            if not udi:
                events.append(call(t0 + 3 + rng.uniform(0.1, 2.5) * row_t, GO))
            stop = rng.choice([THATS_ALL, ROUNDS, STAND, STAND, None])
            stop_t = None
            if stop is not None:
                stop_t = t0 + 3 + rng.uniform(0.2, 13) * row_t
                events.append(call(stop_t, stop))
            stop2_t = None
            if stop == THATS_ALL and rng.random() < 0.4:
                # Rounds is called in the row of That's all or soon after it: the last instruction counts, so the
                # opening row (not rounds, when there is a custom start row) is what Wheatley goes back to
                stop2_t = stop_t + rng.uniform(0.0, 2.4) * row_t
                events.append(call(stop2_t, ROUNDS))
            end = t0 + 3 + 22 * row_t
            N0 = N
            if kind == "plainhunt" and spec.get("start_row") is None and rng.random() < 0.2:
                # under Ringing Room's control: the same touch with the band playing with the switches (handbell
                # style on / off, up-down-in) - a switch is not a call and must not cancel a Stand next
                from harness.props.c19 import method_msg
                ev2 = [[t0 - 0.4, "msg", method_msg(spec["stage"])]] + [e for e in events if e[2].get("call") != GO]
                for _ in range(rng.randint(1, 4)):
                    kv = rng.choice([["stop_at_rounds", False], ["stop_at_rounds", rng.choice([False, "false", "False"])],
                                     ["stop_at_rounds", rng.choice([True, "true"])],
                                     ["use_up_down_in", True], ["call_composition", False]])
                    ev2.append([rng.uniform(t0 + 3, end - 3), "msg", {"m": "setting", "kvs": [kv]}])
                if stop == STAND and rng.random() < 0.7:
                    # handbell style is switched off just after Stand next has been called
                    sar = True
                    ev2.append([stop_t + rng.uniform(0.03, 0.9) * row_t, "msg",
                                {"m": "setting", "kvs": [["stop_at_rounds", False]]}])
                ev2.sort(key=lambda e: e[0])
                sc = {"start": 1000.0, "end": end, "tower_size": N, "events": ev2,
                      "on_join": scen.humans_on_join([], "Wheatley", list(range(1, 17))),
                      "bot": scen.bot_cfg({"type": "placeholder"}, up_down_in=True, stop_at_rounds=sar,
                                          user_name="Wheatley", server_id=6),
                      "rhythm": scen.rhythm_cfg("wait", inertia=1.0, peal_speed=ps)}
                yield {"k": "world", "scenario": sc, "stop": stop, "stop_t": stop_t, "t0": t0, "stop2_t": stop2_t}
                continue
            if kind == "plainhunt" and spec.get("start_row") is None and rng.random() < 0.15:
                # a second touch in the same session, handbell style on: the first ends by itself at rounds (or is
                # stood in changes); whatever ended it must not end the next one before it has begun
                st = spec["stage"]
                ev = [call(t0, LOOK_TO)]
                first_len = (2 + 2 * st + 1) if rng.random() < 0.5 else rng.uniform(4, 7)
                if first_len < 2 + 2 * st:
                    ev.append(call(t0 + 3 + (first_len - 1.5) * row_t, STAND))
                t1 = t0 + 3 + (first_len + 2.5) * row_t + rng.random()
                ev += [[t1 - 0.3, "msg", {"m": "global_state", "state": [True] * N}], call(t1, LOOK_TO)]
                sc = {"start": 1000.0, "end": t1 + 3 + 7 * row_t, "tower_size": N, "events": ev,
                      "bot": scen.bot_cfg(spec, up_down_in=True, stop_at_rounds=True),
                      "rhythm": scen.rhythm_cfg(rng.choice(["wait", "regression"]), peal_speed=ps)}
                yield {"k": "world", "scenario": sc, "stop": None, "stop_t": None, "t0": t0, "stop2_t": None, "again": t1}
                continue
            if rng.random() < 0.25:
                # Wheatley joins a bigger tower, which is made smaller before the touch
                N0 = N + rng.choice([1, 2, 4])
                events.append([t0 - rng.uniform(0.3, 0.8), "msg", {"m": "size_change", "size": N}])
                events.sort(key=lambda e: e[0])
            sc = {"start": 1000.0, "end": end, "tower_size": N0, "events": events,
                  "bot": scen.bot_cfg(spec, up_down_in=udi, stop_at_rounds=sar),
                  "rhythm": scen.rhythm_cfg(rng.choice(["wait", "regression"]), peal_speed=ps)}
            yield {"k": "world", "scenario": sc, "stop": stop, "stop_t": stop_t, "t0": t0, "stop2_t": stop2_t}

    def nontrivial(self, req, reply):
        if req["stop"] is None or not reply["strikes"]:
            return req["scenario"]["bot"]["stop_at_rounds"]
        last = scen.b2f(reply["strikes"][-1][0])
        return req["stop_t"] <= last + 0.5

    def oracle(self, req, reply):
        sc = req["scenario"]
        if reply["crashed"] or reply["handler_crashes"]:
            return f"crash: main={reply['crashed']} handlers={reply['handler_crashes']}"
        N = sc["tower_size"]
        for ev in sc["events"]:
            if isinstance(ev[2], dict) and ev[2].get("m") == "size_change":
                N = ev[2]["size"]
        if req.get("again") is not None:
            later = [x for x in reply["strikes"] if scen.b2f(x[0]) >= req["again"]]
            if len(later) < 4 * N:
                return (f"second touch of the session (handbell style): after its Look To Wheatley rang {len(later) // N} "
                        f"rows in {sc['end'] - req['again']:.1f} s - what ended the first touch has ended this one")
            return None
        strikes = reply["strikes"]
        rows = scen.rows_from_strikes(reply, N)
        rounds = list(range(1, N + 1))
        sar = sc["bot"]["stop_at_rounds"]
        def as_bool(v):          # (a switch arrives as a JSON boolean or as the string "true" / "false")
            return (v.strip().lower() == "true") if isinstance(v, str) else bool(v)
        switched = [as_bool(ev[2]["kvs"][0][1]) for ev in sc["events"] if ev[2].get("m") == "setting"
                    and ev[2]["kvs"][0][0] == "stop_at_rounds"]
        sar_always = sar and all(switched)          # handbell style on for the whole session
        sar = sar or any(switched)                  # ... on at some time
        stop, tc = req["stop"], req["stop_t"]
        if len(strikes) % N != 0 and strikes and scen.b2f(strikes[-1][0]) < sc["end"] - 2.0:
            return f"ringing stopped in the middle of a row ({len(strikes)} strikes on {N})"
        stopped = bool(strikes) and scen.b2f(strikes[-1][0]) < sc["end"] - 2.0
        if stopped:
            counts = {}
            for (_, b, _) in strikes:
                counts[b] = counts.get(b, 0) + 1
            odd = [b for b, c in counts.items() if c % 2]
            if odd:
                return f"bells {odd} were left at backstroke (odd number of strikes)"
        if stopped and stop != STAND and len(rows) >= 2:
            # nobody called Stand: only handbell style can have stopped it, so it must have been on at some moment of
            # the last few rows (a switch that was turned off well before stays off, whatever the form of "off")
            t_first, t_last = scen.b2f(strikes[0][0]), scen.b2f(strikes[-1][0])
            window = 3.5 * (t_last - t_first) / max(1, len(rows) - 1)
            val, on_in_window = sc["bot"]["stop_at_rounds"], False
            changes = sorted((ev[0], ev[2]["kvs"][0][1]) for ev in sc["events"] if ev[2].get("m") == "setting"
                             and ev[2]["kvs"][0][0] == "stop_at_rounds")
            prev_t = float("-inf")
            for (t, v) in changes + [(float("inf"), None)]:
                if val and prev_t <= t_last and t >= t_last - window:
                    on_in_window = True
                prev_t, val = t, as_bool(v)
            if not on_in_window:
                return (f"Wheatley stopped by itself after {len(rows)} rows although nobody called Stand and handbell style "
                        f"(stop at rounds) had been off for the last {window:.1f} s")
        if sar_always and stop != ROUNDS and req.get("stop2_t") is None and rows:
            # handbell-style stop: once rounds has come up after the method started, the whole pull is completed
            # and nothing more is rung
            first = next((i for i in range(len(rows)) if rows[i] != rows[0]), None)
            if first is not None:
                j = next((i for i in range(first, len(rows)) if rows[i] == rounds), None)
                if j is not None:
                    want = j + 1 if j % 2 == 1 else j + 2
                    if len(rows) > want:
                        return (f"stop-at-rounds: rounds came up in row {j} after the method had started, yet {len(rows)} "
                                f"rows were rung (expected {want})")
        if stop is None or not strikes:
            return None
        k = sum(1 for (t, _, _) in strikes if scen.b2f(t) < tc) // N
        was_ringing = tc >= req["t0"] and tc <= scen.b2f(strikes[-1][0]) + 1e-9
        if not was_ringing:
            return None
        if stop == STAND:
            want = k + 1 if k % 2 == 1 else k + 2
            # stop-at-rounds may stop earlier; otherwise exactly `want` rows are rung
            if len(rows) > want:
                return f"Stand during row {k}: {len(rows)} rows were rung, expected {want}"
            if len(rows) < want and not sar:
                return f"Stand during row {k}: only {len(rows)} rows were rung, expected {want}"
        in_method = any(rows[i] != rows[0] for i in range(min(k + 1, len(rows))))
        if stop == ROUNDS and in_method:
            opening = rows[0]
            for i in range(k + 1, len(rows)):
                if rows[i] != opening:
                    return f"Rounds during row {k}: row {i} = {rows[i]} is not the opening row"
        if stop == THATS_ALL and not in_method and k + 1 < len(rows) and rows[k] == rounds:
            # "rounds at once if the row in progress already was rounds" - also when that row is the last
            # one before the method was due to start (a Go made just before, or the up-down-in count)
            if rows[k + 1] != rounds:
                return f"That's all during rounds (row {k}, before the method started) but row {k+1} = {rows[k+1]}"
        tc2, k2 = req.get("stop2_t"), len(rows)
        if tc2 is not None and tc2 <= scen.b2f(strikes[-1][0]) + 1e-9:
            k2 = sum(1 for (t, _, _) in strikes if scen.b2f(t) < tc2) // N
            if any(rows[i] != rows[0] for i in range(min(k2 + 1, len(rows)))):
                for i in range(k2 + 1, len(rows)):
                    if rows[i] != rows[0]:
                        return (f"That's all during row {k}, then Rounds during row {k2}: row {i} = {rows[i]} is not the "
                                f"opening row {rows[0]}")
        if stop == THATS_ALL and in_method:
            for i in range(k + 2, min(len(rows), k2 + 1)):
                if rows[i] != rounds:
                    return f"That's all during row {k}: row {i} = {rows[i]} is not rounds"
            if k + 1 < len(rows) and rows[k] == rounds and k > 0 and rows[k + 1] != rounds and rows[0] == rounds:
                return f"That's all during rounds (row {k}) but row {k+1} = {rows[k+1]}"
        return None


PROP = C07()
