"""Shared pieces of C01-C05: they all drive the row generators through the `gen` / `permute` /
`convert` request kinds and differ in the inputs they emphasise and the oracle they apply."""
from harness import gens, implrun
from harness.framework import Prop


def is_perm(row, ref):
    return sorted(row) == sorted(ref) and len(set(row)) == len(row)


def rows_of(reply):
    return [o["row"] for o in reply.get("outs", []) if isinstance(o, dict)]


def failed_row(req, reply):
    """A generator that raised while it was asked for a row (the place holder is allowed to)."""
    if req["k"] == "gen" and "err" not in reply and req["gen"]["type"] != "placeholder":
        for o in reply.get("outs", []):
            if isinstance(o, str) and o not in ("KeyError",):
                return f"the row generator raised {o} when asked for a row"
    return None


def oracle_complete(req, reply):
    """C01: every produced row contains each bell of the start row exactly once."""
    bad = failed_row(req, reply)
    if bad:
        return bad
    if req["k"] == "permute":
        if not is_perm(reply["row"], req["row"]):
            return f"permute produced {reply['row']} from {req['row']}"
        return None
    if req["k"] != "gen" or "err" in reply:
        return None
    sr = reply["start_row"]
    if req["gen"]["type"] == "comp":
        return None  # composition rows are data
    for i, r in enumerate(rows_of(reply)):
        if not is_perm(r, sr):
            return f"row {i} = {r} is not a permutation of the start row {sr}"
    return None


def oracle_legal(req, reply):
    """C03: neighbours swap, nobody jumps, covers stay, named places are made."""
    bad = failed_row(req, reply)
    if bad:
        return bad
    if req["k"] == "permute":
        stage, row, out, places = req["stage"], req["row"], reply["row"], req["places"]
        for i, b in enumerate(row):
            j = out.index(b) if b in out else None
            if j is None or abs(i - j) > 1:
                return f"bell {b} moved from place {i+1} to {None if j is None else j+1}"
        if out[stage:] != row[stage:]:
            return "a bell above the stage moved"
        if places == sorted(set(places)) and gens.ref_well_formed(stage, places):
            for p in gens.ref_full_places(stage, places):
                if out[p - 1] != row[p - 1]:
                    return f"place {p} not made"
        return None
    if req["k"] != "gen" or "err" in reply or req["gen"]["type"] == "comp":
        return None
    prev = reply["start_row"]
    # (the stage that was asked for: the bells above it are covers whatever the generator thinks its stage is)
    stage = req["gen"].get("stage") or reply["stage"]
    ops = [c for c in req["ops"]]
    rows = rows_of(reply)
    # the change named for each row by the written notation and the call definitions (read by the harness's own
    # reference, not by Wheatley's parser): every place it names is to be made
    spec, named = req["gen"], None
    ref = (gens.denote([(p, c) for p, c in spec["_ast"]]), spec["_bob_ref"], spec["_single_ref"]) if "_ast" in spec \
        else gens.special_reference(spec["type"], spec["stage"]) if spec.get("stage") else None
    if spec.get("type") == "dixon" and spec.get("stage") == 6:
        named = []
        _, ok = gens.ref_dixon_rows(6, reply["start_row"], req["ops"], trace=named)
        if not ok:
            named = None
    elif ref is not None and ref[0]:
        named = []
        _, ok = gens.ref_call_rows(spec["stage"], ref[0], spec.get("start_index") or 0, reply["start_row"], ref[1], ref[2],
                                   req["ops"], trace=named)
        if not ok:
            named = None
    ri = 0
    for c in ops:
        if c == "r":
            prev = reply["start_row"]
        if c in "HB":
            if ri >= len(rows):
                break
            r = rows[ri]
            ri += 1
            for i, b in enumerate(prev):
                if b not in r or abs(r.index(b) - i) > 1:
                    return f"row {ri-1}: bell {b} jumps ({prev} -> {r})"
            if r[stage:] != prev[stage:]:
                return f"row {ri-1}: cover bells moved ({prev} -> {r})"
            if named is not None and ri - 1 < len(named) and gens.ref_well_formed(spec["stage"], named[ri - 1]):
                for p in named[ri - 1]:
                    if 1 <= p <= spec["stage"] and r[p - 1] != prev[p - 1]:
                        return (f"row {ri-1}: place {p} is named in the notation for this change ({named[ri - 1]}) but "
                                f"is not made ({prev} -> {r})")
            prev = r
    return None


def consistent(stage, places):
    """The hypothesis of `C02.permute_is_the_change` (Lean `Consistent`): before every named place within the
    stage an even number of places, counted from the first place the loop looks at, are unnamed."""
    first = 2 if places and places[0] % 2 == 0 else 1
    return all(sum(1 for x in range(first, q) if x not in places) % 2 == 0
               for q in places if first <= q <= stage)


class RowGenProp(Prop):
    via_cli_share = 0.3

    def impl(self, req):
        if req.get("k") == "gen" and not req["gen"].get("via_json") and req["gen"].get("type") != "comp":
            # a share of the generators is built by the real `main(argv)` from the command-line spelling of
            # the specification (option wiring, argparse defaults, title and call-definition parsing)
            import hashlib
            import json
            h = int(hashlib.sha1(json.dumps(req["gen"], sort_keys=True, default=str).encode()).hexdigest()[:8], 16)
            if (h % 1000) / 1000.0 < self.via_cli_share:
                return implrun.run(dict(req, gen=dict(req["gen"], via_cli=True)))
        return implrun.run(req)

    def compare(self, req, ir, mr):
        if isinstance(ir, dict) and isinstance(mr, dict) and "final" in ir and ir["final"] is None:
            ir = {k: v for k, v in ir.items() if k != "final"}
            mr = {k: v for k, v in mr.items() if k != "final"}
        if req.get("k") == "permute" and isinstance(mr, dict) and "spec" in mr:
            # the denotation of the change (`Spec.apply`, theorem `C02.permute_is_the_change`) evaluated by the
            # driver: wherever the theorem's hypothesis holds it must be what the real `permute` returned
            spec, cons = mr["spec"], mr["consistent"]
            mr = {k: v for k, v in mr.items() if k not in ("spec", "consistent")}
            if cons != consistent(req["stage"], req["places"]):
                return f"Consistent decided differently: driver {cons}"
            if cons and isinstance(ir, dict) and ir.get("row") != spec:
                return f"denotation of the change: Spec.apply gives {spec}, permute returned {ir.get('row')}"
        return super().compare(req, ir, mr)

    def to_model(self, req):
        if req["k"] == "gen":
            return {"k": "gen", "gen": gens.strip_private(req["gen"]), "ops": req["ops"]}
        return req

    def tag(self, req, reply):
        if req["k"] == "gen":
            t = req["gen"]["type"]
            if "err" in reply:
                return f"gen:{t}:err:{reply['err']}"
            return f"gen:{t}:stage{req['gen'].get('stage')}"
        if req["k"] == "permute":
            return f"permute:stage{req['stage']}:{'consistent' if consistent(req['stage'], req['places']) else 'inconsistent'}"
        return req["k"]

    def nontrivial(self, req, reply):
        if req["k"] == "gen":
            return "err" not in reply and len(rows_of(reply)) >= 2
        return True


def permute_cases(rng, tier, exhaustive_to, sample_above):
    """(stage, place set) pairs: exhaustive for stage <= exhaustive_to, sampled above."""
    for stage in range(1, 17):
        base = list(range(1, stage + 1))
        extra = rng.choice([0, 0, 1, 2])
        row = list(range(1, min(16, stage + extra) + 1))
        rng.shuffle(row)
        if stage <= exhaustive_to:
            for ps in gens.all_place_sets(stage):
                yield {"k": "permute", "stage": stage, "row": base if len(ps) % 3 else row, "places": ps}
        else:
            for _ in range(sample_above):
                if rng.random() < 0.5:
                    # the usual kind: the unnamed places pair up
                    ps, i, pm = [], 1, rng.choice([0.2, 0.4, 0.7])
                    while i <= stage:
                        if rng.random() < pm or i == stage and rng.random() < 0.5:
                            ps.append(i)
                            i += 1
                        else:
                            i += 2
                else:
                    ps = [i for i in base if rng.random() < rng.choice([0.1, 0.3, 0.6])]
                    if rng.random() < 0.2:
                        rng.shuffle(ps)
                yield {"k": "permute", "stage": stage, "row": row, "places": ps}


def gen_case(rng, spec, nrows, call_p=0.0, reset_p=0.0):
    hand = True
    if spec["type"] == "pn":
        hand = (spec.get("start_index") or 0) % 2 == 0
    elif spec["type"] == "comp":
        nsr = 0
        while nsr < len(spec["rows"]) and spec["rows"][nsr][0] == spec["rows"][0][0]:
            nsr += 1
        hand = nsr % 2 == 0
    return {"k": "gen", "gen": spec, "ops": gens.alternating_ops(rng, hand, nrows, call_p, reset_p)}
