from harness import gens
from harness.props import rowgen


class C01(rowgen.RowGenProp):
    id = "C01"
    lean_module = "Wheatley.Props.C01"
    theorems = ["Wheatley.C01.permute_complete", "Wheatley.C01.start_row_complete",
                "Wheatley.C01.gen_rows_complete", "Wheatley.C01.gen_rows_each_bell_once"]
    level_text = ("theorems: every row produced by permute / any generator / the Bot's padding is a permutation of "
                  "the start row (unbounded). correspondence: (stage, place set) pairs exhaustively to a stage bound "
                  "and sampled above, random generators with random call/reset histories; non-trivial = at least two "
                  "rows produced without error; distinct by request hash")

    def cases(self, rng, tier):
        ex = 10 if tier == "quick" else 16
        yield from rowgen.permute_cases(rng, tier, ex, 150)
        n = 400 if tier == "quick" else 4000
        for i in range(n):
            r = rng.random()
            if r < 0.6:
                spec = gens.rand_pn_spec(rng)
            elif r < 0.9:
                spec = gens.rand_special_spec(rng)
            else:
                spec = gens.rand_comp_spec(rng)
            yield rowgen.gen_case(rng, spec, rng.randint(2, 60), call_p=0.15, reset_p=0.03)

    def oracle(self, req, reply):
        return rowgen.oracle_complete(req, reply)


PROP = C01()
