from harness import gens, scen
from harness.props import rowgen


class C01(rowgen.RowGenProp):
    id = "C01"
    fuzz_kinds = {"ring"}
    fuzz_times = False
    lean_module = "Wheatley.Props.C01"
    theorems = ["Wheatley.C01.permute_complete", "Wheatley.C01.start_row_complete",
                "Wheatley.C01.gen_rows_complete", "Wheatley.C01.gen_rows_each_bell_once",
                "Wheatley.C01.opening_extends_start_row", "Wheatley.C01.bot_row_complete",
                "Wheatley.C01.bot_opening_and_rounds",
                "Wheatley.C01.every_row_is_complete", "Wheatley.C01.every_row_each_bell_once",
                "Wheatley.C01.opening_row_always_complete", "Wheatley.C01.loaded_complete"]
    level_text = ("theorems: every row produced by permute / any generator / the Bot's padding is a permutation of "
                  "the start row (unbounded); system level: in every state of every run of the timed world on events that leave the tower's size alone, the row being rung is a permutation of the tower's bells (every_row_is_complete, by the generic lifting BotInvariant.run). correspondence: (stage, place set) pairs exhaustively to a stage bound "
                  "and sampled above, random generators with random call/reset histories; non-trivial = at least two "
                  "rows produced without error; distinct by request hash. Bot level: sessions of the real Bot/Tower (stub "
                  "rhythm) with towers larger than the stage, custom start rows shorter / equal / longer than the "
                  "stage, Go / Bob / Single / That's all histories; oracle: server-mode sessions of several touches with a method of another stage selected in between; oracle: every N consecutive strikes are the N bells")

    def cases(self, rng, tier):
        ex = 10 if tier == "quick" else 16
        yield from rowgen.permute_cases(rng, tier, ex, 150)
        n = 400 if tier == "quick" else 4000
        for i in range(n):
            r = rng.random()
            if r < 0.6:
                spec = gens.rand_pn_spec(rng)
            elif r < 0.9:
                spec = gens.rand_special_spec(rng)
            else:
                spec = gens.rand_comp_spec(rng)
            yield rowgen.gen_case(rng, spec, rng.randint(2, 60), call_p=0.15, reset_p=0.03)
        for i in range(120 if tier == "quick" else 900):
            yield self.bot_session(rng)
        for i in range(25 if tier == "quick" else 300):
            yield self.server_session(rng)

    def server_session(self, rng):
        """Server mode: several touches in one session, a method of another stage selected between them
        (no size change or global state in between), the tower at least as big as every stage."""
        from harness.props.c19 import method_msg
        N = rng.choice([6, 8, 10])
        w = 0.25
        row_t = w * N + 0.01 * N
        t = 1000.3 + rng.random()
        events = []
        touches = []
        on_join = scen.humans_on_join([], "Wheatley", list(range(1, 17)))
        N0 = N
        for k in range(rng.choice([2, 2, 3])):
            if k > 0 and N < 12 and rng.random() < 0.35:
                # the tower is made bigger just before the touch - the Look To follows within milliseconds
                old = N
                N = N + rng.choice([1, 2, 2, 4])
                row_t = w * N + 0.01 * N
                dt = rng.choice([0.003, 0.008, 0.05, 0.3])
                events.append([t - dt, "msg", {"m": "size_change", "size": N}])
                # (Ringing Room gives the new ropes to Wheatley)
                events += [[t - dt + 0.0003 * (i + 1), "msg", {"m": "assign", "bell": b, "user": 5}]
                           for i, b in enumerate(range(old + 1, N + 1))]
            stage = rng.randint(4, N)
            events.append([t - 0.2, "msg", method_msg(stage)])
            events.append(scen.call(t, scen.LOOK_TO))
            touches.append([t, N])
            t_stand = t + rng.uniform(4, 8) * row_t
            events.append(scen.call(t_stand, scen.STAND))
            t = t_stand + 3 * row_t + 0.5 + rng.random()
        events.sort(key=lambda e: e[0])
        sc = {"start": 1000.0, "end": t, "tower_size": N0, "events": events, "on_join": on_join,
              "bot": scen.bot_cfg({"type": "placeholder"}, up_down_in=True, stop_at_rounds=False,
                                  user_name="Wheatley", server_id=rng.randint(1, 9)),
              "rhythm": scen.stub_rhythm(w)}
        return {"k": "world", "scenario": sc, "server": True, "touches": touches}

    def bot_session(self, rng):
        """The rows the Bot rings (with cover bells) in a tower at least as big as the method."""
        stage = rng.randint(3, 12)
        N = min(16, stage + rng.choice([0, 1, 2, 2, 3, 4]))
        r = rng.random()
        if r < 0.6:
            spec = gens.rand_pn_spec(rng, stage=stage, start_row_p=0.0)
        else:
            ty = rng.choice(["grandsire", "plainhunt", "stedman"])
            if ty == "grandsire":
                stage = max(stage, 5)
            if ty == "stedman":
                stage = max(5, stage | 1)
            N = max(N, stage)
            N = min(16, N)
            stage = min(stage, N)
            if ty == "stedman" and stage % 2 == 0:
                stage -= 1
            spec = {"type": ty, "stage": stage, "start_row": None}
        if rng.random() < 0.3 and spec["type"] in ("pn", "plainhunt"):
            # the tower sizes Ringing Room offers, a start row that leaves up to four of the bells out, a method on
            # more bells than the start row names (it is completed for the stage first, then for the tower)
            N = rng.choice([8, 10, 10, 12, 14, 16])
            k = N - rng.choice([1, 2, 3, 4])
            stage = rng.choice([k, min(N, k + 1), min(N, k + 2), N])
            spec = {"type": "plainhunt", "stage": stage, "start_row": None}
            bells = list(range(1, k + 1))
            rng.shuffle(bells)
            spec["start_row"] = "".join(gens.BELLS[b - 1] for b in bells)
        elif rng.random() < 0.6:
            k = max(1, min(N, rng.choice([stage - 1, stage - 2, stage - 3, stage, stage + 1, stage + 2, N])))
            bells = list(range(1, k + 1))
            rng.shuffle(bells)
            spec["start_row"] = "".join(gens.BELLS[b - 1] for b in bells)
        w = 0.25
        row_t = w * N + 0.01 * N
        t0 = 1000.3 + rng.random()
        udi = rng.random() < 0.4
        events = [scen.call(t0, scen.LOOK_TO)]
        go = t0 + rng.uniform(0.3, 2.5) * row_t
        if not udi:
            events.append(scen.call(go, scen.GO))
        t = go
        for _ in range(rng.randint(0, 6)):
            t += rng.uniform(0.2, 3) * row_t
            events.append(scen.call(t, rng.choice([scen.BOB, scen.SINGLE, scen.BOB])))
        end = t + rng.uniform(2, 6) * row_t
        if rng.random() < 0.5:
            events.append(scen.call(end - rng.uniform(2.5, 3.5) * row_t, scen.THATS_ALL))
        on_join = []
        if rng.random() < 0.3:
            # somebody takes a rope or two and lets go again before the touch: the bells are Wheatley's once more
            on_join = scen.humans_on_join([])
            for _ in range(rng.randint(1, 3)):
                b = rng.randint(1, N)
                ta = t0 - rng.uniform(0.5, 0.9)
                events.append([ta, "msg", {"m": "assign", "bell": b, "user": 11}])
                events.append([ta + rng.uniform(0.05, 0.3), "msg",
                               rng.choice([{"m": "assign", "bell": b, "user": 0}, {"m": "user_left", "id": 11}])])
        events.sort(key=lambda e: e[0])
        sc = {"start": 1000.0, "end": end, "tower_size": N, "events": events, "on_join": on_join,
              "bot": scen.bot_cfg(spec, up_down_in=udi, stop_at_rounds=rng.random() < 0.3),
              "rhythm": scen.stub_rhythm(w)}
        return {"k": "world", "scenario": sc}

    def agents(self, req):
        return None

    def impl(self, req):
        if req["k"] == "world":
            return scen.WorldProp.impl(self, req)
        return super().impl(req)

    def to_model(self, req):
        if req["k"] == "world":
            return scen.WorldProp.to_model(self, req)
        return super().to_model(req)

    def compare(self, req, ir, mr):
        if req["k"] == "world":
            return scen.WorldProp.compare(self, req, ir, mr)
        return super().compare(req, ir, mr)

    def tag(self, req, reply):
        if req["k"] == "world" and req.get("server"):
            return "bot:server-mode:stage-changes-between-touches"
        if req["k"] == "world":
            g = req["scenario"]["bot"]["gen"]
            sr = g.get("start_row")
            rel = "none" if sr is None else ("short" if len(sr) < g["stage"] else "equal" if len(sr) == g["stage"] else "long")
            return f"bot:start-{rel}:{'covers' if req['scenario']['tower_size'] > g['stage'] else 'nocovers'}"
        return super().tag(req, reply)

    def nontrivial(self, req, reply):
        if req["k"] == "world":
            return len(reply.get("strikes", [])) >= 3 * req["scenario"]["tower_size"]
        return super().nontrivial(req, reply)

    def oracle(self, req, reply):
        if req["k"] == "world":
            if reply["crashed"] or reply["handler_crashes"]:
                return f"crash: main={reply['crashed']} handlers={reply['handler_crashes']}"
            if req.get("touches"):
                tt = req["touches"] + [[float("inf"), 0]]
                for k in range(len(tt) - 1):
                    t_from, Nk = tt[k]
                    bells = [b for (t, b, _) in reply["strikes"] if t_from <= scen.b2f(t) < tt[k + 1][0]]
                    for i in range(0, len(bells) - len(bells) % Nk, Nk):
                        if sorted(bells[i:i + Nk]) != list(range(1, Nk + 1)):
                            return (f"touch {k + 1}, row {i // Nk} rung by the Bot = {bells[i:i + Nk]} is not each of the "
                                    f"{Nk} tower bells exactly once")
                return None
            N = req["scenario"]["tower_size"]
            for i, r in enumerate(scen.rows_from_strikes(reply, N)):
                if sorted(r) != list(range(1, N + 1)):
                    return f"row {i} rung by the Bot = {r} is not each of the {N} tower bells exactly once"
            return None
        return rowgen.oracle_complete(req, reply)


PROP = C01()
