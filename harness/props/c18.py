import itertools
from urllib.parse import urlparse

from harness import implrun, gens
from harness.framework import Prop

from wheatley import parsing
from wheatley.row_generation import complib_composition_generator as ccg
from wheatley.row_generation.place_notation_generator import PlaceNotationGenerator
from wheatley.aliases import CallDef

OWN = {"peal_speed": parsing.PealSpeedParseError, "call": parsing.CallParseError,
       "start_row": parsing.StartRowParseError, "place_notation": parsing.PlaceNotationError,
       "comp_arg": ccg.InvalidComplibURLError}

ALPHA = {
    "peal_speed": "0159hm -+_ ٣²",
    "call": "014x-.:/ -&,e٣z",
    "start_row": "12340ETe²-",
    "place_notation": "0167:x.-e²٣,&z",
    "comp_arg": "17/?=&:[.ch",
}


def classify(which, f):
    try:
        return {"ok": f()}
    except OWN[which] as e:
        str(e)
        return {"own": type(e).__name__}
    except Exception as e:  # noqa
        return {"crash": type(e).__name__}


def ring_through(gen, leads=3):
    """Actually ring what was accepted: a few leads, a Bob called in the first and a Single in the second."""
    from wheatley.stroke import Stroke
    n = max(4, min(80, leads * max(1, getattr(gen, "lead_len", 12)) + 2))
    for i in range(n):
        if i == 1:
            gen.set_bob()
        if i == n // 2:
            gen.set_single()
        if i == n // 2 + 1:
            gen.set_bob()
        gen.next_row(Stroke.from_index(i))


def impl_parse(req):
    which, s = req["which"], req["s"]
    if which == "peal_speed":
        return classify(which, lambda: parsing.parse_peal_speed(s))
    if which == "call":
        return classify(which, lambda: [[k, v] for k, v in parsing.parse_call(s).items()])
    if which == "start_row":
        return classify(which, lambda: parsing.parse_start_row(s))
    if which == "place_notation":
        res = classify(which, lambda: list(parsing.parse_place_notation(s)))
        rung = None
        if "ok" in res:
            try:
                ring_through(PlaceNotationGenerator(res["ok"][0], res["ok"][1]))
                rung = True
            except Exception:  # noqa
                rung = False
        return {"res": res, "rung": rung}
    if which == "comp_arg":
        res = classify(which, lambda: list(ccg.parse_arg(s)))
        return {"url": comp_url(s), "res": res}
    raise ValueError(which)


CLI_PN = "x16x16x16,12"
CLI_OPTS = {"peal_speed": ["--peal-speed", "-S"], "call": ["--bob", "-b"], "start_row": ["--start-row"],
            "place_notation": ["--place-notation", "-p"], "comp_arg": ["--comp", "-c"]}


def gen_rows(g, n=36):
    """What a generator rings over `n` rows with a Bob called in row 2 and a Single half way."""
    from wheatley.stroke import Stroke
    out = [[b.number for b in g.start_row]]
    for i in range(n):
        if i == 2 or i == n // 2 + 3:
            g.set_bob()
        if i == n // 2:
            g.set_single()
        try:
            row, calls = g.next_row_and_calls(Stroke.from_index(i))
        except Exception as e:  # noqa
            out.append(type(e).__name__)
            break
        out.append([[b.number for b in row], list(calls)])
    return out


def impl_cli(req):
    """The value given on the command line of the real `main(argv)` (nothing is connected, the run stops where
    the Bot would be constructed), next to the value given to the option's own parse function."""
    import random
    from harness import climain
    which, s = req["which"], req["s"]
    base = impl_parse(req)
    res = base["res"] if "res" in base else base
    own_msg = None
    if "own" in res:
        try:
            {"peal_speed": parsing.parse_peal_speed, "call": parsing.parse_call, "start_row": parsing.parse_start_row,
             "place_notation": parsing.parse_place_notation, "comp_arg": ccg.parse_arg}[which](s)
        except OWN[which] as e:
            own_msg = str(e)
    rng = random.Random(f"{which}:{s}")
    opts = CLI_OPTS[which]
    short = not s.startswith("-") and s != "" and rng.random() < 0.5
    given = [rng.choice(opts), s] if short else [opts[0] + "=" + s]
    argv = ["763451928", "--url", "http://fake-rr"]
    if which == "call":
        given = given + ["--single=" + s]
    if which not in ("place_notation", "comp_arg"):
        argv += ["-p", "6:" + CLI_PN]
    argv = argv + given if rng.random() < 0.5 else argv[:1] + given + argv[1:]
    comp_text = implrun.comp_payload({"rows": [["123456", "", ""], ["123456", "", ""], ["214365", "", ""]], "stage": 6})
    r = climain.run(argv, comp_text=comp_text)
    cli = {"outcome": r["outcome"], "argv": argv}
    if r["outcome"] == "exit":
        code = r["code"]
        cli["code"] = code if isinstance(code, (int, type(None))) else str(code)
        cli["own_message"] = bool(own_msg is not None and isinstance(code, str) and own_msg in code)
    elif r["outcome"] == "raise":
        cli["exc"] = type(r["exc"]).__name__
        cli["own_class"] = isinstance(r["exc"], OWN[which])
    elif r["outcome"] == "built" and "ok" in res:
        try:
            if which == "peal_speed":
                got = list((r["rhythm_args"] or {}).values())[0]
                cli["agrees"] = got == res["ok"]
                cli["got"] = got
            elif which == "call":
                cd = CallDef({int(k): v for k, v in res["ok"]})
                want = gen_rows(PlaceNotationGenerator(6, CLI_PN, cd, cd))
                cli["agrees"] = gen_rows(r["gen"]) == want
            elif which == "start_row":
                want = gen_rows(PlaceNotationGenerator(6, CLI_PN, start_row=s))
                cli["agrees"] = gen_rows(r["gen"]) == want
            elif which == "place_notation":
                want = gen_rows(PlaceNotationGenerator(res["ok"][0], res["ok"][1]))
                cli["agrees"] = gen_rows(r["gen"]) == want
            else:
                cli["agrees"] = True
        except Exception as e:  # noqa  (the value cannot be rung at all: the parse-level oracle reports that)
            cli["agrees"] = None
            cli["note"] = type(e).__name__
    base["cli"] = cli
    return base


def comp_url(arg):
    url = arg if "complib.org" in arg else "https://complib.org/composition/" + arg
    if not url.startswith("http"):
        url = "https://" + url
    return url


class C18(Prop):
    id = "C18"
    lean_module = "Wheatley.Props.C18"
    theorems = ["Wheatley.C18.pealSpeed_total",
                "Wheatley.C18.callDef_total",
                "Wheatley.C18.startRow_total",
                "Wheatley.C18.compArg_total",
                "Wheatley.C18.placeNotation_total",
                "Wheatley.C18.pyInt_decimal",
                "Wheatley.C18.valid_implies_convert",
                "Wheatley.C18.accepted_notation_can_be_rung",
                "Wheatley.C18.accepted_stage_in_range",
                "Wheatley.C18.accepted_call_converts",
                "Wheatley.C18.startRow_accepts_iff",
                "Wheatley.C18.pyInt_numeral",
                "Wheatley.C18.pealSpeed_value",
                "Wheatley.C18.pn_never_fails",
                "Wheatley.C18.accepted_notation_rings",
                "Wheatley.C18.cli_bad_start_row", "Wheatley.C18.cli_bad_peal_speed", "Wheatley.C18.cli_bad_place_notation", "Wheatley.C18.cli_bad_call", "Wheatley.C18.cli_built_from_accepted_values"]
    level_text = ("theorems (for every interpretation of Python's digit and white-space tables): the parsers are "
                  "total and never leave their own error class - in particular int() cannot fail after the "
                  "isdecimal() test; parse_peal_speed of a rendered 'XhYY'/'NNN' value gives 60X+YY; valid_pn implies "
                  "convert_pn succeeds; every accepted place notation / call definition builds a generator; a start "
                  "row is accepted iff it is a permutation of 1..max. values: accepted start rows are exactly the rearrangements of 1..k (startRow_accepts_iff); the five documented peal-speed forms give the minutes they say for all numbers (pealSpeed_value). correspondence: every string up to a length "
                  "bound over each parser's alphabet (with a non-ASCII decimal digit, a numeric non-decimal "
                  "character, lower-case bell symbols), grammar-directed and random longer strings; oracle: result is "
                  "a value or the option's own error class, accepted notation/calls/rows can be rung. "
                  "non-trivial = accepted, or rejected by a rule other than the first")

    def cases(self, rng, tier):
        for which, alpha in ALPHA.items():
            maxlen = {"quick": 3, "thorough": 5}[tier] if which != "comp_arg" else {"quick": 3, "thorough": 4}[tier]
            for n in range(0, maxlen + 1):
                for t in itertools.product(alpha, repeat=n):
                    yield self.mk(which, "".join(t))
        n = 1500 if tier == "quick" else 20000
        for i in range(n):
            which = rng.choice(list(ALPHA))
            yield self.mk(which, self.rand_string(rng, which))
        # the same values given on the command line of the real main(argv)
        for which, alpha in ALPHA.items():
            for n in range(0, 3 if tier == "quick" and which != "comp_arg" else 3):
                for t in itertools.product(alpha, repeat=n):
                    # (argparse itself drops a value that is exactly "--": not a value one can give)
                    if (n < 2 or tier != "quick" or rng.random() < 0.4) and "".join(t) != "--":
                        yield dict(self.mk(which, "".join(t)), cli=True)
        for i in range(500 if tier == "quick" else 5000):
            which = rng.choice(list(ALPHA))
            s = self.rand_string(rng, which)
            if s != "--":
                yield dict(self.mk(which, s), cli=True)

    def mk(self, which, s):
        req = {"k": "parse", "which": which, "s": s}
        if which == "comp_arg":
            try:
                p = urlparse(comp_url(s))
                req["urlparse"] = {"path": p.path, "query": p.query}
            except ValueError:
                pass
        return req

    def rand_string(self, rng, which):
        if which == "peal_speed":
            h, m = rng.randint(0, 12), rng.randint(0, 75)
            forms = [f"{h}h{m}", f"{h}h{m:02d}m", f"{h * 60 + m}", f" {h}h {m} ", f"{h}h", f"{m}m", f"-{h}h{m}",
                     f"{h}hh{m}", f"{h}h{m}h", f"{h}_0h{m}", "٣h٤", f"{h}h{m}.5", f"+{m}", "h", "m", "", f"{h} h {m} m"]
            if rng.random() < 0.35:
                # what Python's own number readers accept beyond plain digits, and numbers too big for a float
                tok = rng.choice(["nan", "NaN", "inf", "-inf", "Infinity", "1e3", "1e999", "1.5", "2.", ".5", "0x1f", "0b11",
                                  "1_000", "9007199254740993", "9" * rng.randint(17, 30), "9" * 400, "1e-3", "1j", "True",
                                  "٣.٥", "1e٣", " 2.5 ", "0.0", "-0", "+1.0"])
                forms = [f"{tok}h", f"{tok}h{m}", f"{h}h{tok}", tok, f"{tok}m", f"{tok}h{m}m", f" {tok} h {m} m"]
            return rng.choice(forms)
        if which == "call":
            segs = []
            for _ in range(rng.choice([1, 1, 2, 3])):
                pn = rng.choice(["14", "1234", "3.123", "x", "-", "16", "e", "zz", "", "1 4", "3,1", "&x1", "٣"])
                loc = rng.choice(["", f"{rng.randint(-20, 40)}:", " 0 : ", "a:", ":", "1:2:", "-1: ", "٣:", "1_0:"])
                segs.append(loc + pn)
            return "/".join(segs)
        if which == "start_row":
            n = rng.randint(0, 16)
            bells = list(gens.BELLS[:n])
            rng.shuffle(bells)
            s = "".join(bells)
            r = rng.random()
            if r < 0.2 and s:
                s = s[:-1]
            elif r < 0.3 and s:
                s = s + s[0]
            elif r < 0.4:
                s = s + rng.choice("ezF ²")
            return s
        if which == "place_notation":
            stage = rng.choice(["6", "8", "0", "17", "16", "1", "٨", "²", "", " 6", "6 ", "-6", "06", "1_0", "x"])
            pn = rng.choice(["x16x16x16,12", "&x1x1x1,2", "3.1.5", "e", "x1e", "z", "", "1:2", "-1-1", "+3.1,", "T.E"])
            return rng.choice([f"{stage}:{pn}", f"{stage}{pn}", f"{stage}:{pn}:"])
        base = rng.choice(["73916", "complib.org/composition/73916", "https://complib.org/composition/73916",
                           "http://www.complib.org/composition/73916/rows", "api.complib.org/composition/7",
                           "http:complib.org/composition/1", "https://[complib.org/composition/1", "complib.org",
                           "complib.org/method/5", "complib.org/composition/abc", "12abc", "", "-4", " 12 ",
                           "complib.org//composition/3", "ftp.complib.org/composition/9"])
        q = rng.choice(["", "", "?accessKey=abc123", "?substitutedmethodid=27600", "?substitutedmethodid=x",
                        "?accessKey=a&substitutedmethodid=5", "?a=b=c&accessKey=k", "?accessKey", "#frag",
                        "?substitutedmethodid=" + rng.choice(["²", "2³", "①", "₁₂", "٢٠٣٣٦", "", " 7 ", "+5", "-3", "1_0",
                                                             "0x1F", "1e3", "٣x", "５"]),
                        "?accessKey=" + rng.choice(["", "k=v", "²", "a b"]) + "&substitutedmethodid=" + rng.choice(["9", "x", "²"])])
        return base + q

    generated_deps = ["Constants.lean", "CharTables.lean", "CliDefaults.lean"]
    # whole command lines: how they are refused, and what the values given turn into
    cli_fields = ["refusals", "source", "peal_speed"]
    cli_n = (600, 8000)

    def impl(self, req):
        return impl_cli(req) if req.get("cli") else impl_parse(req)

    def to_model(self, req):
        return {k: v for k, v in req.items() if k != "cli"}

    def compare(self, req, ir, mr):
        if isinstance(ir, dict) and "cli" in ir:
            ir = {k: v for k, v in ir.items() if k != "cli"}
        return super().compare(req, ir, mr)

    def tag(self, req, reply):
        res = reply["res"] if "res" in reply else reply
        if "cli" in reply:
            return f"cli:{req['which']}:{list(res)[0]}:{reply['cli']['outcome']}"
        return f"{req['which']}:len{min(len(req['s']), 9)}:{list(res)[0]}"

    def nontrivial(self, req, reply):
        res = reply["res"] if "res" in reply else reply
        return "ok" in res

    def oracle(self, req, reply):
        res = reply["res"] if "res" in reply else reply
        cli = reply.get("cli")
        if cli is not None and "crash" not in res:
            how = " ".join(cli["argv"][1:])
            if "own" in res:
                ok = cli["outcome"] == "exit" and cli.get("own_message") or cli["outcome"] == "raise" and cli.get("own_class")
                if not ok:
                    what = f"SystemExit({cli.get('code')!r})" if cli["outcome"] == "exit" else \
                        cli.get("exc", cli["outcome"])
                    return (f"main({how!r}): the value is refused by {req['which']}'s rules ({res['own']}) but the "
                            f"command line answers with {what}, not with that option's own error")
            elif "ok" in res:
                if cli["outcome"] != "built":
                    what = f"SystemExit({cli.get('code')!r})" if cli["outcome"] == "exit" else cli.get("exc", cli["outcome"])
                    if not (req["which"] == "place_notation" and reply.get("rung") is not True):
                        return f"main({how!r}): the value is valid but the command line answers with {what}"
                elif cli.get("agrees") is False:
                    return (f"main({how!r}): the value given on the command line is not the value the syntax defines"
                            + (f" (got {cli['got']!r}, the syntax says {res['ok']!r})" if "got" in cli else ""))
        if "crash" in res:
            return f"{req['which']}({req['s']!r}) raised {res['crash']} instead of its own error"
        if req["which"] == "place_notation" and "ok" in res and reply["rung"] is not True:
            return f"place notation {req['s']!r} was accepted but no row generator can be built from it"
        if req["which"] == "call" and "ok" in res:
            try:
                cd = CallDef({int(k): v for k, v in res["ok"]})
                for stage, pn in ((6, "x16"), (6, "x16x16x16,12"), (8, "x18x18x18x18,12"), (5, "5.1.5.1.5,125")):
                    ring_through(PlaceNotationGenerator(stage, pn, cd, cd))
            except Exception as e:  # noqa
                return f"call definition {req['s']!r} was accepted but cannot be rung ({type(e).__name__})"
            # ... and rung, it is the call the syntax defines (for definitions written without & , +): Plain Bob
            # Minor with that definition for Bob and Single, a Bob called at once and a Single half way
            import re
            if all(re.fullmatch(r"[0-9ETx.\-]+", v) and ".." not in v and not v.startswith(".") and not v.endswith(".")
                   for _, v in res["ok"]):
                def changes_of(text):
                    out = []
                    for piece in re.findall(r"[x\-]|[0-9ET]+", text):
                        out.append([] if piece in "x-" else sorted(gens.BELLS.index(c) + 1 for c in piece))
                    return out
                ref = {int(k): changes_of(v) for k, v in res["ok"]}
                if all(all(all(p <= 6 for p in ch) for ch in chs) for chs in ref.values()):
                    method = [[], [1, 6]] * 5 + [[], [1, 2]]
                    ops = "b" + "HB" * 9 + "s" + "HB" * 9
                    want, ok = gens.ref_call_rows(6, method, 0, [1, 2, 3, 4, 5, 6], ref, ref, ops)
                    cd = CallDef({int(k): v for k, v in res["ok"]})
                    got = implrun.impl_gen_on(PlaceNotationGenerator(6, "x16x16x16,12", cd, cd), ops)
                    rows = [o["row"] for o in got["outs"] if isinstance(o, dict)]
                    if ok and rows != want:
                        i = next((i for i in range(min(len(rows), len(want))) if rows[i] != want[i]), min(len(rows), len(want)))
                        return (f"call definition {req['s']!r} is accepted but not rung as written: row {i} is "
                                f"{rows[i] if i < len(rows) else None}, the definition gives {want[i] if i < len(want) else None}")
        if req["which"] == "start_row" and "ok" in res:
            try:
                implrun.helpers.generate_starting_row(max(res["ok"], 4), req["s"])
                L = min(res["ok"], 16)
                # with a method of its own size and with smaller ones (the start row's other bells then cover)
                for stage in sorted({max(L, 4), max(2, L - 1), max(2, L - 2), min(L, 4) if L >= 2 else 4}):
                    ring_through(PlaceNotationGenerator(stage, "x1", start_row=req["s"]), 2)
            except Exception as e:  # noqa
                return f"start row {req['s']!r} was accepted but cannot be rung ({type(e).__name__})"
            want = sorted(gens.BELLS[:len(req["s"])])
            if sorted(req["s"]) != want:
                return f"start row {req['s']!r} accepted although it is not a permutation of the first {len(req['s'])} bells"
        if req["which"] == "peal_speed":
            # the documented forms, in plain digits: XhYY(m), Xh, NNN(m) - minutes below 60 after an hour value
            import re
            m1 = re.fullmatch(r"\s*([0-9]+)\s*h\s*(?:([0-9]+)\s*m?)?\s*", req["s"])
            m2 = re.fullmatch(r"\s*([0-9]+)\s*m?\s*", req["s"])
            want = None
            if m1 and (m1.group(2) is None or int(m1.group(2)) <= 59):
                want = 60 * int(m1.group(1)) + int(m1.group(2) or 0)
            elif m2:
                want = int(m2.group(1))
            if want is not None and res.get("ok") != want:
                return f"peal speed {req['s']!r} is {want} minutes as documented, Wheatley made of it {res}"
        if req["which"] == "peal_speed" and "ok" in res and res["ok"] < 0:
            return f"peal speed {req['s']!r} parsed to a negative number"
        return None


PROP = C18()
