from harness import gens, implrun
from harness.props import rowgen


class C05(rowgen.RowGenProp):
    id = "C05"
    lean_module = "Wheatley.Props.C05"
    theorems = ["Wheatley.C05.reset_is_init", "Wheatley.C05.second_touch_fresh",
                "Wheatley.C05.touch_after_reset_fresh"]
    level_text = ("theorems: reset() of every state equals the freshly constructed generator, hence the rows after a "
                  "reset equal a fresh generator's rows for every pair of histories (unbounded). correspondence: "
                  "histories ops1;reset;ops2 with ops1 ending at every offset inside multi-change calls, all generator "
                  "kinds; oracle: touch-2 rows = rows of a freshly constructed real generator given ops2. "
                  "non-trivial = touch 1 left something behind (a pending flag, a queued call or a moved row)")

    def corpus(self):
        # the witness of the defect repaired by the first fix: commit (Grandsire 7, 12 rows, Single, 1 row, reset)
        return [{"k": "gen", "gen": {"type": "grandsire", "stage": 7, "start_row": None},
                 "ops": "HBHBHBHBHBHB" + "sH" + "r" + "HBHBHB"}]

    def cases(self, rng, tier):
        n = 500 if tier == "quick" else 6000
        for i in range(n):
            r = rng.random()
            if r < 0.6:
                spec = gens.rand_pn_spec(rng, start_row_p=0.2)
            elif r < 0.9:
                spec = gens.rand_special_spec(rng)
            else:
                spec = gens.rand_comp_spec(rng)
            c1 = rowgen.gen_case(rng, spec, rng.randint(1, 60), call_p=0.25)
            c2 = rowgen.gen_case(rng, spec, rng.randint(1, 40), call_p=0.15)
            yield {"k": "gen", "gen": spec, "ops": c1["ops"] + "r" + c2["ops"]}

    def nontrivial(self, req, reply):
        return "err" not in reply and "r" in req["ops"] and len(req["ops"].split("r")[0]) > 0

    def oracle(self, req, reply):
        if req["k"] != "gen" or "err" in reply or "r" not in req["ops"]:
            return None
        ops1, ops2 = req["ops"].split("r", 1)
        if "r" in ops2:
            return None
        fresh = implrun.impl_gen({"k": "gen", "gen": req["gen"], "ops": ops2})
        n1 = sum(1 for c in ops1 if c in "HB")
        got = reply["outs"][n1:]
        if got != fresh["outs"]:
            return f"second touch {got[:3]}... differs from a fresh generator's {fresh['outs'][:3]}..."
        return None


PROP = C05()
