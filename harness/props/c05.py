from harness import gens, implrun, scen
from harness.props import rowgen
from harness.scen import call, LOOK_TO, GO, THATS_ALL, ROUNDS, BOB, SINGLE

_WORLD = scen.WorldProp()


class C05(rowgen.RowGenProp):
    id = "C05"
    lean_module = "Wheatley.Props.C05"
    theorems = ["Wheatley.C05.reset_is_init", "Wheatley.C05.second_touch_fresh",
                "Wheatley.C05.touch_after_reset_fresh", "Wheatley.C05.method_start_resets",
                "Wheatley.C05.idle_is_fresh", "Wheatley.C05.every_touch_starts_afresh",
                "Wheatley.C05.method_generator_is_a_fresh_one",
                "Wheatley.C05.pending_thats_all_cancels_start"]
    level_text = ("theorems: reset() of every state equals the freshly constructed generator, hence the rows after a "
                  "reset equal a fresh generator's rows for every pair of histories (unbounded); system level: from any "
                  "idle Bot with its generator in ANY state, in every state of every run on any events, whenever the "
                  "method is being rung the generator is a freshly constructed one plus the row requests, Bobs and "
                  "Singles made of it - no reset needed, nothing inherited. correspondence: "
                  "histories ops1;reset;ops2 with ops1 ending at every offset inside multi-change calls, all generator "
                  "kinds; oracle: touch-2 rows = rows of a freshly constructed real generator given ops2. "
                  "non-trivial = touch 1 left something behind (a pending flag, a queued call or a moved row)")

    def corpus(self):
        # the witness of the defect repaired by the first fix: commit (Grandsire 7, 12 rows, Single, 1 row, reset)
        return [{"k": "gen", "gen": {"type": "grandsire", "stage": 7, "start_row": None},
                 "ops": "HBHBHBHBHBHB" + "sH" + "r" + "HBHBHB"}]

    def cases(self, rng, tier):
        n = 500 if tier == "quick" else 6000
        for i in range(n):
            r = rng.random()
            if r < 0.6:
                spec = gens.rand_pn_spec(rng, start_row_p=0.2)
            elif r < 0.9:
                spec = gens.rand_special_spec(rng)
            else:
                spec = gens.rand_comp_spec(rng)
            c1 = rowgen.gen_case(rng, spec, rng.randint(1, 60), call_p=0.25)
            c2 = rowgen.gen_case(rng, spec, rng.randint(1, 40), call_p=0.15)
            yield {"k": "gen", "gen": spec, "ops": c1["ops"] + "r" + c2["ops"]}
        yield from self.world_cases(rng, 90 if tier == "quick" else 600)
        for _ in range(20 if tier == "quick" else 200):
            yield self.server_touches(rng)
        for _ in range(30 if tier == "quick" else 300):
            yield self.fresh_pair(rng)

    def fresh_pair(self, rng):
        """The statement itself as a pair of sessions: a session of two touches - the tower possibly resized in
        between - and a freshly launched Wheatley that only rings the second; from the second Look To on they must
        strike the same bells in the same order."""
        w = 0.25
        kind = rng.choice(["comp", "comp", "pn", "plainhunt"])
        if kind == "comp":
            spec = gens.rand_comp_spec(rng, stage=rng.randint(4, 8), calls=False, nrows=rng.randint(2, 9))
        elif kind == "pn":
            spec = gens.rand_pn_spec(rng, stage=rng.randint(4, 8), calls=True, start_row_p=0.3)
        else:
            spec = {"type": "plainhunt", "stage": rng.randint(4, 8), "start_row": None}
        s = spec["stage"]
        sizes = [n for n in [4, 5, 6, 8, 10, 12] if n >= max(s, len(spec.get("start_row") or ""))]
        N1 = rng.choice(sizes)
        N2 = rng.choice(sizes + [N1])
        sar = rng.random() < 0.7
        t0 = 1000.3 + rng.random()
        row1 = (w + 0.01) * N1
        rows1 = (len(spec["rows"]) + 6) if kind == "comp" else rng.randint(6, 2 * s + 6)
        t_stand = t0 + 3 + rows1 * row1
        events = [call(t0, LOOK_TO)]
        for _ in range(rng.choice([0, 1, 2])):
            if kind != "comp":
                events.append(call(rng.uniform(t0 + 3, t_stand), rng.choice([BOB, SINGLE])))
        events.append(call(t_stand, scen.STAND))
        t1 = t_stand + 3 * row1 + 1.0 + rng.random()
        between = []
        if N2 != N1:
            between.append([t1 - 0.6, "msg", {"m": "size_change", "size": N2}])
        between.append([t1 - 0.3, "msg", {"m": "global_state", "state": [True] * N2}])
        row2 = (w + 0.01) * N2
        rows2 = (len(spec["rows"]) + 7) if kind == "comp" else rng.randint(6, 2 * s + 6)
        end = t1 + 3 + rows2 * row2
        second = [call(t1, LOOK_TO)]
        bot = scen.bot_cfg(spec, up_down_in=True, stop_at_rounds=sar)
        sc = {"start": 1000.0, "end": end, "tower_size": N1, "events": sorted(events + between + second, key=lambda e: e[0]),
              "bot": bot, "rhythm": scen.stub_rhythm(w)}
        fresh = {"start": t1 - 1.0, "end": end, "tower_size": N2, "events": second, "bot": bot, "rhythm": scen.stub_rhythm(w)}
        return {"k": "world", "scenario": sc, "fresh": fresh, "t1": t1, "go2": None, "t0": t0}

    def server_touches(self, rng):
        """Server mode: two or three touches in one session, a method of another stage selected between them; each
        touch must be the rows a freshly launched Wheatley would ring (covers included)."""
        from harness.props.c19 import method_msg
        N = rng.choice([6, 8, 10])
        w = 0.25
        row_t = w * N + 0.01 * N
        t = 1000.3 + rng.random()
        events, touches = [], []
        for k in range(rng.choice([2, 2, 3])):
            stage = rng.randint(4, N)
            events.append([t - 0.2, "msg", method_msg(stage)])
            events.append(call(t, LOOK_TO))
            touches.append([t, stage])
            t_stand = t + rng.uniform(4, 8) * row_t
            events.append(call(t_stand, scen.STAND))
            t = t_stand + 3 * row_t + 0.5 + rng.random()
        sc = {"start": 1000.0, "end": t, "tower_size": N, "events": events,
              "on_join": scen.humans_on_join([], "Wheatley", list(range(1, 17))),
              "bot": scen.bot_cfg({"type": "placeholder"}, up_down_in=True, stop_at_rounds=False,
                                  user_name="Wheatley", server_id=rng.randint(1, 9)),
              "rhythm": scen.stub_rhythm(w)}
        return {"k": "world", "scenario": sc, "touches": touches, "go2": None, "t0": touches[0][0]}

    def world_cases(self, rng, n, long_start_p=0.3):
        # the same through the Bot: the method is started a second time in one session - by a second Go
        # after That's all / Rounds - and must begin as a freshly launched Wheatley would
        for i in range(n):
            N = rng.choice([4, 5, 6, 8])
            stage = rng.choice([N, N - 1]) if N > 4 else N
            long_start = N >= 6 and rng.random() < long_start_p
            if long_start:
                stage = rng.randint(3, N - 2)
            spec = gens.rand_pn_spec(rng, stage=stage, calls=True, start_row_p=0.0)
            if long_start:
                # a start row on more bells than the method and fewer than the tower: its tail and the tower's
                # remaining bells cover, in that order
                bells = list(range(1, rng.randint(stage + 1, N - 1) + 1))
                rng.shuffle(bells)
                spec["start_row"] = "".join(gens.BELLS[b - 1] for b in bells)
            spec["start_index"] = rng.choice([0, 0, 1, -1, 2])
            ps = 60
            I = scen.interval(ps, N)
            row_t = I * (N + 0.5)
            t0 = 1000.3 + rng.random()
            go1 = t0 + 3 + rng.uniform(0.2, 1.8) * row_t
            k1 = rng.uniform(3, 9)
            back = go1 + (k1 + 2) * row_t
            go2 = back + rng.uniform(3.2, 6) * row_t
            events = [call(t0, LOOK_TO), call(go1, GO), call(back, rng.choice([THATS_ALL, ROUNDS])), call(go2, GO)]
            for _ in range(rng.choice([0, 1, 2])):
                events.append(call(rng.uniform(go1, back), rng.choice([BOB, SINGLE])))
            rep_ta = None
            if rng.random() < 0.5:
                # That's all repeated (or called late) in the rounds between the touches, at least one whole row before
                # the second Go: it is absorbed at the next row end and must leave nothing behind for the new touch
                rep_ta = go2 - rng.uniform(1.15, 1.9) * row_t
                events.append(call(rep_ta, THATS_ALL))
            pre = None
            if rng.random() < 0.5:
                # a Bob or Single called in the rounds between the second Go and the start of the method: it was
                # made before that start, so the touch must be the plain one (when it turns out to have landed
                # after the start the oracle makes no claim).  The touch then lasts a whole lead, so that a call
                # that wrongly survived the start would be seen to act.
                pre = [go2 + rng.uniform(0.05, 1.9) * row_t, rng.choice([BOB, SINGLE])]
                events.append(call(pre[0], pre[1]))
            events.sort(key=lambda e: e[0])
            L = len(gens.denote([(p, c) for p, c in spec["_ast"]]))
            rows_after = 9 if pre is None else min(26, L + 5)
            sc = {"start": 1000.0, "end": go2 + rows_after * row_t, "tower_size": N, "events": events,
                  "bot": scen.bot_cfg(spec), "rhythm": scen.rhythm_cfg("regression", inertia=1.0, peal_speed=ps)}
            yield {"k": "world", "scenario": sc, "go2": go2, "t0": t0, "pre_call": pre, "rep_ta": rep_ta}

    def impl(self, req):
        if req["k"] == "world":
            rep = scen.WorldProp.impl(_WORLD, req)
            if req.get("fresh"):
                from harness import sim
                res = sim.run(req["fresh"], None)
                rep["fresh_strikes"] = [b for (t, b, by) in res["sim"].strikes]
                rep["fresh_crashed"] = res["crashed"]
            return rep
        return super().impl(req)

    def to_model(self, req):
        if req["k"] == "world":
            return req.pop("_model_req", None)
        return super().to_model(req)

    def compare(self, req, ir, mr):
        if req["k"] == "world":
            ir = {k: v for k, v in ir.items() if not k.startswith("fresh_")}
            return scen.WorldProp.compare(_WORLD, req, ir, mr)
        return super().compare(req, ir, mr)

    def tag(self, req, reply):
        if req["k"] == "world":
            return "bot:fresh-pair:" + req["scenario"]["bot"]["gen"]["type"] if req.get("fresh") else "bot:second-go"
        return super().tag(req, reply)

    def oracle_world(self, req, reply):
        sc = req["scenario"]
        if reply["crashed"] or reply["handler_crashes"]:
            return f"crash: main={reply['crashed']} handlers={reply['handler_crashes']}"
        if req.get("fresh"):
            second = [b for (t, b, _) in reply["strikes"] if scen.b2f(t) >= req["t1"]]
            fresh = reply["fresh_strikes"]
            N2 = req["fresh"]["tower_size"]
            if second != fresh:
                i = next((i for i, (a, b) in enumerate(zip(second, fresh)) if a != b), min(len(second), len(fresh)))
                return (f"second touch on {N2} bells after a first on {sc['tower_size']}: strike {i} (row {i // N2}) is "
                        f"{second[i] if i < len(second) else None}, a freshly launched Wheatley strikes "
                        f"{fresh[i] if i < len(fresh) else None} ({len(second)} strikes against {len(fresh)})")
            return None
        if req.get("touches"):
            from harness.props.c19 import plain_rows
            N = sc["tower_size"]
            tt = req["touches"] + [[float("inf"), 0]]
            for k in range(len(tt) - 1):
                t_from, stage = tt[k]
                bells = [b for (t, b, _) in reply["strikes"] if t_from <= scen.b2f(t) < tt[k + 1][0]]
                rows = [bells[i:i + N] for i in range(0, len(bells) - len(bells) % N, N)]
                want = [list(range(1, N + 1))] * 2 + [r + list(range(stage + 1, N + 1)) for r in plain_rows(stage, 40)]
                for i, r in enumerate(rows):
                    if i < len(want) and r != want[i]:
                        return (f"touch {k + 1} (stage {stage} on {N}): row {i} is {r}, a freshly launched Wheatley rings "
                                f"{want[i]}")
            return None
        N = sc["tower_size"]
        spec = sc["bot"]["gen"]
        rows = scen.rows_from_strikes(reply, N)
        strikes = reply["strikes"]
        k = sum(1 for (t, _, _) in strikes if scen.b2f(t) < req["go2"]) // N
        if k >= len(rows) or rows[k] != rows[0]:
            return None      # the second Go did not arrive during rounds: nothing to judge
        hand_start = (spec.get("start_index") or 0) % 2 == 0
        m = k + 1
        while (m % 2 == 0) != hand_start:
            m += 1
        pre = req.get("pre_call")
        if pre is not None:
            if m * N - 1 >= len(strikes) or pre[0] >= scen.b2f(strikes[m * N - 1][0]) - 0.0011:
                return None      # the call did not clearly precede the start of the method
        ast = [(p, c) for p, c in spec["_ast"]]
        opening = list(range(1, N + 1))
        if spec.get("start_row"):
            start = [gens.BELLS.index(c) + 1 for c in spec["start_row"]]
            opening = start + [b for b in range(1, N + 1) if b not in start]
        fresh = gens.ref_rows(spec["stage"], gens.denote(ast), opening[:spec["stage"]],
                              spec.get("start_index") or 0, 30)
        covers = opening[spec["stage"]:]
        for j in range(len(rows) - m):
            if rows[m + j] != fresh[j] + covers:
                return (f"second start of the method (row {m}): row {j} is {rows[m + j]}, a freshly launched Wheatley "
                        f"rings {fresh[j] + covers}")
        return None

    def matches_finding(self, finding, req, msg):
        """C05-pending-thats-all-cancels-go: a That's all called before the Go, in rows that are not rounds (a custom
        start row rung again after 'Rounds'), is still counting down when the method starts and turns the start into
        rounds.  Only that: the opening row differs from rounds, there is such a That's all, and what is rung instead
        of the method's first row is rounds."""
        if finding["id"] != "C05-pending-thats-all-cancels-go" or req.get("k") != "world" or not req.get("rep_ta"):
            return False
        sc = req["scenario"]
        N = sc["tower_size"]
        spec = sc["bot"]["gen"]
        if not spec.get("start_row"):
            return False
        start = [gens.BELLS.index(c) + 1 for c in spec["start_row"]]
        opening = start + [b for b in range(1, N + 1) if b not in start]
        rounds = list(range(1, N + 1))
        return opening != rounds and msg.startswith("second start of the method") and f"row 0 is {rounds}," in msg

    def nontrivial(self, req, reply):
        if req["k"] == "world":
            return len(scen.rings(reply)) > 8
        return "err" not in reply and "r" in req["ops"] and len(req["ops"].split("r")[0]) > 0

    def oracle(self, req, reply):
        if req["k"] == "world":
            return self.oracle_world(req, reply)
        if req["k"] != "gen" or "err" in reply or "r" not in req["ops"]:
            return None
        ops1, ops2 = req["ops"].split("r", 1)
        if "r" in ops2:
            return None
        fresh = implrun.impl_gen({"k": "gen", "gen": req["gen"], "ops": ops2})
        n1 = sum(1 for c in ops1 if c in "HB")
        got = reply["outs"][n1:]
        if got != fresh["outs"]:
            return f"second touch {got[:3]}... differs from a fresh generator's {fresh['outs'][:3]}..."
        return None


PROP = C05()
