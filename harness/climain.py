"""The real `wheatley.main.main(argv)` run as far as the construction of the Bot: what the command line was
turned into (row generator, rhythm parameters, Bot flags), or how it was refused.  Nothing is connected: the tower
page comes from the fake web, `Bot` is replaced by a recorder whose constructor stops the run.

Used (a) by the row-generator checks, which build a share of their generators through the command line instead
of calling the constructors themselves, and (b) by C18's command-line cases.
"""
import contextlib
import inspect
import io
import random

from harness import implrun

from wheatley import main as wmain

PAGE = '<script>window.tower_parameters = { id: 1, server_ip: "http://fake-rr" };</script>'
STAGE_NAMES = {3: "singles", 4: "minimus", 5: "doubles", 6: "minor", 7: "triples", 8: "major", 9: "caters",
               10: "royal", 11: "cinques", 12: "maximus", 13: "sextuples", 14: "fourteen", 15: "septuples",
               16: "sixteen"}     # (the harness's own table, from the ringing vocabulary)


class _Built(Exception):
    pass


RHYTHM_FIELDS = ["peal_speed", "inertia", "max_bells_in_dataset", "handstroke_gap", "use_wait", "initial_inertia"]


def canon_rhythm_args(bound):
    """What `create_rhythm` was given, by the names of its six settings and in that order - whether they came as
    six parameters or packed into one settings object (a NamedTuple, a dataclass)."""
    import dataclasses
    flat = {}
    for name, v in bound.items():
        if hasattr(v, "_asdict"):
            flat.update(v._asdict())
        elif dataclasses.is_dataclass(v) and not isinstance(v, type):
            flat.update({f.name: getattr(v, f.name) for f in dataclasses.fields(v)})
        else:
            flat[name] = v
    if all(f in flat for f in RHYTHM_FIELDS[:5]):
        return {f: flat.get(f, 0) for f in RHYTHM_FIELDS}
    vals = list(flat.values())           # (renamed: by position)
    return dict(zip(RHYTHM_FIELDS, vals + [0] * (len(RHYTHM_FIELDS) - len(vals))))


def make_rhythm(**kw):
    """`create_rhythm` called with the six settings by name, however its signature packs them."""
    import typing
    create = wmain.create_rhythm
    sig = inspect.signature(create)
    names = list(sig.parameters)
    if set(RHYTHM_FIELDS[:5]) <= set(names):
        return create(**{k: kw[k] for k in names if k in kw})
    if len(names) == 1:
        try:
            T = typing.get_type_hints(create).get(names[0])
        except Exception:  # noqa
            T = None
        if isinstance(T, type):
            fields = getattr(T, "_fields", None) or [f for f in getattr(T, "__dataclass_fields__", {})]
            if fields and set(RHYTHM_FIELDS[:5]) <= set(fields):
                return create(T(**{k: kw[k] for k in fields if k in kw}))
    return create(*[kw[f] for f in RHYTHM_FIELDS])


def run(argv, comp_text=None, xml_text=None):
    """-> {"outcome": "built", "gen": <row generator>, "rhythm_args": {...}, "bot": {...}, "tower": (id, url)}
       |  {"outcome": "exit", "code": <SystemExit.code>, "stderr": text}
       |  {"outcome": "raise", "exc": <exception>}"""
    routes = [lambda url, params: implrun.FakeResponse(PAGE)
              if "complib" not in url and "methods.ringing.org" not in url and "cccbr" not in url else None]
    if comp_text is not None:
        routes.insert(0, lambda url, params: implrun.FakeResponse(comp_text) if "complib" in url else None)
    if xml_text is not None:
        routes.insert(0, lambda url, params: implrun.FakeResponse(xml_text) if "complib" not in url and "fake-rr" not in url
                      and "ringingroom" not in url else None)
    saved_routes = implrun.HTTP.routes
    implrun.HTTP.routes = routes
    real_create, real_bot, real_tower = wmain.create_rhythm, wmain.Bot, wmain.RingingRoomTower
    cap = {}

    class Tower(real_tower):
        def __init__(self, *a, **k):
            cap["tower_args"] = list(a) + list(k.values())
            super().__init__(*a, **k)

    def create_rhythm(*a, **k):
        try:
            b = inspect.signature(real_create).bind(*a, **k)
            b.apply_defaults()
            cap["rhythm_args"] = canon_rhythm_args(dict(b.arguments))
        except TypeError:
            cap["rhythm_args"] = {"args": a, "kwargs": k}
        r = real_create(*a, **k)
        cap["rhythm"] = r
        return r

    class Bot(real_bot):
        def __init__(self, *a, **k):  # noqa (the real constructor is deliberately not run)
            try:
                b = inspect.signature(real_bot.__init__).bind(None, *a, **k)
                b.apply_defaults()
                cap["bot"] = {n: v for n, v in b.arguments.items() if n != "self"}
            except TypeError:
                cap["bot"] = {"args": a, "kwargs": k}
            raise _Built()

    wmain.create_rhythm, wmain.Bot, wmain.RingingRoomTower = create_rhythm, Bot, Tower
    err = io.StringIO()
    try:
        with contextlib.redirect_stderr(err), contextlib.redirect_stdout(io.StringIO()):
            wmain.main(list(argv))
        return {"outcome": "returned"}
    except _Built:
        gen = next((v for v in cap.get("bot", {}).values()
                    if hasattr(v, "next_row_and_calls") or hasattr(v, "next_row")), None)
        return {"outcome": "built", "gen": gen, "rhythm_args": cap.get("rhythm_args"), "bot": cap.get("bot"),
                "rhythm": cap.get("rhythm"), "tower_args": cap.get("tower_args")}
    except SystemExit as e:
        return {"outcome": "exit", "code": e.code, "stderr": err.getvalue()}
    except Exception as e:  # noqa
        return {"outcome": "raise", "exc": e}
    finally:
        wmain.create_rhythm, wmain.Bot, wmain.RingingRoomTower = real_create, real_bot, real_tower
        implrun.HTTP.routes = saved_routes


STATS = {"built": 0, "refused": 0, "no_spelling": 0}
CLEAN = set("x-.&+,1234567890ETABCDetabcd")


def gen_argv(spec, rng=None):
    """The command-line spelling of a generator specification, or None when it has none (an empty call
    definition, characters the option syntax uses itself, server-only kinds)."""
    rng = rng or random.Random(repr(sorted((k, str(v)) for k, v in spec.items())))
    ty = spec.get("type")
    sr = spec.get("start_row")
    argv = ["763451928", "--url", "http://fake-rr"]
    if ty in ("plainhunt", "grandsire", "stedman", "dixon"):
        st = spec["stage"]
        if not 3 <= st <= 16:
            return None
        if ty == "grandsire" and st < 5 or ty == "stedman" and (st < 5 or st % 2 == 0) or ty == "dixon" and st != 6:
            return None
        title = {"plainhunt": rng.choice(["Plain Hunt", "plain hunt on", "PLAIN HUNT"]), "grandsire": "Grandsire",
                 "stedman": rng.choice(["Stedman", "stedman"]), "dixon": "Dixon's Bob"}[ty]
        argv += [rng.choice(["--method", "-m"]), f"{title} {rng.choice([str(st), STAGE_NAMES[st].title()])}"]
    elif ty == "pn":
        m = spec["method"]
        if not m or not set(m) <= CLEAN or not 1 <= spec["stage"] <= 16:
            return None
        val = f"{spec['stage']}:{m}"
        argv += rng.choice([["-p", val], ["--place-notation", val], [f"--place-notation={val}"]])
        for key, opts in (("bob", ["--bob", "-b"]), ("single", ["--single", "-n"])):
            d = spec.get(key)
            if d is not None:
                if not d or any(not pn or not set(pn) <= CLEAN for _, pn in d):
                    return None
                if len({int(pos) for pos, _ in d}) != len(d):
                    return None
                if len(d) == 1 and int(d[0][0]) == 0 and rng.random() < 0.5:
                    text = d[0][1]                      # the short form: just the notation, at the lead end
                else:
                    text = "/".join(f"{pos}:{pn}" for pos, pn in d)
                argv += [opts[0] + "=" + text] if text.startswith("-") or rng.random() < 0.5 else \
                    [rng.choice(opts), text]
        if spec.get("start_index"):
            argv += [f"--start-index={spec['start_index']}"] if spec["start_index"] < 0 or rng.random() < 0.5 \
                else ["--start-index", str(spec["start_index"])]
    else:
        return None
    if sr is not None:
        if not sr or sr.startswith("-"):
            return None
        argv += rng.choice([["--start-row", sr], [f"--start-row={sr}"]])
    return argv


def build_gen(spec):
    """The generator for `spec` as the command line builds it; None when the specification has no
    command-line spelling or the command line refuses it (the caller then constructs it directly, which
    reports the refusal in the constructors' own terms)."""
    argv = gen_argv(spec)
    if argv is None:
        STATS["no_spelling"] += 1
        return None
    res = run(argv)
    if res["outcome"] == "built" and res["gen"] is not None:
        STATS["built"] += 1
        return res["gen"]
    STATS["refused"] += 1
    if res["outcome"] == "raise" and not isinstance(res["exc"], (ValueError, IndexError)):
        raise res["exc"]
    return None
