"""Dynamic side of the translator: the facts that `extract.py` reads off the source text, measured on
the *running* code through public names and public behaviour only (module constants, class attributes,
what the main loop does when it is run).  Used

* as the second source for every generated constant (a constant that has been moved, renamed or
  computed differently in the source is still found here), and
* to validate the generated arithmetic: the Lean definitions, evaluated by the driver at `Float`, must
  agree bit for bit with the Python functions on the sample points.
"""
import random
from fractions import Fraction

from harness import core  # noqa: F401  (sys.path: fakes + /repo)


def _fr(x):
    return Fraction(repr(x)) if isinstance(x, float) else Fraction(x)


def public_constants():
    """Values reachable through public module / class attributes."""
    from wheatley import bell, bot, calls
    from wheatley.rhythm import regression, wait_for_user
    from wheatley.row_generation import helpers
    from wheatley.row_generation.dixonoids_generator import DixonoidsGenerator
    from wheatley.row_generation.place_notation_generator import PlaceNotationGenerator
    out = {}

    def grab(key, f):
        try:
            out[key] = f()
        except Exception as e:  # a renamed public name: this source is silent about that item
            out.setdefault("_errors", {})[key] = f"{type(e).__name__}: {e}"

    grab("bellNames", lambda: list(bell.BELL_NAMES))
    grab("stages", lambda: dict(helpers.STAGES))
    grab("defaultBob", lambda: dict(PlaceNotationGenerator.DEFAULT_BOB))
    grab("defaultSingle", lambda: dict(PlaceNotationGenerator.DEFAULT_SINGLE))
    grab("dixonRules", lambda: {k: list(v) for k, v in DixonoidsGenerator.DixonsRules.items()})
    grab("dixonBob", lambda: {k: list(v) for k, v in DixonoidsGenerator.DefaultBob.items()})
    grab("dixonSingle", lambda: {k: list(v) for k, v in DixonoidsGenerator.DefaultSingle.items()})
    grab("lookToDuration", lambda: _fr(bot.LOOK_TO_DURATION))
    grab("inactivityExitTime", lambda: _fr(bot.INACTIVITY_EXIT_TIME))
    grab("weightRejectionThreshold", lambda: _fr(regression.WEIGHT_REJECTION_THRESHOLD))
    grab("waitSleepTime", lambda: _fr(wait_for_user.WaitForUserRhythm.sleep_time))
    grab("cliDefaults", cli_defaults)
    grab("serverDefaults", server_defaults)
    grab("calls", lambda: {n: getattr(calls, n) for n in
                           ["LOOK_TO", "GO", "BOB", "SINGLE", "THATS_ALL", "ROUNDS", "STAND"]})
    return out


def cli_defaults():
    """The defaults of the console options as the running parser has them (read off the parser object that
    `console_main` builds, by option string)."""
    import argparse
    from harness import climain
    from harness.extract import CLI_DEFAULT_OPTS
    seen = {}
    real = argparse.ArgumentParser.parse_args

    def spy(self, *a, **k):
        for act in self._actions:
            for o in act.option_strings:
                if o in CLI_DEFAULT_OPTS:
                    seen[o] = act.default
        return real(self, *a, **k)
    argparse.ArgumentParser.parse_args = spy
    try:
        climain.run(["763451928", "--url", "http://fake-rr", "-p", "6:x16"])
    finally:
        argparse.ArgumentParser.parse_args = real
    if set(seen) != set(CLI_DEFAULT_OPTS):
        raise ValueError(f"options not found on the parser: {sorted(set(CLI_DEFAULT_OPTS) - set(seen))}")
    return {k: (_fr(v) if isinstance(v, float) else v) for k, v in seen.items()}


def server_defaults():
    """What the running `main(["server-mode", ...])` hands to `create_rhythm` and `Bot` (by position)."""
    from harness import climain
    r = climain.run(["server-mode", "763451928", "--port", "5000", "--id", "3"])
    if r.get("outcome") != "built":
        raise ValueError(f"server-mode did not reach the construction of the Bot: {r.get('outcome')}")
    rh = list(r["rhythm_args"].values())
    bot = list(r["bot"].values())
    return {"peal_speed": rh[0], "inertia": _fr(rh[1]) if isinstance(rh[1], float) else rh[1], "max_bells_in_dataset": rh[2],
            "handstroke_gap": _fr(rh[3]) if isinstance(rh[3], float) else rh[3], "use_wait": rh[4],
            "initial_inertia": _fr(rh[5]) if isinstance(rh[5], float) else rh[5],
            "use_up_down_in": bot[2], "stop_at_rounds": bot[3], "call_comps": bot[4], "user_name": bot[6]}


def _mini_session(gen_spec, up_down_in, end=1012.0):
    """One short session of the real Bot (all bells Wheatley's, stub rhythm) recording every sleep of the
    main thread together with whether Wheatley was between two turns or idle."""
    from harness import sim
    sc = {"start": 1000.0, "end": end, "tower_size": gen_spec["stage"], "events": [[1000.5, "msg", {"m": "call", "call": "Look to"}]],
          "bot": {"gen": gen_spec, "up_down_in": up_down_in, "stop_at_rounds": False, "call_comps": True,
                  "user_name": None, "server_id": None},
          "rhythm": {"kind": "stub", "w": core.float_to_bits(0.25)}}
    sleeps = []
    orig_sleep = sim.Sim.sleep

    def rec_sleep(self, d):
        import threading
        if self.depth == 0 and (self.handler is None or threading.current_thread() is not self.handler.thread):
            sleeps.append((self.now, d))
        return orig_sleep(self, d)
    sim.Sim.sleep = rec_sleep
    try:
        res = sim.run(sc)
    finally:
        sim.Sim.sleep = orig_sleep
    return res, sleeps


def behavioural_constants():
    """idle poll, tick sleep, the up-down-in counters and the minimum data-set size, measured."""
    out = {}
    errors = {}
    try:
        res, sleeps = _mini_session({"type": "plainhunt", "stage": 4, "start_row": None}, True)
        s = res["sim"]
        # wait_loaded polls 0.1 s until the state has arrived (1 ms); then the idle loop until Look To (1000.5)
        idle = sorted({d for (t, d) in sleeps if 1000.15 < t < 1000.45})
        ring_t = [core.bits_to_float(t) for t, o in s.obs if o[0] == "ring"]
        tick = sorted({d for (t, d) in sleeps if ring_t and ring_t[0] < t < ring_t[-1] and abs(d - 0.25) > 1e-12})
        if len(idle) == 1:
            out["idlePoll"] = _fr(idle[0])
        else:
            errors["idlePoll"] = f"idle sleeps {idle}"
        if len(tick) == 1:
            out["tickSleep"] = _fr(tick[0])
        else:
            errors["tickSleep"] = f"sleeps between turns {tick}"
        out["upDownInHand"] = _opening_rows(s, 4)
        pn = {"type": "pn", "stage": 4, "method": "x14", "bob": None, "single": None, "start_index": 1, "start_row": None}
        res2, _ = _mini_session(pn, True)
        out["upDownInBack"] = _opening_rows(res2["sim"], 4)
    except Exception as e:
        errors["session"] = f"{type(e).__name__}: {e}"
    try:
        out["minBellsInDataset"] = _min_bells()
    except Exception as e:
        errors["minBellsInDataset"] = f"{type(e).__name__}: {e}"
    if errors:
        out["_errors"] = errors
    return out


def _opening_rows(s, n):
    bells = [b for (_, b, _) in s.strikes]
    rows = [bells[i:i + n] for i in range(0, len(bells) - len(bells) % n, n)]
    k = 0
    while k < len(rows) and rows[k] == list(range(1, n + 1)):
        k += 1
    if k == len(rows):
        raise ValueError("the method never started")
    return k


def _min_bells(r=None):
    """Number of data points at which `create_rhythm`'s regression rhythm (or the rhythm object given) first
    computes a regression - measured through the public Rhythm interface."""
    import wheatley.rhythm.regression as wreg
    from wheatley import main as wmain
    from wheatley.bell import Bell
    from wheatley.stroke import HANDSTROKE
    calls = []
    real = wreg.calculate_regression

    def rec(ds):
        calls.append(len(ds))
        return real(ds)
    wreg.calculate_regression = rec
    try:
        if r is None:
            from harness import climain
            r = climain.make_rhythm(peal_speed=180, inertia=0.0, max_bells_in_dataset=15, handstroke_gap=1.0,
                                    use_wait=False, initial_inertia=0.0)
        r.initialise_line(8, False, 1003.0, 7)
        for p in range(1, 8):
            b = Bell.from_number(p + 1)
            r.expect_bell(b, 0, p, HANDSTROKE)
            r.on_bell_ring(b, HANDSTROKE, 1003.0 + 0.25 * p)
            if calls:
                return calls[0]
    finally:
        wreg.calculate_regression = real
    raise ValueError("no regression after 8 data points")


def arith_points(n=40, seed=12345):
    rng = random.Random(seed)
    pts = []
    for _ in range(n):
        pts.append({"m": float(rng.choice([60, 90, 178, 200, 175.5])), "n": rng.randint(4, 16),
                    "a": rng.uniform(-5, 2000), "b": rng.uniform(-5, 2000), "t": rng.choice([0.0, 1.0, 0.5, rng.random()]),
                    "stage": rng.randint(4, 16), "gap": rng.choice([0.0, 1.0, 2.0, 0.5]),
                    "start": rng.choice([1003.0, 1.7e9 + rng.random(), 12.5]), "interval": rng.uniform(0.05, 0.6),
                    "row": rng.randint(0, 5000), "place": rng.randint(0, 15), "x": rng.uniform(0, 3e4)})
    return pts


def arith_live(pts):
    """The real functions on the sample points (public functions / methods only)."""
    import wheatley.rhythm.regression as wreg
    out = []
    for p in pts:
        r = wreg.RegressionRhythm(0.5, handstroke_gap=p["gap"], peal_speed=178, min_bells_in_dataset=4,
                                  max_bells_in_dataset=15)
        # a line with the wanted stage, start and interval through the public interface: initialise_line
        # fixes stage and start; the interval follows from the peal speed, so choose the speed accordingly
        r.initialise_line(p["stage"], False, p["start"], 0)
        e = {"interval": wreg.peal_speed_to_blow_interval(p["m"], p["n"]),
             "lerp": wreg.lerp(p["a"], p["b"], p["t"]),
             "inverse_lerp": wreg.inverse_lerp(p["a"], p["b"], p["t"]) if p["a"] != p["b"] else None}
        interval = wreg.peal_speed_to_blow_interval(178, p["stage"])
        e["_interval_used"] = interval
        e["index_to_blow_time"] = r.index_to_blow_time(p["row"], p["place"])
        e["blow_time_to_real_time"] = r.blow_time_to_real_time(p["x"])
        e["index_to_real_time"] = r.index_to_real_time(p["row"], p["place"])
        e["real_time_to_blow_time"] = r.real_time_to_blow_time(p["x"])
        out.append(e)
    return out


def validate_against_driver():
    """Compare what the driver was built with (Generated/*.lean) with the running code.
    Returns (list of mismatches, list of items that could not be measured)."""
    import wheatley.rhythm.regression as wreg
    pts = arith_points()
    # the line's interval is whatever the public interface gives for peal speed 178 on that stage
    for p in pts:
        p["interval"] = wreg.peal_speed_to_blow_interval(178, p["stage"])
    live = arith_live(pts)
    f2b = core.float_to_bits
    req = {"k": "generated", "pts": [{k: (f2b(v) if isinstance(v, float) else v) for k, v in p.items()} for p in pts]}
    rep = core.Driver().run([req])[0]
    if "driver_error" in rep:
        return [f"driver: {rep['driver_error']}"], []
    bad = []
    unmeasured = []
    pub = public_constants()
    beh = behavioural_constants()
    for src in (pub, beh):
        for k, why in src.get("_errors", {}).items():
            unmeasured.append(f"{k}: {why}")

    def q(x):
        return [x.numerator, x.denominator]
    want = {}
    if "bellNames" in pub:
        want["bellNames"] = "".join(pub["bellNames"])
    if "stages" in pub:
        want["stages"] = [[k, v] for k, v in pub["stages"].items()]
    for k in ("defaultBob", "defaultSingle"):
        if k in pub:
            want[k] = [[kk, vv] for kk, vv in pub[k].items()]
    for k in ("dixonRules", "dixonBob", "dixonSingle"):
        if k in pub:
            want[k] = [[kk, vv[0], vv[1]] for kk, vv in pub[k].items()]
    for k in ("lookToDuration", "inactivityExitTime", "weightRejectionThreshold", "waitSleepTime"):
        if k in pub:
            want[k] = q(pub[k])
    for k in ("idlePoll", "tickSleep"):
        if k in beh:
            want[k] = q(beh[k])
    for k in ("minBellsInDataset", "upDownInHand", "upDownInBack"):
        if k in beh:
            want[k] = beh[k]
    if "calls" in pub:
        want["calls"] = pub["calls"]
    for k, v in want.items():
        if rep.get(k) != v:
            bad.append(f"{k}: generated {rep.get(k)!r}, the running code has {v!r}")
    for i, (e, m) in enumerate(zip(live, rep["evals"])):
        for k, v in e.items():
            if k.startswith("_") or v is None:
                continue
            if f2b(float(v)) != m[k]:
                bad.append(f"{k} at sample {i}: generated {core.bits_to_float(m[k])!r}, the running code gives {v!r}")
                break
    return bad, unmeasured
