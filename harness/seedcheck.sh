#!/bin/bash
# seedcheck.sh <seed-name> <worktree> <property> [extra properties...]
# Confirms a seeded change (tests still pass, demo fails with / passes without), runs our checks
# against it on /repo, undoes it, and files it under /verif/seeded/<seed-name>/.
set -u
name=$1; wt=$2; shift 2; props="$@"
out=/verif/seeded/$name
mkdir -p $out
cp $wt/seed_out/patch.diff $out/patch.diff
cp $wt/seed_out/demo.py $out/demo.py
cp $wt/seed_out/notes.md $out/notes.md 2>/dev/null
cd $wt
git checkout -q -- wheatley 2>/dev/null   # (no `git stash`: the stash is shared by all worktrees of /repo)
echo "--- demo on original"; (timeout 120 /venv/bin/python seed_out/demo.py >/tmp/seed_demo_orig.txt 2>&1; echo "exit=$?") | tee /tmp/seed_orig_exit
git apply $out/patch.diff || { echo "PATCH DOES NOT APPLY in worktree"; }
echo "--- demo with change"; (timeout 120 /venv/bin/python seed_out/demo.py >/tmp/seed_demo_mut.txt 2>&1; echo "exit=$?") | tee /tmp/seed_mut_exit
echo "--- test suite with change"; /venv/bin/python -m pytest -q -p no:cacheprovider --timeout=900 2>&1 | tail -1 | tee /tmp/seed_tests
cd /verif
git -C /repo apply $out/patch.diff || { echo "PATCH DOES NOT APPLY to /repo"; exit 3; }
: > /tmp/seed_checks
for p in $props; do
  echo "--- check $p"; ./check.py $p 2>&1 | grep -E "VIOLATION|KNOWN|\[$p\]|no longer" | tee -a /tmp/seed_checks
  for f in replays/$p-*.json; do [ -f "$f" ] && python3 -c "
import json,sys
d=json.load(open('$f')); print('   replay:', (d.get('violation') or str(d.get('no_longer_checks'))[:400])[:400])" | tee -a /tmp/seed_checks; done
  find replays -name "$p-*" -delete
done
git -C /repo checkout -- .
git -C /repo status --short | head -3
