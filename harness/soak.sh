#!/bin/bash
# multi-seed soak of the quick tier on a private snapshot of /repo (SOAK_SEEDS="1 2 3")
export WHEATLEY_REPO=$VP_RUN_REPO
/venv/bin/python harness/extract.py $WHEATLEY_REPO && (cd lean && lake build driver Wheatley >/dev/null 2>&1)
for seed in ${SOAK_SEEDS:-1 2 3 4 5 6}; do
  for i in $(seq -w 1 20); do
    ( VERIF_SEED=$seed ./check.py C$i --tier quick 2>&1 | grep -E "^\[C|VIOLATION|no longer" | sed "s/^/seed=$seed /" ) &
  done
  wait
done
