#!/bin/bash
# background verification of the machinery itself on a private snapshot of /repo:
# every recorded seeded change must be reported, and the quick tier must stay quiet for several seeds
export WHEATLEY_REPO=$VP_RUN_REPO
/venv/bin/python harness/extract.py $WHEATLEY_REPO && (cd lean && lake build driver Wheatley >/dev/null 2>&1)
/venv/bin/python harness/seedall.py
for seed in ${SOAK_SEEDS:-11 12 13}; do
  for i in $(seq -w 1 20); do
    ( VERIF_SEED=$seed ./check.py C$i --tier quick 2>&1 | grep -E "^\[C|VIOLATION|no longer" | sed "s/^/seed=$seed /" ) &
  done
  wait
done
