#!/bin/bash
# every thorough command once, on a private snapshot of /repo (4 at a time: leanchecker needs memory)
export WHEATLEY_REPO=$VP_RUN_REPO
/venv/bin/python harness/extract.py $WHEATLEY_REPO && (cd lean && lake build driver Wheatley >/dev/null 2>&1)
for grp in "01 02 03 04" "05 06 07 08" "09 10 11 12" "13 14 15 16" "17 18 19 20"; do
  for i in $grp; do
    ( /usr/bin/time -f "C$i wall=%es maxrss=%MkB" ./check.py C$i --tier thorough 2>&1 | grep -E "^\[C|VIOLATION|no longer|wall=|KNOWN" | sed "s/^/C$i: /" ) &
  done
  wait
done
