"""Scenario builders for the timed `world` requests, simulated humans, and the shared Prop base."""
from harness import core, gens, implrun, sim
from harness.framework import Prop

f2b = core.float_to_bits
b2f = core.bits_to_float

LOOK_TO, GO, BOB, SINGLE, THATS_ALL, ROUNDS, STAND = ("Look to", "Go", "Bob", "Single", "That's all", "Rounds",
                                                      "Stand next")


def call(t, c):
    return [t, "msg", {"m": "call", "call": c}]


def interval(peal_speed, n):
    return peal_speed * 60 / 2520 / (2 * n + 1)


def blow_index(n, gap, r, p):
    return r * n + p + (r // 2) * gap


def bot_cfg(gen, up_down_in=False, stop_at_rounds=False, call_comps=True, user_name=None, server_id=None):
    return {"gen": gen, "up_down_in": up_down_in, "stop_at_rounds": stop_at_rounds, "call_comps": call_comps,
            "user_name": user_name, "server_id": server_id}


def rhythm_cfg(kind="wait", inertia=0.5, peal_speed=178, gap=1.0, max_bells=15, initial_inertia=0.0):
    return {"kind": kind, "inertia": f2b(inertia), "peal_speed": peal_speed, "gap": f2b(gap),
            "max_bells": max_bells, "initial_inertia": f2b(initial_inertia)}


def stub_rhythm(w=0.25):
    return {"kind": "stub", "w": f2b(w)}


def humans_on_join(human_bells, user_name=None, wheatley_bells=None, namesake=False):
    """Messages sent on c_join: user list and assignments.  With --name (server mode) Wheatley's own
    bells are assigned to a user of that name - with `namesake`, to two users of that name (the same person
    logged in twice, say) in turn."""
    users = [{"id": 11, "name": "Alice"}]
    msgs = []
    if user_name is not None:
        if namesake:
            users.append({"id": 7, "name": user_name})
        users.append({"id": 5, "name": user_name})
    msgs.append({"m": "user_list", "users": users})
    for b in sorted(human_bells):
        msgs.append({"m": "assign", "bell": b, "user": 11})
    if user_name is not None:
        for i, b in enumerate(sorted(wheatley_bells or [])):
            msgs.append({"m": "assign", "bell": b, "user": 7 if namesake and i % 2 == 0 else 5})
    return msgs


_SERVER_DEFAULTS = []


def _server_defaults():
    if not _SERVER_DEFAULTS:
        from harness import genprobe
        try:
            _SERVER_DEFAULTS.append(genprobe.server_defaults())
        except Exception:  # noqa
            _SERVER_DEFAULTS.append(None)
    return _SERVER_DEFAULTS[0]


def server_rhythm_cfg(peal_speed):
    """The rhythm of a server-mode Wheatley in the default waiting mode: the constants `server_main` is found to
    hand on (inertia, gap, memory) - except the waiting itself, which server mode has no switch for."""
    d = _server_defaults() or {"inertia": 1, "handstroke_gap": 1, "max_bells_in_dataset": 15, "initial_inertia": 0}
    return rhythm_cfg("wait", inertia=float(d["inertia"]), peal_speed=peal_speed, gap=float(d["handstroke_gap"]),
                      max_bells=int(d["max_bells_in_dataset"]), initial_inertia=float(d["initial_inertia"]))


def server_argv_for(sc):
    """Server mode has no options but the room, the port and the instance id (and the time of the Look To that
    spawned it): a server-mode scenario whose configuration is exactly what `server_main` builds - measured on the
    running code - can go through the real `main(["server-mode", ...])`."""
    d = _server_defaults()
    bot, rh = sc["bot"], sc["rhythm"]
    if d is None or bot["gen"].get("type") != "placeholder" or rh.get("kind") not in ("wait", "regression"):
        return None
    num = lambda x: float(x[0]) / float(x[1]) if isinstance(x, (list, tuple)) else float(x)      # noqa: E731
    same = (bot.get("user_name") == d["user_name"]
            # (server mode has no switch for waiting: for C09 - "the default waiting mode" - it waits, whatever
            # `server_main` is found to hand on)
            and ((rh["kind"] == "wait") == bool(d["use_wait"]) or (sc.get("server_mode_waits") and rh["kind"] == "wait"))
            and b2f(rh["inertia"]) == num(d["inertia"]) and b2f(rh["gap"]) == num(d["handstroke_gap"])
            and rh["max_bells"] == d["max_bells_in_dataset"]
            and b2f(rh.get("initial_inertia", f2b(0.0))) == num(d["initial_inertia"]))
    if not same:
        return None
    argv = ["server-mode", str(sc.get("tower_id", 763451928)), "--port", "5000", "--id", str(bot["server_id"])]
    if sc.get("look_to_time") is not None:
        argv += ["--look-to-time", repr(b2f(sc["look_to_time"]))]
    # the Bot's three switches are what Ringing Room sets with the answers to the join
    kvs = [[key, bot.get(field, True)] for key, field, dk in (("use_up_down_in", "up_down_in", "use_up_down_in"),
                                                              ("stop_at_rounds", "stop_at_rounds", "stop_at_rounds"),
                                                              ("call_composition", "call_comps", "call_comps"))
           if bot.get(field, True) != d[dk]]
    if rh["peal_speed"] != d["peal_speed"]:
        kvs.append(["peal_speed", rh["peal_speed"]])       # (and the band's speed)
    if kvs:
        if sc.get("look_to_time") is not None or sc.get("sync_join"):
            return None
        return argv + ["<settings>", kvs]
    return argv


def argv_for(sc):
    """The command line that stands for this scenario's configuration, when there is one (console mode): the
    session can then be run through the real `wheatley.main.main(argv)` instead of building the objects by hand,
    which puts the wiring of every option under the same oracles.  None when the configuration cannot be
    expressed on the command line."""
    bot, rh = sc.get("bot"), sc.get("rhythm")
    if bot and rh and bot.get("server_id") is not None:
        return server_argv_for(sc)
    if not bot or not rh or sc.get("look_to_time") is not None:
        return None
    if rh.get("kind") not in ("wait", "regression") or b2f(rh.get("initial_inertia", f2b(0.0))) != 0.0:
        return None
    g = bot["gen"]
    ty = g.get("type")
    argv = [str(sc.get("tower_id", 763451928)), "--url", "http://fake-rr"]
    sr = g.get("start_row")
    if ty in ("plainhunt", "grandsire", "stedman", "dixon"):
        if not 3 <= g["stage"] <= 16:
            return None
        title = {"plainhunt": "Plain Hunt", "grandsire": "Grandsire", "stedman": "Stedman", "dixon": "Dixon's Bob"}[ty]
        if ty == "grandsire" and g["stage"] < 5 or ty == "stedman" and (g["stage"] < 5 or g["stage"] % 2 == 0) \
                or ty == "dixon" and g["stage"] != 6:
            return None
        argv += ["--method", f"{title} {g['stage']}"]
    elif ty == "pn":
        if any(c in g["method"] for c in ":") or not 1 <= g["stage"] <= 16:
            return None
        argv += ["-p", f"{g['stage']}:{g['method']}"]
        for key, opt in (("bob", "--bob"), ("single", "--single")):
            d = g.get(key)
            if d is not None:
                if not d or any("/" in pn or ":" in pn for _, pn in d):
                    return None            # (an empty definition cannot be written on the command line)
                argv += [opt + "=" + "/".join(f"{pos}:{pn}" for pos, pn in d)]
        if g.get("start_index"):
            argv += ["--start-index", str(g["start_index"])]
    elif ty == "comp":
        if sr is not None:
            return None
        argv += ["--comp", str(g.get("id", 1))]
    else:
        return None
    if sr is not None:
        argv += ["--start-row", sr]
    if bot.get("up_down_in") and bot.get("stop_at_rounds"):
        argv += ["-H"] if len(argv) % 2 else ["-u", "-s"]
    elif bot.get("up_down_in"):
        argv += ["-u"]
    elif bot.get("stop_at_rounds"):
        argv += ["-s"]
    if not bot.get("call_comps", True):
        argv += ["--no-calls"]
    if bot.get("user_name") is not None:
        argv += ["--name", bot["user_name"]]
    if rh["kind"] == "regression":
        argv += ["-k"]
    argv += ["-I", repr(b2f(rh["inertia"])), "-S", str(rh["peal_speed"]), "-G", repr(b2f(rh["gap"])),
             "-X", str(rh["max_bells"])]
    return argv


class Follower:
    """Reactive human(s): every `poll` seconds looks at the turn Wheatley is at (`sim.View`: what the Bot
    told its rhythm object) and strikes its own bell `lag(r, p)` seconds after it became due."""

    def __init__(self, s, bells, lag, poll=0.01, start=None, stop=None):
        self.bells = set(bells)
        self.lag = lag
        self.done = set()
        self.poll = poll
        self.stop = stop
        s.push((start if start is not None else s.now) + poll, "internal", lambda t: self.tick(s, t))

    def on_strike(self, s, t, bell, by):
        pass

    def tick(self, s, t):
        if self.stop is not None and t > self.stop:
            return
        v = s.view
        if v.ringing and v.turn is not None:
            row, place, bell, _ = v.turn
            key = (v.touch, row, place)
            if bell in self.bells and key not in self.done:
                self.done.add(key)
                lag = self.lag(row, place)
                if lag is not None:
                    s.push(t + lag, "internal", lambda tt, b=bell: self.strike(s, tt, b))
        s.push(t + self.poll, "internal", lambda tt: self.tick(s, tt))

    def strike(self, s, t, bell):
        # (a ringer who has been told to stop does not pull off the stroke they were about to ring)
        if self.stop is None or t <= self.stop:
            s.human_strike(t, bell)


class WorldProp(Prop):
    """A property whose cases are timed sessions: request = scenario (+ optional agent recipe)."""
    quick_budget_s = 90

    def agents(self, req):
        return None

    via_main_share = 0.35

    def impl(self, req):
        sc = req["scenario"]
        argv = argv_for(sc)
        import hashlib
        import json
        h = int(hashlib.sha1(json.dumps(sc, sort_keys=True, default=str).encode()).hexdigest()[:8], 16)
        # verbosity is configuration too: a share of the sessions runs with the log on (-v / the default / -q)
        level = {0: "DEBUG", 1: "DEBUG", 2: "INFO", 3: "WARNING"}.get((h // 1000) % 10) \
            if "log_level" not in sc and not sc.get("preempt") else sc.get("log_level")
        if level:
            sc = dict(sc, log_level=level)
            req["log_level"] = level
        if argv is not None and "argv" not in sc:
            if (h % 1000) / 1000.0 < self.via_main_share or sc.get("prefer_main"):
                if "<settings>" in argv:
                    # (a server-mode session whose switches differ from server_main's: Ringing Room sets them at
                    # the join)
                    kvs = argv[argv.index("<settings>") + 1]
                    argv = argv[:argv.index("<settings>")]
                    sc = dict(sc, on_join=list(sc.get("on_join") or []) + [{"m": "setting", "kvs": kvs}])
                if level:
                    argv = argv + {"DEBUG": [["-v"], ["--verbose"], ["-v", "-v"]][h % 3], "INFO": [],
                                   "WARNING": [["-q"], ["--quiet"]][h % 2]}[level]
                sc = dict(sc, argv=argv)      # this session goes through the real main(argv)
                req["via_main"] = True
        res = sim.run(sc, self.agents(req))
        req["_model_req"] = sim.model_request(req["scenario"], res["sim"])
        rep = sim.impl_reply(res)
        rep["strikes"] = [[f2b(t), b, by] for (t, b, by) in res["sim"].strikes]
        rep["init_start_times"] = [f2b(x) for x in res["sim"].init_start_times]
        return rep

    def to_model(self, req):
        return req.pop("_model_req", None)

    def compare(self, req, ir, mr):
        if "driver_error" in mr:
            return "driver_error: " + mr["driver_error"]
        if "err" in mr:
            return "model could not construct the generator"
        if ir["crashed"] == "EventCap":
            return None
        for k in ("crashed", "handler_crashes", "exited"):
            if ir[k] != mr[k]:
                return f"{k}: impl={ir[k]} model={mr[k]}"
        io = [o for o in ir["obs"] if o[1][0] != "crash"]
        mo = [o for o in mr["obs"] if o[1][0] != "crash"]
        for i, (a, b) in enumerate(zip(io, mo)):
            if a != b:
                return (f"observation {i}: impl={a[1]}@{b2f(a[0]):.6f} model={b[1]}@{b2f(b[0]):.6f} "
                        f"(of {len(io)}/{len(mo)})")
        if len(io) != len(mo):
            return f"number of observations: impl={len(io)} model={len(mo)}"
        if "delay" in ir and "delay" in mr and ir["delay"] != mr["delay"]:
            return f"accumulated hold-up: impl={b2f(ir['delay'])!r} model={b2f(mr['delay'])!r}"
        if mr.get("tape_left", 0) != 0:
            return f"model consumed fewer regressions than the implementation ({mr['tape_left']} left)"
        dev = b2f(mr.get("max_dev", 0))
        # sanity check of the exact weighted least-squares fit against numpy (the run itself used numpy's
        # values): the difference, in units of the rounding error that the implementation's algorithm
        # (uncentred normal equations, numpy.linalg.inv) admits for the data at hand; a few units are
        # normal (the largest seen on the unchanged tree is about 50), a wrong formula gives millions
        if dev > 1000:
            return f"weighted least-squares fit differs from numpy by {dev:.3g} units of admissible rounding"
        return None

    def tag(self, req, reply):
        sc = req["scenario"]
        return (f"{sc['bot']['gen']['type']}:N{sc['tower_size']}:{sc['rhythm']['kind']}:"
                f"{'crash' if reply.get('crashed') else 'ok'}")

    def nontrivial(self, req, reply):
        return sum(1 for o in reply["obs"] if o[1][0] == "ring") >= 2


class PairProp(WorldProp):
    """Cases are pairs (or tuples) of sessions whose outcomes are compared with each other."""

    def impl(self, req):
        reps = []
        mreqs = []
        for sc in req["scenarios"]:
            sub = {"scenario": sc, "agents": req.get("agents")}
            reps.append(WorldProp.impl(self, sub))
            mreqs.append(sub.pop("_model_req"))
        req["_model_req"] = {"k": "multi", "reqs": mreqs}
        return {"runs": reps, "obs": reps[0]["obs"], "crashed": next((r["crashed"] for r in reps if r["crashed"]), None),
                "handler_crashes": sum((r["handler_crashes"] for r in reps), [])}

    def compare(self, req, ir, mr):
        if "driver_error" in mr:
            return "driver_error: " + mr["driver_error"]
        for i, (a, b) in enumerate(zip(ir["runs"], mr["replies"])):
            d = WorldProp.compare(self, {"scenario": req["scenarios"][i]}, a, b)
            if d:
                return f"run {i}: {d}"
        return None

    def tag(self, req, reply):
        sc = req["scenarios"][0]
        return f"pair:N{sc['tower_size']}:{sc['rhythm']['kind']}"


# ---- helpers on replies -------------------------------------------------------------------------

def rings(reply):
    """[(time, bell, hand)] of Wheatley's strikes."""
    return [(b2f(t), o[1], o[2]) for t, o in reply["obs"] if o[0] == "ring"]


def calls_made(reply):
    return [(b2f(t), o[1]) for t, o in reply["obs"] if o[0] == "call"]


def rows_from_strikes(reply, n):
    """All accepted strikes (Wheatley's and humans') cut into rows of n, in server order."""
    bells = [b for (_, b, _) in reply["strikes"]]
    return [bells[i:i + n] for i in range(0, len(bells) - len(bells) % n, n)]


def look_to_times(req):
    return [ev[0] for ev in req["scenario"].get("events", []) if ev[1] == "msg" and ev[2].get("call") == LOOK_TO]
