"""The check procedure shared by all properties (DESIGN.md section 2.3)."""
import collections
import json
import os
import random
import sys
import time
import traceback

from harness import core

TRUSTED_BASE = [
    "Lean 4.33.0 kernel (lake build; thorough tier also leanchecker)",
    "axioms allowed: propext, Classical.choice, Quot.sound (audited per theorem with #print axioms on every run)",
    "hand-written Lean model tied to /repo by differential correspondence (this run's counts below), not by proof",
    "translator harness/extract.py + genprobe.py for lean/Wheatley/Generated: every constant read off the source text and measured on the running code, generated arithmetic validated against the running functions through the driver",
    "harness fakes: stub socketio, fake Ringing Room / HTTP, virtual clock",
]


class Prop:
    """Interface a property module implements."""
    id = "C00"
    lean_module = None
    theorems = []
    level_text = ""
    quick_budget_s = 60
    thorough_budget_s = 600
    # shared session fuzzer (harness/fuzz.py): observation kinds of the timed model that matter to this
    # property (None = the property is not about the timed sessions), and whether their times do
    # command-line cases (harness/props/cmdline.py): the fields of what `main(argv)` builds that this property
    # is about; None = the property has no stake in the command line
    cli_fields = None
    cli_n = (150, 2000)
    fuzz_kinds = None
    fuzz_times = True
    fuzz_n = (100, 1500)
    # generated files (lean/Wheatley/Generated) this property's model and theorems rest on; None = by number:
    # the timed properties use the arithmetic, C18 the character tables, C19 the handler IR
    generated_deps = None

    def deps(self):
        if self.generated_deps is not None:
            return set(self.generated_deps)
        n = int(self.id[1:])
        d = {"Constants.lean"}
        if self.cli_fields is not None:
            d.add("CliDefaults.lean")
        if 6 <= n <= 17 or n == 19:
            d.add("Arith.lean")
        if n == 18:
            d.add("CharTables.lean")
        if n == 19:
            d.add("HandlerIR.lean")
        return d

    def corpus(self):
        return []

    def cases(self, rng, tier):
        return []

    def impl(self, req):
        raise NotImplementedError

    def to_model(self, req):
        """The request as sent to the Lean driver (None = not sent)."""
        return req

    def compare(self, req, impl_reply, model_reply):
        if impl_reply != model_reply:
            return f"impl={core.canon(impl_reply)[:300]} model={core.canon(model_reply)[:300]}"
        return None

    def oracle(self, req, impl_reply):
        return None

    def nontrivial(self, req, impl_reply):
        return True

    def tag(self, req, impl_reply):
        """A short label used for the input-distribution histogram."""
        return req.get("k", "?")

    def known(self, req, msg, findings):
        for f in findings:
            if f.get("property") == self.id and f.get("status") == "finding":
                try:
                    if self.matches_finding(f, req, msg):
                        return f
                except Exception:
                    pass
        return None

    def matches_finding(self, finding, req, msg):
        return False

    def search_cases(self, rng, tier):
        """Extra inputs tried when the tie is broken (default: fresh seeds of the same generator)."""
        for i in range(4):
            r = random.Random(rng.getrandbits(64))
            yield from self.cases(r, tier)

    def extra_samples(self):
        return []


def load_findings():
    p = os.path.join(core.VERIF, "known_findings.json")
    if os.path.exists(p):
        return json.load(open(p)).get("findings", [])
    return []


class CaseTimeout(Exception):
    pass


def safe_impl(prop, req):
    """One case on the implementation, under a watchdog: a case that does not come back within minutes (a real
    deadlock or an endless loop in the code under test, or in the harness) is an internal failure of that case, not
    a check that never ends."""
    import signal

    def on_alarm(signum, frame):
        raise CaseTimeout("the case did not finish within 240 s")
    old = None
    try:
        old = signal.signal(signal.SIGALRM, on_alarm)
        signal.alarm(240)
    except (ValueError, AttributeError):
        old = None
    try:
        return prop.impl(req)
    except BaseException as e:  # noqa
        if isinstance(e, (KeyboardInterrupt,)):
            raise
        return {"harness_crash": type(e).__name__, "msg": str(e)[:200],
                "tb": traceback.format_exc()[-600:]}
    finally:
        if old is not None:
            signal.alarm(0)
            signal.signal(signal.SIGALRM, old)


def write_replay(prop, name, payload):
    d = os.path.join(core.VERIF, "replays")
    os.makedirs(d, exist_ok=True)
    path = os.path.join(d, f"{prop.id}-{name}.json")
    json.dump(payload, open(path, "w"), indent=1, ensure_ascii=False, sort_keys=True)
    return os.path.relpath(path, core.VERIF)


def run_check(prop, tier, seed, replay=None):
    t0 = time.time()
    budget = prop.quick_budget_s if tier == "quick" else prop.thorough_budget_s
    rng = random.Random(seed * 1000003 + int(prop.id[1:]))
    findings = load_findings()
    notes = []
    broken = []          # descriptions of proof obligations / correspondences that no longer check

    # 1. translate (source text and running code; see extract.run)
    trep = {}
    try:
        ok, msg, trep = core.translate()
    except Exception as e:
        ok, msg = False, f"translator raised {type(e).__name__}: {e}"
    if not ok:
        broken.append({"what": "translator", "detail": msg})
    else:
        unv = sorted(set(trep.get("unverified", [])) & prop.deps())
        if unv:
            broken.append({"what": "translator: " + ", ".join(unv) + " could not be tied to the current source",
                           "detail": {k: v for k, v in trep.get("static_errors", {}).items()}})
        for k, v in trep.get("static_errors", {}).items():
            notes.append(f"translator: {k} not read off the source text ({v}); source: {trep.get('sources', {}).get(k)}")
        for k, v in trep.get("disagreements", {}).items():
            notes.append(f"translator: {k}: {v} (the running code's value is used)")

    # 2. build
    targets = ["driver"] + ([prop.lean_module] if prop.lean_module else [])
    bok, blog = core.build(targets)
    driver_ok = os.path.exists(core.DRIVER)
    if not bok:
        errs = [l for l in blog.splitlines() if "error" in l.lower()][:12]
        broken.append({"what": "lake build " + " ".join(targets), "detail": errs or blog[-800:]})
        # is the driver alone still buildable?
        dok, _ = core.build(["driver"])
        driver_ok = dok and os.path.exists(core.DRIVER)

    # 2b. the generated definitions the driver was built with, against the running code
    if driver_ok and ({"Constants.lean", "Arith.lean"} & prop.deps()):
        try:
            from harness import genprobe
            bad, unmeasured = genprobe.validate_against_driver()
            if not ({"Arith.lean"} & prop.deps()):
                bad = [b for b in bad if " at sample " not in b]
            if bad:
                broken.append({"what": "generated definitions differ from the running code", "detail": bad[:10]})
            for u in unmeasured:
                notes.append("generated-vs-running-code: not measured: " + u)
        except Exception as e:  # noqa
            notes.append(f"generated-vs-running-code check raised {type(e).__name__}: {e}")

    # 3. audit
    forb = core.grep_forbidden()
    if forb:
        broken.append({"what": "forbidden construct in Lean sources", "detail": forb})
    discharged = 0
    axioms_seen = {}
    if bok and prop.lean_module and prop.theorems:
        res = core.audit(prop.lean_module, prop.theorems)
        for t, (ok_t, ax) in res.items():
            axioms_seen[t] = ax
            if ok_t:
                discharged += 1
            else:
                broken.append({"what": f"theorem {t}", "detail": ax})
        if tier == "thorough":
            rc, out = core.sh(["lake", "env", "leanchecker", prop.lean_module], cwd=core.LEAN, timeout=3000)
            if rc != 0:
                broken.append({"what": f"leanchecker {prop.lean_module}", "detail": out[-600:]})
            else:
                notes.append("leanchecker ok")

    # 4./5. correspondence + oracle
    if replay:
        reqs = [json.load(open(replay))["request"]]
    else:
        reqs = list(prop.corpus())
        deadline = time.time() + budget      # (the budget covers case generation, not the Lean build/audit)
        for r in prop.cases(rng, tier):
            reqs.append(r)
            if time.time() > deadline:
                notes.append("case generation stopped at time budget")
                break
        if prop.cli_fields is not None:
            from harness.props import cmdline
            crng = random.Random(seed * 6151 + int(prop.id[1:]) * 15485863 + 5)
            for _ in range(prop.cli_n[0] if tier == "quick" else prop.cli_n[1]):
                reqs.append(cmdline.make_request(crng))
        if prop.fuzz_kinds is not None:
            from harness import fuzz
            frng = random.Random(seed * 7919 + int(prop.id[1:]) * 104729 + 17)
            for _ in range(prop.fuzz_n[0] if tier == "quick" else prop.fuzz_n[1]):
                reqs.append(fuzz.session(frng))
    evaluations = 0
    disagreements = []
    violations = []
    knowns = []
    hist = collections.Counter()
    distinct = set()
    samples = []
    impl_replies = []
    def handler(r):
        if isinstance(r, dict) and r.get("fuzz"):
            from harness import fuzz
            return fuzz.handler_for(prop)
        if isinstance(r, dict) and r.get("k") == "cli" and prop.cli_fields is not None:
            from harness.props import cmdline
            return cmdline.handler_for(prop)
        return prop
    for r in reqs:
        impl_replies.append(safe_impl(handler(r), r))
    model_reqs = [(i, handler(r).to_model(r)) for i, r in enumerate(reqs)]
    model_reqs = [(i, m) for i, m in model_reqs if m is not None]
    model_replies = {}
    if driver_ok:
        try:
            outs = core.Driver().run([m for _, m in model_reqs])
            model_replies = {i: o for (i, _), o in zip(model_reqs, outs)}
        except Exception as e:
            broken.append({"what": "model driver", "detail": str(e)[:500]})
    for i, r in enumerate(reqs):
        ir = impl_replies[i]
        evaluations += 1
        hist[handler(r).tag(r, ir)] += 1
        if "harness_crash" in ir:
            broken.append({"what": "harness crashed running the implementation", "detail": ir, "request": r})
            continue
        if handler(r).nontrivial(r, ir):
            distinct.add(core.key_of(r))
        if len(samples) < 3 and i >= len(reqs) // 2:
            samples.append({"request": r, "impl": ir})
        if i in model_replies:
            d = handler(r).compare(r, ir, model_replies[i])
            if d:
                disagreements.append({"request": r, "diff": d})
        v = handler(r).oracle(r, ir)
        if v:
            f = prop.known(r, v, findings)
            (knowns if f else violations).append({"request": r, "violation": v, "finding": f and f["id"]})
    if not samples and reqs:
        samples.append({"request": reqs[0], "impl": impl_replies[0]})

    if disagreements:
        broken.append({"what": "correspondence model ≠ implementation",
                       "detail": disagreements[:3], "count": len(disagreements)})

    # widen the search when the tie is broken and nothing failing has been found yet
    searched = 0
    if broken and not violations and not replay:
        deadline = time.time() + budget
        # inputs on which model and implementation disagree were already evaluated by the oracle.
        for r in prop.search_cases(rng, tier):
            ir = safe_impl(prop, r)
            searched += 1
            if "harness_crash" in ir:
                continue
            v = prop.oracle(r, ir)
            if v and not prop.known(r, v, findings):
                violations.append({"request": r, "violation": v, "finding": None})
                break
            if time.time() > deadline:
                break

    # 6. verdict
    lines = []
    exit_code = 0
    seen_k = set()
    for k in knowns:
        if k["finding"] not in seen_k:
            seen_k.add(k["finding"])
            f = next(f for f in findings if f["id"] == k["finding"])
            lines.append(f"KNOWN-FINDING: property={prop.id} {f['what']}")
    if violations:
        v = violations[0]
        path = write_replay(prop, core.key_of(v["request"]), v)
        lines.append(f"VIOLATION property={prop.id} replay={path}")
        exit_code = 1
    elif broken:
        path = write_replay(prop, "broken-tie", {"no_longer_checks": broken,
                                                "searched_inputs": searched + evaluations})
        lines.append(f"VIOLATION property={prop.id} replay={path} no-failing-input-found")
        exit_code = 1

    # 7. evidence
    try:
        from harness import climain
        if sum(climain.STATS.values()):
            notes.append("generators built through the real main(argv): %(built)d built, %(refused)d refused by the "
                         "command line (then constructed directly), %(no_spelling)d without a command-line spelling"
                         % climain.STATS)
    except Exception:  # noqa
        pass
    ev = {
        "property_id": prop.id, "tier": tier, "seed": seed, "level": "proof",
        "coverage": {
            "obligations": len(prop.theorems), "discharged": discharged,
            "checker_cmd": f"cd lean && lake build {prop.lean_module} && lake env lean <#print axioms of each theorem>"
                           + (" && lake env leanchecker " + str(prop.lean_module) if tier == "thorough" else ""),
            "trusted_base": TRUSTED_BASE,
            "theorems": {t: axioms_seen.get(t) for t in prop.theorems},
            "programs": evaluations, "disagreements_checked": evaluations if driver_ok else 0,
            "disagreements_found": len(disagreements),
            "evaluations": evaluations, "distinct_nontrivial": len(distinct),
            "rule": prop.level_text,
            "input_distribution": dict(hist.most_common(40)),
            "samples": (samples + prop.extra_samples())[:6],
            "known_findings_hit": sorted(seen_k),
            "search_inputs_after_broken_tie": searched,
            "notes": notes,
        },
        "assumptions": TRUSTED_BASE,
        "wall_s": round(time.time() - t0, 2),
        "violations": len(violations) + (1 if (broken and not violations) else 0),
    }
    os.makedirs(os.path.join(core.VERIF, "evidence"), exist_ok=True)
    json.dump(ev, open(os.path.join(core.VERIF, "evidence", prop.id + ".json"), "w"), indent=1,
              ensure_ascii=False)
    for l in lines:
        print(l)
    print(f"[{prop.id}] tier={tier} seed={seed} theorems={discharged}/{len(prop.theorems)} "
          f"cases={evaluations} nontrivial={len(distinct)} disagreements={len(disagreements)} "
          f"violations={len(violations)} known={len(knowns)} broken={len(broken)} "
          f"wall={ev['wall_s']}s")
    if broken:
        print("  no longer checks: " + "; ".join(b["what"] for b in broken)[:600])
    return exit_code
