"""Write seeded/<name>/meta.json from the last seedcheck.sh run."""
import json, sys
name, prop, needs = sys.argv[1], sys.argv[2], sys.argv[3]
checks = open('/tmp/seed_checks').read().strip().splitlines()
meta = {"breaks_property": prop, "needs_to_manifest": needs,
        "confirmed": {"test_suite_with_change": open('/tmp/seed_tests').read().strip(),
                      "demo_on_original": open('/tmp/seed_orig_exit').read().strip(),
                      "demo_with_change": open('/tmp/seed_mut_exit').read().strip(),
                      "demo_output_with_change": open('/tmp/seed_demo_mut.txt').read()[-600:]},
        "what_was_run": f"harness/seedcheck.sh {name} <scratch worktree> {prop}: demo on original and with the change in the scratch worktree, pytest with the change, then `git -C /repo apply patch.diff`, ./check.py for the listed properties, `git -C /repo checkout -- .`",
        "our_checks": checks,
        "caught": any("VIOLATION" in c for c in checks)}
json.dump(meta, open(f'/verif/seeded/{name}/meta.json', 'w'), indent=1)
print("caught" if meta["caught"] else "MISSED", name)
