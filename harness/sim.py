"""Deterministic single-threaded simulation of a Wheatley session against a fake Ringing Room.

* `time.time/time.sleep` (and `wheatley.tower.sleep`) read a virtual clock.  `sleep(d)` on the main
  thread delivers, in time order, every queued message with time <= now+d by calling the handler
  the real `RingingRoomTower` registered, then sets the clock.  A sleep inside a handler only
  advances the clock.
* The fake server answers Wheatley's emissions (stroke check + flip + broadcast for c_bell_rung,
  echo for c_call, state on c_request_global_state, user list / assignments on c_join) with a
  strictly positive latency, and runs scripted or reactive "humans".
* Everything delivered to Wheatley is recorded with its delivery time: that list is the input of
  the Lean `World` model.  Everything Wheatley emits, and every call its Bot makes on the rhythm
  object, is recorded with the virtual time: that is the output compared with the model.
"""
import copy
import heapq
import threading
import time as _time

from harness import core, implrun  # noqa: F401
import socketio as fake_socketio  # the stub in harness/fakes

import wheatley.tower as wtower
import wheatley.rhythm.regression as wreg
from wheatley.rhythm.abstract_rhythm import Rhythm
from wheatley.bot import Bot
from wheatley.tower import RingingRoomTower
from wheatley import main as wmain

f2b = core.float_to_bits


class Stop(BaseException):
    pass


class EventCap(BaseException):
    pass


class HandlerAbort(BaseException):
    pass


class HandlerThread:
    """A message handler running on its own thread (Ringing Room's messages are handled on the socket
    thread, not on Wheatley's main thread).  Exactly one of {main thread, handler thread} runs at any
    instant: the handler runs until it finishes or calls `sleep`, then hands back to the main thread;
    a sleeping handler is resumed by the simulation when its wake-up time comes.  While a handler
    sleeps the main thread goes on, and further messages wait (one socket thread)."""

    def __init__(self, sim, fn):
        self.sim = sim
        self.fn = fn
        self.go = threading.Semaphore(0)
        self.back = threading.Semaphore(0)
        self.done = False
        self.exc = None
        self.thread = threading.Thread(target=self._run, daemon=True)
        self.thread.start()

    def _run(self):
        self.go.acquire()
        try:
            if not self.sim.aborting:
                self.fn()
        except HandlerAbort:
            pass
        except Exception as e:  # python-socketio logs and carries on
            self.exc = e
        finally:
            self.done = True
            self.back.release()

    def resume(self):          # called on the main thread
        self.go.release()
        self.back.acquire()

    def suspend(self):         # called on the handler thread, inside sleep()
        self.back.release()
        self.go.acquire()
        if self.sim.aborting:
            raise HandlerAbort()


def msg_to_socket(m):
    k = m["m"]
    if k == "bell_rung":
        return "s_bell_rung", {"global_bell_state": list(m["state"]), "who_rang": m["who"]}
    if k == "global_state":
        return "s_global_state", {"global_bell_state": list(m["state"])}
    if k == "user_entered":
        return "s_user_entered", {"user_id": m["id"], "username": m["name"]}
    if k == "user_list":
        return "s_set_userlist", {"user_list": [{"user_id": u["id"], "username": u["name"]} for u in m["users"]]}
    if k == "size_change":
        return "s_size_change", {"size": m["size"]}
    if k == "assign":
        return "s_assign_user", {"bell": m["bell"], "user": m["user"]}
    if k == "call":
        return "s_call", {"call": m["call"]}
    if k == "user_left":
        return "s_user_left", {"user_id": m["id"]}
    if k == "setting":
        return "s_wheatley_setting", {kv[0]: kv[1] for kv in m["kvs"]}
    if k == "row_gen":
        return "s_wheatley_row_gen", copy.deepcopy(m["json"])       # (each delivery is a fresh object, as off the wire)
    if k == "stop_touch":
        return "s_wheatley_stop_touch", {}
    raise ValueError(k)


class View:
    """What a ringer standing in the tower can tell about Wheatley: which touch it is, the turn it is at,
    whether it is ringing at all, and the places announced for the human bells of each row.  Everything is
    taken from the calls the Bot makes on its rhythm object (the public `Rhythm` interface) and from the
    main thread's sleeps - never from the Bot's private fields, so the simulated ringers keep working when
    those are renamed."""

    def __init__(self):
        self.touch = 0
        self.turn = None          # (row, place, bell, user_controlled) of the turn last entered
        self.in_wait = False
        self.ringing = False
        self.idle_sleeps = 0
        self.rows = {}            # row -> {place: human bell}

    def on_init(self):
        self.touch += 1
        self.rows = {}
        self.turn = None
        self.ringing = True
        self.idle_sleeps = 0

    def on_expect(self, bell, row, place):
        self.rows.setdefault(row, {})[place] = bell

    def on_wait(self, row, place, bell, uc):
        self.turn = (row, place, bell, uc)
        self.in_wait = True
        self.ringing = True
        self.idle_sleeps = 0

    def on_wait_end(self):
        self.in_wait = False

    def on_main_sleep(self):
        # the tick loop alternates wait / 10 ms sleep; two sleeps in a row outside a wait: the idle loop
        if not self.in_wait:
            self.idle_sleeps += 1
            if self.idle_sleeps >= 2:
                self.ringing = False


def _arg(a, k, pos, *names):
    """The argument of a recorded rhythm call: by position, else by one of its keyword names."""
    if pos < len(a):
        return a[pos]
    for n in names:
        if n in k:
            return k[n]
    return None


class RecRhythm:
    """Recording proxy between the Bot and the real rhythm object.  It is a plain proxy, not a subclass of the
    abstract `Rhythm`: whatever else the Bot calls on its rhythm (a method added later, say) goes straight to the
    real object, and the recorded calls are passed on with exactly the arguments they came with."""

    def __init__(self, inner, sim):
        self.inner = inner
        self.sim = sim

    def __getattr__(self, name):
        return getattr(self.inner, name)

    def return_to_mainloop(self, *a, **k):
        self.sim.rec(["r_return"])
        return self.inner.return_to_mainloop(*a, **k)

    def wait_for_bell_time(self, *a, **k):
        bell, row_number, place = _arg(a, k, 1, "bell"), _arg(a, k, 2, "row_number"), _arg(a, k, 3, "place")
        user_controlled = _arg(a, k, 4, "user_controlled")
        self.sim.view.on_wait(row_number, place, bell.number, bool(user_controlled))
        try:
            return self.inner.wait_for_bell_time(*a, **k)
        finally:
            self.sim.view.on_wait_end()

    def expect_bell(self, *a, **k):
        expected_bell, row_number = _arg(a, k, 0, "expected_bell", "bell"), _arg(a, k, 1, "row_number")
        place, expected_stroke = _arg(a, k, 2, "place"), _arg(a, k, 3, "expected_stroke", "stroke")
        self.sim.view.on_expect(expected_bell.number, row_number, place)
        self.sim.rec(["r_expect", expected_bell.number, row_number, place, expected_stroke.is_hand()])
        return self.inner.expect_bell(*a, **k)

    def change_setting(self, *a, **k):
        key, value = _arg(a, k, 0, "key"), _arg(a, k, 1, "value")
        shown = value if isinstance(value, (str, bool, int)) or value is None else "<float>"
        if key == "peal_speed":      # canonical form: what `int(value)` makes of it, when it can
            try:
                shown = int(value)
            except (ValueError, TypeError):
                pass
        self.sim.rec(["r_setting", key, shown])
        return self.inner.change_setting(*a, **k)

    def on_bell_ring(self, *a, **k):
        bell, stroke = _arg(a, k, 0, "bell"), _arg(a, k, 1, "stroke")
        self.sim.rec(["r_bell", bell.number, stroke.is_hand()])
        return self.inner.on_bell_ring(*a, **k)

    def initialise_line(self, *a, **k):
        stage, user_controls_treble = _arg(a, k, 0, "stage"), _arg(a, k, 1, "user_controls_treble")
        start_time = _arg(a, k, 2, "start_time")
        n_user = _arg(a, k, 3, "number_of_user_controlled_bells")
        self.sim.view.on_init()
        self.sim.rec(["r_init", stage, bool(user_controls_treble), n_user])
        self.sim.init_start_times.append(start_time)
        return self.inner.initialise_line(*a, **k)


class SimRLock:
    """A re-entrant lock in the simulated world.  Only one thread ever runs at a time here (the main thread, or one
    handler while the main thread sleeps), so ownership is a name and a count; a thread that finds the lock taken
    - its owner asleep in virtual time - lets virtual time pass until it is released, as blocking would.  (A real
    lock would block the simulator itself: the owner can only wake up when the clock moves.)"""

    def __init__(self, sim):
        self.sim, self.owner, self.count = sim, None, 0

    def acquire(self, blocking=True, timeout=-1):
        me = threading.get_ident()
        waited = 0.0
        while self.owner not in (None, me):
            if not blocking or (timeout is not None and 0 <= timeout <= waited):
                return False
            self.sim.sleep(0.0005)
            waited += 0.0005
        self.owner = me
        self.count += 1
        return True

    def release(self):
        if self.owner != threading.get_ident():
            raise RuntimeError("cannot release un-acquired lock")
        self.count -= 1
        if self.count == 0:
            self.owner = None

    def locked(self):
        return self.owner is not None

    __enter__ = acquire

    def __exit__(self, *a):
        self.release()


_LOCK_TYPES = (type(threading.Lock()), type(threading.RLock()))


def sim_locks(obj, sim):
    """Replace the locks an object of the repository holds by locks of the simulated world."""
    for name, v in list(vars(obj).items()):
        if isinstance(v, _LOCK_TYPES):
            setattr(obj, name, SimRLock(sim))


class StubRhythm(Rhythm):
    """Op-level rhythm: every wait is one fixed sleep, nothing else happens (whatever else is asked of it)."""

    def __init__(self, w):
        self.w = w

    def return_to_mainloop(self, *a, **k):
        pass

    def wait_for_bell_time(self, *a, **k):
        self.sleep(self.w)

    def expect_bell(self, *a, **k):
        pass

    def change_setting(self, *a, **k):
        pass

    def on_bell_ring(self, *a, **k):
        pass

    def initialise_line(self, *a, **k):
        pass


StubRhythm.__abstractmethods__ = frozenset()      # (an abstract method added to `Rhythm` later is a no-op here)


class Sim:
    def __init__(self, scenario):
        sc = scenario
        self.sc = sc
        self.now = float(sc.get("start", 1000.0))
        self.end = float(sc["end"])
        self.latency = float(sc.get("latency", 0.001))
        self.queue = []
        self.seq = 0
        self.depth = 0
        self.delivered = []      # [t_bits, msg] in delivery order: the model's input
        self.obs = []            # [t_bits, [kind, ...]]
        self.handler_crashes = []
        self.tape = []
        self.init_start_times = []
        self.rejects = 0
        self.stale_clicks = 0
        self.shape_errors = []
        self.size = sc["tower_size"]
        self.server_state = [True] * self.size
        self.tower_id = sc.get("tower_id", 763451928)
        self.client = None
        self.agents = []
        self.cap = sc.get("max_events", 100000)
        self.nevents = 0
        self.connect_urls = []
        self.strikes = []        # (t, bell, by) every strike accepted by the server
        self.handler = None      # the handler thread that is running or asleep (None: socket thread idle)
        self.view = View()
        self.tower = None
        self.deferred = []       # messages that arrived while it was asleep
        self.aborting = False
        for ev in sc.get("events", []):
            self.schedule_external(ev)

    # -- clock ---------------------------------------------------------------------------------
    def time(self):
        return self.now

    def sleep(self, d):
        h = self.handler
        if h is not None and threading.current_thread() is h.thread:
            # a handler goes to sleep: the main thread carries on until the wake-up time
            self.push(self.now + d, "resume", h)
            h.suspend()
            return
        if self.depth > 0:
            self.now = self.now + d
            return
        self.view.on_main_sleep()
        wake = self.now + d
        limit = self.end if self.end < wake else wake
        while self.queue and self.queue[0][0] <= limit:
            t, _, kind, payload = heapq.heappop(self.queue)
            self.nevents += 1
            if self.nevents > self.cap:
                raise EventCap()
            if kind == "internal":
                payload(t)
            elif kind == "resume":
                if self.now < t:
                    self.now = t
                self.delivered.append([f2b(t), {"m": "resume"}])
                payload.resume()
                self.after_handler(payload)
            elif self.handler is not None:
                self.deferred.append((t, payload))        # the socket thread is busy (asleep in a handler)
            else:
                if self.now < t:
                    self.now = t
                self.deliver(payload, t)
        if self.end < wake:
            raise Stop()
        if self.now < wake:          # (a sleep inside a handler may have moved the clock past `wake`)
            self.now = wake

    def push(self, t, kind, payload):
        self.seq += 1
        heapq.heappush(self.queue, (t, self.seq, kind, payload))

    def rec(self, what):
        self.obs.append([f2b(self.now), what])

    # -- delivery ------------------------------------------------------------------------------
    def deliver(self, m, t):
        # recorded with its *scheduled* time: the model applies the same rule (clock = max(now, t))
        self.delivered.append([f2b(t), m])
        event, data = msg_to_socket(m)
        h = self.client.handlers.get(event) if self.client else None
        if h is None:
            return
        if event == "s_call":
            # (the only handler that sleeps is Look To's, inside WaitForUserRhythm.initialise_line)
            ht = HandlerThread(self, lambda: h(data))
            self.handler = ht
            ht.resume()
            self.after_handler(ht)
            return
        self.depth += 1
        try:
            h(data)
        except Exception as e:  # python-socketio logs and carries on
            self.handler_crashes.append(type(e).__name__)
        finally:
            self.depth -= 1

    def after_handler(self, ht):
        """The handler thread handed back: finished, or asleep."""
        if not ht.done:
            return
        ht.thread.join()
        self.handler = None
        if ht.exc is not None:
            self.handler_crashes.append(type(ht.exc).__name__)
        while self.deferred and self.handler is None:
            t, m = self.deferred.pop(0)
            self.deliver(m, t)

    def abort_handlers(self):
        self.aborting = True
        ht = self.handler
        if ht is not None and not ht.done:
            ht.resume()
            ht.thread.join()
        self.handler = None

    # -- fake server ---------------------------------------------------------------------------
    def on_connect(self, url):
        self.connect_urls.append(url)
        self.rec(["connect", url])

    def broadcast_strike(self, t, bell, by):
        self.strikes.append((t, bell, by))
        self.push(t + self.latency, "deliver",
                  {"m": "bell_rung", "state": list(self.server_state), "who": bell})
        for a in self.agents:
            a.on_strike(self, t, bell, by)

    def human_strike(self, t, bell):
        """A human clicks `bell` at server time t (always accepted: the server flips the bell)."""
        if 1 <= bell <= self.size:
            self.server_state[bell - 1] = not self.server_state[bell - 1]
            self.broadcast_strike(t, bell, "human")

    def stale_click(self, t, bell):
        """A click that carries an out-of-date stroke (a fast double click, a second device).  The server
        does not move the bell but - like the real Ringing Room, which answers a disagreeing c_bell_rung with
        s_bell_rung{disagree: true} - still broadcasts the (unchanged) state with that bell as `who_rang`."""
        if 1 <= bell <= self.size:
            self.stale_clicks += 1
            self.push(t + self.latency, "deliver",
                      {"m": "bell_rung", "state": list(self.server_state), "who": bell})

    def on_emit(self, event, data):
        if not isinstance(data, dict) or data.get("tower_id") != self.tower_id:
            self.shape_errors.append(f"{event}: tower_id missing or wrong in {data}")
        t = self.now
        if event == "c_bell_rung":
            bell, stroke = data["bell"], data["stroke"]
            self.rec(["ring", bell, stroke])
            if not (isinstance(bell, int) and 1 <= bell <= self.size):
                self.shape_errors.append(f"c_bell_rung bell {bell} outside 1..{self.size}")
                return
            if self.server_state[bell - 1] == stroke:
                self.server_state[bell - 1] = not stroke
                self.broadcast_strike(t, bell, "wheatley")
            else:
                self.rejects += 1
                self.push(t + self.latency, "deliver",
                          {"m": "bell_rung", "state": list(self.server_state), "who": bell})
        elif event == "c_call":
            self.rec(["call", data["call"]])
            self.push(t + self.latency, "deliver", {"m": "call", "call": data["call"]})
        elif event == "c_join":
            self.rec(["join"])
            if data.get("anonymous_user") is not True:
                self.shape_errors.append("c_join without anonymous_user")
            for m in self.sc.get("on_join", []):
                if self.sc.get("sync_join"):
                    # the server's replies to the join are handled at once, on the socket thread, before `emit`
                    # has even returned to the main thread (a legitimate timing of python-socketio)
                    self.deliver(m, t)
                else:
                    self.push(t + self.latency, "deliver", m)
        elif event == "c_request_global_state":
            self.rec(["request_state"])
            self.push(t + self.latency, "deliver", {"m": "global_state", "state": list(self.server_state)})
        elif event == "c_wheatley_is_ringing":
            self.rec(["is_ringing", data["is_ringing"]])
        elif event == "c_roll_call":
            self.rec(["roll_call", data["instance_id"]])
        else:
            self.rec(["other", event])

    def schedule_external(self, ev):
        """ev = [t, kind, ...]: scripted things that happen at the server."""
        t, kind = ev[0], ev[1]
        if kind == "strike":
            self.push(t, "internal", lambda tt, b=ev[2]: self.human_strike(tt, b))
        elif kind == "msg":          # any server message delivered as is
            m = ev[2]
            if m["m"] == "size_change":
                def f(tt, m=m):
                    if m["size"] != self.size:
                        self.size = m["size"]
                        self.server_state = [True] * self.size
                    self.push(tt, "deliver", m)
                self.push(t, "internal", f)
            elif m["m"] == "global_state":
                def g(tt, m=m):
                    self.server_state = list(m["state"])
                    self.size = len(self.server_state)
                    self.push(tt, "deliver", m)
                self.push(t, "internal", g)
            else:
                self.push(t, "deliver", m)
        else:
            raise ValueError(kind)


def complib_route(cfg):
    """A CompLib that holds one composition: `GET .../composition/<id>/rows[?accessKey=..&substitutedmethodid=..]`.
    A private composition (cfg["key"]) is served only with its access key (403 otherwise), an unknown id is 404,
    and a substituted method selects the payload listed for it."""
    from urllib.parse import urlparse, parse_qs

    def route(url, params):
        if "complib" not in url:
            return None
        u = urlparse(url)
        segs = [x for x in u.path.split("/") if x]
        if len(segs) < 2 or segs[0] != "composition" or segs[1] != str(cfg["id"]):
            return implrun.FakeResponse("not found", 404)
        q = {k: v[-1] for k, v in parse_qs(u.query, keep_blank_values=True).items()}
        q.update(params or {})
        if cfg.get("key") is not None and q.get("accessKey") != cfg["key"]:
            return implrun.FakeResponse("forbidden", 403)
        sub = q.get("substitutedmethodid")
        if sub is not None and str(sub) in cfg.get("subst", {}):
            return implrun.FakeResponse(cfg["subst"][str(sub)])
        return implrun.FakeResponse(cfg["text"])
    return route


def run(scenario, make_agents=None):
    """Run one session.  Returns the record (inputs for the model + observed outputs)."""
    sim = Sim(scenario)
    if make_agents:
        sim.agents = make_agents(sim)
    sc = scenario
    saved = (_time.time, _time.sleep, wtower.sleep, wreg.calculate_regression)
    fake_socketio.set_factory(lambda client: _bind(sim, client))
    real_reg = saved[3]

    def rec_reg(ds):
        a, b = real_reg(ds)
        sim.tape.append([f2b(float(a)), f2b(float(b))])
        return a, b

    crashed = None
    exited = False
    _time.time = sim.time
    _time.sleep = sim.sleep
    wtower.sleep = sim.sleep
    wreg.calculate_regression = rec_reg
    unhook_log = _install_logging(sc)
    unhook = _install_preemption(sim, sc.get("preempt"))
    saved_routes = implrun.HTTP.routes
    try:
        if sc.get("argv"):
            crashed, exited = _run_main(sim, sc)
            return {"sim": sim, "crashed": crashed, "exited": exited}
        bot_cfg = sc["bot"]
        gen = implrun.build_gen(bot_cfg["gen"])
        if sc.get("complib"):
            implrun.HTTP.routes = [complib_route(sc["complib"])]
        rh = sc["rhythm"]
        if rh["kind"] == "stub":
            rhythm = StubRhythm(core.bits_to_float(rh["w"]))
        else:
            from harness import climain
            rhythm = climain.make_rhythm(peal_speed=rh["peal_speed"], inertia=core.bits_to_float(rh["inertia"]),
                                         max_bells_in_dataset=rh["max_bells"],
                                         handstroke_gap=core.bits_to_float(rh["gap"]), use_wait=rh["kind"] == "wait",
                                         initial_inertia=core.bits_to_float(rh["initial_inertia"]))
        tower = RingingRoomTower(sim.tower_id, sc.get("url", "http://fake-rr"))
        bot = Bot(tower, gen, bot_cfg["up_down_in"], bot_cfg["stop_at_rounds"], bot_cfg["call_comps"],
                  RecRhythm(rhythm, sim), user_name=bot_cfg.get("user_name"),
                  server_instance_id=bot_cfg.get("server_id"))
        sim_locks(bot, sim)
        sim.bot = bot
        sim.tower = tower
        sim.rhythm = rhythm
        try:
            with tower:
                tower.wait_loaded()
                if sc.get("look_to_time") is not None:
                    bot.look_to_has_been_called(core.bits_to_float(sc["look_to_time"]))
                bot.main_loop()
                exited = True
        except Stop:
            pass
        except EventCap:
            crashed = "EventCap"
        except Exception as e:
            crashed = type(e).__name__
    finally:
        sim.abort_handlers()
        unhook()
        unhook_log()
        implrun.HTTP.routes = saved_routes
        _time.time, _time.sleep, wtower.sleep, wreg.calculate_regression = saved
        fake_socketio.set_factory(None)
    return {"sim": sim, "crashed": crashed, "exited": exited}


def _install_preemption(sim, spec):
    """`spec` = {"nth": [k, ...], "d": seconds}: the socket thread is pre-empted (the handler that is running goes to
    sleep for `d` seconds, the main thread carries on) at its k-th log record.  Log records are the only places
    where a handler can be made to pause from outside without touching the code; a slow log sink does the same
    in real life.  The timed model does not know about this, so such sessions are judged by their oracle only."""
    if not spec:
        return lambda: None
    import logging
    count = [0]
    nth = set(spec["nth"])

    class Preempt(logging.Filter):
        def filter(self, record):
            h = sim.handler
            if h is not None and threading.current_thread() is h.thread and not sim.aborting:
                count[0] += 1
                if count[0] in nth:
                    sim.sleep(spec["d"])
            return False            # (nothing is ever written)
    class Sink(logging.Handler):
        def emit(self, record):
            pass
    sink = Sink(level=logging.DEBUG)
    sink.addFilter(Preempt())
    root = logging.getLogger()
    prev_disable, prev_level = logging.root.manager.disable, root.level
    logging.disable(logging.NOTSET)
    root.addHandler(sink)
    root.setLevel(logging.DEBUG)

    def unhook():
        root.removeHandler(sink)
        root.setLevel(prev_level)
        logging.disable(prev_disable)
    return unhook


def _install_logging(sc):
    """Wheatley's verbosity is part of its configuration (`-v`, `-q`): a session with sc["log_level"] runs with the
    log switched on at that level, the records formatted and thrown away.  (Otherwise logging is disabled
    altogether, as harness.implrun leaves it.)  A session through `main(argv)` sets the levels itself."""
    level = sc.get("log_level")
    if not level:
        return lambda: None
    import logging

    class Sink(logging.Handler):
        def emit(self, record):
            record.getMessage()
    root = logging.getLogger()
    prev = (logging.root.manager.disable, root.level, list(root.handlers))
    named = [lg for lg in logging.root.manager.loggerDict.values() if isinstance(lg, logging.Logger)]
    logging.disable(logging.NOTSET)
    for h in prev[2]:
        root.removeHandler(h)
    root.addHandler(Sink(level=logging.DEBUG))
    if not sc.get("argv"):
        root.setLevel(getattr(logging, level))
        for lg in named:
            lg.setLevel(logging.NOTSET)

    def unhook():
        for h in list(root.handlers):
            root.removeHandler(h)
        for h in prev[2]:
            root.addHandler(h)
        root.setLevel(prev[1])
        for lg in logging.root.manager.loggerDict.values():
            if isinstance(lg, logging.Logger):
                lg.setLevel(logging.NOTSET)
        logging.disable(prev[0])
    return unhook


def _run_main(sim, sc):
    """The session through the real `wheatley.main.main(argv)`: the tower page is fetched from the fake web, tower,
    row generator, rhythm and Bot are built by `console_main` itself.  Two names of `wheatley.main` are wrapped so
    that the simulator can see what it needs: `create_rhythm` (its result is put behind the recording proxy) and
    `RingingRoomTower` (the instance is remembered)."""
    page = '<script>window.tower_parameters = { id: 1, server_ip: "http://fake-rr" };</script>'
    routes = [lambda url, params: implrun.FakeResponse(page) if "complib" not in url else None]
    g = sc["bot"]["gen"]
    if g.get("type") == "comp":
        text = implrun.comp_payload(g)
        routes.insert(0, lambda url, params: implrun.FakeResponse(text) if "complib" in url else None)
    if sc.get("complib"):
        routes.insert(0, complib_route(sc["complib"]))
    saved_routes = implrun.HTTP.routes
    implrun.HTTP.routes = routes
    real_create, real_tower = wmain.create_rhythm, wmain.RingingRoomTower

    def create_rhythm(*a, **k):
        r = real_create(*a, **k)
        sim.rhythm = r
        return RecRhythm(r, sim)

    class Tower(real_tower):
        def __init__(self, *a, **k):
            super().__init__(*a, **k)
            sim.tower = self
    real_bot = wmain.Bot

    class SimBot(real_bot):
        def __init__(self, *a, **k):
            super().__init__(*a, **k)
            sim_locks(self, sim)
            sim.bot = self
    wmain.create_rhythm, wmain.RingingRoomTower, wmain.Bot = create_rhythm, Tower, SimBot
    crashed, exited = None, False
    try:
        wmain.main(list(sc["argv"]))
        exited = True
    except Stop:
        pass
    except EventCap:
        crashed = "EventCap"
    except SystemExit as e:
        crashed = f"SystemExit({e})"[:80]
    except Exception as e:  # noqa
        crashed = type(e).__name__
    finally:
        wmain.create_rhythm, wmain.RingingRoomTower, wmain.Bot = real_create, real_tower, real_bot
        implrun.HTTP.routes = saved_routes
    return crashed, exited


def _bind(sim, client):
    sim.client = client
    return sim


def model_request(scenario, sim):
    """The `world` request for the Lean driver built from what was delivered in the run."""
    from harness import gens
    bot = dict(scenario["bot"])
    bot["gen"] = gens.strip_private(bot["gen"])
    events = []
    for t, m in sim.delivered:
        mm = dict(m)
        if mm["m"] == "row_gen":
            mm = {"m": "row_gen", "json": m.get("json")}
            if m.get("model_gen") is not None:
                mm["model_gen"] = m["model_gen"]
        events.append([t, mm])
    return {"k": "world", "bot": bot, "rhythm": scenario["rhythm"],
            "start": f2b(float(scenario.get("start", 1000.0))), "end": f2b(float(scenario["end"])),
            "look_to_time": scenario.get("look_to_time"), "events": events, "tape": sim.tape}


def impl_reply(res):
    sim = res["sim"]
    obs = [o for o in sim.obs if o[1][0] not in ("connect", "other")]
    return {"obs": obs, "crashed": res["crashed"], "handler_crashes": sim.handler_crashes,
            "exited": res["exited"], "rejects": sim.rejects, "shape_errors": sim.shape_errors,
            "connect": sim.connect_urls, "tape_len": len(sim.tape),
            "delay": f2b(float(getattr(getattr(sim, "rhythm", None), "delay", 0.0)))}
