"""Stress the model/implementation tie with the shared session fuzzer (not a check: a tool).
usage: fuzzrun.py <sessions> <seed> [jobs]"""
import json
import multiprocessing
import random
import sys
import collections

sys.path.insert(0, __import__("os").path.dirname(__import__("os").path.dirname(__import__("os").path.abspath(__file__))))
from harness import core, fuzz, scen, sim  # noqa: E402


class P(scen.WorldProp):
    def agents(self, req):
        return fuzz.agents(req)


def work(args):
    seed, n = args
    rng = random.Random(seed)
    prop = P()
    reqs, irs, mreqs = [], [], []
    for i in range(n):
        r = fuzz.session(rng)
        try:
            ir = prop.impl(r)
        except BaseException as e:  # noqa
            import traceback
            print("HARNESS CRASH", seed, i, type(e).__name__, e, traceback.format_exc()[-800:])
            continue
        reqs.append(r)
        irs.append(ir)
        mreqs.append(prop.to_model(r))
    outs = core.Driver().run(mreqs)
    res = []
    for r, ir, mr in zip(reqs, irs, outs):
        d = prop.compare(r, ir, mr)
        res.append((fuzz.tag(r, ir), d, ir["crashed"], ir["handler_crashes"], len(scen.rings(ir)),
                    json.dumps(r) if d else None))
    return res


if __name__ == "__main__":
    n, seed = int(sys.argv[1]), int(sys.argv[2])
    jobs = int(sys.argv[3]) if len(sys.argv) > 3 else 14
    per = max(1, n // jobs)
    with multiprocessing.Pool(jobs) as pool:
        allres = pool.map(work, [(seed * 1000 + j, per) for j in range(jobs)])
    hist = collections.Counter()
    crashes = collections.Counter()
    bad = []
    rings = 0
    for res in allres:
        for tag, d, cr, hc, nr, rq in res:
            hist[tag] += 1
            rings += nr
            if cr:
                crashes["main:" + cr] += 1
            for h in hc:
                crashes["handler:" + h] += 1
            if d:
                bad.append((tag, d, rq))
    print(dict(hist))
    print("crashes:", dict(crashes), "total rings:", rings)
    print("disagreements:", len(bad))
    for i, (tag, d, rq) in enumerate(bad[:8]):
        print(" ", tag, d)
        open(f"/tmp/fuzz_bad_{i}.json", "w").write(rq)
