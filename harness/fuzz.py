"""Session fuzzer shared by the timed checks.

The property-specific generators in `harness/props/cNN.py` build sessions around the clauses of one
property.  This one builds long, mixed sessions of the whole program — several touches in one
process, human ringers who are late / leave / change bells, Go / Bob / Single / That's all / Rounds /
Stand at any time, size changes, settings and row-generator selections in server mode — and is used
for the *correspondence* only: the Lean `World` model must reproduce every observation of the real
Bot / Tower / Rhythm on the recorded history.  Everything is derived from the one `rng` passed in.
"""
import random

from harness import gens, scen
from harness.scen import call


def _method_json(stage):
    pn = "x1" if stage % 2 == 0 else gens.BELLS[stage - 1] + ".1"
    return {"m": "row_gen", "json": {"type": "method", "stage": stage, "notation": pn,
                                     "bob": {"0": "14"}, "single": {"0": "1234"}}}


def _rand_gen(rng, N):
    r = rng.random()
    stage = max(2, N - rng.choice([0, 0, 0, 1, 2]))
    if r < 0.35:
        return {"type": "plainhunt", "stage": stage, "start_row": gens.rand_start_row(rng, stage, 0.15)}
    if r < 0.65:
        spec = gens.rand_pn_spec(rng, stage=stage, start_row_p=0.15)
        if spec["start_row"] is not None and len(spec["start_row"]) > N:
            spec["start_row"] = None
        return spec
    if r < 0.75 and N >= 5:
        return {"type": "grandsire", "stage": max(5, stage), "start_row": None}
    if r < 0.82 and N >= 5:
        st = max(5, stage)
        return {"type": "stedman", "stage": st if st % 2 == 1 else st - 1, "start_row": None}
    if r < 0.87 and N >= 6:
        return {"type": "dixon", "stage": 6, "start_row": None}
    return gens.rand_comp_spec(rng, stage=min(stage, 12), nrows=rng.randint(3, 14))


class Band(scen.Follower):
    """Reactive humans: each due strike is rung `lag` late, where lag comes from a seeded stream;
    some strikes are skipped until `give_up` seconds have passed, and nothing is rung while
    Wheatley is not ringing."""

    def __init__(self, s, bells, seed, lags, skip_p, give_up):
        self.rng = random.Random(seed)
        self.lags = lags
        self.skip_p = skip_p
        self.give_up = give_up
        super().__init__(s, bells, None)

    def tick(self, s, t):
        v = s.view
        if v.ringing and v.turn is not None:
            row, place, bell, _ = v.turn
            key = (v.touch, row, place)
            if bell in self.bells and key not in self.done:
                self.done.add(key)
                lag = self.rng.choice(self.lags)
                if self.rng.random() < self.skip_p:
                    lag += self.give_up
                s.push(t + lag, "internal", lambda tt, b=bell: self.strike(s, tt, b))
        s.push(t + self.poll, "internal", lambda tt: self.tick(s, tt))

    def strike(self, s, t, bell):
        if s.view.ringing:
            s.human_strike(t, bell)


def session(rng, server=None):
    """One random session: (request dict with "scenario" and the recipe for the humans)."""
    N = rng.choice([4, 5, 6, 6, 8, 8, 10, 12])
    if server is None:
        server = rng.random() < 0.3
    ps = rng.choice([60, 90, 120, 178])
    wait_mode = True if server else rng.random() < 0.7
    humans = sorted(rng.sample(range(1, N + 1), rng.choice([0, 0, 1, 1, 2, 3]) if N > 4 else rng.choice([0, 1, 2])))
    if not wait_mode and rng.random() < 0.5:
        humans = []      # (keep-going mode with absent humans just rings on: keep some of those too)
    I = scen.interval(ps, N)
    row_t = I * (N + 0.5)
    udi = True if server else rng.random() < 0.4
    sar = rng.random() < 0.3
    if server:
        gen = {"type": "placeholder"}
        on_join = scen.humans_on_join(humans, "Wheatley", [b for b in range(1, 17) if b not in humans])
        bot = scen.bot_cfg(gen, up_down_in=udi, stop_at_rounds=sar, user_name="Wheatley", server_id=rng.randint(1, 9))
    else:
        gen = _rand_gen(rng, N)
        on_join = scen.humans_on_join(humans)
        bot = scen.bot_cfg(gen, up_down_in=udi, stop_at_rounds=sar, call_comps=rng.random() < 0.8)
    rhythm = scen.rhythm_cfg("wait" if wait_mode else "regression", inertia=rng.choice([0.0, 0.3, 0.5, 1.0]),
                             peal_speed=ps, gap=rng.choice([0.0, 1.0, 1.0, 2.0]), max_bells=rng.choice([5, 8, 15]),
                             initial_inertia=rng.choice([0.0, 0.0, 1.0]))
    events = []
    t = 1000.3 + rng.random()
    size = N
    if server:
        events.append([t - 0.25, "msg", _method_json(rng.choice([4, 5, 6, N, N]))])
    touches = rng.choice([1, 2, 2, 3])
    for k in range(touches):
        events.append([t - 0.2, "msg", {"m": "global_state", "state": [True] * size}])
        events.append(call(t, scen.LOOK_TO))
        T = t + 3
        dur = rng.uniform(3, 9) * row_t
        if not udi:
            events.append(call(T + rng.uniform(-0.5, 3) * row_t, scen.GO))
            if rng.random() < 0.15:
                events.append(call(T + rng.uniform(0, 4) * row_t, scen.GO))
        for _ in range(rng.choice([0, 0, 1, 2, 3])):
            events.append(call(T + rng.uniform(0, dur / row_t) * row_t, rng.choice([scen.BOB, scen.SINGLE])))
        if server and rng.random() < 0.4:
            key, val = rng.choice([("peal_speed", rng.choice([100, 150, "140", 200])), ("inertia", rng.choice([0, 1])),
                                   ("use_up_down_in", rng.random() < 0.5), ("stop_at_rounds", rng.random() < 0.5),
                                   ("call_composition", rng.random() < 0.5)])
            events.append([T + rng.uniform(0, dur / row_t) * row_t, "msg", {"m": "setting", "kvs": [[key, val]]}])
        if server and rng.random() < 0.3:
            events.append([T + rng.uniform(0, dur / row_t) * row_t, "msg", _method_json(rng.choice([4, 6, size]))])
        if humans and rng.random() < 0.2:
            b = rng.choice(humans)
            tt = T + rng.uniform(0, dur / row_t) * row_t
            events.append([tt, "msg", {"m": "assign", "bell": b, "user": rng.choice([0, 11, 5 if server else 0])}])
        if rng.random() < 0.1:
            events.append([T + rng.uniform(0, dur), "msg", {"m": "user_left", "id": 11}])
        if rng.random() < 0.1:
            events.append([T + rng.uniform(0, dur), "msg", {"m": "user_entered", "id": 11, "name": "Alice"}])
        # how the touch ends
        how = rng.random()
        t_end = T + dur
        if server and how < 0.5:
            events.append([t_end, "msg", {"m": "stop_touch"}])
        elif how < 0.4:
            events.append(call(t_end, scen.STAND))
        elif how < 0.8:
            events.append(call(t_end - rng.uniform(1, 3) * row_t, rng.choice([scen.THATS_ALL, scen.ROUNDS])))
            events.append(call(t_end + rng.uniform(0, 2) * row_t, scen.STAND))
        # (else: nobody ends it; the next Look To, if any, arrives while Wheatley is ringing)
        t = t_end + 4 * row_t + len(humans) * 1.5 + 1 + rng.random()
        if k < touches - 1 and rng.random() < 0.25:
            size = rng.choice([4, 6, 8, N])
            events.append([t - 0.6, "msg", {"m": "size_change", "size": size}])
    end = t + (rng.choice([0, 0, 302]) if server else 0)
    events.sort(key=lambda e: e[0])
    sc = {"start": 1000.0, "end": end, "tower_size": N, "events": events, "on_join": on_join, "bot": bot,
          "rhythm": rhythm}
    band = {"bells": humans, "seed": rng.getrandbits(32),
            "lags": rng.choice([[0.0, 0.02, 0.05], [0.05, 0.2, 0.4], [0.0, 0.0, 0.3, 1.2], [0.01]]),
            "skip_p": rng.choice([0.0, 0.0, 0.05]), "give_up": rng.choice([2.0, 5.0])}
    return {"k": "world", "fuzz": True, "scenario": sc, "band": band}


def agents(req):
    b = req["band"]
    if not b["bells"]:
        return None
    return lambda s: [Band(s, b["bells"], b["seed"], b["lags"], b["skip_p"], b["give_up"])]


def tag(req, reply):
    sc = req["scenario"]
    n_touch = sum(1 for e in sc["events"] if e[1] == "msg" and e[2].get("call") == scen.LOOK_TO)
    mode = "server" if sc["bot"].get("server_id") is not None else sc["rhythm"]["kind"]
    return f"fuzz:{mode}:touches{n_touch}:{'humans' if req['band']['bells'] else 'solo'}"


_HANDLERS = {}


def handler_for(prop):
    """The object that runs, compares and labels fuzz sessions on behalf of `prop`: the whole
    correspondence machinery of `WorldProp`, with the comparison restricted to the observation kinds
    (and, for rhythm properties, their times) that `prop` is about.  No oracle: these sessions
    support the tie between model and implementation only."""
    if prop.id in _HANDLERS:
        return _HANDLERS[prop.id]

    class FuzzFor(scen.WorldProp):
        id = prop.id

        def agents(self, req):
            return agents(req)

        def tag(self, req, reply):
            return tag(req, reply)

        def oracle(self, req, reply):
            return None

        def compare(self, req, ir, mr):
            kinds, times = prop.fuzz_kinds, prop.fuzz_times
            if kinds == "all" and times:
                return super().compare(req, ir, mr)
            if "driver_error" in mr or "err" in mr or ir["crashed"] == "EventCap":
                return super().compare(req, ir, mr)

            def proj(rep):
                out = dict(rep)
                out["obs"] = [[t if times else 0, o] for t, o in rep["obs"] if kinds == "all" or o[0] in kinds]
                if not times:
                    out.pop("delay", None)
                return out
            return super().compare(req, proj(ir), proj(mr))
    _HANDLERS[prop.id] = FuzzFor()
    return _HANDLERS[prop.id]
