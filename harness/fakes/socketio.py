"""Stub of python-socketio (absent from /venv).  The real `wheatley.tower` imports `socketio` and
uses `socketio.Client()` with `connect/on/emit/disconnect/connected`.  The harness installs a
factory so that every client created by Wheatley is backed by the fake Ringing Room."""

_factory = None


def set_factory(f):
    global _factory
    _factory = f


class Client:
    def __init__(self, *a, **k):
        self.connected = False
        self.handlers = {}
        self.emitted = []
        self.url = None
        self.backend = _factory(self) if _factory else None

    def connect(self, url, *a, **k):
        self.url = url
        self.connected = True
        if self.backend is not None:
            self.backend.on_connect(url)

    def on(self, event, handler=None):
        self.handlers[event] = handler

    def emit(self, event, data=None, *a, **k):
        self.emitted.append((event, data))
        if self.backend is not None:
            self.backend.on_emit(event, data)

    def disconnect(self):
        self.connected = False
