"""Runs the real implementation (from /repo's working tree, in-process) on the requests of the line
protocol and returns replies in the same canonical JSON shape as the Lean driver."""
import json
import logging

from harness import core  # noqa: F401  (sets sys.path: fakes + /repo)

import requests  # noqa: E402

logging.disable(logging.CRITICAL)

# ---- fake HTTP -------------------------------------------------------------------------------


class FakeResponse:
    def __init__(self, text="", status=200):
        self.text = text
        self.status_code = status

    def raise_for_status(self):
        if self.status_code >= 400:
            raise requests.exceptions.HTTPError(f"{self.status_code}")


class FakeHTTP:
    """requests.get replacement. `routes`: list of (predicate(url, params) -> FakeResponse|None)."""

    def __init__(self):
        self.routes = []
        self.log = []

    def get(self, url, params=None, timeout=None, **kw):
        self.log.append((url, params))
        for r in self.routes:
            resp = r(url, params)
            if resp is not None:
                return resp
        raise requests.exceptions.ConnectionError(f"no fake route for {url}")


HTTP = FakeHTTP()
requests.get = HTTP.get

from wheatley.aliases import CallDef  # noqa: E402
from wheatley.stroke import Stroke, HANDSTROKE, BACKSTROKE  # noqa: E402
from wheatley.row_generation import (  # noqa: E402
    PlaceNotationGenerator, PlainHuntGenerator, DixonoidsGenerator, ComplibCompositionGenerator)
from wheatley.row_generation.place_holder_generator import PlaceHolderGenerator, NullRowGenError  # noqa: E402
from wheatley.row_generation import helpers  # noqa: E402
from wheatley.row_generation.row_generator import RowGenerator  # noqa: E402


def comp_payload(spec):
    return json.dumps({"rows": spec["rows"], "title": spec.get("title", "t"), "stage": spec["stage"]})


def build_gen(spec):
    """Construct the real generator described by `spec` (may raise what the constructor raises)."""
    ty = spec["type"]
    sr = spec.get("start_row")
    if spec.get("via_cli"):
        # built by the real `main(argv)` from the command-line spelling of the specification
        from harness import climain
        g = climain.build_gen({k: v for k, v in spec.items() if k != "via_cli"})
        if g is not None:
            return g
    if ty == "pn":
        bob = spec.get("bob")
        single = spec.get("single")
        if spec.get("via_json"):
            # the server-mode path: the same definition as Ringing Room's JSON (a missing field = default calls,
            # an empty dictionary = a call defined nowhere)
            from wheatley import parsing
            js = {"type": "method", "stage": spec["stage"], "notation": spec["method"]}
            if bob is not None:
                js["bob"] = {str(k): v for k, v in bob}
            if single is not None:
                js["single"] = {str(k): v for k, v in single}
            return parsing.json_to_row_generator(js, logging.getLogger("verif"))
        return PlaceNotationGenerator(
            spec["stage"], spec["method"],
            None if bob is None else CallDef({int(k): v for k, v in bob}),
            None if single is None else CallDef({int(k): v for k, v in single}),
            spec.get("start_index") or 0, sr)
    if ty == "grandsire":
        return PlaceNotationGenerator.grandsire(spec["stage"], sr)
    if ty == "stedman":
        return PlaceNotationGenerator.stedman(spec["stage"], sr)
    if ty == "plainhunt":
        return PlainHuntGenerator(spec["stage"], sr)
    if ty == "dixon":
        return DixonoidsGenerator(spec["stage"], start_row=sr)
    if ty == "placeholder":
        return PlaceHolderGenerator()
    if ty == "method_xml":
        from xml.sax.saxutils import escape
        from wheatley.row_generation import MethodPlaceNotationGenerator
        pn = ""
        if spec.get("sym") is not None:
            pn = "".join(f"<symblock>{escape(x)}</symblock>" for x in spec["sym"])
        elif spec.get("block") is not None:
            pn = f"<block>{escape(spec['block'])}</block>"
        xml = ('<?xml version="1.0"?><methods xmlns="http://methods.ringing.org/NS/method"><method>'
               f'<title>{escape(spec.get("title", "Test Method"))}</title><stage>{spec["stage"]}</stage>'
               f'<pn>{pn}</pn></method></methods>')
        HTTP.routes = [lambda url, params: FakeResponse(xml)]
        bob = spec.get("bob")
        single = spec.get("single")
        try:
            return MethodPlaceNotationGenerator(
                spec.get("title", "Test Method"),
                None if bob is None else CallDef({int(k): v for k, v in bob}),
                None if single is None else CallDef({int(k): v for k, v in single}),
                sr, spec.get("start_index") or 0)
        finally:
            HTTP.routes = []
    if ty == "comp":
        text = comp_payload(spec)
        HTTP.routes = [lambda url, params: FakeResponse(text)]
        try:
            return ComplibCompositionGenerator(spec.get("id", 1))
        finally:
            HTTP.routes = []
    raise ValueError("unknown gen type " + ty)


def row_nums(row):
    return [b.number for b in row]


def impl_permute(req):
    class G(RowGenerator):
        def _gen_row(self, *a):
            raise NotImplementedError

        def summary_string(self):
            return ""
    g = G.__new__(G)
    g.stage = req["stage"]
    from wheatley.bell import Bell
    row = [Bell.from_number(b) for b in req["row"]]
    before = list(row)
    out = g.permute(row, list(req["places"]))
    assert row == before, "permute mutated its argument"
    return {"row": row_nums(out)}


def impl_convert(req):
    s = req["s"]
    try:
        conv = {"ok": [list(p) for p in helpers.convert_pn(s)]}
    except ValueError:
        conv = {"err": "ValueError"}
    return {"convert": conv, "valid": bool(helpers.valid_pn(s))}


def impl_gen(req):
    try:
        g = build_gen(req["gen"])
    except ValueError:
        return {"err": "ValueError"}
    except IndexError:
        return {"err": "IndexError"}
    return impl_gen_on(g, req["ops"])


def impl_gen_on(g, ops):
    """Drive a generator object through the operations (H/B = next row on that stroke, b/s = call, r = reset)."""
    outs = []
    for c in ops:
        if c == "b":
            g.set_bob()
        elif c == "s":
            g.set_single()
        elif c == "r":
            g.reset()
        else:
            try:
                row, calls = g.next_row_and_calls(HANDSTROKE if c == "H" else BACKSTROKE)
            except NullRowGenError:
                outs.append("NullRowGenError")
                break
            except KeyError:
                outs.append("KeyError")
                break
            except Exception as e:  # noqa  (any other exception while producing a row is an outcome to report)
                outs.append(type(e).__name__)
                break
            outs.append({"row": row_nums(row), "calls": list(calls)})
    # the generator's pending-call flags and row counter, when they are still called what they were called
    # when this harness was written (private names: their absence is not a difference in behaviour)
    try:
        final = {"bob": g._has_bob, "single": g._has_single, "index": g._index}
    except AttributeError:
        final = None
    return {"start_row": row_nums(g.start_row), "start_hand": g.start_stroke().is_hand(),
            "stage": g.stage, "outs": outs, "final": final}


BELL_NAMES = "1234567890ETABCD"     # (the harness's own table: the generator of inputs, not the code under test)


def rt_text(blocks):
    """The notation of the round-trip theorem written out (mirrors `RoundTrip.textOf`)."""
    out = []
    for b in blocks:
        s = b["pre"]
        prev = False
        for t in b["toks"]:
            if t[0] == "p":
                s += ("." if prev else "") + "".join(BELL_NAMES[p - 1] for p in t[1])
                prev = True
            else:
                s += "." * t[1] + t[0] + "." * t[2]
                prev = False
        out.append(s)
    return ",".join(out)


def rt_denote(blocks):
    multi = len(blocks) > 1
    out = []
    for b in blocks:
        chs = [list(t[1]) if t[0] == "p" else [] for t in b["toks"]]
        sym = (b["pre"] != "+") if multi else (b["pre"] == "&")
        out += chs + (list(reversed(chs[:-1])) if sym else [])
    return out


def impl_roundtrip(req):
    """The real `convert_pn` on the written notation."""
    text = rt_text(req["blocks"])
    try:
        conv = [list(ch) for ch in helpers.convert_pn(text)]
    except ValueError:
        conv = None
    return {"text": text, "denote": conv}


HANDLERS = {"permute": impl_permute, "convert": impl_convert, "gen": impl_gen, "roundtrip": impl_roundtrip}


def run(req):
    return HANDLERS[req["k"]](req)
