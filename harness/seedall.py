"""Re-run every recorded seeded change against the current checks: apply the patch to /repo, run the
check of the property it was written against, expect a VIOLATION line, undo.  (A tool, not a check.)"""
import json, os, subprocess, sys
REPO = os.environ.get("WHEATLEY_REPO", "/repo")
V = os.path.dirname(os.path.dirname(os.path.abspath(__file__)))
names = sorted(os.listdir(os.path.join(V, "seeded")))
if len(sys.argv) > 1:
    names = [n for n in names if any(a in n for a in sys.argv[1:])]
bad = []
for n in names:
    d = os.path.join(V, "seeded", n)
    meta = json.load(open(os.path.join(d, "meta.json")))
    prop = meta["breaks_property"]
    r = subprocess.run(["git", "-C", REPO, "apply", os.path.join(d, "patch.diff")], capture_output=True, text=True)
    if r.returncode != 0:
        print(f"{n}: PATCH DOES NOT APPLY ({r.stderr.strip()[:100]})")
        bad.append(n)
        continue
    try:
        out = subprocess.run([os.path.join(V, "check.py"), prop], capture_output=True, text=True, cwd=V).stdout
    finally:
        subprocess.run(["git", "-C", REPO, "checkout", "--", "."])
    v = [l for l in out.splitlines() if l.startswith("VIOLATION")]
    concrete = bool(v) and "no-failing-input-found" not in v[0]
    print(f"{n}: {prop} {'caught' if v else 'MISSED'}{'' if concrete or not v else ' (tie only)'}")
    if not v:
        bad.append(n)
print("not caught:", bad)
