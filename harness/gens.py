"""Seeded input generators for row-generation requests, and the Python reference interpreter used
as the oracle for C01-C05 (written from the change-ringing conventions, not from the code)."""
import itertools

BELLS = "1234567890ETABCD"


# ---- reference semantics (oracle) -------------------------------------------------------------

def ref_full_places(stage, places):
    """Places made in a change, with the implied external places added."""
    ps = sorted(set(p for p in places if 1 <= p <= stage))
    if ps:
        if ps[0] % 2 == 0:
            ps = [1] + ps
        if (stage - ps[-1]) % 2 == 1:
            ps = ps + [stage]
    elif stage % 2 == 1:
        # a "cross" on an odd stage: the top place is implied
        ps = [stage]
    return ps


def ref_well_formed(stage, places):
    """Every maximal run of unmade places has even length."""
    ps = ref_full_places(stage, places)
    run = 0
    for i in range(1, stage + 1):
        if i in ps:
            if run % 2:
                return False
            run = 0
        else:
            run += 1
    return run % 2 == 0


def ref_apply(stage, places, row):
    """Apply a well-formed change: made places stay, the others swap in adjacent pairs."""
    ps = set(ref_full_places(stage, places))
    out = list(row)
    k = 0
    for i in range(1, stage + 1):
        if i in ps:
            continue
        k += 1
        if k % 2 == 1:
            out[i - 1] = row[i]
        else:
            out[i - 1] = row[i - 2]
    return out


def ref_rows(stage, changes, start_row, start_index, n):
    rows = []
    row = list(start_row)
    L = len(changes)
    for k in range(n):
        row = ref_apply(stage, changes[(k + start_index) % L], row)
        rows.append(row)
    return rows


def ref_call_rows(stage, changes, start_index, start_row, bob_ref, single_ref, ops, trace=None):
    """Reference semantics of Bob/Single (C04), written from the property statement: a call stays
    pending until the first row whose lead position has a definition for it; there its changes
    replace the method's, one per row, then the plain method resumes.  Returns (rows, ok) where ok
    is False if the history ever had both calls pending at once (outside the quantifier)."""
    L = len(changes)
    bob = {}
    for pos, chs in bob_ref.items():
        bob[(pos - 1) % L] = chs
    single = {}
    for pos, chs in single_ref.items():
        single[(pos - 1) % L] = chs
    pending = set()
    queue = []
    rows = []
    row = list(start_row)
    k = 0
    ok = True
    for op in ops:
        if op == "b":
            pending.add("b")
        elif op == "s":
            pending.add("s")
        elif op == "r":
            pending = set()
            queue = []
            row = list(start_row)
            k = 0
        else:
            if len(pending) > 1:
                ok = False
            li = (k + start_index) % L
            if "b" in pending and li in bob:
                queue = list(bob[li])
                pending = set()
            elif "s" in pending and li in single:
                queue = list(single[li])
                pending = set()
            ch = queue.pop(0) if queue else changes[li]
            if trace is not None:
                trace.append(list(ch))           # (the change the notation / call definition names for this row)
            row = ref_apply(stage, ch, row)
            rows.append(row)
            k += 1
    return rows, ok


# Dixon's Bob Minor, from its description in the ringing literature: plain hunt (a cross at handstroke), and at
# backstroke 2nds is made when the treble leads, 4ths when the 2 or the 4 leads, the lead is made (16) otherwise; a
# Bob replaces the treble's 2nds by 4ths, a Single by 1234; a call waits for the treble's lead.
DIXON_PLAIN = {0: ([], [1]), 1: ([], [1, 2]), 2: ([], [1, 4]), 4: ([], [1, 4])}
DIXON_BOB = {1: ([], [1, 4])}
DIXON_SINGLE = {1: ([], [1, 2, 3, 4])}


def ref_dixon_rows(stage, start_row, ops, trace=None):
    """Reference semantics of the rule-driven generator (`DixonoidsGenerator` with its default tables): the bell
    that leads picks the change; a pending call is used by the first leading bell that has a rule for it (both
    strokes of that lead) and is spent at its backstroke; a leading bell without a rule for the pending call rings
    its own plain rule.  Returns (rows, ok); ok is False when both calls were ever pending at once."""
    rows, row = [], list(start_row)
    bob = single = False
    ok = True
    for op in ops:
        if op == "b":
            bob = True
        elif op == "s":
            single = True
        elif op == "r":
            bob = single = False
            row = list(start_row)
        else:
            if bob and single:
                ok = False
            lead, i = row[0], (0 if op == "H" else 1)
            if bob and lead in DIXON_BOB:
                ch = DIXON_BOB[lead][i]
                if op == "B":
                    bob = single = False
            elif single and lead in DIXON_SINGLE:
                ch = DIXON_SINGLE[lead][i]
                if op == "B":
                    bob = single = False
            else:
                ch = DIXON_PLAIN.get(lead, DIXON_PLAIN[0])[i]
            if trace is not None:
                trace.append(list(ch))
            row = ref_apply(stage, ch, row)
            rows.append(row)
    return rows, ok


def special_reference(ty, stage):
    """(changes, bob_ref, single_ref) of the built-in methods, written from their definitions in the
    ringing literature: Grandsire = 3 then plain hunt, Bob 3 / Single 3.123 at the lead end; Stedman =
    3.1.n.3.1.3.1.3.n.1.3.1, Bob n-2 / Single n-2,n-1,n at the six-ends (Doubles: no Bob, Singles 345 and 145)."""
    if ty == "grandsire":
        cross = [stage] if stage % 2 else []
        ch = [[1] if i % 2 else list(cross) for i in range(2 * stage)]
        ch[0] = [3]
        return ch, {-1: [[3]]}, {-1: [[3], [1, 2, 3]]}
    if ty == "stedman":
        n = stage
        ch = [[3], [1], [n], [3], [1], [3], [1], [3], [n], [1], [3], [1]]
        if stage == 5:
            return ch, {}, {6: [[3, 4, 5]], 12: [[1, 4, 5]]}
        return ch, {3: [[n - 2]], 9: [[n - 2]]}, {3: [[n - 2, n - 1, n]], 9: [[n - 2, n - 1, n]]}
    return None


# ---- notation ASTs ------------------------------------------------------------------------------

def rand_change(rng, stage, wellformed=True, allow_cross=True):
    """A list of places (1-based, ascending, as they would be written)."""
    if not wellformed:
        ps = [i for i in range(1, stage + 1) if rng.random() < 0.4]
        return ps
    while True:
        ps = []
        i = 1
        while i <= stage:
            if i == stage or rng.random() < 0.35:
                ps.append(i)
                i += 1
            else:
                i += 2
        if ps or allow_cross:
            return ps


def written_places(rng, stage, ps):
    """Optionally drop implied external places, the way notation is written."""
    ps = list(ps)
    if len(ps) >= 2 and ps[0] == 1 and ps[1] % 2 == 0 and rng.random() < 0.5:
        ps = ps[1:]
    if len(ps) >= 2 and ps[-1] == stage and (stage - ps[-2]) % 2 == 1 and rng.random() < 0.5:
        ps = ps[:-1]
    return ps


def rand_ast(rng, stage, max_blocks=3, max_len=8, odd_cross=False):
    """[(prefix, [change,...])...]; a change is [] (cross, even stages only) or a list of places."""
    nblocks = rng.choice([1, 1, 1, 2, 2, 3][:max(1, max_blocks * 2)])
    blocks = []
    for _ in range(nblocks):
        n = rng.randint(1, max_len)
        chs = []
        for _ in range(n):
            c = rand_change(rng, stage, True, allow_cross=(stage % 2 == 0) or odd_cross)
            if c:
                c = written_places(rng, stage, c)
            chs.append(c)
        if nblocks == 1:
            prefix = rng.choice(["", "", "&", "+"])
        else:
            prefix = rng.choice(["", "&", "+"])
        blocks.append((prefix, chs))
    return blocks


def places_str(ps):
    return "".join(BELLS[p - 1] for p in ps)


def render_block(rng, prefix, changes, dots="random"):
    out = prefix
    prev_cross = True  # no dot needed at the start
    for i, c in enumerate(changes):
        if not c:
            nd1 = 0 if dots == "none" else rng.choice([0, 0, 1, 2]) if dots == "random" else 1
            nd2 = 0 if dots == "none" else rng.choice([0, 0, 1, 3]) if dots == "random" else 1
            if i == 0:
                nd1 = 0 if dots != "random" else rng.choice([0, 0, 1])
            out += "." * nd1 + rng.choice("x-") + "." * nd2
            prev_cross = True
        else:
            if not prev_cross:
                out += "."
            out += places_str(c)
            prev_cross = False
    return out


def render_ast(rng, ast, dots="random"):
    return ",".join(render_block(rng, p, chs, dots) for p, chs in ast)


def denote(ast):
    """The list of changes a notation AST stands for."""
    multi = len(ast) > 1
    out = []
    for prefix, chs in ast:
        sym = (prefix != "+") if multi else (prefix == "&")
        out += list(chs) + (list(reversed(chs[:-1])) if sym else [])
    return out


# ---- generator specifications ---------------------------------------------------------------------

def rand_start_row(rng, stage, p=0.3):
    if rng.random() > p:
        return None
    n = rng.choice([stage, stage, max(1, stage - 1), min(16, stage + 1), min(16, stage + 2)])
    bells = list(range(1, n + 1))
    rng.shuffle(bells)
    return "".join(BELLS[b - 1] for b in bells)


def rand_calldef(rng, stage, lead_len, multi=True):
    """Returns (definition as [[pos, notation]...], reference {pos: [changes]})."""
    n = rng.choice([1, 1, 2, 3, 1, 1, 2, 0])      # (0: a call that is defined nowhere in the lead)
    d = []
    ref = {}
    used = set()
    for _ in range(n):
        pos = rng.randint(-lead_len, 2 * lead_len)
        if pos in used:
            continue
        used.add(pos)
        ln = rng.choice([1, 1, 1, 2, 3, 4]) if multi else 1
        chs = [rand_change(rng, stage, True, allow_cross=(stage % 2 == 0)) for _ in range(ln)]
        chs = [written_places(rng, stage, c) if c else c for c in chs]
        s = render_block(rng, "", chs, dots="min")
        d.append([pos, s])
        ref[pos] = chs
    return d, ref


def rand_pn_spec(rng, stage=None, calls=True, start_row_p=0.3):
    stage = stage or rng.randint(2, 16)
    ast = rand_ast(rng, stage)
    method = render_ast(rng, ast)
    L = len(denote(ast))
    spec = {"type": "pn", "stage": stage, "method": method,
            "start_index": rng.choice([0, 0, 0, 1, -1, 2, -2, rng.randint(-30, 30)]),
            "start_row": rand_start_row(rng, stage, start_row_p),
            "bob": None, "single": None, "_ast": [[p, c] for p, c in ast]}
    spec["_bob_ref"] = {0: [[1, 4]]}
    spec["_single_ref"] = {0: [[1, 2, 3, 4]]}
    if calls:
        if rng.random() < 0.7:
            spec["bob"], spec["_bob_ref"] = rand_calldef(rng, stage, L)
        if rng.random() < 0.7:
            spec["single"], spec["_single_ref"] = rand_calldef(rng, stage, L)
    return spec


def rand_special_spec(rng):
    ty = rng.choice(["grandsire", "stedman", "plainhunt", "dixon"])
    if ty == "grandsire":
        stage = rng.randint(5, 16)
    elif ty == "stedman":
        stage = rng.choice([5, 7, 9, 11, 13, 15])
    elif ty == "plainhunt":
        stage = rng.randint(1, 16)
    else:
        stage = 6
    return {"type": ty, "stage": stage, "start_row": rand_start_row(rng, stage, 0.2)}


def rand_comp_spec(rng, stage=None, calls=True, nrows=None):
    stage = stage or rng.randint(4, 12)
    rounds = "".join(BELLS[:stage])
    nsr = rng.choice([1, 2, 2, 3])
    n = nrows if nrows is not None else rng.randint(1, 24)
    names = ["Bob", "Single", "Go Plain Bob", "That's all", "Stand", "Plain", "Cambridge", " Bob ", "-", "s"]
    rows = []

    def callstr():
        if not calls or rng.random() < 0.7:
            return ""
        sep = rng.choice([";", "; ", "; ", " ; "])
        return sep.join(rng.choice(names) for _ in range(rng.choice([1, 1, 2, 3])))
    for i in range(nsr):
        rows.append([rounds, callstr(), 0])
    bells = list(rounds)
    for i in range(n):
        while True:
            rng.shuffle(bells)
            r = "".join(bells)
            if not (i == 0 and r == rounds):
                break
        rows.append([r, callstr(), rng.randint(0, 7)])
    if rng.random() < 0.6:
        rows.append([rounds, callstr(), 0])
    return {"type": "comp", "stage": stage, "rows": rows, "title": "Test comp"}


def alternating_ops(rng, spec_start_hand, n, call_p=0.0, reset_p=0.0):
    ops = []
    hand = spec_start_hand
    for _ in range(n):
        r = rng.random()
        if r < call_p:
            ops.append(rng.choice("bs"))
        elif r < call_p + reset_p:
            ops.append("r")
            hand = spec_start_hand
            continue
        ops.append("H" if hand else "B")
        hand = not hand
    return "".join(ops)


def all_place_sets(stage):
    for mask in range(1 << stage):
        yield [i + 1 for i in range(stage) if mask >> i & 1]


def strip_private(spec):
    """Remove harness-only keys (leading underscore) before a spec is sent anywhere."""
    return {k: v for k, v in spec.items() if not k.startswith("_")}
