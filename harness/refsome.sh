#!/bin/bash
# refsome.sh C05 C12 ...: every recorded refactoring against the named quick checks only, on a private snapshot of /repo
export WHEATLEY_REPO=${VP_RUN_REPO:-/repo}
/venv/bin/python harness/extract.py $WHEATLEY_REPO && (cd lean && lake build driver Wheatley >/dev/null 2>&1)
for d in refactors/*/; do
  n=$(basename $d)
  git -C $WHEATLEY_REPO apply $PWD/$d/patch.diff 2>/dev/null || { echo "$n: PATCH DOES NOT APPLY"; continue; }
  bad=""
  for c in "$@"; do ./check.py $c --tier quick > /tmp/refsome_$c.log 2>&1 || bad="$bad $c"; done
  git -C $WHEATLEY_REPO checkout -- . ; git -C $WHEATLEY_REPO clean -fdq wheatley
  if [ -z "$bad" ]; then echo "$n: quiet"; else echo "$n: ALARM in$bad"; grep -hE "VIOLATION|no longer" /tmp/refsome_*.log | head -4; fi
done
rm -f /tmp/refsome_*.log
