"""Re-run every recorded behaviour-preserving refactoring (refactors/*/patch.diff) against the current
checks: apply it to the repository, run every quick check, expect silence, undo.  (A tool, not a check.)"""
import os, subprocess, sys
REPO = os.environ.get("WHEATLEY_REPO", "/repo")
V = os.path.dirname(os.path.dirname(os.path.abspath(__file__)))
names = sorted(os.listdir(os.path.join(V, "refactors")))
if len(sys.argv) > 1:
    names = [n for n in names if n in sys.argv[1:]]
noisy = []
for n in names:
    patch = os.path.join(V, "refactors", n, "patch.diff")
    r = subprocess.run(["git", "-C", REPO, "apply", patch], capture_output=True, text=True)
    if r.returncode != 0:
        print(f"{n}: PATCH DOES NOT APPLY")
        continue
    try:
        procs = {f"C{i:02d}": subprocess.Popen([os.path.join(V, "check.py"), f"C{i:02d}"], cwd=V, stdout=subprocess.PIPE,
                                               stderr=subprocess.STDOUT, text=True) for i in range(1, 21)}
        outs = {k: (p.communicate()[0], p.returncode) for k, p in procs.items()}
    finally:
        subprocess.run(["git", "-C", REPO, "checkout", "--", "."])
        subprocess.run(["git", "-C", REPO, "clean", "-fdq", "wheatley"])
    bad = [k for k, (o, rc) in outs.items() if rc != 0]
    print(f"{n}: {'quiet' if not bad else 'ALARM in ' + ' '.join(bad)}")
    for k in bad:
        print("   ", [l for l in outs[k][0].splitlines() if "VIOLATION" in l or "no longer" in l][:2])
        noisy.append((n, k))
print("alarms:", noisy)
