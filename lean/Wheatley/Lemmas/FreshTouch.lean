/-
While the method is being rung, the row generator is in a state that a *freshly constructed* generator reaches by
row requests, Bobs and Singles alone: whatever state it was in before the method started - a pending call, a
half-generated multi-change call, a position deep in the course, anything at all - is gone.  An invariant of the Bot
through every handler, every Look To and every `start_next_row` (for C05's system-level theorem).
-/
import Wheatley.Lemmas.Gen
import Wheatley.Lemmas.Ctl
import Wheatley.Lemmas.Lift
import Wheatley.Lemmas.MethodRows
namespace Wheatley
namespace FreshTouch
open MethodRows

/-- States a freshly constructed generator reaches through `next_row_and_calls`, `set_bob` and `set_single`
(no `reset` needed, nothing inherited). -/
inductive Reach : Gen → Prop
  | init (k : GenKind) (cs : Option Row) (sr : Row) : Reach (Gen.init k cs sr)
  | next {g g' : Gen} {hand : Bool} {r : Row} {calls : List String} : Reach g → g.next hand = .ok g' r calls → Reach g'
  | bob {g : Gen} : Reach g → Reach g.setBob
  | single {g : Gen} : Reach g → Reach g.setSingle

theorem Reach.reset (g : Gen) : Reach g.reset := by
  rw [Gen.reset_eq_init]; exact Reach.init _ _ _

/-- The operations applied one after the other (an exception leaves the generator as it was). -/
def applyAll (g : Gen) (ops : List GenOp) : Gen := ops.foldl (fun g op => (g.apply op).1) g

/-- Spelled out: some freshly constructed generator and some list of operations without `reset` give exactly this
state. -/
theorem Reach.ops {g : Gen} (h : Reach g) :
    ∃ k cs sr ops, (∀ op ∈ ops, op ≠ GenOp.reset) ∧ g = applyAll (Gen.init k cs sr) ops := by
  induction h with
  | init k cs sr => exact ⟨k, cs, sr, [], by simp, rfl⟩
  | next _ hn ih =>
    rename_i g1 g2 hand r calls _
    obtain ⟨k, cs, sr, ops, h1, h2⟩ := ih
    refine ⟨k, cs, sr, ops ++ [.next hand], ?_, ?_⟩
    · intro op hop
      rcases List.mem_append.mp hop with h | h
      · exact h1 op h
      · simp at h; subst h; simp
    · unfold applyAll at h2 ⊢
      rw [List.foldl_append, ← h2]
      simp [Gen.apply, hn]
  | bob _ ih =>
    obtain ⟨k, cs, sr, ops, h1, h2⟩ := ih
    refine ⟨k, cs, sr, ops ++ [.bob], ?_, ?_⟩
    · intro op hop
      rcases List.mem_append.mp hop with h | h
      · exact h1 op h
      · simp at h; subst h; simp
    · unfold applyAll at h2 ⊢
      rw [List.foldl_append, ← h2]
      simp [Gen.apply]
  | single _ ih =>
    obtain ⟨k, cs, sr, ops, h1, h2⟩ := ih
    refine ⟨k, cs, sr, ops ++ [.single], ?_, ?_⟩
    · intro op hop
      rcases List.mem_append.mp hop with h | h
      · exact h1 op h
      · simp at h; subst h; simp
    · unfold applyAll at h2 ⊢
      rw [List.foldl_append, ← h2]
      simp [Gen.apply]

/-- In the method, the generator is a fresh one plus what has been asked of it since. -/
def Fresh (b : Bot) : Prop := InMethod b → Reach b.gen

theorem Fresh.congr {b b' : Bot} (h : Fresh b) (h1 : b'.gen = b.gen) (hm : InMethod b' → InMethod b) : Fresh b' := by
  intro hm'
  rw [h1]
  exact h (hm hm')

theorem generateNextRow_fresh (b : Bot) (h : Fresh b) : Fresh (b.generateNextRow).1 := by
  unfold Bot.generateNextRow
  split
  · rename_i ho
    intro hm; have := hm.2.1; exact absurd (ho.symm.trans this) (by simp)
  · split
    · rename_i hr
      intro hm; have := hm.2.2; exact absurd (hr.symm.trans this) (by simp)
    · rename_i ho hr
      split
      · rename_i g' r calls hn
        intro hm
        have hb : InMethod b := ⟨hm.1, by simpa using ho, by simpa using hr⟩
        exact Reach.next (h hb) hn
      · exact h
      · exact h

theorem snrFinish_fresh (b : Bot) (o : List Out) (h : Fresh b) : Fresh (Bot.snrFinish b o).1 := by
  unfold Bot.snrFinish
  split
  · exact h
  · have hg := generateNextRow_fresh b h
    rcases hgq : b.generateNextRow with ⟨b3, o9⟩
    rw [hgq] at hg
    simp only [] at hg ⊢
    split <;> exact hg

theorem ite_false_else {X : Prop} [Decidable X] {a : Bool} (h : (if X then false else a) = true) : a = true := by
  split at h
  · cases h
  · exact h

theorem ite_true_else {X : Prop} [Decidable X] {a : Bool} (h : (if X then true else a) = false) : a = false := by
  split at h
  · cases h
  · exact h

/-- Without a method start, `start_next_row` never *enters* the method. -/
theorem ctl_method_kept (c0 : Ctl) (i : CtlIn) (c : Ctl) (h : ctlStep c0 i = .ok c false)
    (hm : c.isRinging = true ∧ c.ringingOpening = false ∧ c.ringingRounds = false) :
    c0.isRinging = true ∧ c0.ringingOpening = false ∧ c0.ringingRounds = false := by
  unfold ctlStep at h
  split at h
  · cases h
  · injection h with h1 h2
    subst h1
    simp only [ctlNext, h2, Bool.false_eq_true, if_false] at hm
    obtain ⟨m1, m2, m3⟩ := hm
    exact ⟨ite_false_else m1, m2, ite_true_else m3⟩

theorem startNextRow_fresh (b : Bot) (f : Bool) (h : Fresh b) : Fresh (b.startNextRow f).1 := by
  unfold Bot.startNextRow
  split
  · unfold Bot.snrPrep
    split <;> exact h.congr rfl (fun x => x)
  · rename_i c started hstep
    simp only []
    apply snrFinish_fresh
    have hp : b.snrPrep.gen = b.gen := by unfold Bot.snrPrep; split <;> rfl
    cases started with
    | true =>
      intro _
      show Reach b.snrPrep.gen.reset
      exact Reach.reset _
    | false =>
      intro hm
      show Reach b.snrPrep.gen
      rw [hp]
      exact h (ctl_method_kept b.ctl (b.ctlIn f) c hstep hm)

theorem arm_fresh (b : Bot) : Fresh (b.armLookTo.startNextRow true).1 := by
  apply startNextRow_fresh
  intro hm
  exact absurd hm.2.1 (by simp [Bot.armLookTo])

theorem tick_fresh (b : Bot) (bell : Nat) (uc : Bool) (h : Fresh b) : Fresh (b.tickEnd bell uc).1 := by
  unfold Bot.tickEnd
  simp only []
  split
  · exact startNextRow_fresh _ false (h.congr rfl (fun x => x))
  · exact h.congr rfl (fun x => x)

theorem foldSettings_fresh : ∀ (kvs : List (String × SVal)) (b : Bot), Fresh b → Fresh (foldSettings b kvs).1 := by
  intro kvs
  induction kvs with
  | nil => intro b h; exact h
  | cons kv rest ih =>
    intro b h
    obtain ⟨k, v⟩ := kv
    unfold foldSettings
    simp only []
    apply ih
    unfold Bot.onSetting
    split
    · split <;> first | exact h.congr rfl (fun x => x) | exact h
    · split
      · split <;> first | exact h.congr rfl (fun x => x) | exact h
      · split
        · split <;> first | exact h.congr rfl (fun x => x) | exact h
        · exact h

theorem onSizeChange_fresh (q : Bot) (h : Fresh q) : Fresh q.onSizeChange.1 := by
  unfold Bot.onSizeChange
  split
  · exact h
  · exact h.congr rfl (fun x => x)

/-- Every handler keeps it - for every message whatever. -/
theorem msg_fresh (b : Bot) (m : Msg) (h : Fresh b) : Fresh (b.onMsg m).1 := by
  cases m with
  | bellRung st who =>
    unfold Bot.onMsg
    simp only []
    split
    · exact h.congr rfl (fun x => x)
    · split <;> exact h.congr rfl (fun x => x)
  | globalState st =>
    unfold Bot.onMsg
    simp only []
    exact onSizeChange_fresh _ (h.congr rfl (fun x => x))
  | userEntered id name => unfold Bot.onMsg; exact h.congr rfl (fun x => x)
  | userList us => unfold Bot.onMsg; exact h.congr rfl (fun x => x)
  | sizeChange n =>
    unfold Bot.onMsg
    simp only []
    split
    · exact onSizeChange_fresh _ (h.congr rfl (fun x => x))
    · exact h.congr rfl (fun x => x)
  | assign bell user => unfold Bot.onMsg; exact h.congr rfl (fun x => x)
  | userLeft id => unfold Bot.onMsg; exact h.congr rfl (fun x => x)
  | stopTouch =>
    unfold Bot.onMsg
    simp only []
    split
    · intro hm; exact absurd hm.1 (by simp)
    · exact h.congr rfl (fun x => x)
  | rowGen g =>
    unfold Bot.onMsg
    simp only []
    split
    · cases g with
      | none => exact h.congr rfl (fun x => x)
      | some g => exact h.congr rfl (fun x => x)
    · exact h.congr rfl (fun x => x)
  | setting kvs =>
    unfold Bot.onMsg
    simp only []
    split
    · exact foldSettings_fresh kvs _ (h.congr rfl (fun x => x))
    · exact h.congr rfl (fun x => x)
  | call c =>
    unfold Bot.onMsg
    simp only []
    have hb : Fresh ({ b with tower := b.tower.apply (.call c) } : Bot) := h.congr rfl (fun x => x)
    generalize ({ b with tower := b.tower.apply (.call c) } : Bot) = q at hb
    unfold Bot.onCall
    split
    · unfold Bot.onLookTo
      split
      · unfold Bot.lookTo
        split
        · exact hb
        · exact arm_fresh q
      · exact hb
    · split
      · unfold Bot.onGo
        split
        · exact hb.congr rfl (fun x => x)
        · exact hb
      · split
        · intro hm; exact Reach.bob (hb hm)
        · split
          · intro hm; exact Reach.single (hb hm)
          · split
            · exact hb.congr rfl (fun x => x)
            · split
              · intro hm; exact absurd hm.2.1 (by simp)
              · split
                · exact hb.congr rfl (fun x => x)
                · exact hb

/-- `Fresh` is an invariant of the Bot for *every* event. -/
theorem botInvariant : BotInvariant Fresh (fun _ => True) :=
  { arm := fun b _ => arm_fresh b, tick := tick_fresh, msg := fun b m _ h => msg_fresh b m h }

end FreshTouch
end Wheatley
