/-
Lifting an invariant of the Bot to the timed world.

The Bot changes in four places only: a message is handled (`Bot.onMsg`), the handler of an accepted Look To wakes
up and runs the rest of `look_to_has_been_called` (`armLookTo`, `startNextRow true`), the main thread calls
`look_to_has_been_called` itself (`--look-to-time`), and `tick` finishes (`tickEnd`).  A predicate that these
transitions preserve - for the messages of a class `E` - therefore holds of the Bot in every state of every run
whose events are of that class: any number of steps, any event times, any interleaving with the main thread.
-/
import Wheatley.Lemmas.Handlers
namespace Wheatley
variable {K : Type} [Num K]

/-- `I` is preserved by every transition of the Bot (for messages of the class `E`). -/
structure BotInvariant (I : Bot → Prop) (E : Ev → Prop) : Prop where
  arm : ∀ b, I b → I (b.armLookTo.startNextRow true).1
  tick : ∀ b bell uc, I b → I (b.tickEnd bell uc).1
  msg : ∀ b m, E (.msg m) → I b → I (b.onMsg m).1

namespace BotInvariant
variable {I : Bot → Prop} {E : Ev → Prop}

theorem lookTo (h : BotInvariant I E) (b : Bot) (hb : I b) : I b.lookTo.1 := by
  unfold Bot.lookTo
  split
  · exact hb
  · exact h.arm b hb

theorem foldl_bot (wt : K → K) (ct : K) (outs : List Out) (w : World K) (hb : I w.bot) :
    I (outs.foldl (World.applyOut wt ct) w).bot := by
  rw [(foldl_applyOut_bot_crashed wt ct outs w).1]; exact hb

theorem finishTick (h : BotInvariant I E) (wt : K → K) (w : World K) (bell : Nat) (uc : Bool) (hb : I w.bot) :
    I (w.finishTick wt bell uc).1.bot := by
  unfold World.finishTick
  simp only []
  have hb' := h.tick w.bot bell uc hb
  split
  · dsimp only; rw [(foldl_applyOut_bot_crashed wt _ _ _).1]; exact hb'
  · dsimp only; rw [(foldl_applyOut_bot_crashed wt _ _ _).1]; exact hb'

theorem afterInner (h : BotInvariant I E) (wt : K → K) (w : World K) (bell : Nat) (uc hand : Bool) (d : K) (js : Bool)
    (hb : I w.bot) : I (w.afterInner wt bell uc hand d js).1.bot := by
  unfold World.afterInner
  split
  · split
    · simp only []
      split
      · exact h.finishTick wt _ bell uc hb
      · exact hb
    · exact h.finishTick wt _ bell uc hb
  · exact h.finishTick wt w bell uc hb

theorem beginWait_bot (w : World K) (bell : Nat) (uc hand : Bool) : (w.beginWait bell uc hand).1.bot = w.bot := by
  unfold World.beginWait
  split
  · rfl
  · simp only []
    split <;> (split <;> rfl)

/-- One step of the main thread. -/
theorem mainStep (h : BotInvariant I E) (wt : K → K) (w : World K) (hb : I w.bot) : I (w.mainStep wt).1.bot := by
  unfold World.mainStep
  split
  · exact hb
  · split
    · split
      · split
        · simp only []
          have hl := h.lookTo w.bot hb
          split
          · dsimp only; rw [(foldl_applyOut_bot_crashed wt _ _ _).1]; exact hl
          · dsimp only; rw [(foldl_applyOut_bot_crashed wt _ _ _).1]; exact hl
        · exact hb
      · exact hb
    · exact hb
  · exact hb
  · split
    · exact hb
    · exact foldl_bot wt w.now _ { w with pc := .ringCheck } hb
  · split
    · exact hb
    · exact hb
  · split
    · split
      · exact hb
      · dsimp only; rw [beginWait_bot]; exact hb
    · exact foldl_bot wt w.now _ { w with pc := .outerTop } hb
  · split
    · exact hb
    · exact h.afterInner wt w _ _ _ _ _ hb
  · apply h.afterInner
    split <;> exact hb
  · exact h.afterInner wt w _ _ _ _ _ hb
  · exact hb

/-- One step of the socket thread. -/
theorem deliver (h : BotInvariant I E) (wt : K → K) (w : World K) (e : Ev) (he : E e) (hb : I w.bot) :
    I (World.deliver wt w e).bot := by
  cases e with
  | resume =>
    unfold World.deliver
    simp only []
    split
    · rename_i s _
      unfold World.lookToResume World.lookToRest
      simp only []
      have hin : (World.lookToInner ({ w with suspended := none } : World K) s).bot = w.bot := by
        unfold World.lookToInner
        split
        · exact (withReg_pc_obs ({ w with suspended := none } : World K) _).2.2
        · rfl
      generalize World.lookToInner ({ w with suspended := none } : World K) s = wi at hin
      have hR : I (wi.bot.armLookTo.startNextRow true).1 := h.arm _ (by rw [hin]; exact hb)
      split
      · dsimp only; rw [(foldl_applyOut_bot_crashed wt _ _ _).1]; exact hR
      · rw [(foldl_applyOut_bot_crashed wt _ _ _).1]; exact hR
    · exact hb
  | msg m =>
    unfold World.deliver
    simp only []
    split
    · unfold World.lookToBegin; exact hb
    · unfold World.deliverMsg
      simp only []
      have hm := h.msg w.bot m he hb
      split
      · dsimp only; rw [(foldl_applyOut_bot_crashed wt _ _ _).1]; exact hm
      · rw [(foldl_applyOut_bot_crashed wt _ _ _).1]; exact hm

theorem sleep_go (h : BotInvariant I E) (wt : K → K) (limit : K) :
    ∀ (events : List (K × Ev)) (w : World K), (∀ ev ∈ events, E ev.2) → I w.bot →
      I (World.sleep.go wt limit w events).1.bot ∧ (∀ ev ∈ (World.sleep.go wt limit w events).2, E ev.2) := by
  intro events
  induction events with
  | nil => intro w _ hb; exact ⟨hb, by intro ev hev; cases hev⟩
  | cons ev rest ih =>
    intro w hs hb
    obtain ⟨t, m⟩ := ev
    unfold World.sleep.go
    split
    · apply ih _ (fun ev' h' => hs ev' (by simp [h']))
      apply h.deliver wt _ m (hs (t, m) (by simp))
      split
      · exact hb
      · exact hb
    · exact ⟨hb, hs⟩

theorem sleep (h : BotInvariant I E) (wt : K → K) (endTime : K) (w : World K) (d : K) (events : List (K × Ev))
    (hs : ∀ ev ∈ events, E ev.2) (hb : I w.bot) :
    I (World.sleep wt endTime w d events).1.bot ∧ (∀ ev ∈ (World.sleep wt endTime w d events).2.1, E ev.2) := by
  unfold World.sleep
  simp only []
  split
  · exact h.sleep_go wt endTime events w hs hb
  · obtain ⟨h1, h2⟩ := h.sleep_go wt (w.now + d) events w hs hb
    exact ⟨h1, h2⟩

/-- **Every state of every run**: whatever the fuel (so: at every step), whatever the events of the class and
their times. -/
theorem run (h : BotInvariant I E) (wt : K → K) (endTime : K) :
    ∀ (fuel : Nat) (w : World K) (events : List (K × Ev)), (∀ ev ∈ events, E ev.2) → I w.bot →
      I (World.run wt endTime fuel w events).1.bot := by
  intro fuel
  induction fuel with
  | zero => intro w events _ hb; exact hb
  | succ fuel ih =>
    intro w events hs hb
    unfold World.run
    have hm := h.mainStep wt w hb
    split
    · rename_i w1 heq; rw [heq] at hm; exact hm
    · rename_i w1 heq; rw [heq] at hm; exact ih w1 events hs hm
    · rename_i w1 d heq
      rw [heq] at hm
      obtain ⟨hsl, hsq⟩ := h.sleep wt endTime w1 d events hs hm
      simp only []
      split
      · exact hsl
      · exact ih _ _ hsq hsl

end BotInvariant
end Wheatley
