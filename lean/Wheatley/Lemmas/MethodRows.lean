/-
While the method is being rung, the row the Bot rings is the row generator's current row with the opening row's
tail for cover bells - an invariant of the Bot through every handler, every Look To and every `start_next_row`
(for the C02 / C03 / C04 system-level theorem: what the theorems about generators say of their rows is said of
what is rung).
-/
import Wheatley.Lemmas.Gen
import Wheatley.Lemmas.BotInv
import Wheatley.Lemmas.Ctl
import Wheatley.Lemmas.Lift
namespace Wheatley
namespace MethodRows

/-- Generators whose `next_row` always yields a row: notation-driven ones, Plain Hunt and compositions (a
Dixonoid can raise `KeyError` for a rule table without a default, the placeholder always raises). -/
def Total (k : GenKind) : Prop :=
  match k with
  | .pn _ => True
  | .plainHunt _ => True
  | .comp _ => True
  | _ => False

instance (k : GenKind) : Decidable (Total k) := by
  cases k <;> unfold Total <;> infer_instance

theorem Total.next {g : Gen} (h : Total g.kind) (hand : Bool) : ∃ g' r calls, g.next hand = .ok g' r calls := by
  unfold Gen.next
  split
  · exact ⟨_, _, _, rfl⟩
  · exact ⟨_, _, _, rfl⟩
  · rename_i c hk; rw [hk] at h; exact h.elim
  · split <;> exact ⟨_, _, _, rfl⟩
  · rename_i hk; rw [hk] at h; exact h.elim

/-- Ringing, and neither the opening row nor rounds: the method. -/
def InMethod (b : Bot) : Prop := b.isRinging = true ∧ b.ringingOpening = false ∧ b.ringingRounds = false

structure Inv (b : Bot) : Prop where
  total : Total b.gen.kind
  queued : ∀ g, b.nextGen = some g → Total g.kind
  row : InMethod b → b.gen.row <+: b.row

theorem Inv.congr {b b' : Bot} (h : Inv b) (h1 : b'.gen = b.gen) (h2 : b'.nextGen = b.nextGen)
    (_h3 : True) (h4 : b'.row = b.row) (h5 : b'.isRinging = b.isRinging)
    (h6 : b'.ringingOpening = b.ringingOpening) (h7 : b'.ringingRounds = b.ringingRounds) : Inv b' :=
  { total := by rw [h1]; exact h.total
    queued := by rw [h2]; exact h.queued
    row := by
      intro hm
      unfold InMethod at hm
      rw [h5, h6, h7] at hm
      rw [h4, h1]; exact h.row hm }

/-- Whatever the state before: after `generate_next_row` of a ringing Bot with a total generator, if the method is
being rung the row is the generator's (new) current row, padded. -/
theorem generateNextRow_inv (b : Bot) (ht : Total b.gen.kind) (hq : ∀ g, b.nextGen = some g → Total g.kind) :
    Inv (b.generateNextRow).1 := by
  unfold Bot.generateNextRow
  split
  · rename_i ho
    exact { total := ht, queued := hq, row := by intro hm; have := hm.2.1; exact absurd (ho.symm.trans this) (by simp) }
  · split
    · rename_i hr
      exact { total := ht, queued := hq, row := by intro hm; have := hm.2.2; exact absurd (hr.symm.trans this) (by simp) }
    · obtain ⟨g', r, calls, hn⟩ := ht.next b.hand
      rw [hn]
      simp only []
      obtain ⟨k1, _, k3⟩ := Gen.next_keeps b.gen b.hand g' r calls hn
      exact { total := (by show Total g'.kind; rw [k3]; exact ht), queued := hq,
              row := (by
                intro _
                show g'.row <+: (if r.length < b.openingRow.length then r ++ b.openingRow.drop r.length else r)
                rw [k1]
                split
                · exact List.prefix_append _ _
                · exact List.prefix_refl _) }

theorem snrFinish_inv (b : Bot) (o : List Out) (ht : Total b.gen.kind) (hq : ∀ g, b.nextGen = some g → Total g.kind)
    (hnr : b.isRinging = false → Inv b) : Inv (Bot.snrFinish b o).1 := by
  unfold Bot.snrFinish
  split
  · rename_i h
    exact hnr (by simpa using h)
  · have hg := generateNextRow_inv b ht hq
    rcases hgq : b.generateNextRow with ⟨b3, o9⟩
    rw [hgq] at hg
    simp only [] at hg ⊢
    split <;> exact hg

/-- `start_next_row` keeps the invariant - and establishes its row clause from nothing whenever it goes on to
generate a row. -/
theorem startNextRow_inv (b : Bot) (f : Bool) (h : Inv b) : Inv (b.startNextRow f).1 := by
  unfold Bot.startNextRow
  split
  · -- the stroke assertion failed: nothing but place and calls was touched
    unfold Bot.snrPrep
    split <;> exact h.congr rfl rfl trivial rfl rfl rfl rfl
  · rename_i c started hstep
    simp only []
    have hq : Total ((if started = true then b.snrPrep.resetGen else b.snrPrep).withCtl c).gen.kind ∧
        (∀ g, ((if started = true then b.snrPrep.resetGen else b.snrPrep).withCtl c).nextGen = some g → Total g.kind) := by
      have hp : b.snrPrep.gen = b.gen ∧ b.snrPrep.nextGen = b.nextGen := by
        unfold Bot.snrPrep; split <;> exact ⟨rfl, rfl⟩
      split
      · refine ⟨?_, ?_⟩
        · show Total b.snrPrep.gen.reset.kind
          show Total b.snrPrep.gen.kind
          rw [hp.1]; exact h.total
        · show ∀ g, b.snrPrep.nextGen = some g → Total g.kind
          rw [hp.2]; exact h.queued
      · refine ⟨?_, ?_⟩
        · show Total b.snrPrep.gen.kind
          rw [hp.1]; exact h.total
        · show ∀ g, b.snrPrep.nextGen = some g → Total g.kind
          rw [hp.2]; exact h.queued
    apply snrFinish_inv _ _ hq.1 hq.2
    intro hnr
    exact { total := hq.1, queued := hq.2, row := by intro hm; rw [hm.1] at hnr; cases hnr }

theorem arm_inv (b : Bot) (h : Inv b) : Inv (b.armLookTo.startNextRow true).1 := by
  apply startNextRow_inv
  unfold Bot.armLookTo
  simp only []
  cases hn : b.nextGen with
  | none =>
    exact { total := h.total, queued := (by intro g hg; cases hg),
            row := (by intro hm; exact absurd hm.2.1 (by simp)) }
  | some g =>
    exact { total := h.queued g hn, queued := (by intro g hg; cases hg),
            row := (by intro hm; exact absurd hm.2.1 (by simp)) }

theorem tick_inv (b : Bot) (bell : Nat) (uc : Bool) (h : Inv b) : Inv (b.tickEnd bell uc).1 := by
  unfold Bot.tickEnd
  simp only []
  split
  · exact startNextRow_inv _ false (h.congr rfl rfl trivial rfl rfl rfl rfl)
  · exact h.congr rfl rfl trivial rfl rfl rfl rfl

/-- Selections are total generators too. -/
def Sel : Ev → Prop
  | .msg (.rowGen (some g)) => Total g.kind
  | _ => True

theorem foldSettings_inv : ∀ (kvs : List (String × SVal)) (b : Bot), Inv b → Inv (foldSettings b kvs).1 := by
  intro kvs
  induction kvs with
  | nil => intro b h; exact h
  | cons kv rest ih =>
    intro b h
    obtain ⟨k, v⟩ := kv
    unfold foldSettings
    simp only []
    apply ih
    unfold Bot.onSetting
    split
    · split <;> first | exact h.congr rfl rfl trivial rfl rfl rfl rfl | exact h
    · split
      · split <;> first | exact h.congr rfl rfl trivial rfl rfl rfl rfl | exact h
      · split
        · split <;> first | exact h.congr rfl rfl trivial rfl rfl rfl rfl | exact h
        · exact h

/-- A transition that leaves generator, row and flags alone and can only *drop* what is queued. -/
theorem Inv.shrink {b b' : Bot} (h : Inv b) (h1 : b'.gen = b.gen) (h2 : ∀ g, b'.nextGen = some g → b.nextGen = some g)
    (h4 : b'.row = b.row) (h5 : b'.isRinging = b.isRinging) (h6 : b'.ringingOpening = b.ringingOpening)
    (h7 : b'.ringingRounds = b.ringingRounds) : Inv b' :=
  { total := by rw [h1]; exact h.total
    queued := fun g hg => h.queued g (h2 g hg)
    row := by
      intro hm
      unfold InMethod at hm
      rw [h5, h6, h7] at hm
      rw [h4, h1]; exact h.row hm }

/-- The tower's size (or state) is told anew: opening row and rounds are recomputed and a queued generator that no
longer fits is dropped; the row being rung and the generator are not touched. -/
theorem onSizeChange_inv (q b : Bot) (h : Inv b) (h1 : q.gen = b.gen) (h2 : q.nextGen = b.nextGen) (h4 : q.row = b.row)
    (h5 : q.isRinging = b.isRinging) (h6 : q.ringingOpening = b.ringingOpening) (h7 : q.ringingRounds = b.ringingRounds) :
    Inv q.onSizeChange.1 := by
  unfold Bot.onSizeChange
  split
  · exact h.shrink h1 (fun g hg => by rw [← h2]; exact hg) h4 h5 h6 h7
  · refine h.shrink h1 ?_ h4 h5 h6 h7
    intro g hg
    rw [← h2]
    simp only [] at hg
    cases hn : q.nextGen with
    | none => rw [hn] at hg; cases hg
    | some g0 =>
      rw [hn] at hg
      simp only [] at hg
      split at hg
      · exact hg
      · cases hg

theorem msg_inv (b : Bot) (m : Msg) (hm : Sel (.msg m)) (h : Inv b) : Inv (b.onMsg m).1 := by
  cases m with
  | bellRung st who =>
    unfold Bot.onMsg
    simp only []
    split
    · exact h.congr rfl rfl trivial rfl rfl rfl rfl
    · split <;> exact h.congr rfl rfl trivial rfl rfl rfl rfl
  | globalState st =>
    unfold Bot.onMsg
    simp only []
    exact onSizeChange_inv _ b h rfl rfl rfl rfl rfl rfl
  | userEntered id name => unfold Bot.onMsg; exact h.congr rfl rfl trivial rfl rfl rfl rfl
  | userList us => unfold Bot.onMsg; exact h.congr rfl rfl trivial rfl rfl rfl rfl
  | sizeChange n =>
    unfold Bot.onMsg
    simp only []
    split
    · exact onSizeChange_inv _ b h rfl rfl rfl rfl rfl rfl
    · exact h.congr rfl rfl trivial rfl rfl rfl rfl
  | assign bell user => unfold Bot.onMsg; exact h.congr rfl rfl trivial rfl rfl rfl rfl
  | userLeft id => unfold Bot.onMsg; exact h.congr rfl rfl trivial rfl rfl rfl rfl
  | stopTouch =>
    unfold Bot.onMsg
    simp only []
    split
    · exact { total := h.total, queued := h.queued, row := by intro hm; exact absurd hm.1 (by simp) }
    · exact h.congr rfl rfl trivial rfl rfl rfl rfl
  | rowGen g =>
    unfold Bot.onMsg
    simp only []
    split
    · cases g with
      | none => exact h.congr rfl rfl trivial rfl rfl rfl rfl
      | some g =>
        exact { total := h.total, queued := (by intro g' hg'; injection hg' with hg'; subst hg'; exact hm),
                row := h.row }
    · exact h.congr rfl rfl trivial rfl rfl rfl rfl
  | setting kvs =>
    unfold Bot.onMsg
    simp only []
    split
    · exact foldSettings_inv kvs _ (h.congr rfl rfl trivial rfl rfl rfl rfl)
    · exact h.congr rfl rfl trivial rfl rfl rfl rfl
  | call c =>
    unfold Bot.onMsg
    simp only []
    have hb : Inv ({ b with tower := b.tower.apply (.call c) } : Bot) := h.congr rfl rfl trivial rfl rfl rfl rfl
    generalize ({ b with tower := b.tower.apply (.call c) } : Bot) = q at hb
    unfold Bot.onCall
    split
    · unfold Bot.onLookTo
      split
      · unfold Bot.lookTo
        split
        · exact hb
        · exact arm_inv q hb
      · exact hb
    · split
      · unfold Bot.onGo
        split
        · exact hb.congr rfl rfl trivial rfl rfl rfl rfl
        · exact hb
      · split
        · exact { total := hb.total, queued := hb.queued, row := hb.row }
        · split
          · exact { total := hb.total, queued := hb.queued, row := hb.row }
          · split
            · exact hb.congr rfl rfl trivial rfl rfl rfl rfl
            · split
              · exact { total := hb.total, queued := hb.queued,
                        row := (by intro hm; exact absurd hm.2.1 (by simp)) }
              · split
                · exact hb.congr rfl rfl trivial rfl rfl rfl rfl
                · exact hb

/-- `Inv` is an invariant of the Bot for every event (selections being total generators). -/
theorem botInvariant : BotInvariant Inv Sel :=
  { arm := arm_inv, tick := tick_inv, msg := msg_inv }

end MethodRows
end Wheatley
