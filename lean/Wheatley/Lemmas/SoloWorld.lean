/-
The main thread of the timed world when nothing arrives from the server: step lemmas for `World.run`
(used by the world-level theorems of C11).
-/
import Wheatley.Lemmas.NumField
import Wheatley.Lemmas.World
namespace Wheatley
open Generated
variable {K : Type} [Field K] [LinearOrder K] [IsStrictOrderedRing K]

/-- A wait that begins before the bell's time on the line ends exactly on it. -/
theorem waitPlan_before (r : Reg K) (s now : K) (row place : Nat) (uc : Bool)
    (hs : r.start = .fin s) (h0 : s ≠ 0) (hlt : now < indexToRealTime (r.line s) row place) :
    r.waitPlan now row place uc = .sleep (indexToRealTime (r.line s) row place - now) := by
  unfold Reg.waitPlan
  simp only [hs, num_eqb, num_ofNat, Nat.cast_zero, decide_eq_true_eq, h0, if_false, hlt, if_true]

theorem sleep_nil (wt : K → K) (endTime : K) (w : World K) (d : K) :
    World.sleep wt endTime w d [] =
      if endTime < w.now + d then (w, [], true)
      else ({ w with now := if w.now < w.now + d then w.now + d else w.now }, [], false) := by
  unfold World.sleep
  simp only [World.sleep.go]
  rfl

/-- `WaitForUserRhythm.wait_for_bell_time` notes the stroke being rung before anything else. -/
def World.markStroke (w : World K) (hand : Bool) : World K :=
  match w.rh.wait with
  | some wr => { w with rh := { w.rh with wait := some { wr with currentHand := hand } } }
  | none => w

theorem markStroke_delay (w : World K) (hand : Bool) : (w.markStroke hand).delay = w.delay := by
  cases h : w.rh.wait <;> simp [World.markStroke, World.delay, h]

/-- The turn of one of Wheatley's own bells begins: the main thread computes the bell's time on the line
and goes to sleep until then. -/
theorem solo_turn_begins (wt : K → K) (w : World K) (s : K) (bell : Nat)
    (hpc : w.pc = .ringCheck) (hr : w.bot.isRinging = true) (hstub : w.rh.stub = none)
    (hs : w.rh.reg.start = .fin s) (h0 : s ≠ 0)
    (hb : w.bot.tickBegin = some (bell, false))
    (hlt : w.now - w.delay < indexToRealTime (w.rh.reg.line s) w.bot.rowNumber w.bot.place) :
    w.mainStep wt =
      ({ w.markStroke w.bot.hand with pc := .innerSlept bell false w.bot.hand },
       .sleep (indexToRealTime (w.rh.reg.line s) w.bot.rowNumber w.bot.place - (w.now - w.delay))) := by
  unfold World.mainStep
  simp only [hpc, hr, if_true, hb]
  unfold World.beginWait World.markStroke
  cases hw : w.rh.wait with
  | none =>
    have hd : w.delay = W0 := by simp [World.delay, hw]
    simp only [hstub, hw, World.delay]
    rw [waitPlan_before w.rh.reg s _ _ _ false hs h0 (by rw [hd] at hlt; simpa [World.delay, hw] using hlt)]
  | some wr =>
    have hd : w.delay = wr.delay := by simp [World.delay, hw]
    simp only [hstub, hw, World.delay]
    rw [waitPlan_before w.rh.reg s _ _ _ false hs h0 (by rw [hd] at hlt; exact hlt)]

/-- Leaving `wait_for_bell_time`: both rhythm objects lower their "return to the main loop" flag. -/
def World.clearReturn (w : World K) : World K :=
  match w.rh.wait with
  | some wr =>
    { w with rh := { reg := { w.rh.reg with shouldReturn := false }, wait := some { wr with shouldReturn := false }, stub := w.rh.stub } }
  | none => { w with rh := { w.rh with reg := { w.rh.reg with shouldReturn := false } } }

/-- What the bookkeeping around a wait leaves alone: the line, the hold-up, the Bot, the log. -/
def SameLine (w w' : World K) : Prop :=
  w'.rh.reg.start = w.rh.reg.start ∧ w'.rh.reg.interval = w.rh.reg.interval ∧
  w'.rh.reg.stage = w.rh.reg.stage ∧ w'.rh.reg.gap = w.rh.reg.gap ∧ w'.delay = w.delay ∧
  w'.rh.stub = w.rh.stub ∧ w'.bot = w.bot ∧ w'.obs = w.obs

theorem markStroke_sameLine (w : World K) (hand : Bool) : SameLine w (w.markStroke hand) ∧ (w.markStroke hand).now = w.now := by
  cases h : w.rh.wait <;> simp [World.markStroke, SameLine, World.delay, h]

theorem clearReturn_sameLine (w : World K) : SameLine w w.clearReturn ∧ w.clearReturn.now = w.now := by
  cases h : w.rh.wait <;> simp [World.clearReturn, SameLine, World.delay, h]

/-- The wait is over (a bell of Wheatley's own: no polling loop): the strike, the calls and the row
boundary happen at once, then the loop's 10 ms sleep. -/
theorem solo_turn_ends (wt : K → K) (w : World K) (bell : Nat) (hand : Bool)
    (hpc : w.pc = .innerSlept bell false hand) (hstub : w.rh.stub = none)
    (hnc : (w.bot.tickEnd bell false).2.findSome? isCrash = none) :
    w.mainStep wt =
      ({ ((w.bot.tickEnd bell false).2.foldl (World.applyOut wt w.now)
            { w.clearReturn with bot := (w.bot.tickEnd bell false).1 }) with pc := .tickSlept },
       .sleep (Num.ofQ tickSleep)) := by
  unfold World.mainStep
  simp only [hpc, hstub]
  unfold World.afterInner World.clearReturn
  cases hw : w.rh.wait with
  | none =>
    simp only [hw]
    unfold World.finishTick
    simp only [hnc, hpc, hstub]
  | some wr =>
    simp only [hw, Bool.false_eq_true, if_false]
    unfold World.finishTick
    simp only [hnc, hpc, hstub]

theorem run_sleep (wt : K → K) (endTime : K) (fuel : Nat) (w w1 : World K) (d : K)
    (hstep : w.mainStep wt = (w1, .sleep d)) (hend : ¬ endTime < w1.now + d) (hd : 0 < d) :
    World.run wt endTime (fuel + 1) w [] = World.run wt endTime fuel { w1 with now := w1.now + d } [] := by
  have hlt : w1.now < w1.now + d := by linarith
  rw [World.run, hstep]
  simp only [sleep_nil, hend, if_false, hlt, if_true, Bool.false_eq_true]

theorem run_continue (wt : K → K) (endTime : K) (fuel : Nat) (w w1 : World K)
    (hstep : w.mainStep wt = (w1, .continue)) :
    World.run wt endTime (fuel + 1) w [] = World.run wt endTime fuel w1 [] := by
  rw [World.run, hstep]

/-- The Bot rings its next `n` turns all by itself (every bell of those turns is Wheatley's, no
exception), each turn's bell is due at least one blow after the previous one on the line `l`, and the
run lasts long enough (`endTime`) to see them. -/
def AloneFor (l : Line K) (D endTime : K) : Nat → Bot → Prop
  | 0, _ => True
  | n + 1, b =>
    b.isRinging = true ∧ indexToRealTime l b.rowNumber b.place + D + Num.ofQ tickSleep ≤ endTime ∧
    ∃ bell, b.tickBegin = some (bell, false) ∧
      (b.tickEnd bell false).2.findSome? isCrash = none ∧
      (n = 0 ∨ indexToBlowTime l b.rowNumber b.place + 1 ≤
          indexToBlowTime l (b.tickEnd bell false).1.rowNumber (b.tickEnd bell false).1.place) ∧
      AloneFor l D endTime n (b.tickEnd bell false).1

/-- What those turns put into the log (newest first): the outputs of each `tick()`, stamped with the
turn's time on the line plus the hold-up. -/
def soloLog (l : Line K) (D : K) : Nat → Bot → List (Obs K)
  | 0, _ => []
  | n + 1, b =>
    match b.tickBegin with
    | some (bell, _) =>
      soloLog l D n (b.tickEnd bell false).1 ++
        (b.tickEnd bell false).2.reverse.map
          (fun o => ({ t := indexToRealTime l b.rowNumber b.place + D, out := o } : Obs K))
    | none => []


end Wheatley
