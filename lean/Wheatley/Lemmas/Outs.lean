/- Which kinds of output the Bot's transitions can produce. -/
import Wheatley.Lemmas.Ctl
namespace Wheatley

def Out.isRing : Out → Bool
  | .ring _ _ => true
  | _ => false

def Out.isCall : Out → Bool
  | .call _ => true
  | _ => false

theorem makeCalls_no_ring (b : Bot) (cs : List String) : ∀ o ∈ b.makeCalls cs, o.isRing = false := by
  intro o ho
  unfold Bot.makeCalls at ho
  split at ho
  · simp only [List.mem_map] at ho; obtain ⟨c, _, rfl⟩ := ho; rfl
  · simp at ho

theorem makeCalls_off (b : Bot) (cs : List String) (h : b.callComps = false) : b.makeCalls cs = [] := by
  simp [Bot.makeCalls, h]

theorem expectAll_kind (b : Bot) : ∀ o ∈ b.expectAll, o.isRing = false ∧ o.isCall = false := by
  intro o ho
  unfold Bot.expectAll at ho
  simp only [List.mem_map] at ho
  obtain ⟨p, _, rfl⟩ := ho
  exact ⟨rfl, rfl⟩

theorem generateNextRow_outs (b : Bot) : ∀ o ∈ (b.generateNextRow).2, o.isRing = false ∧ o.isCall = false := by
  intro o ho
  unfold Bot.generateNextRow at ho
  split at ho
  · simp at ho
  · split at ho
    · simp at ho
    · split at ho <;> simp at ho <;> subst ho <;> exact ⟨rfl, rfl⟩

theorem snrFinish_outs (b : Bot) (o4 : List Out) :
    ∀ o ∈ (Bot.snrFinish b o4).2, o ∈ o4 ∨ (o.isRing = false ∧ o.isCall = false) := by
  intro o ho
  unfold Bot.snrFinish at ho
  split at ho
  · left; exact ho
  · have hg := generateNextRow_outs b
    rcases hq : b.generateNextRow with ⟨b3, o9⟩
    rw [hq] at ho hg
    simp only [] at ho hg
    split at ho
    · simp only [List.mem_append] at ho
      rcases ho with h | h
      · left; exact h
      · right; exact hg o h
    · simp only [List.mem_append] at ho
      rcases ho with (h | h) | h
      · left; exact h
      · right; exact hg o h
      · right; exact expectAll_kind b3 o h

/-- `start_next_row` never strikes a bell, and the only call it can make is "Stand" through
`_make_call` (so none at all when calling is off). -/
theorem startNextRow_outs (b : Bot) (isFirst : Bool) :
    ∀ o ∈ (b.startNextRow isFirst).2, o.isRing = false ∧ (o.isCall = true → b.callComps = true ∧ o = .call "Stand") := by
  intro o ho
  unfold Bot.startNextRow at ho
  split at ho
  · simp at ho; subst ho; exact ⟨rfl, by intro h; cases h⟩
  · simp only [] at ho
    rcases snrFinish_outs _ _ o ho with h | h
    · split at h
      · unfold Bot.makeCalls at h
        split at h
        · rename_i hc
          simp at h; subst h
          exact ⟨rfl, fun _ => ⟨hc, rfl⟩⟩
        · simp at h
      · simp at h
    · exact ⟨h.1, by intro hc; rw [h.2] at hc; cases hc⟩

/-- The only place that can report a failed stroke assertion is the control step itself. -/
theorem generateNextRow_no_assert (b : Bot) : Out.crash "AssertionError" ∉ (b.generateNextRow).2 := by
  unfold Bot.generateNextRow
  split
  · simp
  · split
    · simp
    · split <;> simp

theorem snrFinish_no_assert (b : Bot) (o4 : List Out) (h : Out.crash "AssertionError" ∉ o4) :
    Out.crash "AssertionError" ∉ (Bot.snrFinish b o4).2 := by
  unfold Bot.snrFinish
  split
  · exact h
  · have hg := generateNextRow_no_assert b
    rcases hq : b.generateNextRow with ⟨b3, o9⟩
    rw [hq] at hg
    simp only [] at hg ⊢
    split
    · simp only [List.mem_append, not_or]; exact ⟨h, hg⟩
    · simp only [List.mem_append, not_or]
      refine ⟨⟨h, hg⟩, ?_⟩
      intro hm
      have := expectAll_kind b3 _ hm
      unfold Bot.expectAll at hm
      simp only [List.mem_map] at hm
      obtain ⟨p, _, hp⟩ := hm
      cases hp

theorem makeCalls_no_crash (b : Bot) (cs : List String) (e : String) : Out.crash e ∉ b.makeCalls cs := by
  unfold Bot.makeCalls
  split
  · simp
  · simp

/-- If the control step does not fail, `start_next_row` reports no failed assertion. -/
theorem startNextRow_no_assert (b : Bot) (f : Bool) (c : Ctl) (s : Bool)
    (h : ctlStep b.ctl (b.ctlIn f) = .ok c s) : Out.crash "AssertionError" ∉ (b.startNextRow f).2 := by
  unfold Bot.startNextRow
  rw [h]
  simp only []
  apply snrFinish_no_assert
  split
  · exact makeCalls_no_crash _ _ _
  · simp

theorem ringBell_no_crash (b : Bot) (bell : Nat) (e : String) : Out.crash e ∉ b.ringBell bell := by
  unfold Bot.ringBell
  split
  · split <;> simp
  · simp

/-- The kinds of output a row boundary can produce: a call, a reported exception, an expectation. -/
def Out.snrKind : Out → Bool
  | .call _ => true
  | .crash _ => true
  | .rExpect _ _ _ _ => true
  | _ => false

theorem makeCalls_kind (b : Bot) (cs : List String) : ∀ o ∈ b.makeCalls cs, o.snrKind = true := by
  intro o ho
  unfold Bot.makeCalls at ho
  split at ho
  · simp only [List.mem_map] at ho; obtain ⟨c, _, rfl⟩ := ho; rfl
  · simp at ho

theorem generateNextRow_kind (b : Bot) : ∀ o ∈ (b.generateNextRow).2, o.snrKind = true := by
  intro o ho
  unfold Bot.generateNextRow at ho
  split at ho
  · simp at ho
  · split at ho
    · simp at ho
    · split at ho <;> simp at ho <;> subst ho <;> rfl

theorem expectAll_snrKind (b : Bot) : ∀ o ∈ b.expectAll, o.snrKind = true := by
  intro o ho
  unfold Bot.expectAll at ho
  simp only [List.mem_map] at ho
  obtain ⟨p, _, rfl⟩ := ho
  rfl

theorem snrFinish_kinds (b : Bot) (o4 : List Out) (h : ∀ o ∈ o4, o.snrKind = true) :
    ∀ o ∈ (Bot.snrFinish b o4).2, o.snrKind = true := by
  intro o ho
  unfold Bot.snrFinish at ho
  split at ho
  · exact h o ho
  · have hg := generateNextRow_kind b
    rcases hq : b.generateNextRow with ⟨b3, o9⟩
    rw [hq] at ho hg
    simp only [] at ho hg
    split at ho
    · simp only [List.mem_append] at ho
      rcases ho with h1 | h1
      · exact h o h1
      · exact hg o h1
    · simp only [List.mem_append] at ho
      rcases ho with (h1 | h1) | h1
      · exact h o h1
      · exact hg o h1
      · exact expectAll_snrKind b3 o h1

/-- Everything `start_next_row` outputs is a call, a reported exception or an expectation. -/
theorem startNextRow_kinds (b : Bot) (f : Bool) : ∀ o ∈ (b.startNextRow f).2, o.snrKind = true := by
  intro o ho
  unfold Bot.startNextRow at ho
  split at ho
  · simp at ho; subst ho; rfl
  · simp only [] at ho
    refine snrFinish_kinds _ _ ?_ o ho
    intro o' ho'
    split at ho'
    · exact makeCalls_kind _ _ o' ho'
    · simp at ho'

/-- The kinds of output a turn can produce: additionally the strike. -/
theorem tickEnd_kinds (b : Bot) (bell : Nat) (uc : Bool) :
    ∀ o ∈ (b.tickEnd bell uc).2, o.snrKind = true ∨ o.isRing = true := by
  intro o ho
  have h1 : ∀ o ∈ (if uc then [] else b.ringBell bell), o.isRing = true := by
    intro o ho
    split at ho
    · simp at ho
    · unfold Bot.ringBell at ho
      split at ho
      · split at ho
        · simp at ho; subst ho; rfl
        · simp at ho
      · simp at ho
  have h2 : ∀ o ∈ (if b.place == 0 then b.makeCalls b.calls else []), o.snrKind = true := by
    intro o ho
    split at ho
    · exact makeCalls_kind _ _ o ho
    · simp at ho
  unfold Bot.tickEnd at ho
  simp only [] at ho
  split at ho
  · simp only [List.mem_append] at ho
    rcases ho with (h | h) | h
    · right; exact h1 o h
    · left; exact h2 o h
    · left; exact startNextRow_kinds _ false o h
  · simp only [List.mem_append] at ho
    rcases ho with h | h
    · right; exact h1 o h
    · left; exact h2 o h

end Wheatley
