/-
Refinement of `Bot.startNextRow` to the control machine `ctlStep`, and what `generateNextRow`
does with the flags.
-/
import Wheatley.Model.Bot
namespace Wheatley

theorem generateNextRow_ctl (b : Bot) : (b.generateNextRow).1.ctl = b.ctl := by
  unfold Bot.generateNextRow
  split
  · rfl
  · split
    · rfl
    · split <;> rfl

theorem withCtl_ctl (b : Bot) (c : Ctl) : (b.withCtl c).ctl = c := rfl

theorem snrFinish_ctl (b : Bot) (o : List Out) : (Bot.snrFinish b o).1.ctl = b.ctl := by
  unfold Bot.snrFinish
  split
  · rfl
  · have h := generateNextRow_ctl b
    rcases hg : b.generateNextRow with ⟨b3, o9⟩
    rw [hg] at h
    simp only []
    split <;> exact h

/-- **Refinement**: `start_next_row` moves the control fields exactly as the control machine. -/
theorem startNextRow_ctl (b : Bot) (isFirst : Bool) (c : Ctl) (started : Bool)
    (h : ctlStep b.ctl (b.ctlIn isFirst) = .ok c started) : (b.startNextRow isFirst).1.ctl = c := by
  unfold Bot.startNextRow
  rw [h]
  simp only []
  rw [snrFinish_ctl]
  exact withCtl_ctl _ c

theorem startNextRow_crash (b : Bot) (isFirst : Bool)
    (h : ctlStep b.ctl (b.ctlIn isFirst) = .crash) :
    (b.startNextRow isFirst).2 = [.crash "AssertionError"] := by
  unfold Bot.startNextRow
  rw [h]

/-- The row chosen for the coming row. -/
theorem generateNextRow_row (b : Bot) :
    (b.ringingOpening = true → (b.generateNextRow).1.row = b.openingRow) ∧
    (b.ringingOpening = false → b.ringingRounds = true → (b.generateNextRow).1.row = b.rounds) := by
  unfold Bot.generateNextRow
  constructor
  · intro h; simp [h]
  · intro h1 h2; simp [h1, h2]

end Wheatley
