/-
Association lists with unique keys behave like Python dictionaries: lookup after set / delete /
filter.
-/
import Wheatley.Model.Bot
namespace Wheatley

/-- No key occurs twice. -/
def UniqueKeys {β} (l : List (Nat × β)) : Prop := (l.map (·.1)).Nodup

theorem find_of_mem_unique {β} (r : List (Nat × β)) (h : (r.map (·.1)).Nodup) (k : Nat) (v : β)
    (hm : (k, v) ∈ r) : r.find? (fun p => p.1 == k) = some (k, v) := by
  induction r with
  | nil => simp at hm
  | cons p r ih =>
    obtain ⟨k', v'⟩ := p
    simp only [List.map_cons, List.nodup_cons] at h
    simp only [List.find?_cons]
    rcases List.mem_cons.mp hm with e | hm'
    · injection e with e1 e2; subst e1 e2; simp
    · have hne : k' ≠ k := by
        intro e; subst e
        exact h.1 (List.mem_map.mpr ⟨(k', v), hm', rfl⟩)
      have : (k' == k) = false := by simpa using hne
      simp only [this]
      exact ih h.2 hm'

theorem alGet_eq_some_of_mem {β} (l : List (Nat × β)) (h : UniqueKeys l) (k : Nat) (v : β) (hm : (k, v) ∈ l) :
    alGet l k = some v := by
  unfold alGet
  have hr : (l.reverse.map (·.1)).Nodup := by
    rw [List.map_reverse]; exact (List.reverse_perm _).nodup_iff.mpr h
  rw [find_of_mem_unique l.reverse hr k v (by simpa using hm)]

theorem mem_of_alGet {β} (l : List (Nat × β)) (k : Nat) (v : β) (h : alGet l k = some v) : (k, v) ∈ l := by
  unfold alGet at h
  cases hf : l.reverse.find? (fun p => p.1 == k) with
  | none => rw [hf] at h; simp at h
  | some p =>
    rw [hf] at h
    simp at h
    have hp := List.find?_some hf
    have hm := List.mem_of_find?_eq_some hf
    simp at hp
    obtain ⟨k', v'⟩ := p
    simp at hp h
    subst hp h
    simpa using hm

theorem alGet_none_iff {β} (l : List (Nat × β)) (k : Nat) : alGet l k = none ↔ ∀ v, (k, v) ∉ l := by
  constructor
  · intro h v hm
    unfold alGet at h
    cases hf : l.reverse.find? (fun p => p.1 == k) with
    | none =>
      have := List.find?_eq_none.mp hf (k, v) (by simpa using hm)
      simp at this
    | some p => rw [hf] at h; simp at h
  · intro h
    cases hq : alGet l k with
    | none => rfl
    | some v => exact absurd (mem_of_alGet l k v hq) (h v)

theorem uniqueKeys_filter {β} (l : List (Nat × β)) (p : Nat × β → Bool) (h : UniqueKeys l) :
    UniqueKeys (l.filter p) := by
  unfold UniqueKeys at *
  exact (List.Sublist.map _ (List.filter_sublist)).nodup h

theorem uniqueKeys_alSet {β} (l : List (Nat × β)) (k : Nat) (v : β) (h : UniqueKeys l) :
    UniqueKeys (alSet l k v) := by
  unfold alSet
  have hf := uniqueKeys_filter l (fun p => p.1 != k) h
  unfold UniqueKeys at *
  rw [List.map_append, List.nodup_append]
  refine ⟨hf, by simp, ?_⟩
  intro a ha b hb
  simp at hb
  subst hb
  simp only [List.mem_map, List.mem_filter] at ha
  obtain ⟨x, ⟨_, hx⟩, rfl⟩ := ha
  simpa using hx

/-- `d[k] = v` then `d.get(k')`. -/
theorem alGet_alSet {β} (l : List (Nat × β)) (h : UniqueKeys l) (k k' : Nat) (v : β) :
    alGet (alSet l k v) k' = if k' = k then some v else alGet l k' := by
  have hu := uniqueKeys_alSet l k v h
  by_cases hk : k' = k
  · subst hk
    simp only [if_true]
    exact alGet_eq_some_of_mem _ hu k' v (by simp [alSet])
  · simp only [hk, if_false]
    cases hq : alGet l k' with
    | none =>
      rw [alGet_none_iff] at hq ⊢
      intro w hm
      simp only [alSet, List.mem_append, List.mem_filter, List.mem_singleton, Prod.mk.injEq] at hm
      rcases hm with ⟨hm, _⟩ | ⟨e, _⟩
      · exact hq w hm
      · exact hk e
    | some w =>
      apply alGet_eq_some_of_mem _ hu
      simp only [alSet, List.mem_append, List.mem_filter]
      left
      exact ⟨mem_of_alGet l k' w hq, by simpa using hk⟩

/-- Lookup after a filter, for dictionaries. -/
theorem alGet_filter {β} (l : List (Nat × β)) (h : UniqueKeys l) (p : Nat × β → Bool) (k : Nat) :
    alGet (l.filter p) k = match alGet l k with
      | some v => if p (k, v) then some v else none
      | none => none := by
  have hu := uniqueKeys_filter l p h
  cases hq : alGet l k with
  | none =>
    simp only []
    rw [alGet_none_iff] at hq ⊢
    intro v hm
    exact hq v (List.mem_filter.mp hm).1
  | some v =>
    simp only []
    have hm := mem_of_alGet l k v hq
    by_cases hp : p (k, v) = true
    · simp only [hp, if_true]
      exact alGet_eq_some_of_mem _ hu k v (List.mem_filter.mpr ⟨hm, hp⟩)
    · simp only [hp, Bool.false_eq_true, if_false]
      rw [alGet_none_iff]
      intro w hw
      have hw' := List.mem_filter.mp hw
      have : alGet l k = some w := alGet_eq_some_of_mem l h k w hw'.1
      rw [hq] at this
      injection this with e
      subst e
      exact hp hw'.2

end Wheatley
