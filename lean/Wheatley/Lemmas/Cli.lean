/-
Facts about the command-line model (`Model/Cli.lean`): what `argparse` leaves in each destination, and what
`console_main` does with it.
-/
import Wheatley.Model.Cli
namespace Wheatley.Cli
open Wheatley.Parse

/-! ### Switches: on iff given (anywhere, any number of times) -/

theorem foldl_udi (os : List Opt) : ∀ a : Args, (os.foldl Args.set a).udi = (a.udi || decide (Opt.udi ∈ os)) := by
  induction os with
  | nil => intro a; simp
  | cons o os ih => intro a; rw [List.foldl_cons, ih]; cases o <;> simp [Args.set]

theorem foldl_sar (os : List Opt) : ∀ a : Args, (os.foldl Args.set a).sar = (a.sar || decide (Opt.sar ∈ os)) := by
  induction os with
  | nil => intro a; simp
  | cons o os ih => intro a; rw [List.foldl_cons, ih]; cases o <;> simp [Args.set]

theorem foldl_handbell (os : List Opt) :
    ∀ a : Args, (os.foldl Args.set a).handbell = (a.handbell || decide (Opt.handbell ∈ os)) := by
  induction os with
  | nil => intro a; simp
  | cons o os ih => intro a; rw [List.foldl_cons, ih]; cases o <;> simp [Args.set]

theorem foldl_noCalls (os : List Opt) :
    ∀ a : Args, (os.foldl Args.set a).noCalls = (a.noCalls || decide (Opt.noCalls ∈ os)) := by
  induction os with
  | nil => intro a; simp
  | cons o os ih => intro a; rw [List.foldl_cons, ih]; cases o <;> simp [Args.set]

theorem foldl_keepGoing (os : List Opt) :
    ∀ a : Args, (os.foldl Args.set a).keepGoing = (a.keepGoing || decide (Opt.keepGoing ∈ os)) := by
  induction os with
  | nil => intro a; simp
  | cons o os ih => intro a; rw [List.foldl_cons, ih]; cases o <;> simp [Args.set]

theorem parse_udi (os : List Opt) : (parseOpts os).udi = decide (Opt.udi ∈ os) := by
  simp [parseOpts, foldl_udi]
theorem parse_sar (os : List Opt) : (parseOpts os).sar = decide (Opt.sar ∈ os) := by
  simp [parseOpts, foldl_sar]
theorem parse_handbell (os : List Opt) : (parseOpts os).handbell = decide (Opt.handbell ∈ os) := by
  simp [parseOpts, foldl_handbell]
theorem parse_noCalls (os : List Opt) : (parseOpts os).noCalls = decide (Opt.noCalls ∈ os) := by
  simp [parseOpts, foldl_noCalls]
theorem parse_keepGoing (os : List Opt) : (parseOpts os).keepGoing = decide (Opt.keepGoing ∈ os) := by
  simp [parseOpts, foldl_keepGoing]

/-! ### Valued options: the last one given, else the default -/

def bobsGiven (os : List Opt) : List (List Char) := os.filterMap fun | .bob v => some v | _ => none
def singlesGiven (os : List Opt) : List (List Char) := os.filterMap fun | .single v => some v | _ => none
def speedsGiven (os : List Opt) : List (List Char) := os.filterMap fun | .pealSpeed v => some v | _ => none
def namesGiven (os : List Opt) : List (List Char) := os.filterMap fun | .name v => some v | _ => none
def gapsGiven (os : List Opt) : List Nat := os.filterMap fun | .gap v => some v | _ => none
def inertiasGiven (os : List Opt) : List Nat := os.filterMap fun | .inertia v => some v | _ => none
def maxBellsGiven (os : List Opt) : List Int := os.filterMap fun | .maxBells v => some v | _ => none
def startIndicesGiven (os : List Opt) : List Int := os.filterMap fun | .startIndex v => some v | _ => none

theorem foldl_bob (os : List Opt) : ∀ a : Args, (os.foldl Args.set a).bob = (bobsGiven os).getLast?.getD a.bob := by
  induction os with
  | nil => intro a; rfl
  | cons o os ih =>
    intro a
    rw [List.foldl_cons, ih]
    cases o <;> simp [Args.set, bobsGiven, List.getLast?_cons]

theorem foldl_single (os : List Opt) :
    ∀ a : Args, (os.foldl Args.set a).single = (singlesGiven os).getLast?.getD a.single := by
  induction os with
  | nil => intro a; rfl
  | cons o os ih =>
    intro a
    rw [List.foldl_cons, ih]
    cases o <;> simp [Args.set, singlesGiven, List.getLast?_cons]

theorem foldl_pealSpeed (os : List Opt) :
    ∀ a : Args, (os.foldl Args.set a).pealSpeed = (speedsGiven os).getLast?.getD a.pealSpeed := by
  induction os with
  | nil => intro a; rfl
  | cons o os ih =>
    intro a
    rw [List.foldl_cons, ih]
    cases o <;> simp [Args.set, speedsGiven, List.getLast?_cons]

theorem foldl_gap (os : List Opt) : ∀ a : Args, (os.foldl Args.set a).gap = (gapsGiven os).getLast?.getD a.gap := by
  induction os with
  | nil => intro a; rfl
  | cons o os ih =>
    intro a
    rw [List.foldl_cons, ih]
    cases o <;> simp [Args.set, gapsGiven, List.getLast?_cons]

theorem foldl_inertia (os : List Opt) :
    ∀ a : Args, (os.foldl Args.set a).inertia = (inertiasGiven os).getLast?.getD a.inertia := by
  induction os with
  | nil => intro a; rfl
  | cons o os ih =>
    intro a
    rw [List.foldl_cons, ih]
    cases o <;> simp [Args.set, inertiasGiven, List.getLast?_cons]

theorem foldl_maxBells (os : List Opt) :
    ∀ a : Args, (os.foldl Args.set a).maxBells = (maxBellsGiven os).getLast?.getD a.maxBells := by
  induction os with
  | nil => intro a; rfl
  | cons o os ih =>
    intro a
    rw [List.foldl_cons, ih]
    cases o <;> simp [Args.set, maxBellsGiven, List.getLast?_cons]

theorem foldl_startIndex (os : List Opt) :
    ∀ a : Args, (os.foldl Args.set a).startIndex = (startIndicesGiven os).getLast?.getD a.startIndex := by
  induction os with
  | nil => intro a; rfl
  | cons o os ih =>
    intro a
    rw [List.foldl_cons, ih]
    cases o <;> simp [Args.set, startIndicesGiven, List.getLast?_cons]

theorem foldl_name (os : List Opt) :
    ∀ a : Args, (os.foldl Args.set a).name =
      (match (namesGiven os).getLast? with | some v => some v | none => a.name) := by
  induction os with
  | nil => intro a; rfl
  | cons o os ih =>
    intro a
    rw [List.foldl_cons, ih]
    cases o with
    | name v =>
      show (match (namesGiven os).getLast? with | some w => some w | none => some v) =
        (match (v :: namesGiven os).getLast? with | some w => some w | none => a.name)
      rw [List.getLast?_cons]
      cases (namesGiven os).getLast? <;> rfl
    | _ => rfl

/-! ### `console_main` -/

/-- `create_row_generator` never "fails" with a built configuration (its failures are refusals). -/
theorem createRowGenerator_error (c : Chars) (a : Args) (u : Option (List Char × List Char)) (o : Out)
    (h : createRowGenerator c a u = .error o) (cfg : Cfg) : o ≠ .built cfg := by
  intro hc
  subst hc
  unfold createRowGenerator at h
  repeat' split at h
  all_goals simp at h

/-- What is built carries the switches and numbers of the parsed arguments. -/
theorem consoleArgs_built (c : Chars) (a : Args) (u : Option (List Char × List Char)) (cfg : Cfg)
    (h : consoleArgs c a u = .built cfg) :
    cfg.udi = (a.udi || a.handbell) ∧ cfg.sar = (a.sar || a.handbell) ∧ cfg.callComps = !a.noCalls ∧
    cfg.useWait = !a.keepGoing ∧ cfg.inertia = a.inertia ∧ cfg.gap = a.gap ∧ cfg.maxBells = a.maxBells ∧
    cfg.minBells = min (Generated.minBellsInDataset : Int) a.maxBells ∧ cfg.name = a.name ∧
    pealSpeed c a.pealSpeed = .ok cfg.pealSpeed ∧ createRowGenerator c a u = .ok cfg.source := by
  unfold consoleArgs at h
  cases hb : startRowOk a
  · simp [hb] at h
  · simp only [hb, Bool.not_true, Bool.false_eq_true, if_false] at h
    cases hsrc : createRowGenerator c a u with
    | error o =>
      rw [hsrc] at h
      exact absurd h (createRowGenerator_error c a u o hsrc cfg)
    | ok src =>
      rw [hsrc] at h
      cases hm : pealSpeed c a.pealSpeed with
      | own e => rw [hm] at h; cases h
      | crash e => rw [hm] at h; cases h
      | ok minutes =>
        rw [hm] at h
        simp only [Out.built.injEq] at h
        subst h
        exact ⟨rfl, rfl, rfl, rfl, rfl, rfl, rfl, rfl, rfl, rfl, rfl⟩

/-- A start row that `parse_start_row` refuses ends the run with that error's message, whatever else was given. -/
theorem bad_start_row_exits (c : Chars) (a : Args) (u : Option (List Char × List Char)) (s : List Char) (e : String)
    (hs : a.startRow = some s) (hbad : startRow s = .own e) : consoleArgs c a u = .exitStartRow := by
  unfold consoleArgs startRowOk
  simp [hs, hbad]

/-- With the start row and the generator accepted, a refused peal speed ends the run with the peal speed's own
message. -/
theorem bad_peal_speed_exits (c : Chars) (a : Args) (u : Option (List Char × List Char)) (src : Source) (e : String)
    (hs : ∀ s, a.startRow = some s → ∃ n, startRow s = .ok n) (hg : createRowGenerator c a u = .ok src)
    (hbad : pealSpeed c a.pealSpeed = .own e) : consoleArgs c a u = .exitPealSpeed := by
  unfold consoleArgs
  have hb : startRowOk a = true := by
    unfold startRowOk
    cases hsr : a.startRow with
    | none => rfl
    | some s => obtain ⟨n, hn⟩ := hs s hsr; simp [hn]
  simp [hb, hg, hbad]

/-- A refused place notation ends the run with "Bad value for '--place-notation'". -/
theorem bad_pn_exits (c : Chars) (a : Args) (u : Option (List Char × List Char)) (text : List Char) (e : String)
    (hc : a.comp = none) (hm : a.method = none) (hp : a.pn = some text) (hbad : placeNotation c text = .own e) :
    createRowGenerator c a u = .error .exitPN := by
  unfold createRowGenerator
  simp [hc, hm, hp, hbad]

/-- An accepted place notation with accepted calls: the generator is the one the values define - the stage and
notation of `-p`, the call definitions of `--bob` / `--single` (nothing else mixed in), the start index and
start row given. -/
theorem pn_builds (c : Chars) (a : Args) (u : Option (List Char × List Char)) (text pn : List Char) (stage : Nat)
    (b s : List (Int × List Char)) (g : Gen)
    (hc : a.comp = none) (hm : a.method = none) (hp : a.pn = some text)
    (hpn : placeNotation c text = .ok (stage, pn)) (hb : callDef c a.bob = .ok b) (hs : callDef c a.single = .ok s)
    (hg : mkPN stage pn (some b) (some s) a.startIndex a.startRow = some g) :
    createRowGenerator c a u = .ok (.gen g) := by
  unfold createRowGenerator
  simp [hc, hm, hp, hpn, hb, hs, hg]

/-- A call definition that `parse_call` refuses leaves `main` as that error (`CallParseError` is not caught). -/
theorem bad_call_raises (c : Chars) (a : Args) (u : Option (List Char × List Char)) (text pn : List Char) (stage : Nat)
    (e : String) (hc : a.comp = none) (hm : a.method = none) (hp : a.pn = some text)
    (hpn : placeNotation c text = .ok (stage, pn)) (hb : callDef c a.bob = .own e) :
    createRowGenerator c a u = .error (.raised e) := by
  unfold createRowGenerator
  simp [hc, hm, hp, hpn, hb]

/-! ### The whole command line -/

theorem consoleMain_built (c : Chars) (os : List Opt) (u : Option (List Char × List Char)) (cfg : Cfg)
    (h : consoleMain c os u = .built cfg) : consoleArgs c (parseOpts os) u = .built cfg := by
  unfold consoleMain at h
  split at h
  · cases h
  · exact h

/-- Everything that is built, in terms of the options as given. -/
theorem main_built (c : Chars) (os : List Opt) (u : Option (List Char × List Char)) (cfg : Cfg)
    (h : consoleMain c os u = .built cfg) :
    cfg.udi = (decide (Opt.udi ∈ os) || decide (Opt.handbell ∈ os)) ∧
    cfg.sar = (decide (Opt.sar ∈ os) || decide (Opt.handbell ∈ os)) ∧
    cfg.callComps = !decide (Opt.noCalls ∈ os) ∧
    cfg.useWait = !decide (Opt.keepGoing ∈ os) ∧
    cfg.inertia = (inertiasGiven os).getLast?.getD Generated.cliInertiaBits ∧
    cfg.gap = (gapsGiven os).getLast?.getD Generated.cliGapBits ∧
    cfg.maxBells = (maxBellsGiven os).getLast?.getD Generated.cliMaxBells ∧
    cfg.minBells = min (Generated.minBellsInDataset : Int) cfg.maxBells ∧
    cfg.name = (namesGiven os).getLast? ∧
    pealSpeed c ((speedsGiven os).getLast?.getD Generated.cliPealSpeed.toList) = .ok cfg.pealSpeed := by
  obtain ⟨h1, h2, h3, h4, h5, h6, h7, h8, h9, h10, _⟩ := consoleArgs_built c _ u cfg (consoleMain_built c os u cfg h)
  refine ⟨?_, ?_, ?_, ?_, ?_, ?_, ?_, ?_, ?_, ?_⟩
  · rw [h1, parse_udi, parse_handbell]
  · rw [h2, parse_sar, parse_handbell]
  · rw [h3, parse_noCalls]
  · rw [h4, parse_keepGoing]
  · rw [h5]; exact foldl_inertia os {}
  · rw [h6]; exact foldl_gap os {}
  · rw [h7]; exact foldl_maxBells os {}
  · rw [h8, h7]
  · rw [h9]
    have := foldl_name os {}
    simp only [parseOpts]
    rw [this]
    cases (namesGiven os).getLast? <;> rfl
  · have := foldl_pealSpeed os {}
    simp only [parseOpts] at h10
    rw [this] at h10
    exact h10

/-- No generator option at all, or two different ones: `argparse` refuses the command line itself. -/
theorem main_usage (c : Chars) (os : List Opt) (u : Option (List Char × List Char)) (h : groupOk os = false) :
    consoleMain c os u = .usage := by
  simp [consoleMain, h]

end Wheatley.Cli
