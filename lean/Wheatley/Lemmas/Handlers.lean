/-
Only the main thread strikes: whatever message is delivered, in whatever state, the handler that runs on the
socket thread emits no `c_bell_rung` and leaves the main thread's program counter where it was.
-/
import Wheatley.Model.World
import Wheatley.Lemmas.Outs
namespace Wheatley

variable {K : Type} [Num K]

/-- The strikes among the observations. -/
def ringsOf (obs : List (Obs K)) : List (Obs K) := obs.filter (fun o => o.out.isRing)

theorem ite_proj {α β : Type} (p : α → β) (c : Prop) [Decidable c] (a b : α) (v : β) (ha : p a = v) (hb : p b = v) :
    p (if c then a else b) = v := by
  split <;> assumption

theorem withReg_pc_obs (w : World K) (f : (List (K × K × K) → K × K) → Reg K) :
    (w.withReg f).pc = w.pc ∧ (w.withReg f).obs = w.obs ∧ (w.withReg f).bot = w.bot := by
  unfold World.withReg
  simp only []
  exact ⟨ite_proj (fun x : World K => x.pc) _ _ _ _ rfl rfl, ite_proj (fun x : World K => x.obs) _ _ _ _ rfl rfl,
    ite_proj (fun x : World K => x.bot) _ _ _ _ rfl rfl⟩

theorem withReg_crashed (w : World K) (f : (List (K × K × K) → K × K) → Reg K) :
    (w.withReg f).crashed = w.crashed := by
  unfold World.withReg
  simp only []
  exact ite_proj (fun x : World K => x.crashed) _ _ _ _ rfl rfl

/-- Interpreting an output records it and touches nothing of the main thread's position. -/
theorem applyOut_pc_obs (wt : K → K) (ct : K) (w : World K) (o : Out) :
    (World.applyOut wt ct w o).pc = w.pc ∧
    (World.applyOut wt ct w o).obs = { t := w.now, out := o } :: w.obs ∧
    (World.applyOut wt ct w o).bot = w.bot := by
  unfold World.applyOut
  cases o <;> simp only []
  all_goals first
    | (split <;> exact ⟨rfl, rfl, rfl⟩)
    | skip
  · -- rInit
    split
    · exact ⟨rfl, rfl, rfl⟩
    · split
      · obtain ⟨h1, h2, h3⟩ := withReg_pc_obs
          ({ ({ w with obs := { t := w.now, out := Out.rInit _ _ _ } :: w.obs, lastActivity := w.now } : World K) with
              rh := _, now := _ } : World K) _
        exact ⟨h1, h2, h3⟩
      · obtain ⟨h1, h2, h3⟩ := withReg_pc_obs
          ({ w with obs := { t := w.now, out := Out.rInit _ _ _ } :: w.obs, lastActivity := w.now } : World K) _
        exact ⟨h1, h2, h3⟩
  · -- rBellRing
    split
    · exact ⟨rfl, rfl, rfl⟩
    · obtain ⟨h1, h2, h3⟩ := withReg_pc_obs ({ w with obs := { t := w.now, out := Out.rBellRing _ _ } :: w.obs } : World K) _
      exact ⟨h1, h2, h3⟩
  · -- rSetting
    split
    · exact ⟨rfl, rfl, rfl⟩
    · split
      · split
        · split <;> exact ⟨rfl, rfl, rfl⟩
        all_goals exact ⟨rfl, rfl, rfl⟩
      · split
        · split
          · split <;> exact ⟨rfl, rfl, rfl⟩
          all_goals exact ⟨rfl, rfl, rfl⟩
        · exact ⟨rfl, rfl, rfl⟩

/-- … nor whether the main thread has died. -/
theorem applyOut_crashed (wt : K → K) (ct : K) (w : World K) (o : Out) :
    (World.applyOut wt ct w o).crashed = w.crashed := by
  unfold World.applyOut
  cases o <;> simp only []
  all_goals first
    | (split <;> rfl)
    | skip
  · split
    · rfl
    · split
      · exact withReg_crashed _ _
      · exact withReg_crashed _ _
  · split
    · rfl
    · exact withReg_crashed _ _
  · split
    · rfl
    · split
      · split
        · split <;> rfl
        all_goals rfl
      · split
        · split
          · split <;> rfl
          all_goals rfl
        · rfl

theorem foldl_applyOut_bot_crashed (wt : K → K) (ct : K) (outs : List Out) :
    ∀ (w : World K), (outs.foldl (World.applyOut wt ct) w).bot = w.bot ∧
      (outs.foldl (World.applyOut wt ct) w).crashed = w.crashed := by
  induction outs with
  | nil => intro w; exact ⟨rfl, rfl⟩
  | cons o rest ih =>
    intro w
    obtain ⟨_, _, hb⟩ := applyOut_pc_obs wt ct w o
    obtain ⟨h1, h2⟩ := ih (World.applyOut wt ct w o)
    simp only [List.foldl_cons]
    exact ⟨h1.trans hb, h2.trans (applyOut_crashed wt ct w o)⟩

theorem foldl_applyOut_pc (wt : K → K) (ct : K) (outs : List Out) :
    ∀ (w : World K), (outs.foldl (World.applyOut wt ct) w).pc = w.pc := by
  induction outs with
  | nil => intro w; rfl
  | cons o rest ih =>
    intro w
    simp only [List.foldl_cons]
    rw [ih]
    exact (applyOut_pc_obs wt ct w o).1

theorem foldl_applyOut_no_ring (wt : K → K) (ct : K) (outs : List Out) :
    ∀ (w : World K), (∀ o ∈ outs, o.isRing = false) →
      (outs.foldl (World.applyOut wt ct) w).pc = w.pc ∧
      ringsOf (outs.foldl (World.applyOut wt ct) w).obs = ringsOf w.obs := by
  induction outs with
  | nil => intro w _; exact ⟨rfl, rfl⟩
  | cons o rest ih =>
    intro w h
    obtain ⟨p1, o1, _⟩ := applyOut_pc_obs wt ct w o
    obtain ⟨p2, o2⟩ := ih (World.applyOut wt ct w o) (fun o' ho' => h o' (by simp [ho']))
    simp only [List.foldl_cons]
    refine ⟨p2.trans p1, ?_⟩
    rw [o2, o1]
    simp [ringsOf, h o (by simp)]

theorem withReg_suspended (w : World K) (f : (List (K × K × K) → K × K) → Reg K) :
    (w.withReg f).suspended = w.suspended := by
  unfold World.withReg
  simp only []
  exact ite_proj (fun x : World K => x.suspended) _ _ _ _ rfl rfl

theorem applyOut_suspended (wt : K → K) (ct : K) (w : World K) (o : Out) :
    (World.applyOut wt ct w o).suspended = w.suspended := by
  unfold World.applyOut
  cases o <;> simp only []
  all_goals first
    | (split <;> rfl)
    | skip
  · split
    · rfl
    · split
      · exact withReg_suspended _ _
      · exact withReg_suspended _ _
  · split
    · rfl
    · exact withReg_suspended _ _
  · split
    · rfl
    · split
      · split
        · split <;> rfl
        all_goals rfl
      · split
        · split
          · split <;> rfl
          all_goals rfl
        · rfl

theorem foldl_applyOut_suspended (wt : K → K) (ct : K) (outs : List Out) :
    ∀ (w : World K), (outs.foldl (World.applyOut wt ct) w).suspended = w.suspended := by
  induction outs with
  | nil => intro w; rfl
  | cons o rest ih => intro w; simp only [List.foldl_cons]; rw [ih, applyOut_suspended]


/-! ### What the handlers emit -/

theorem onSetting_no_ring (b : Bot) (k : String) (v : SVal) : ∀ o ∈ (b.onSetting k v).2, o.isRing = false := by
  intro o ho
  unfold Bot.onSetting at ho
  split at ho
  · simp at ho
  · split at ho
    · simp at ho
    · split at ho
      · simp at ho
      · simp at ho; subst ho; rfl

theorem foldSettings_no_ring : ∀ (kvs : List (String × SVal)) (b : Bot), ∀ o ∈ (foldSettings b kvs).2, o.isRing = false := by
  intro kvs
  induction kvs with
  | nil => intro b o ho; simp [foldSettings] at ho
  | cons kv rest ih =>
    intro b o ho
    obtain ⟨k, v⟩ := kv
    simp only [foldSettings, List.mem_append] at ho
    rcases ho with h | h
    · exact onSetting_no_ring b k v o h
    · exact ih _ o h

theorem lookTo_no_ring (b : Bot) : ∀ o ∈ b.lookTo.2, o.isRing = false := by
  intro o ho
  unfold Bot.lookTo at ho
  split at ho
  · simp at ho; rcases ho with rfl | rfl <;> rfl
  · simp only [List.cons_append, List.nil_append, List.mem_cons] at ho
    rcases ho with rfl | rfl | h
    · rfl
    · rfl
    · exact (startNextRow_outs _ true o h).1

theorem onCall_no_ring (b : Bot) (c : String) : ∀ o ∈ (b.onCall c).2, o.isRing = false := by
  intro o ho
  unfold Bot.onCall at ho
  split at ho
  · unfold Bot.onLookTo at ho
    split at ho
    · exact lookTo_no_ring b o ho
    · simp at ho
  · split at ho
    · unfold Bot.onGo at ho
      split at ho
      · exact makeCalls_no_ring _ _ o ho
      · simp at ho
    · repeat' split at ho
      all_goals simp at ho

theorem onSizeChange_no_ring (b : Bot) : ∀ o ∈ b.onSizeChange.2, o.isRing = false := by
  intro o ho
  unfold Bot.onSizeChange at ho
  split at ho
  · simp at ho; subst ho; rfl
  · simp at ho

/-- **No handler strikes a bell.** -/
theorem onMsg_no_ring (b : Bot) (m : Msg) : ∀ o ∈ (b.onMsg m).2, o.isRing = false := by
  intro o ho
  unfold Bot.onMsg at ho
  simp only [] at ho
  split at ho
  · split at ho
    · simp at ho
    · split at ho
      · simp at ho; subst ho; rfl
      · simp at ho
  · exact onSizeChange_no_ring _ o ho
  · split at ho
    · exact onSizeChange_no_ring _ o ho
    · simp at ho
  · exact onCall_no_ring _ _ o ho
  · split at ho
    · exact foldSettings_no_ring _ _ o ho
    · simp at ho
  · repeat' split at ho
    all_goals simp at ho
  · split at ho
    · simp at ho; rcases ho with rfl | rfl <;> rfl
    · simp at ho
  · simp at ho

/-! ### The socket thread as a whole -/

/-- **Only the main thread strikes**: delivering any event - a message to its handler, or the resumption of a
Look To handler that was asleep - adds no strike to what has been emitted and does not move the main thread. -/
theorem deliver_never_rings (wt : K → K) (w : World K) (e : Ev) :
    (World.deliver wt w e).pc = w.pc ∧ ringsOf (World.deliver wt w e).obs = ringsOf w.obs := by
  cases e with
  | resume =>
    unfold World.deliver
    simp only []
    split
    · rename_i s _
      unfold World.lookToResume World.lookToRest
      simp only []
      have hin : (World.lookToInner ({ w with suspended := none } : World K) s).pc = w.pc ∧
          (World.lookToInner ({ w with suspended := none } : World K) s).obs = w.obs := by
        unfold World.lookToInner
        split
        · obtain ⟨h1, h2, _⟩ := withReg_pc_obs ({ w with suspended := none } : World K) _
          exact ⟨h1, h2⟩
        · exact ⟨rfl, rfl⟩
      obtain ⟨hp, ho⟩ := foldl_applyOut_no_ring wt
        (World.lookToInner ({ w with suspended := none } : World K) s).now
        ((World.lookToInner ({ w with suspended := none } : World K) s).bot.armLookTo.startNextRow true).2
        { (World.lookToInner ({ w with suspended := none } : World K) s) with
            bot := ((World.lookToInner ({ w with suspended := none } : World K) s).bot.armLookTo.startNextRow true).1 }
        (fun o h => (startNextRow_outs _ true o h).1)
      split
      · exact ⟨hp.trans hin.1, by show ringsOf _ = _; rw [ho]; show ringsOf (World.lookToInner _ s).obs = _; rw [hin.2]⟩
      · exact ⟨hp.trans hin.1, by rw [ho]; show ringsOf (World.lookToInner _ s).obs = _; rw [hin.2]⟩
    · exact ⟨rfl, rfl⟩
  | msg m =>
    unfold World.deliver
    simp only []
    split
    · -- the Look To handler up to its sleep
      unfold World.lookToBegin
      exact ⟨rfl, by simp [ringsOf, Out.isRing]⟩
    · unfold World.deliverMsg
      simp only []
      obtain ⟨hp, ho⟩ := foldl_applyOut_no_ring wt w.now (w.bot.onMsg m).2 { w with bot := (w.bot.onMsg m).1 }
        (onMsg_no_ring w.bot m)
      split
      · exact ⟨hp, ho⟩
      · exact ⟨hp, ho⟩

/-- The same for a whole sleep of the main thread: however many events fall due in it. -/
theorem sleep_go_never_rings (wt : K → K) (limit : K) :
    ∀ (events : List (K × Ev)) (w : World K),
      (World.sleep.go wt limit w events).1.pc = w.pc ∧
      ringsOf (World.sleep.go wt limit w events).1.obs = ringsOf w.obs := by
  intro events
  induction events with
  | nil => intro w; exact ⟨rfl, rfl⟩
  | cons ev rest ih =>
    intro w
    obtain ⟨t, m⟩ := ev
    unfold World.sleep.go
    split
    · obtain ⟨h1, h2⟩ := ih (World.deliver wt (if w.now < t then { w with now := t } else w) m)
      obtain ⟨d1, d2⟩ := deliver_never_rings wt (if w.now < t then { w with now := t } else w) m
      have e1 : (if w.now < t then ({ w with now := t } : World K) else w).pc = w.pc := by split <;> rfl
      have e2 : (if w.now < t then ({ w with now := t } : World K) else w).obs = w.obs := by split <;> rfl
      exact ⟨h1.trans (d1.trans e1), by rw [h2, d2, e2]⟩
    · exact ⟨rfl, rfl⟩

theorem sleep_never_rings (wt : K → K) (endTime : K) (w : World K) (d : K) (events : List (K × Ev)) :
    (World.sleep wt endTime w d events).1.pc = w.pc ∧
    ringsOf (World.sleep wt endTime w d events).1.obs = ringsOf w.obs := by
  unfold World.sleep
  simp only []
  split
  · exact sleep_go_never_rings wt endTime events w
  · exact sleep_go_never_rings wt (w.now + d) events w

end Wheatley
