/-
Invariants of the row generators: whatever operations are applied, every row is a permutation of
the generator's start row, has its length, and leaves the places above the stage alone.
-/
import Wheatley.Model.Gen
import Wheatley.Lemmas.Permute
namespace Wheatley

/-- The generator is rule- or notation-driven (its rows come from `permute`, not from a payload). -/
def GenKind.permuting : GenKind → Bool
  | .comp _ => false
  | .placeholder => false
  | _ => true

def Gen.Permuting (g : Gen) : Prop := g.kind.permuting = true

instance (g : Gen) : Decidable g.Permuting := by unfold Gen.Permuting; infer_instance

/-- `P` holds of the current row and is preserved by every `permute` of the generator's stage. -/
structure RowInv (stage : Nat) (P : Row → Prop) : Prop where
  step : ∀ r places, P r → P (permute stage r places)

theorem pnArm_keeps (c : PNCfg) (g : Gen) :
    (pnArm c g).row = g.row ∧ (pnArm c g).startRow = g.startRow ∧ (pnArm c g).kind = g.kind ∧
    (pnArm c g).index = g.index ∧ (pnArm c g).customStart = g.customStart := by
  unfold pnArm
  simp only []
  split
  · simp [Gen.resetCalls]
  · split <;> simp [Gen.resetCalls]

theorem pnStep_row (c : PNCfg) (g : Gen) :
    ∃ places, (pnStep c g).2 = permute c.stage g.row places ∧
      (pnStep c g).1.row = g.row ∧ (pnStep c g).1.startRow = g.startRow ∧
      (pnStep c g).1.kind = g.kind := by
  obtain ⟨h1, h2, h3, _, _⟩ := pnArm_keeps c g
  exact ⟨_, rfl, h1, h2, h3⟩

theorem dixonStep_row (c : DixonCfg) (g : Gen) (hand : Bool) (g' : Gen) (r : Row)
    (h : dixonStep c g hand = some (g', r)) :
    ∃ places, r = permute c.stage g.row places ∧ g'.row = g.row ∧ g'.startRow = g.startRow ∧
      g'.kind = g.kind := by
  unfold dixonStep at h
  simp only [] at h
  repeat' split at h
  all_goals first
    | (simp at h; obtain ⟨rfl, rfl⟩ := h; exact ⟨_, rfl, by simp [Gen.resetCalls], by simp [Gen.resetCalls], by simp [Gen.resetCalls]⟩)
    | (simp at h)

/-- `next` never changes the configuration, and stores the row it returns. -/
theorem Gen.next_keeps (g : Gen) (hand : Bool) (g' : Gen) (r : Row) (calls : List String)
    (h : g.next hand = .ok g' r calls) :
    g'.row = r ∧ g'.startRow = g.startRow ∧ g'.kind = g.kind := by
  unfold Gen.next at h
  split at h
  · rename_i c hk
    obtain ⟨places, h1, h2, h3, h4⟩ := pnStep_row c g
    simp only [] at h
    injection h with e1 e2 e3
    subst e1 e2
    exact ⟨rfl, by simpa using h3, by simpa using h4⟩
  · injection h with e1 e2 e3; subst e1 e2; exact ⟨rfl, rfl, rfl⟩
  · rename_i c hk
    split at h
    · rename_i g1 r1 hd
      obtain ⟨places, h1, h2, h3, h4⟩ := dixonStep_row c g hand g1 r1 hd
      injection h with e1 e2 e3
      subst e1 e2
      exact ⟨rfl, by simpa using h3, by simpa using h4⟩
    · cases h
  · split at h <;> (injection h with e1 e2 e3; subst e1 e2; exact ⟨rfl, rfl, rfl⟩)
  · cases h

/-- One `next` of a permuting generator: the new row is a `permute` of the old one. -/
theorem Gen.next_permuting (g : Gen) (hp : g.Permuting) (hand : Bool) (g' : Gen) (r : Row)
    (calls : List String) (h : g.next hand = .ok g' r calls) :
    ∃ places, r = permute g.stage g.row places := by
  unfold Gen.next at h
  unfold Gen.Permuting at hp
  split at h
  · rename_i c hk
    obtain ⟨places, h1, h2, h3, h4⟩ := pnStep_row c g
    simp only [] at h
    injection h with e1 e2 e3
    subst e1 e2
    exact ⟨places, by simp [Gen.stage, hk, GenKind.stage, h1]⟩
  · rename_i st hk
    injection h with e1 e2 e3
    subst e1 e2
    exact ⟨(if hand = true then [] else [1, st]), by simp [Gen.stage, hk, GenKind.stage]⟩
  · rename_i c hk
    split at h
    · rename_i g1 r1 hd
      obtain ⟨places, h1, h2, h3, h4⟩ := dixonStep_row c g hand g1 r1 hd
      injection h with e1 e2 e3
      subst e1 e2
      exact ⟨places, by simp [Gen.stage, hk, GenKind.stage, h1]⟩
    · cases h
  · rename_i c hk; simp [hk, GenKind.permuting] at hp
  · rename_i hk; simp [hk, GenKind.permuting] at hp

theorem Gen.apply_keeps (g : Gen) (op : GenOp) :
    (g.apply op).1.startRow = g.startRow ∧ (g.apply op).1.kind = g.kind := by
  cases op with
  | bob => exact ⟨rfl, rfl⟩
  | single => exact ⟨rfl, rfl⟩
  | reset => exact ⟨rfl, rfl⟩
  | next hand =>
    cases hn : g.next hand with
    | ok g' r calls =>
      have := Gen.next_keeps g hand g' r calls hn
      simp only [Gen.apply, hn]
      exact ⟨this.2.1, this.2.2⟩
    | nullRowGen => simp [Gen.apply, hn]
    | keyError => simp [Gen.apply, hn]

/-- Generic invariant lifting: a predicate that holds of the start row and is preserved by every
`permute` holds of every row a permuting generator ever produces, for every operation sequence. -/
theorem Gen.runOps_inv (P : Row → Prop) :
    ∀ (ops : List GenOp) (g : Gen), g.Permuting →
      (∀ r places, P r → P (permute g.stage r places)) → P g.startRow → P g.row →
      ∀ r ∈ evRows (g.runOps ops).2, P r := by
  intro ops
  induction ops with
  | nil => intro g _ _ _ _ r hr; simp [Gen.runOps, evRows] at hr
  | cons op ops ih =>
    intro g hp hstep hstart hrow r hr
    have hk := Gen.apply_keeps g op
    have hp' : (g.apply op).1.Permuting := by unfold Gen.Permuting at *; rw [hk.2]; exact hp
    have hstage : (g.apply op).1.stage = g.stage := by unfold Gen.stage; rw [hk.2]
    have hstep' : ∀ r places, P r → P (permute (g.apply op).1.stage r places) := by
      rw [hstage]; exact hstep
    have hstart' : P (g.apply op).1.startRow := by rw [hk.1]; exact hstart
    unfold Gen.runOps at hr
    cases op with
    | bob => exact ih _ hp' hstep' hstart' hrow r hr
    | single => exact ih _ hp' hstep' hstart' hrow r hr
    | reset => exact ih _ hp' hstep' hstart' hstart r hr
    | next hand =>
      simp only [Gen.apply] at hr hp' hstep' hstart' ih
      cases hn : g.next hand with
      | ok g' r' calls =>
        obtain ⟨places, hperm⟩ := Gen.next_permuting g hp hand g' r' calls hn
        obtain ⟨hrow', hs', hk'⟩ := Gen.next_keeps g hand g' r' calls hn
        simp only [hn] at hr hp' hstep' hstart'
        simp only [evRows, List.mem_cons] at hr
        have hPr' : P r' := by rw [hperm]; exact hstep _ _ hrow
        rcases hr with rfl | hr
        · exact hPr'
        · exact ih g' hp' hstep' hstart' (by rw [hrow']; exact hPr') r hr
      | nullRowGen => simp [hn, evRows] at hr
      | keyError => simp [hn, evRows] at hr

/-! ### The configuration never changes -/

/-- The immutable part of a generator. -/
def Gen.cfg (g : Gen) : GenKind × Option Row × Row := (g.kind, g.customStart, g.startRow)

theorem pnStep_cfg (c : PNCfg) (g : Gen) : (pnStep c g).1.cfg = g.cfg := by
  obtain ⟨_, h2, h3, _, h5⟩ := pnArm_keeps c g
  simp [pnStep, Gen.cfg, h2, h3, h5]

theorem dixonStep_cfg (c : DixonCfg) (g : Gen) (hand : Bool) (g' : Gen) (r : Row)
    (h : dixonStep c g hand = some (g', r)) : g'.cfg = g.cfg := by
  unfold dixonStep at h
  simp only [] at h
  repeat' split at h
  all_goals first
    | (simp at h; obtain ⟨rfl, rfl⟩ := h; simp [Gen.cfg, Gen.resetCalls])
    | (simp at h)

theorem Gen.next_cfg (g : Gen) (hand : Bool) (g' : Gen) (r : Row) (calls : List String)
    (h : g.next hand = .ok g' r calls) : g'.cfg = g.cfg := by
  unfold Gen.next at h
  split at h
  · rename_i c hk
    simp only [] at h
    injection h with e1 e2 e3
    subst e1
    have := pnStep_cfg c g
    simpa [Gen.cfg] using this
  · injection h with e1 e2 e3; subst e1; rfl
  · rename_i c hk
    split at h
    · rename_i g1 r1 hd
      injection h with e1 e2 e3
      subst e1
      have := dixonStep_cfg c g hand g1 r1 hd
      simpa [Gen.cfg] using this
    · cases h
  · split at h <;> (injection h with e1 e2 e3; subst e1; rfl)
  · cases h

theorem Gen.apply_cfg (g : Gen) (op : GenOp) : (g.apply op).1.cfg = g.cfg := by
  cases op with
  | bob => rfl
  | single => rfl
  | reset => rfl
  | next hand =>
    cases hn : g.next hand with
    | ok g' r calls => simp only [Gen.apply, hn]; exact Gen.next_cfg g hand g' r calls hn
    | nullRowGen => simp [Gen.apply, hn]
    | keyError => simp [Gen.apply, hn]

theorem Gen.runOps_cfg : ∀ (ops : List GenOp) (g : Gen), (g.runOps ops).1.cfg = g.cfg := by
  intro ops
  induction ops with
  | nil => intro g; rfl
  | cons op ops ih =>
    intro g
    have h1 := Gen.apply_cfg g op
    unfold Gen.runOps
    rcases hq : g.apply op with ⟨g', ev⟩
    rw [hq] at h1
    simp only [] at h1
    cases ev with
    | none => simp only []; rw [ih g', h1]
    | some e =>
      cases e with
      | crash s => simp only []; exact h1
      | row r c => simp only []; rw [ih g', h1]

/-- `reset` of any state is the freshly constructed generator of the same configuration. -/
theorem Gen.reset_eq_init (g : Gen) : g.reset = Gen.init g.kind g.customStart g.startRow := rfl

end Wheatley
