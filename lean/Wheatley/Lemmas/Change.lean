/-
The change a place notation denotes, written position by position (no recursion over the row), and the
proof that `permute` computes exactly it for parity-consistent place sets.
-/
import Wheatley.Lemmas.Places
namespace Wheatley

/-- First place that the swap loop looks at: 2 when the lead is implied, else 1. -/
def firstPlace (P : Places) : Nat := if implicitLead P then 2 else 1

/-- **The denotation of one change.**  The bell found in (0-based) position `j` after the change `P` on
`stage` bells has been applied to `row`:

* a place below the first (the implied lead), above the stage (a cover), or named in the notation: the bell
  that was there;
* an unnamed place with an even number of unnamed places before it: the bell from the place above (its
  partner) — or the bell itself when there is no place above to pair with (the implied external place);
* an unnamed place with an odd number of unnamed places before it: the bell from the place below. -/
def Spec.at (stage : Nat) (P : Places) (row : Row) (j : Nat) : Option Nat :=
  if row.length ≤ j then none
  else if j + 1 < firstPlace P ∨ stage < j + 1 ∨ (j + 1) ∈ P then row[j]?
  else if unmade P (firstPlace P) (j + 1) % 2 = 0 then
    (if j + 1 < stage ∧ j + 1 < row.length then row[j + 1]? else row[j]?)
  else row[j - 1]?

/-- The whole row after the change. -/
def Spec.apply (stage : Nat) (row : Row) (P : Places) : Row :=
  (List.range row.length).filterMap (Spec.at stage P row)

/-- `Consistent`, decided (the driver reports it with every `permute` reply). -/
def consistentB (stage : Nat) (P : Places) (i : Nat) : Bool :=
  P.all (fun q => !(decide (i ≤ q) && decide (q ≤ stage)) || unmade P i q % 2 == 0)

theorem consistentB_iff (stage : Nat) (P : Places) (i : Nat) :
    consistentB stage P i = true ↔ Consistent stage P i := by
  unfold consistentB Consistent
  simp only [List.all_eq_true, Bool.or_eq_true, Bool.not_eq_true', Bool.and_eq_false_iff, decide_eq_false_iff_not,
    beq_iff_eq]
  constructor
  · intro h q hq h1 h2
    rcases h q hq with h | h
    · omega
    · exact h
  · intro h q hq
    by_cases h1 : i ≤ q
    · by_cases h2 : q ≤ stage
      · exact Or.inr (h q hq h1 h2)
      · exact Or.inl (Or.inr h2)
    · exact Or.inl (Or.inl h1)

theorem filterMap_range_getElem? {α} (l : List α) :
    (List.range l.length).filterMap (fun j => l[j]?) = l := by
  induction l with
  | nil => rfl
  | cons a l ih =>
    simp only [List.length_cons, List.range_succ_eq_map, List.filterMap_cons, List.getElem?_cons_zero,
      List.filterMap_map]
    congr 1

theorem unmade_snoc (P : Places) (i q : Nat) (h : i ≤ q) :
    unmade P i (q + 1) = unmade P i q + (if q ∈ P then 0 else 1) := by
  unfold unmade
  have hq : q + 1 - i = (q - i) + 1 := by omega
  rw [hq, List.range_succ, List.filter_append, List.length_append]
  congr 1
  have e : i + (q - i) = q := by omega
  by_cases hc : q ∈ P
  · have hc' : P.contains q = true := by simpa using hc
    simp [e, hc]
  · have hc' : P.contains q = false := by simpa using hc
    simp [e, hc]

/-- An unnamed place with nobody above it to pair with (it is the last place of the stage, or the last
bell of the row) stays. -/
theorem permuteAux_unpaired_stays (stage : Nat) (P : Places) :
    ∀ (i : Nat) (l : Row), Consistent stage P i →
      ∀ p, p ∉ P → i ≤ p → (p = stage ∨ p - i + 1 = l.length) → unmade P i p % 2 = 0 →
        (permuteAux stage P i l)[p - i]? = l[p - i]? := by
  intro i l
  fun_induction permuteAux stage P i l with
  | case1 i a b rest h1 h2 ih =>
    intro hc p hp hip hlast hev
    have hpi : p ≠ i := by intro e; subst e; exact hp h2
    have hlt : i + 1 ≤ p := by omega
    have hc' : Consistent stage P (i + 1) := by
      intro q hq hiq hqs
      have := hc q hq (by omega) hqs
      rw [unmade_step P i q (by omega)] at this
      simpa [h2] using this
    have hev' : unmade P (i + 1) p % 2 = 0 := by
      rw [unmade_step P i p (by omega)] at hev
      simpa [h2] using hev
    have := ih hc' p hp hlt (by simp at hlast ⊢; omega) hev'
    have e : p - i = (p - (i + 1)) + 1 := by omega
    rw [e]
    simpa using this
  | case2 i a b rest h1 h2 ih =>
    intro hc p hp hip hlast hev
    have hn1 : (i + 1) ∉ P := by
      intro hin
      have := hc (i + 1) hin (by omega) (by omega)
      rw [unmade_step P i (i + 1) (by omega), unmade_self] at this
      simp [h2] at this
    have hpi : p ≠ i := by
      intro e; subst e
      simp at hlast; omega
    have hp1 : p ≠ i + 1 := by
      intro e; subst e
      rw [unmade_step P i (i + 1) (by omega), unmade_self] at hev
      simp [h2] at hev
    have hlt : i + 2 ≤ p := by omega
    have hc' : Consistent stage P (i + 2) := by
      intro q hq hiq hqs
      have := hc q hq (by omega) hqs
      rw [unmade_step P i q (by omega), unmade_step P (i + 1) q (by omega)] at this
      simp only [h2, hn1, if_false] at this
      have e2 : i + 1 + 1 = i + 2 := rfl
      rw [e2] at this
      omega
    have hev' : unmade P (i + 2) p % 2 = 0 := by
      rw [unmade_step P i p (by omega), unmade_step P (i + 1) p (by omega)] at hev
      simp only [h2, hn1, if_false] at hev
      have e2 : i + 1 + 1 = i + 2 := rfl
      rw [e2] at hev
      omega
    have := ih hc' p hp hlt (by simp at hlast ⊢; omega) hev'
    have e : p - i = (p - (i + 2)) + 2 := by omega
    rw [e]
    simpa using this
  | case3 i a b rest h1 => intro _ p _ _ _ _; rfl
  | case4 i l h => intro _ p _ _ _ _; rfl

theorem permute_unpaired_stays (stage : Nat) (row : Row) (P : Places)
    (hc : Consistent stage P (firstPlace P)) (p : Nat) (hp : p ∉ P) (h1 : firstPlace P ≤ p)
    (hlast : p = stage ∨ p = row.length) (hev : unmade P (firstPlace P) p % 2 = 0) :
    (permute stage row P)[p - 1]? = row[p - 1]? := by
  unfold permute
  unfold firstPlace at hc h1 hev
  by_cases hl : implicitLead P = true
  · simp only [hl, if_true] at hc h1 hev ⊢
    cases row with
    | nil => rfl
    | cons a rest =>
      obtain ⟨k, rfl⟩ : ∃ k, p = k + 2 := ⟨p - 2, by omega⟩
      have := permuteAux_unpaired_stays stage P 2 rest hc (k + 2) hp h1
        (by simp at hlast ⊢; omega) hev
      simp only [Nat.add_sub_cancel] at this
      simp only [show k + 2 - 1 = k + 1 from rfl, List.getElem?_cons_succ]
      exact this
  · have hl' : implicitLead P = false := by simpa using hl
    simp only [hl', Bool.false_eq_true, if_false] at hc h1 hev ⊢
    obtain ⟨k, rfl⟩ : ∃ k, p = k + 1 := ⟨p - 1, by omega⟩
    have := permuteAux_unpaired_stays stage P 1 row hc (k + 1) hp h1 (by omega) hev
    simpa using this

/-- Position by position, `permute` is the denotation. -/
theorem permute_at (stage : Nat) (row : Row) (P : Places) (hc : Consistent stage P (firstPlace P))
    (j : Nat) : (permute stage row P)[j]? = Spec.at stage P row j := by
  unfold Spec.at
  by_cases hj : row.length ≤ j
  · simp only [hj, if_true]
    exact List.getElem?_eq_none (by rw [permute_length]; exact hj)
  simp only [hj, if_false]
  have hjl : j < row.length := by omega
  by_cases hfix : j + 1 < firstPlace P ∨ stage < j + 1 ∨ (j + 1) ∈ P
  · simp only [hfix, if_true]
    rcases hfix with h | h | h
    · -- the implied lead
      have hf : implicitLead P = true ∧ j = 0 := by
        unfold firstPlace at h
        by_cases hl : implicitLead P = true
        · simp [hl] at h; exact ⟨hl, by omega⟩
        · simp [hl] at h
      obtain ⟨hl, rfl⟩ := hf
      unfold permute
      simp only [hl, if_true]
      cases row with
      | nil => rfl
      | cons a rest => rfl
    · -- a cover bell
      have hd := permute_drop stage row P
      have : ((permute stage row P).drop stage)[j - stage]? = (row.drop stage)[j - stage]? := by rw [hd]
      rw [List.getElem?_drop, List.getElem?_drop] at this
      have e : stage + (j - stage) = j := by omega
      rwa [e] at this
    · -- a named place
      by_cases hs : stage < j + 1
      · have hd := permute_drop stage row P
        have : ((permute stage row P).drop stage)[j - stage]? = (row.drop stage)[j - stage]? := by rw [hd]
        rw [List.getElem?_drop, List.getElem?_drop] at this
        have e : stage + (j - stage) = j := by omega
        rwa [e] at this
      · have := permute_makes_place stage row P hc (j + 1) h (by omega) (by omega)
        simpa using this
  · simp only [hfix, if_false]
    have hf1 : firstPlace P ≤ j + 1 := by omega
    have hs : j + 1 ≤ stage := by omega
    have hnp : (j + 1) ∉ P := fun h => hfix (Or.inr (Or.inr h))
    by_cases hev : unmade P (firstPlace P) (j + 1) % 2 = 0
    · simp only [hev, if_true]
      by_cases hpair : j + 1 < stage ∧ j + 1 < row.length
      · simp only [hpair, and_self, if_true]
        have := (permute_swaps_unnamed stage row P hc (j + 1) hnp hf1 hpair.1 hpair.2 hev).1
        simpa using this
      · simp only [hpair, if_false]
        have := permute_unpaired_stays stage row P hc (j + 1) hnp hf1 (by omega) hev
        simpa using this
    · simp only [hev, if_false]
      -- the place below is unnamed, has an even count before it, and is this place's partner
      have hne : j + 1 ≠ firstPlace P := by
        intro e
        rw [e, unmade_self] at hev
        exact hev rfl
      have hj0 : 0 < j := by
        have : 1 ≤ firstPlace P := by unfold firstPlace; split <;> omega
        omega
      obtain ⟨q, rfl⟩ : ∃ q, j = q + 1 := ⟨j - 1, by omega⟩
      have hfq : firstPlace P ≤ q + 1 := by omega
      have hsn := unmade_snoc P (firstPlace P) (q + 1) hfq
      have hq : (q + 1) ∉ P := by
        intro hin
        have h0 := hc (q + 1) hin hfq (by omega)
        rw [hsn] at hev
        simp only [hin, if_true, Nat.add_zero] at hev
        exact hev h0
      have hevq : unmade P (firstPlace P) (q + 1) % 2 = 0 := by
        rw [hsn] at hev
        simp only [hq, if_false] at hev
        omega
      have := (permute_swaps_unnamed stage row P hc (q + 1) hq hfq (by omega) (by omega) hevq).2
      simpa using this

/-- **`permute` is the change the notation denotes**, as one equation. -/
theorem permute_eq_spec (stage : Nat) (row : Row) (P : Places) (hc : Consistent stage P (firstPlace P)) :
    permute stage row P = Spec.apply stage row P := by
  unfold Spec.apply
  have h : (fun j => Spec.at stage P row j) = fun j => (permute stage row P)[j]? := by
    funext j; exact (permute_at stage row P hc j).symm
  rw [show Spec.at stage P row = fun j => Spec.at stage P row j from rfl, h,
    ← permute_length stage row P, filterMap_range_getElem?]

end Wheatley
