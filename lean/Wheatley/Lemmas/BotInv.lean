/-
What `start_next_row` / `generate_next_row` leave alone: the generator's kind (hence its start
stroke), the opening row and rounds, and where they put `place` and `row`.
-/
import Wheatley.Lemmas.Ctl
import Wheatley.Lemmas.Gen
namespace Wheatley

theorem startHand_of_kind (g g' : Gen) (h : g'.kind = g.kind) : g'.startHand = g.startHand := by
  unfold Gen.startHand; rw [h]

theorem snrPrep_fields (b : Bot) :
    b.snrPrep.gen = b.gen ∧ b.snrPrep.openingRow = b.openingRow ∧ b.snrPrep.rounds = b.rounds ∧
    b.snrPrep.place = 0 ∧ b.snrPrep.tower = b.tower ∧ b.snrPrep.row = b.row := by
  unfold Bot.snrPrep; split <;> exact ⟨rfl, rfl, rfl, rfl, rfl, rfl⟩

theorem generateNextRow_fields (b : Bot) :
    (b.generateNextRow).1.gen.kind = b.gen.kind ∧ (b.generateNextRow).1.openingRow = b.openingRow ∧
    (b.generateNextRow).1.rounds = b.rounds ∧ (b.generateNextRow).1.place = b.place ∧
    (b.generateNextRow).1.tower = b.tower := by
  unfold Bot.generateNextRow
  split
  · exact ⟨rfl, rfl, rfl, rfl, rfl⟩
  · split
    · exact ⟨rfl, rfl, rfl, rfl, rfl⟩
    · split
      · rename_i g' r calls hn
        have := Gen.next_cfg b.gen b.hand g' r calls hn
        simp only [Gen.cfg, Prod.mk.injEq] at this
        exact ⟨this.1, rfl, rfl, rfl, rfl⟩
      · exact ⟨rfl, rfl, rfl, rfl, rfl⟩
      · exact ⟨rfl, rfl, rfl, rfl, rfl⟩

/-- The row chosen by `generate_next_row` is never empty when opening row and rounds are not
(the other outcome is an exception of the generator, reported in the outputs). -/
theorem generateNextRow_row_ne (b : Bot) (h1 : b.openingRow ≠ []) (h2 : b.rounds ≠ []) :
    (b.generateNextRow).1.row ≠ [] ∨ (∃ e, Out.crash e ∈ (b.generateNextRow).2) := by
  unfold Bot.generateNextRow
  split
  · left; exact h1
  · split
    · left; exact h2
    · split
      · left
        simp only []
        have hpos : 0 < b.openingRow.length := List.length_pos_iff.mpr h1
        split
        · rename_i r hlt
          intro h
          obtain ⟨hr, hd⟩ := List.append_eq_nil_iff.mp h
          rw [hr] at hd
          exact h1 (by simpa using hd)
        · rename_i hge
          intro h
          rw [h] at hge
          exact hge (by simpa using hpos)
      · right; exact ⟨"NullRowGenError", by simp⟩
      · right; exact ⟨"KeyError", by simp⟩

end Wheatley
