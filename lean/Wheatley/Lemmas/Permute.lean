/-
Helper lemmas about `permute` (the model of `RowGenerator.permute`).  Core Lean only.
-/
import Wheatley.Model.Row
namespace Wheatley

theorem permuteAux_perm (stage : Nat) (places : Places) :
    ∀ (i : Nat) (l : Row), (permuteAux stage places i l).Perm l := by
  intro i l
  fun_induction permuteAux stage places i l with
  | case1 i a b rest h1 h2 ih => exact List.Perm.cons a ih
  | case2 i a b rest h1 h2 ih => exact (List.Perm.cons b (List.Perm.cons a ih)).trans (List.Perm.swap a b rest)
  | case3 i a b rest h1 => exact List.Perm.refl _
  | case4 i l h => exact List.Perm.refl _

theorem permute_perm (stage : Nat) (row : Row) (places : Places) :
    (permute stage row places).Perm row := by
  unfold permute
  split
  · cases row with
    | nil => exact List.Perm.refl _
    | cons a rest => exact List.Perm.cons a (permuteAux_perm stage places 2 rest)
  · exact permuteAux_perm stage places 1 row

theorem permute_length (stage : Nat) (row : Row) (places : Places) :
    (permute stage row places).length = row.length :=
  (permute_perm stage row places).length_eq

theorem permuteAux_involutive (stage : Nat) (places : Places) :
    ∀ (i : Nat) (l : Row), permuteAux stage places i (permuteAux stage places i l) = l := by
  intro i l
  fun_induction permuteAux stage places i l with
  | case1 i a b rest h1 h2 ih =>
    -- the head stays; the recursive result on (b :: rest) has the same length ≥ 1
    generalize hq : permuteAux stage places (i + 1) (b :: rest) = q at ih
    cases q with
    | nil => simp [permuteAux] at ih
    | cons c q' =>
      rw [permuteAux]
      simp only [h1, h2, if_true]
      rw [ih]
  | case2 i a b rest h1 h2 ih =>
    rw [permuteAux]
    simp only [h1, h2, if_true, if_false]
    rw [ih]
  | case3 i a b rest h1 =>
    rw [permuteAux]; simp [h1]
  | case4 i l h =>
    unfold permuteAux
    split
    · exact (h _ _ _ rfl).elim
    · rfl

theorem permute_involutive (stage : Nat) (row : Row) (places : Places) :
    permute stage (permute stage row places) places = row := by
  unfold permute
  split
  · cases row with
    | nil => rfl
    | cons a rest => simp only []; rw [permuteAux_involutive]
  · exact permuteAux_involutive stage places 1 row

/-- Places above the stage are never touched: the suffix from place `stage + 1` on is unchanged. -/
theorem permuteAux_drop (stage : Nat) (places : Places) :
    ∀ (i : Nat) (l : Row), (permuteAux stage places i l).drop (stage + 1 - i) = l.drop (stage + 1 - i) := by
  intro i l
  fun_induction permuteAux stage places i l with
  | case1 i a b rest h1 h2 ih =>
    have : stage + 1 - i = (stage + 1 - (i + 1)) + 1 := by omega
    rw [this, List.drop_succ_cons, List.drop_succ_cons, ih]
  | case2 i a b rest h1 h2 ih =>
    have : stage + 1 - i = (stage + 1 - (i + 2)) + 2 := by omega
    rw [this]
    simp only [List.drop_succ_cons]
    exact ih
  | case3 i a b rest h1 => rfl
  | case4 i l h => rfl

theorem permute_drop (stage : Nat) (row : Row) (places : Places) :
    (permute stage row places).drop stage = row.drop stage := by
  unfold permute
  split
  · cases row with
    | nil => rfl
    | cons a rest =>
      cases stage with
      | zero => simp; cases rest with
        | nil => simp [permuteAux]
        | cons b r => cases r <;> simp [permuteAux]
      | succ n =>
        simp only [List.drop_succ_cons]
        have := permuteAux_drop (n + 1) places 2 rest
        simpa using this
  · simpa using permuteAux_drop stage places 1 row

/-- Every position of the result holds the bell that was there, or the one from an adjacent
position: no bell moves more than one place. -/
theorem permuteAux_adjacent (stage : Nat) (places : Places) :
    ∀ (i : Nat) (l : Row) (k : Nat),
      (permuteAux stage places i l)[k]? = l[k]? ∨ (permuteAux stage places i l)[k]? = l[k+1]? ∨
      (0 < k ∧ (permuteAux stage places i l)[k]? = l[k-1]?) := by
  intro i l
  fun_induction permuteAux stage places i l with
  | case1 i a b rest h1 h2 ih =>
    intro k
    cases k with
    | zero => left; rfl
    | succ k' =>
      rcases ih k' with h | h | ⟨hk, h⟩
      · left; simpa using h
      · right; left; simpa using h
      · right; right
        refine ⟨by omega, ?_⟩
        obtain ⟨k'', rfl⟩ : ∃ k'', k' = k'' + 1 := ⟨k' - 1, by omega⟩
        simpa using h
  | case2 i a b rest h1 h2 ih =>
    intro k
    match k with
    | 0 => right; left; rfl
    | 1 => right; right; exact ⟨by omega, rfl⟩
    | k' + 2 =>
      rcases ih k' with h | h | ⟨hk, h⟩
      · left; simpa using h
      · right; left; simpa using h
      · right; right
        refine ⟨by omega, ?_⟩
        obtain ⟨k'', rfl⟩ : ∃ k'', k' = k'' + 1 := ⟨k' - 1, by omega⟩
        simpa using h
  | case3 i a b rest h1 => intro k; left; rfl
  | case4 i l h => intro k; left; rfl

theorem permute_adjacent (stage : Nat) (row : Row) (places : Places) (k : Nat) :
    (permute stage row places)[k]? = row[k]? ∨ (permute stage row places)[k]? = row[k+1]? ∨
    (0 < k ∧ (permute stage row places)[k]? = row[k-1]?) := by
  unfold permute
  split
  · cases row with
    | nil => left; rfl
    | cons a rest =>
      cases k with
      | zero => left; rfl
      | succ k' =>
        rcases permuteAux_adjacent stage places 2 rest k' with h | h | ⟨hk, h⟩
        · left; simpa using h
        · right; left; simpa using h
        · right; right
          refine ⟨by omega, ?_⟩
          obtain ⟨k'', rfl⟩ : ∃ k'', k' = k'' + 1 := ⟨k' - 1, by omega⟩
          simpa using h
  · exact permuteAux_adjacent stage places 1 row k

end Wheatley
