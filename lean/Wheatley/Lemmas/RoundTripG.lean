import Wheatley.Lemmas.RoundTripF
namespace Wheatley.RoundTrip

/-! ### Whole notations: blocks, prefixes, commas -/

/-- A block of a notation: an optional `&` / `+` in front, and at least one change. -/
structure Block where
  pre : Option Char
  first : Tok
  rest : List Tok

def Block.toks (b : Block) : List Tok := b.first :: b.rest

def Block.WF (b : Block) : Prop := (b.pre = none ∨ b.pre = some '&' ∨ b.pre = some '+') ∧ ∀ u ∈ b.toks, u.WF

def Block.text (b : Block) : List Char := b.pre.toList ++ render false b.toks

def Block.changes (b : Block) : List Places := b.toks.map Tok.denote

/-- The conventions: in a comma-joined notation every block is palindromic unless marked `+`; a notation
without commas is palindromic only when marked `&`. -/
def Block.denote (multi : Bool) (b : Block) : List Places :=
  let sym := if multi then b.pre != some '+' else b.pre == some '&'
  if sym then b.changes ++ b.changes.dropLast.reverse else b.changes

/-- The notation as written: the blocks joined by commas. -/
def textOf (bs : List Block) : List Char := joinWith ',' (bs.map Block.text)

/-- … and what it stands for. -/
def denoteAll (bs : List Block) : List Places :=
  (bs.map (Block.denote (decide (1 < bs.length)))).flatten

theorem render_chars (l : List Tok) (h : ∀ u ∈ l, u.WF) (prev : Bool) :
    ∀ c ∈ render prev l, c ≠ ',' ∧ c ≠ '&' ∧ c ≠ '+' := by
  induction l generalizing prev with
  | nil => intro c hc; simp [render] at hc
  | cons t r ih =>
    have hr : ∀ u ∈ r, u.WF := fun u hu => h u (by simp [hu])
    intro c hc
    cases t with
    | cross sym b a =>
      have hs : Wheatley.isCross sym = true := h (.cross sym b a) (by simp)
      simp only [render, List.mem_append, List.mem_cons, dots, List.mem_replicate] at hc
      rcases hc with ⟨_, rfl⟩ | rfl | ⟨_, rfl⟩ | hc
      · decide
      · simp only [Wheatley.isCross, Bool.or_eq_true, decide_eq_true_eq] at hs
        rcases hs with rfl | rfl <;> decide
      · decide
      · exact ih hr false c hc
    | pl ps =>
      obtain ⟨_, hb⟩ := h (.pl ps) (by simp)
      simp only [render, List.mem_append, List.mem_map] at hc
      rcases hc with hc | ⟨p, hp, rfl⟩ | hc
      · cases prev <;> simp at hc
        subst hc; decide
      · have hk := bell_facts p (by rw [List.mem_range'_1]; have := hb p hp; omega)
        have hx : ∀ q ∈ List.range' 1 16, bellChar q ≠ '&' ∧ bellChar q ≠ '+' := by decide
        have := hx p (by rw [List.mem_range'_1]; have := hb p hp; omega)
        exact ⟨hk.2.2.2.1, this.1, this.2⟩
      · exact ih hr true c hc

theorem text_nocomma (b : Block) (h : b.WF) : ',' ∉ b.text := by
  intro hm
  simp only [Block.text, List.mem_append] at hm
  rcases hm with hm | hm
  · rcases h.1 with hp | hp | hp <;> simp [hp] at hm
  · exact (render_chars _ h.2 false ',' hm).1 rfl

theorem startsWith_text (b : Block) (h : b.WF) (c : Char) (hc : c = '&' ∨ c = '+') :
    startsWith c b.text = (b.pre == some c) := by
  rcases h.1 with hp | hp | hp
  · -- no prefix: the first character belongs to the first change
    simp only [Block.text, hp, Option.toList_none, List.nil_append]
    have hne : ∀ d ∈ render false b.toks, d ≠ c := by
      intro d hd
      have := render_chars _ h.2 false d hd
      rcases hc with rfl | rfl
      · exact this.2.1
      · exact this.2.2
    cases hr : render false b.toks with
    | nil => simp [startsWith]
    | cons d ds =>
      have : d ≠ c := hne d (by rw [hr]; simp)
      simp [startsWith, this]
  · rcases hc with rfl | rfl <;> simp [Block.text, hp, startsWith]
  · rcases hc with rfl | rfl <;> simp [Block.text, hp, startsWith]

/-- One written block converts to its changes, doubled back on themselves when palindromic. -/
theorem convertBlock_text (b : Block) (h : b.WF) (multi : Bool) :
    convertBlock b.text multi = some (b.denote multi) := by
  have hpre : ∀ c ∈ b.pre.toList, Plain c ∧ isStrip c = true := by
    intro c hc
    rcases h.1 with hp | hp | hp <;> simp [hp] at hc <;> subst hc <;> exact ⟨⟨by decide, by decide⟩, by decide⟩
  unfold convertBlock
  have hp : pnPieces b.text = b.toks.map Tok.piece := pnPieces_render _ b.first b.rest hpre h.2
  rw [hp, mapM_pieces _ h.2]
  simp only [startsWith_text b h '+' (Or.inr rfl), startsWith_text b h '&' (Or.inl rfl)]
  unfold Block.denote Block.changes
  cases multi <;> simp

end Wheatley.RoundTrip
