/-
Frame lemmas for the timed world: what the outputs of an ordinary turn (a strike, calls, the
expectations of the next row, a reported exception) leave alone when the world interprets them.
-/
import Wheatley.Model.World
import Wheatley.Lemmas.Outs
namespace Wheatley

variable {K : Type} [Num K]

theorem waitR_expect_delay (x : WaitR K) (bell : Nat) (hand : Bool) : (x.expect bell hand).delay = x.delay := by
  unfold WaitR.expect WaitR.setExpected WaitR.setEarly
  cases hand <;> cases x.currentHand <;> simp <;> split <;> rfl

/-- `w'` differs from `w` at most in the observation log and in the rhythm's expectations. -/
structure Frame (w w' : World K) : Prop where
  start : w'.rh.reg.start = w.rh.reg.start
  interval : w'.rh.reg.interval = w.rh.reg.interval
  stage : w'.rh.reg.stage = w.rh.reg.stage
  gap : w'.rh.reg.gap = w.rh.reg.gap
  delay : w'.delay = w.delay
  now : w'.now = w.now
  stub : w'.rh.stub = w.rh.stub
  bot : w'.bot = w.bot
  waitSome : w'.rh.wait.isSome = w.rh.wait.isSome
  crashed : w'.crashed = w.crashed
  exited : w'.exited = w.exited
  tape : w'.tape = w.tape
  lastActivity : w'.lastActivity = w.lastActivity

theorem Frame.refl (w : World K) : Frame w w :=
  ⟨rfl, rfl, rfl, rfl, rfl, rfl, rfl, rfl, rfl, rfl, rfl, rfl, rfl⟩

theorem Frame.trans {a b c : World K} (h1 : Frame a b) (h2 : Frame b c) : Frame a c :=
  ⟨h2.start.trans h1.start, h2.interval.trans h1.interval, h2.stage.trans h1.stage, h2.gap.trans h1.gap,
   h2.delay.trans h1.delay, h2.now.trans h1.now, h2.stub.trans h1.stub, h2.bot.trans h1.bot,
   h2.waitSome.trans h1.waitSome, h2.crashed.trans h1.crashed, h2.exited.trans h1.exited,
   h2.tape.trans h1.tape, h2.lastActivity.trans h1.lastActivity⟩

/-- The outputs a turn can produce (`tickEnd_kinds`). -/
def Out.turnKind (o : Out) : Bool := o.snrKind || o.isRing

theorem applyOut_turnKind (wt : K → K) (ct : K) (w : World K) (o : Out) (h : o.turnKind = true) :
    Frame w (World.applyOut wt ct w o) ∧
    (World.applyOut wt ct w o).obs = { t := w.now, out := o } :: w.obs := by
  unfold World.applyOut
  cases o <;> simp [Out.turnKind, Out.snrKind, Out.isRing] at h
  · simp only []
    split <;> exact ⟨⟨rfl, rfl, rfl, rfl, rfl, rfl, rfl, rfl, rfl, rfl, rfl, rfl, rfl⟩, rfl⟩
  · simp only []
    split <;> exact ⟨⟨rfl, rfl, rfl, rfl, rfl, rfl, rfl, rfl, rfl, rfl, rfl, rfl, rfl⟩, rfl⟩
  · simp only []
    split
    · exact ⟨⟨rfl, rfl, rfl, rfl, rfl, rfl, rfl, rfl, rfl, rfl, rfl, rfl, rfl⟩, rfl⟩
    · refine ⟨⟨rfl, rfl, rfl, rfl, ?_, rfl, rfl, rfl, ?_, rfl, rfl, rfl, rfl⟩, rfl⟩
      · unfold World.delay
        cases hw : w.rh.wait with
        | none => simp
        | some x => simp [waitR_expect_delay]
      · simp
  · simp only []
    split <;> exact ⟨⟨rfl, rfl, rfl, rfl, rfl, rfl, rfl, rfl, rfl, rfl, rfl, rfl, rfl⟩, rfl⟩

theorem foldl_applyOut_turnKind (wt : K → K) (ct : K) (outs : List Out) :
    ∀ (w : World K), (∀ o ∈ outs, o.turnKind = true) →
      Frame w (outs.foldl (World.applyOut wt ct) w) ∧
      (outs.foldl (World.applyOut wt ct) w).obs =
        (outs.reverse.map (fun o => ({ t := w.now, out := o } : Obs K))) ++ w.obs := by
  induction outs with
  | nil => intro w _; exact ⟨Frame.refl w, rfl⟩
  | cons o rest ih =>
    intro w h
    obtain ⟨f1, o1⟩ := applyOut_turnKind wt ct w o (h o (by simp))
    obtain ⟨f2, o2⟩ := ih (World.applyOut wt ct w o) (fun o' ho' => h o' (by simp [ho']))
    simp only [List.foldl_cons]
    refine ⟨f1.trans f2, ?_⟩
    rw [o2, o1, f1.now]
    simp

theorem tickEnd_turnKind (b : Bot) (bell : Nat) (uc : Bool) : ∀ o ∈ (b.tickEnd bell uc).2, o.turnKind = true := by
  intro o ho
  rcases tickEnd_kinds b bell uc o ho with h | h <;> simp [Out.turnKind, h]

end Wheatley
