/-
Algebra of the weighted least-squares line `regress` over an arbitrary linearly ordered field.
-/
import Wheatley.Lemmas.NumField
namespace Wheatley

variable {K : Type} [Field K] [LinearOrder K] [IsStrictOrderedRing K]

/-- The five sums, by structural recursion (the model computes them with `foldl`). -/
def sW : List (K × K × K) → K
  | [] => 0
  | (_, _, w) :: ds => w + sW ds
def sWB : List (K × K × K) → K
  | [] => 0
  | (b, _, w) :: ds => w * b + sWB ds
def sWBB : List (K × K × K) → K
  | [] => 0
  | (b, _, w) :: ds => w * b * b + sWBB ds
def sWT : List (K × K × K) → K
  | [] => 0
  | (_, t, w) :: ds => w * t + sWT ds
def sWBT : List (K × K × K) → K
  | [] => 0
  | (b, t, w) :: ds => w * b * t + sWBT ds

theorem foldl_acc (f : K × K × K → K) (ds : List (K × K × K)) (z : K) :
    ds.foldl (fun a d => a + f d) z = z + (ds.map f).sum := by
  induction ds generalizing z with
  | nil => simp
  | cons d ds ih => simp [List.foldl_cons, ih, add_assoc]

theorem sW_eq (ds : List (K × K × K)) : sW ds = (ds.map (fun d => d.2.2)).sum := by
  induction ds with
  | nil => rfl
  | cons d ds ih => obtain ⟨b, t, w⟩ := d; simp [sW, ih]
theorem sWB_eq (ds : List (K × K × K)) : sWB ds = (ds.map (fun d => d.2.2 * d.1)).sum := by
  induction ds with
  | nil => rfl
  | cons d ds ih => obtain ⟨b, t, w⟩ := d; simp [sWB, ih]
theorem sWBB_eq (ds : List (K × K × K)) : sWBB ds = (ds.map (fun d => d.2.2 * d.1 * d.1)).sum := by
  induction ds with
  | nil => rfl
  | cons d ds ih => obtain ⟨b, t, w⟩ := d; simp [sWBB, ih]
theorem sWT_eq (ds : List (K × K × K)) : sWT ds = (ds.map (fun d => d.2.2 * d.2.1)).sum := by
  induction ds with
  | nil => rfl
  | cons d ds ih => obtain ⟨b, t, w⟩ := d; simp [sWT, ih]
theorem sWBT_eq (ds : List (K × K × K)) : sWBT ds = (ds.map (fun d => d.2.2 * d.1 * d.2.1)).sum := by
  induction ds with
  | nil => rfl
  | cons d ds ih => obtain ⟨b, t, w⟩ := d; simp [sWBT, ih]

/-- The determinant of the normal equations. -/
def det (ds : List (K × K × K)) : K := sW ds * sWBB ds - sWB ds * sWB ds

/-- `regress` in terms of the recursive sums. -/
theorem regress_eq (ds : List (K × K × K)) :
    regress ds = ((sWBB ds * sWT ds - sWB ds * sWBT ds) / det ds,
                  (sW ds * sWBT ds - sWB ds * sWT ds) / det ds) := by
  unfold regress det
  have h0 : ds.foldl (fun a (x : K × K × K) => a + x.2.2) (Num.ofNat 0) = sW ds := by
    rw [foldl_acc (fun d => d.2.2)]; simp [sW_eq]
  have h1 : ds.foldl (fun a (x : K × K × K) => a + x.2.2 * x.1) (Num.ofNat 0) = sWB ds := by
    rw [foldl_acc (fun d => d.2.2 * d.1)]; simp [sWB_eq]
  have h2 : ds.foldl (fun a (x : K × K × K) => a + x.2.2 * x.1 * x.1) (Num.ofNat 0) = sWBB ds := by
    rw [foldl_acc (fun d => d.2.2 * d.1 * d.1)]; simp [sWBB_eq]
  have h3 : ds.foldl (fun a (x : K × K × K) => a + x.2.2 * x.2.1) (Num.ofNat 0) = sWT ds := by
    rw [foldl_acc (fun d => d.2.2 * d.2.1)]; simp [sWT_eq]
  have h4 : ds.foldl (fun a (x : K × K × K) => a + x.2.2 * x.1 * x.2.1) (Num.ofNat 0) = sWBT ds := by
    rw [foldl_acc (fun d => d.2.2 * d.1 * d.2.1)]; simp [sWBT_eq]
  simp only [] at *
  rw [h0, h1, h2, h3, h4]

/-- All data points lie on the line `t = a + c·b`. -/
def OnLine (a c : K) (ds : List (K × K × K)) : Prop := ∀ d ∈ ds, d.2.1 = a + c * d.1

theorem sums_on_line (a c : K) (ds : List (K × K × K)) (h : OnLine a c ds) :
    sWT ds = a * sW ds + c * sWB ds ∧ sWBT ds = a * sWB ds + c * sWBB ds := by
  induction ds with
  | nil => simp [sWT, sW, sWB, sWBT, sWBB]
  | cons d ds ih =>
    obtain ⟨b, t, w⟩ := d
    have ht : t = a + c * b := h (b, t, w) (by simp)
    obtain ⟨i1, i2⟩ := ih (fun d hd => h d (by simp [hd]))
    simp only [sWT, sW, sWB, sWBT, sWBB, i1, i2, ht]
    constructor <;> ring

/-- **Exact recovery**: from data on a line, with a non-singular system, weighted least squares
returns that line — whatever the weights. -/
theorem regress_recovers (a c : K) (ds : List (K × K × K)) (h : OnLine a c ds) (hd : det ds ≠ 0) :
    regress ds = (a, c) := by
  rw [regress_eq]
  obtain ⟨h1, h2⟩ := sums_on_line a c ds h
  rw [h1, h2]
  have hd' := hd
  unfold det at hd' ⊢
  ext
  · simp only []
    rw [div_eq_iff hd']; ring
  · simp only []
    rw [div_eq_iff hd']; ring

/-- `Q ds b = Σ wⱼ (b − bⱼ)²` -/
def Q (ds : List (K × K × K)) (b : K) : K := sW ds * b * b - 2 * sWB ds * b + sWBB ds

theorem det_cons (b t w : K) (ds : List (K × K × K)) :
    det ((b, t, w) :: ds) = det ds + w * Q ds b := by
  simp only [det, Q, sW, sWB, sWBB]; ring

theorem Q_cons (b' t' w' : K) (ds : List (K × K × K)) (b : K) :
    Q ((b', t', w') :: ds) b = w' * (b - b') * (b - b') + Q ds b := by
  simp only [Q, sW, sWB, sWBB]; ring

def PosWeights (ds : List (K × K × K)) : Prop := ∀ d ∈ ds, 0 < d.2.2

theorem Q_nonneg (ds : List (K × K × K)) (hw : PosWeights ds) (b : K) : 0 ≤ Q ds b := by
  induction ds with
  | nil => simp [Q, sW, sWB, sWBB]
  | cons d ds ih =>
    obtain ⟨b', t', w'⟩ := d
    rw [Q_cons]
    have h1 : 0 < w' := hw (b', t', w') (by simp)
    have h2 := ih (fun d hd => hw d (by simp [hd]))
    have : 0 ≤ w' * (b - b') * (b - b') := by
      have := mul_self_nonneg (b - b')
      nlinarith
    linarith

theorem Q_pos (ds : List (K × K × K)) (hw : PosWeights ds) (b : K) (h : ∃ d ∈ ds, d.1 ≠ b) : 0 < Q ds b := by
  induction ds with
  | nil => obtain ⟨d, hd, _⟩ := h; simp at hd
  | cons d ds ih =>
    obtain ⟨b', t', w'⟩ := d
    rw [Q_cons]
    have hw' : 0 < w' := hw (b', t', w') (by simp)
    have hrest : PosWeights ds := fun d hd => hw d (by simp [hd])
    have hsq : 0 ≤ w' * (b - b') * (b - b') := by
      have := mul_self_nonneg (b - b'); nlinarith
    by_cases hb : b' = b
    · obtain ⟨d, hd, hne⟩ := h
      simp only [List.mem_cons] at hd
      rcases hd with rfl | hd
      · exact absurd hb hne
      · have := ih hrest ⟨d, hd, hne⟩
        linarith
    · have hne : b - b' ≠ 0 := sub_ne_zero.mpr (Ne.symm hb)
      have : 0 < w' * (b - b') * (b - b') := by
        have := mul_self_pos.mpr hne
        nlinarith
      have := Q_nonneg ds hrest b
      linarith

theorem det_nonneg (ds : List (K × K × K)) (hw : PosWeights ds) : 0 ≤ det ds := by
  induction ds with
  | nil => simp [det, sW, sWB, sWBB]
  | cons d ds ih =>
    obtain ⟨b, t, w⟩ := d
    rw [det_cons]
    have hrest : PosWeights ds := fun d hd => hw d (by simp [hd])
    have h1 := ih hrest
    have h2 := Q_nonneg ds hrest b
    have h3 : 0 < w := hw (b, t, w) (by simp)
    nlinarith

/-- **The system is non-singular** as soon as all weights are positive and two data points have
different blow times: `det = Σ_{i<j} wᵢ wⱼ (bᵢ − bⱼ)² > 0`. -/
theorem det_pos (ds : List (K × K × K)) (hw : PosWeights ds)
    (h : ∃ d ∈ ds, ∃ e ∈ ds, d.1 ≠ e.1) : 0 < det ds := by
  induction ds with
  | nil => obtain ⟨d, hd, _⟩ := h; simp at hd
  | cons d ds ih =>
    obtain ⟨b, t, w⟩ := d
    rw [det_cons]
    have hrest : PosWeights ds := fun d hd => hw d (by simp [hd])
    have h3 : 0 < w := hw (b, t, w) (by simp)
    have hdn := det_nonneg ds hrest
    have hqn := Q_nonneg ds hrest b
    obtain ⟨d1, hd1, d2, hd2, hne⟩ := h
    simp only [List.mem_cons] at hd1 hd2
    -- either some other point differs from the head, or two points of the tail differ
    by_cases hex : ∃ e ∈ ds, e.1 ≠ b
    · have := Q_pos ds hrest b hex
      nlinarith
    · have hall : ∀ e ∈ ds, e.1 = b := by
        intro e he; by_contra hc; exact hex ⟨e, he, hc⟩
      rcases hd1 with rfl | hd1 <;> rcases hd2 with rfl | hd2
      · exact absurd rfl hne
      · exact absurd (hall d2 hd2).symm hne
      · exact absurd (hall d1 hd1) hne
      · exact absurd ((hall d1 hd1).trans (hall d2 hd2).symm) hne

/-- **Translation equivariance** (C14): moving every real time by `s` moves the fitted start by `s`
and leaves the fitted interval alone. -/
theorem regress_shift (s : K) (ds : List (K × K × K)) (hd : det ds ≠ 0) :
    regress (ds.map (fun d => (d.1, d.2.1 + s, d.2.2))) = ((regress ds).1 + s, (regress ds).2) := by
  have hS : ∀ ds : List (K × K × K),
      sW (ds.map (fun d => (d.1, d.2.1 + s, d.2.2))) = sW ds ∧
      sWB (ds.map (fun d => (d.1, d.2.1 + s, d.2.2))) = sWB ds ∧
      sWBB (ds.map (fun d => (d.1, d.2.1 + s, d.2.2))) = sWBB ds ∧
      sWT (ds.map (fun d => (d.1, d.2.1 + s, d.2.2))) = sWT ds + s * sW ds ∧
      sWBT (ds.map (fun d => (d.1, d.2.1 + s, d.2.2))) = sWBT ds + s * sWB ds := by
    intro ds
    induction ds with
    | nil => simp [sW, sWB, sWBB, sWT, sWBT]
    | cons d ds ih =>
      obtain ⟨b, t, w⟩ := d
      obtain ⟨i0, i1, i2, i3, i4⟩ := ih
      simp only [List.map_cons, sW, sWB, sWBB, sWT, sWBT, i0, i1, i2, i3, i4]
      refine ⟨trivial, trivial, trivial, ?_, ?_⟩ <;> ring
  obtain ⟨e0, e1, e2, e3, e4⟩ := hS ds
  rw [regress_eq, regress_eq]
  have hdet : det (ds.map (fun d => (d.1, d.2.1 + s, d.2.2))) = det ds := by simp [det, e0, e1, e2]
  rw [hdet, e0, e1, e2, e3, e4]
  have hd' := hd
  unfold det at hd'
  ext
  · simp only []
    unfold det
    rw [div_add' _ _ _ hd']
    congr 1
    ring
  · simp only []
    unfold det
    congr 1
    ring

/-- Moving every blow by `-x0` moves the fitted start by `interval · x0` and leaves the interval. -/
theorem regress_shift_blow (x0 : K) (ds : List (K × K × K)) (hd : det ds ≠ 0) :
    regress (ds.map (fun d => (d.1 - x0, d.2.1, d.2.2))) = ((regress ds).1 + (regress ds).2 * x0, (regress ds).2) ∧
    det (ds.map (fun d => (d.1 - x0, d.2.1, d.2.2))) = det ds := by
  have hS : ∀ ds : List (K × K × K),
      sW (ds.map (fun d => (d.1 - x0, d.2.1, d.2.2))) = sW ds ∧
      sWB (ds.map (fun d => (d.1 - x0, d.2.1, d.2.2))) = sWB ds - x0 * sW ds ∧
      sWBB (ds.map (fun d => (d.1 - x0, d.2.1, d.2.2))) = sWBB ds - 2 * x0 * sWB ds + x0 * x0 * sW ds ∧
      sWT (ds.map (fun d => (d.1 - x0, d.2.1, d.2.2))) = sWT ds ∧
      sWBT (ds.map (fun d => (d.1 - x0, d.2.1, d.2.2))) = sWBT ds - x0 * sWT ds := by
    intro ds
    induction ds with
    | nil => simp [sW, sWB, sWBB, sWT, sWBT]
    | cons d ds ih =>
      obtain ⟨b, t, w⟩ := d
      obtain ⟨i0, i1, i2, i3, i4⟩ := ih
      simp only [List.map_cons, sW, sWB, sWBB, sWT, sWBT, i0, i1, i2, i3, i4]
      refine ⟨trivial, ?_, ?_, trivial, ?_⟩ <;> ring
  obtain ⟨e0, e1, e2, e3, e4⟩ := hS ds
  have hdet : det (ds.map (fun d => (d.1 - x0, d.2.1, d.2.2))) = det ds := by
    simp only [det, e0, e1, e2]; ring
  refine ⟨?_, hdet⟩
  rw [regress_eq, regress_eq, hdet, e0, e1, e2, e3, e4]
  have hd' := hd
  ext
  · simp only []
    field_simp
    ring
  · simp only []
    field_simp
    ring

/-- **The centred evaluation is the same fit**: `regressCentred`, which the driver evaluates at `Float`
to cross-check the implementation's `numpy` results, equals `regress`, which the theorems are about. -/
theorem regressCentred_eq (ds : List (K × K × K)) (hd : det ds ≠ 0) : regressCentred ds = regress ds := by
  unfold regressCentred
  cases ds with
  | nil => rfl
  | cons d rest =>
    obtain ⟨x0, y0, w0⟩ := d
    simp only []
    generalize hds : ((x0, y0, w0) :: rest : List (K × K × K)) = ds at hd ⊢
    -- first move the times, then the blows
    have h1 := regress_shift (-y0) ds hd
    have hdet1 : det (ds.map (fun d => (d.1, d.2.1 + -y0, d.2.2))) = det ds := by
      -- the determinant only involves blows and weights
      have hS : ∀ l : List (K × K × K),
          sW (l.map (fun d => (d.1, d.2.1 + -y0, d.2.2))) = sW l ∧
          sWB (l.map (fun d => (d.1, d.2.1 + -y0, d.2.2))) = sWB l ∧
          sWBB (l.map (fun d => (d.1, d.2.1 + -y0, d.2.2))) = sWBB l := by
        intro l
        induction l with
        | nil => simp [sW, sWB, sWBB]
        | cons d l ih =>
          obtain ⟨b, t, w⟩ := d
          obtain ⟨i0, i1, i2⟩ := ih
          simp only [List.map_cons, sW, sWB, sWBB, i0, i1, i2]
          exact ⟨trivial, trivial, trivial⟩
      obtain ⟨e0, e1, e2⟩ := hS ds
      simp only [det, e0, e1, e2]
    have h2 := (regress_shift_blow x0 (ds.map (fun d => (d.1, d.2.1 + -y0, d.2.2))) (by rw [hdet1]; exact hd)).1
    have hmap : (ds.map (fun d => (d.1, d.2.1 + -y0, d.2.2))).map (fun d => (d.1 - x0, d.2.1, d.2.2)) =
        ds.map (fun d => (d.1 - x0, d.2.1 - y0, d.2.2)) := by
      rw [List.map_map]
      apply List.map_congr_left
      intro d _
      simp [sub_eq_add_neg]
    rw [hmap, h1] at h2
    rw [h2]
    ext
    · simp only []; ring
    · rfl
end Wheatley
