/-
Every linearly ordered field is a `Num`: the rhythm model, executed at `Float` by the driver, is
*proved about* for all such fields (ℚ, ℝ, …) with exact arithmetic.
-/
import Mathlib.Algebra.Order.Field.Basic
import Mathlib.Tactic.Ring
import Mathlib.Tactic.FieldSimp
import Mathlib.Tactic.Linarith
import Mathlib.Tactic.Positivity
import Wheatley.Model.Rhythm
namespace Wheatley

instance (priority := low) fieldNum {K : Type} [Field K] [LinearOrder K] [IsStrictOrderedRing K] : Num K where
  ofNat n := (n : K)
  decLt := fun _ _ => inferInstance
  decLe := fun _ _ => inferInstance
  eqb a b := decide (a = b)

variable {K : Type} [Field K] [LinearOrder K] [IsStrictOrderedRing K]

@[simp] theorem num_ofNat (n : Nat) : (Num.ofNat n : K) = (n : K) := rfl
@[simp] theorem num_eqb (a b : K) : Num.eqb a b = decide (a = b) := rfl
theorem num_ofQ (q : Nat × Nat) : (Num.ofQ q : K) = (q.1 : K) / (q.2 : K) := rfl

end Wheatley
