/- Field-by-field facts about the regression rhythm's state updates (any `Num`). -/
import Wheatley.Model.Rhythm
namespace Wheatley

variable {K : Type} [Num K]

/-- The configuration fields no update touches. -/
def Reg.cfgOf (r : Reg K) : K × K × K × K × Int × Int × Nat :=
  (r.preferredInertia, r.initialInertia, r.pealSpeed, r.gap, r.minBells, r.maxBells, r.stage)

theorem relerp_cfg (r : Reg K) (fit : K × K) (i : K) :
    (r.relerp fit i).cfgOf = r.cfgOf ∧ (r.relerp fit i).dataSet = r.dataSet ∧
    (r.relerp fit i).expected = r.expected ∧ (r.relerp fit i).shouldReturn = r.shouldReturn := by
  unfold Reg.relerp; split <;> exact ⟨rfl, rfl, rfl, rfl⟩

theorem addDataPoint_cfg (r : Reg K) (reg : List (K × K × K) → K × K) (row place : Nat) (t w : K) :
    (r.addDataPoint reg row place t w).cfgOf = r.cfgOf ∧
    (r.addDataPoint reg row place t w).dataSet = r.newDataSet row place t w ∧
    (r.addDataPoint reg row place t w).expected = r.expected ∧
    (r.addDataPoint reg row place t w).shouldReturn = r.shouldReturn := by
  unfold Reg.addDataPoint
  simp only []
  generalize (if 0 < row then r.preferredInertia else r.initialInertia) = inertia
  by_cases h1 : Num.eqb inertia (Num.ofNat 1) = true
  · rw [if_pos h1]; exact ⟨rfl, rfl, rfl, rfl⟩
  · rw [if_neg h1]
    by_cases h2 : r.minBells ≤ ((r.newDataSet row place t w).length : Int)
    · rw [if_pos h2]; exact relerp_cfg _ _ _
    · rw [if_neg h2]; exact ⟨rfl, rfl, rfl, rfl⟩

/-- No regression happens (inertia 1, or too few data points): the line is untouched. -/
theorem addDataPoint_line_unchanged (r : Reg K) (reg : List (K × K × K) → K × K) (row place : Nat) (t w : K)
    (h : Num.eqb (if 0 < row then r.preferredInertia else r.initialInertia) (Num.ofNat 1) = true ∨
         ¬ r.minBells ≤ ((r.newDataSet row place t w).length : Int)) :
    (r.addDataPoint reg row place t w).start = r.start ∧
    (r.addDataPoint reg row place t w).interval = r.interval := by
  unfold Reg.addDataPoint
  simp only []
  generalize (if 0 < row then r.preferredInertia else r.initialInertia) = inertia at h
  rcases h with h | h
  · rw [if_pos h]; exact ⟨rfl, rfl⟩
  · by_cases h1 : Num.eqb inertia (Num.ofNat 1) = true
    · rw [if_pos h1]; exact ⟨rfl, rfl⟩
    · rw [if_neg h1, if_neg h]; exact ⟨rfl, rfl⟩

/-- A regression happens: the line becomes the lerp of the fit into the old line. -/
theorem addDataPoint_regressed (r : Reg K) (reg : List (K × K × K) → K × K) (row place : Nat) (t w : K) (s : K)
    (hs : r.start = .fin s)
    (h1 : Num.eqb (if 0 < row then r.preferredInertia else r.initialInertia) (Num.ofNat 1) = false)
    (h2 : r.minBells ≤ ((r.newDataSet row place t w).length : Int)) :
    (r.addDataPoint reg row place t w).start =
      .fin (Generated.lerp (reg (r.newDataSet row place t w)).1 s (if 0 < row then r.preferredInertia else r.initialInertia)) ∧
    (r.addDataPoint reg row place t w).interval =
      Generated.lerp (reg (r.newDataSet row place t w)).2 r.interval (if 0 < row then r.preferredInertia else r.initialInertia) := by
  unfold Reg.addDataPoint
  simp only []
  generalize (if 0 < row then r.preferredInertia else r.initialInertia) = inertia at h1
  rw [if_neg (by simp [h1]), if_pos h2]
  unfold Reg.relerp
  simp only []
  rw [hs]
  exact ⟨rfl, rfl⟩

/-- "Not yet anchored" survives every data point. -/
theorem addDataPoint_start_inf (r : Reg K) (reg : List (K × K × K) → K × K) (row place : Nat) (t w : K)
    (h : r.start = .inf) : (r.addDataPoint reg row place t w).start = .inf := by
  unfold Reg.addDataPoint
  simp only []
  generalize (if 0 < row then r.preferredInertia else r.initialInertia) = inertia
  by_cases h1 : Num.eqb inertia (Num.ofNat 1) = true
  · rw [if_pos h1]; exact h
  · rw [if_neg h1]
    by_cases h2 : r.minBells ≤ ((r.newDataSet row place t w).length : Int)
    · rw [if_pos h2]; unfold Reg.relerp; simp only []; rw [h]
    · rw [if_neg h2]; exact h

end Wheatley
