/- `generate_starting_row`: the result is a permutation of rounds when the custom row fits. -/
import Wheatley.Model.Row
namespace Wheatley

theorem hasDup_false_nodup : ∀ (l : List Nat), hasDup l = false → l.Nodup := by
  intro l
  induction l with
  | nil => intro _; exact List.nodup_nil
  | cons a l ih =>
    intro h
    simp only [hasDup, Bool.or_eq_false_iff] at h
    refine List.nodup_cons.mpr ⟨?_, ih h.2⟩
    intro hm
    have : l.contains a = true := by simpa using hm
    rw [this] at h
    exact absurd h.1 (by simp)

theorem rounds_nodup (n : Nat) : (rounds n).Nodup := by
  unfold rounds
  exact List.Pairwise.map _ (fun a b (h : a ≠ b) => by omega) List.nodup_range

theorem mem_rounds (n b : Nat) : b ∈ rounds n ↔ 1 ≤ b ∧ b ≤ n := by
  unfold rounds
  simp only [List.mem_map, List.mem_range]
  constructor
  · rintro ⟨a, ha, rfl⟩; omega
  · rintro ⟨h1, h2⟩; exact ⟨b - 1, by omega, by omega⟩

theorem rounds_length (n : Nat) : (rounds n).length = n := by simp [rounds]

theorem appendMissing_perm (n : Nat) (c : Row) (hnd : c.Nodup) (hfit : ∀ b ∈ c, 1 ≤ b ∧ b ≤ n) :
    (appendMissing n c).Perm (rounds n) := by
  unfold appendMissing
  have hr : (List.map (· + 1) (List.range n)) = rounds n := rfl
  rw [hr]
  refine (List.perm_ext_iff_of_nodup ?_ (rounds_nodup n)).mpr ?_
  · refine List.nodup_append.mpr ⟨hnd, (rounds_nodup n).filter _, ?_⟩
    intro a ha b hb hab
    subst hab
    simp only [List.mem_filter] at hb
    simp at hb
    exact hb.2 ha
  · intro a
    simp only [List.mem_append, List.mem_filter]
    constructor
    · rintro (h | ⟨h, _⟩)
      · exact (mem_rounds n a).mpr (hfit a h)
      · exact h
    · intro h
      by_cases hc : a ∈ c
      · left; exact hc
      · right; refine ⟨h, ?_⟩; simpa using hc

/-- `generate_starting_row(n, custom)` returns a permutation of rounds on `n` whenever it returns and
every bell of the custom row exists in the tower. -/
theorem startingRow_perm (n : Nat) (custom : Option Row) (r : Row)
    (h : startingRow n custom = some r) (hfit : ∀ c, custom = some c → ∀ b ∈ c, 1 ≤ b ∧ b ≤ n) :
    r.Perm (rounds n) := by
  unfold startingRow at h
  split at h
  · injection h with h; subst h; exact List.Perm.refl _
  · rename_i c
    split at h
    · cases h
    · rename_i hd
      injection h with h; subst h
      exact appendMissing_perm n c (hasDup_false_nodup c (by simpa using hd)) (hfit c rfl)

end Wheatley
