/-
While the method is being rung in a tower that keeps its size, the row the Bot rings is the generator's current row
followed by the opening row's tail: the bells above the generator's row cover, each in the place the opening row gave
it.  (For C03's system-level theorem; built on the invariants of `Complete` and `MethodRows`.)
-/
import Wheatley.Lemmas.Complete
import Wheatley.Lemmas.MethodRows
namespace Wheatley
namespace Covers
open MethodRows

/-- The row being rung is the generator's row followed by the opening row's tail. -/
def K (b : Bot) : Prop := InMethod b → b.row = b.gen.row ++ b.openingRow.drop b.gen.row.length

theorem K.congr {b b' : Bot} (h : K b) (h1 : b'.gen.row = b.gen.row) (h3 : b'.openingRow = b.openingRow)
    (h4 : b'.row = b.row) (hm : InMethod b' → InMethod b) : K b' := by
  intro hm'
  rw [h4, h1, h3]
  exact h (hm hm')

theorem pad_eq (r op : Row) : (if r.length < op.length then r ++ op.drop r.length else r) = r ++ op.drop r.length := by
  split
  · rfl
  · rename_i h
    rw [List.drop_eq_nil_of_le (by omega)]
    simp

theorem generateNextRow_K (b : Bot) (ht : Total b.gen.kind) : K (b.generateNextRow).1 := by
  unfold Bot.generateNextRow
  split
  · rename_i ho
    intro hm; have := hm.2.1; exact absurd (ho.symm.trans this) (by simp)
  · split
    · rename_i hr
      intro hm; have := hm.2.2; exact absurd (hr.symm.trans this) (by simp)
    · obtain ⟨g', r, calls, hn⟩ := ht.next b.hand
      rw [hn]
      simp only []
      obtain ⟨k1, _, _⟩ := Gen.next_keeps b.gen b.hand g' r calls hn
      intro _
      show (if r.length < b.openingRow.length then r ++ b.openingRow.drop r.length else r) =
        g'.row ++ b.openingRow.drop g'.row.length
      rw [k1]
      exact pad_eq r b.openingRow

theorem snrFinish_K (b : Bot) (o : List Out) (ht : Total b.gen.kind) (hnr : b.isRinging = false → K b) :
    K (Bot.snrFinish b o).1 := by
  unfold Bot.snrFinish
  split
  · rename_i h
    exact hnr (by simpa using h)
  · have hg := generateNextRow_K b ht
    rcases hgq : b.generateNextRow with ⟨b3, o9⟩
    rw [hgq] at hg
    simp only [] at hg ⊢
    split <;> exact hg

theorem startNextRow_K (b : Bot) (f : Bool) (ht : Total b.gen.kind) (h : K b) : K (b.startNextRow f).1 := by
  unfold Bot.startNextRow
  split
  · unfold Bot.snrPrep
    split <;> exact h.congr rfl rfl rfl (fun x => x)
  · rename_i c started hstep
    simp only []
    have hq : Total ((if started = true then b.snrPrep.resetGen else b.snrPrep).withCtl c).gen.kind := by
      have hp : b.snrPrep.gen = b.gen := by unfold Bot.snrPrep; split <;> rfl
      split
      · show Total b.snrPrep.gen.kind; rw [hp]; exact ht
      · show Total b.snrPrep.gen.kind; rw [hp]; exact ht
    apply snrFinish_K _ _ hq
    intro hnr hm
    rw [hm.1] at hnr; cases hnr

theorem arm_K (b : Bot) (ht : Total b.armLookTo.gen.kind) : K (b.armLookTo.startNextRow true).1 := by
  apply startNextRow_K _ _ ht
  intro hm
  exact absurd hm.2.1 (by simp [Bot.armLookTo])

/-- The three invariants together. -/
def J (N : Nat) (b : Bot) : Prop := Complete.Inv N b ∧ MethodRows.Inv b ∧ K b

def E (N : Nat) (e : Ev) : Prop := Complete.Fixed N e ∧ MethodRows.Sel e

theorem foldSettings_K : ∀ (kvs : List (String × SVal)) (b : Bot), K b → K (foldSettings b kvs).1 := by
  intro kvs
  induction kvs with
  | nil => intro b h; exact h
  | cons kv rest ih =>
    intro b h
    obtain ⟨k, v⟩ := kv
    unfold foldSettings
    simp only []
    apply ih
    unfold Bot.onSetting
    split
    · split <;> first | exact h.congr rfl rfl rfl (fun x => x) | exact h
    · split
      · split <;> first | exact h.congr rfl rfl rfl (fun x => x) | exact h
      · split
        · split <;> first | exact h.congr rfl rfl rfl (fun x => x) | exact h
        · exact h

theorem msg_K (N : Nat) (b : Bot) (m : Msg) (hm : E N (.msg m)) (hc : Complete.Inv N b) (hmr : MethodRows.Inv b)
    (h : K b) : K (b.onMsg m).1 := by
  cases m with
  | bellRung st who =>
    unfold Bot.onMsg
    simp only []
    split
    · exact h.congr rfl rfl rfl (fun x => x)
    · split <;> exact h.congr rfl rfl rfl (fun x => x)
  | globalState st =>
    unfold Bot.onMsg
    simp only []
    generalize hq : ({ b with tower := b.tower.apply (.globalState st) } : Bot) = q
    have hqn : q.n = N := by subst hq; exact hm.1
    have hq1 : q.gen = b.gen := by subst hq; rfl
    have hq2 : q.openingRow = b.openingRow := by subst hq; rfl
    have hq3 : q.row = b.row := by subst hq; rfl
    have hq4 : InMethod q → InMethod b := by subst hq; exact fun x => x
    have hK : K q := h.congr (by rw [hq1]) hq2 hq3 hq4
    unfold Bot.onSizeChange
    split
    · exact hK
    · rename_i op hop
      rw [hqn, hq1] at hop
      have : op = b.openingRow := by
        have := hc.1.op
        rw [this] at hop
        injection hop with hop
        exact hop.symm
      exact hK.congr rfl (by show op = q.openingRow; rw [this, hq2]) rfl (fun x => x)
  | userEntered id name => unfold Bot.onMsg; exact h.congr rfl rfl rfl (fun x => x)
  | userList us => unfold Bot.onMsg; exact h.congr rfl rfl rfl (fun x => x)
  | sizeChange n =>
    have hn : n = b.n := by rw [hc.1.size]; exact hm.1
    unfold Bot.onMsg
    simp only []
    have hne : (n != b.n) = false := by rw [hn]; simp
    simp only [hne, Bool.false_eq_true, if_false]
    exact h.congr rfl rfl rfl (fun x => x)
  | assign bell user => unfold Bot.onMsg; exact h.congr rfl rfl rfl (fun x => x)
  | userLeft id => unfold Bot.onMsg; exact h.congr rfl rfl rfl (fun x => x)
  | stopTouch =>
    unfold Bot.onMsg
    simp only []
    split
    · intro hmm; exact absurd hmm.1 (by simp)
    · exact h.congr rfl rfl rfl (fun x => x)
  | rowGen g =>
    unfold Bot.onMsg
    simp only []
    split
    · cases g with
      | none => exact h.congr rfl rfl rfl (fun x => x)
      | some g => exact h.congr rfl rfl rfl (fun x => x)
    · exact h.congr rfl rfl rfl (fun x => x)
  | setting kvs =>
    unfold Bot.onMsg
    simp only []
    split
    · exact foldSettings_K kvs _ (h.congr rfl rfl rfl (fun x => x))
    · exact h.congr rfl rfl rfl (fun x => x)
  | call c =>
    unfold Bot.onMsg
    simp only []
    have hb : K ({ b with tower := b.tower.apply (.call c) } : Bot) := h.congr rfl rfl rfl (fun x => x)
    have hbt : MethodRows.Inv ({ b with tower := b.tower.apply (.call c) } : Bot) :=
      hmr.congr rfl rfl trivial rfl rfl rfl rfl
    generalize ({ b with tower := b.tower.apply (.call c) } : Bot) = q at hb hbt
    unfold Bot.onCall
    split
    · unfold Bot.onLookTo
      split
      · unfold Bot.lookTo
        split
        · exact hb
        · apply arm_K
          unfold Bot.armLookTo
          simp only []
          cases hn : q.nextGen with
          | none => exact hbt.total
          | some g => exact hbt.queued g hn
      · exact hb
    · split
      · unfold Bot.onGo
        split
        · exact hb.congr rfl rfl rfl (fun x => x)
        · exact hb
      · split
        · exact hb.congr rfl rfl rfl (fun x => x)
        · split
          · exact hb.congr rfl rfl rfl (fun x => x)
          · split
            · exact hb.congr rfl rfl rfl (fun x => x)
            · split
              · intro hmm; exact absurd hmm.2.1 (by simp)
              · split
                · exact hb.congr rfl rfl rfl (fun x => x)
                · exact hb

theorem botInvariant (N : Nat) : BotInvariant (J N) (E N) :=
  { arm := fun b h => by
      refine ⟨Complete.arm_inv N b h.1, MethodRows.arm_inv b h.2.1, ?_⟩
      apply arm_K
      unfold Bot.armLookTo
      simp only []
      cases hn : b.nextGen with
      | none => exact h.2.1.total
      | some g => exact h.2.1.queued g hn
    tick := fun b bell uc h => by
      refine ⟨Complete.tick_inv N b bell uc h.1, MethodRows.tick_inv b bell uc h.2.1, ?_⟩
      unfold Bot.tickEnd
      simp only []
      split
      · exact startNextRow_K _ false h.2.1.total (h.2.2.congr rfl rfl rfl (fun x => x))
      · exact h.2.2.congr rfl rfl rfl (fun x => x)
    msg := fun b m he h =>
      ⟨Complete.msg_inv N b m he.1 h.1, MethodRows.msg_inv b m he.2 h.2.1, msg_K N b m he h.1 h.2.1 h.2.2⟩ }

end Covers
end Wheatley
