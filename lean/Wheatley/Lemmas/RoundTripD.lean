import Wheatley.Lemmas.RoundTrip
namespace Wheatley.RoundTrip

/-! ### Tokens of a notation block and how they are written -/

inductive Tok where
  /-- a cross, written `x` or `-`, with any number of dots before and after it -/
  | cross (sym : Char) (before after : Nat)
  /-- a change that makes places, written as its bell symbols -/
  | pl (ps : List Nat)

def Tok.isCross : Tok → Bool
  | .cross .. => true
  | .pl _ => false

def Tok.piece : Tok → List Char
  | .cross .. => ['-']
  | .pl ps => ps.map bellChar

def Tok.WF : Tok → Prop
  | .cross sym _ _ => Wheatley.isCross sym = true
  | .pl ps => ps ≠ [] ∧ ∀ p ∈ ps, 1 ≤ p ∧ p ≤ 16

def dots (n : Nat) : List Char := List.replicate n '.'

/-- The block as written: a dot only where it is needed (between two place changes), dots at will around
a cross. `prev` = the previous token was a place change. -/
def render : Bool → List Tok → List Char
  | _, [] => []
  | _, .cross sym b a :: rest => dots b ++ sym :: (dots a ++ render false rest)
  | prev, .pl ps :: rest => (if prev then ['.'] else []) ++ (ps.map bellChar ++ render true rest)

/-- … and after `re.sub("[.]*[x-][.]*", ".-.", …)`. -/
def canon : Bool → List Tok → List Char
  | _, [] => []
  | _, .cross .. :: rest => '.' :: '-' :: '.' :: canon false rest
  | prev, .pl ps :: rest => (if prev then ['.'] else []) ++ (ps.map bellChar ++ canon true rest)

/-! #### Facts about bell symbols (a finite table) -/

theorem bell_facts : ∀ p ∈ List.range' 1 16,
    bellChar p ≠ '.' ∧ isCross (bellChar p) = false ∧ stripSet.contains (bellChar p) = false ∧
    bellChar p ≠ ',' ∧ upperAscii (bellChar p) = bellChar p ∧ bellOfChar (bellChar p) = some p ∧
    bellChar p ≠ '-' := by decide

theorem bell_ok (p : Nat) (h : 1 ≤ p ∧ p ≤ 16) :
    bellChar p ≠ '.' ∧ isCross (bellChar p) = false ∧ stripSet.contains (bellChar p) = false ∧
    bellChar p ≠ ',' ∧ upperAscii (bellChar p) = bellChar p ∧ bellOfChar (bellChar p) = some p ∧
    bellChar p ≠ '-' :=
  bell_facts p (by rw [List.mem_range'_1]; omega)

/-- A character that is neither a dot nor a cross passes through the substitution. -/
def Plain (c : Char) : Prop := c ≠ '.' ∧ isCross c = false

theorem subCross_nil : subCross [] = [] := rfl

theorem subCross_plain (c : Char) (cs : List Char) (h : Plain c) : subCross (c :: cs) = c :: subCross cs := by
  rw [subCross_cons, dropDots_cons_of_ne c cs h.1]
  simp [h.2]

theorem subCross_plains (p rest : List Char) (h : ∀ c ∈ p, Plain c) : subCross (p ++ rest) = p ++ subCross rest := by
  induction p with
  | nil => rfl
  | cons c cs ih =>
    simp only [List.cons_append]
    rw [subCross_plain c _ (h c (by simp)), ih (fun x hx => h x (by simp [hx]))]

theorem dropDots_dots (n : Nat) (rest : List Char) : dropDots (dots n ++ rest) = dropDots rest := by
  induction n with
  | zero => rfl
  | succ k ih =>
    show dropDots ('.' :: (dots k ++ rest)) = _
    rw [dropDots_dot, ih]

theorem cross_ne_dot (sym : Char) (h : isCross sym = true) : sym ≠ '.' := by
  intro e; subst e; simp [isCross] at h

theorem subCross_cross (b : Nat) (sym : Char) (rest : List Char) (h : isCross sym = true) :
    subCross (dots b ++ sym :: rest) = '.' :: '-' :: '.' :: subCross (dropDots rest) := by
  have hd : dropDots (dots b ++ sym :: rest) = sym :: rest := by
    rw [dropDots_dots, dropDots_cons_of_ne sym rest (cross_ne_dot sym h)]
  cases b with
  | zero =>
    show subCross (sym :: rest) = _
    rw [subCross_cons]
    have : dropDots (sym :: rest) = sym :: rest := hd
    rw [this]; simp [h]
  | succ k =>
    show subCross ('.' :: (dots k ++ sym :: rest)) = _
    rw [subCross_cons]
    have : dropDots ('.' :: (dots k ++ sym :: rest)) = sym :: rest := hd
    rw [this]; simp [h]

theorem subCross_dot_plain (c : Char) (cs : List Char) (h : Plain c) :
    subCross ('.' :: c :: cs) = '.' :: subCross (c :: cs) := by
  rw [subCross_cons, dropDots_dot, dropDots_cons_of_ne c cs h.1]
  simp [h.2]

/-! #### The substitution on a written block -/

theorem pl_plain (ps : List Nat) (h : ∀ p ∈ ps, 1 ≤ p ∧ p ≤ 16) : ∀ c ∈ ps.map bellChar, Plain c := by
  intro c hc
  simp only [List.mem_map] at hc
  obtain ⟨p, hp, rfl⟩ := hc
  exact ⟨(bell_ok p (h p hp)).1, (bell_ok p (h p hp)).2.1⟩

/-- Dropping the dots in front of what follows a cross: only the dots written before the next cross go. -/
def zeroLead : List Tok → List Tok
  | .cross sym _ a :: rest => .cross sym 0 a :: rest
  | l => l

theorem zeroLead_length (l : List Tok) : (zeroLead l).length = l.length := by
  cases l with
  | nil => rfl
  | cons t r => cases t <;> rfl

theorem zeroLead_wf (l : List Tok) (h : ∀ t ∈ l, t.WF) : ∀ t ∈ zeroLead l, t.WF := by
  cases l with
  | nil => exact h
  | cons t r =>
    cases t with
    | cross sym b a =>
      intro t ht
      simp only [zeroLead, List.mem_cons] at ht
      rcases ht with rfl | ht
      · exact h (.cross sym b a) (by simp)
      · exact h t (by simp [ht])
    | pl ps => exact h

theorem canon_zeroLead (l : List Tok) : canon false (zeroLead l) = canon false l := by
  cases l with
  | nil => rfl
  | cons t r => cases t <;> rfl

theorem dropDots_render (l : List Tok) (h : ∀ t ∈ l, t.WF) :
    dropDots (render false l) = render false (zeroLead l) := by
  cases l with
  | nil => rfl
  | cons t r =>
    cases t with
    | cross sym b a =>
      have hs : Wheatley.isCross sym = true := h (.cross sym b a) (by simp)
      simp only [render, zeroLead]
      rw [dropDots_dots, dropDots_cons_of_ne sym _ (cross_ne_dot sym hs)]
      rfl
    | pl ps =>
      obtain ⟨hne, hb⟩ := h (.pl ps) (by simp)
      cases ps with
      | nil => exact absurd rfl hne
      | cons p ps' =>
        simp only [render, zeroLead, List.map_cons, List.cons_append, Bool.false_eq_true, if_false, List.nil_append]
        exact dropDots_cons_of_ne _ _ (bell_ok p (hb p (by simp))).1

theorem subCross_render : ∀ (n : Nat) (l : List Tok), l.length = n → (∀ t ∈ l, t.WF) →
    ∀ prev, subCross (render prev l) = canon prev l := by
  intro n
  induction n with
  | zero =>
    intro l hl _ prev
    have : l = [] := List.length_eq_zero_iff.mp hl
    subst this; rfl
  | succ k ih =>
    intro l hl hwf prev
    cases l with
    | nil => simp at hl
    | cons t rest =>
      have hk : rest.length = k := by simpa using hl
      have hrest : ∀ t ∈ rest, t.WF := fun x hx => hwf x (by simp [hx])
      cases t with
      | cross sym b a =>
        have hs : Wheatley.isCross sym = true := hwf (.cross sym b a) (by simp)
        simp only [render, canon]
        rw [subCross_cross b sym _ hs, dropDots_dots, dropDots_render rest hrest,
            ih (zeroLead rest) (by rw [zeroLead_length, hk]) (zeroLead_wf rest hrest) false, canon_zeroLead]
      | pl ps =>
        obtain ⟨hne, hb⟩ := hwf (.pl ps) (by simp)
        have hpl := pl_plain ps hb
        simp only [render, canon]
        cases prev with
        | false =>
          simp only [Bool.false_eq_true, if_false, List.nil_append]
          rw [subCross_plains _ _ hpl, ih rest hk hrest true]
        | true =>
          simp only [if_true]
          cases hps : ps.map bellChar with
          | nil => simp at hps; exact absurd hps hne
          | cons c cs =>
            have hc : Plain c := hpl c (by rw [hps]; simp)
            show subCross ('.' :: (c :: cs ++ render true rest)) = '.' :: (c :: cs ++ canon true rest)
            rw [List.cons_append, subCross_dot_plain c _ hc, ← List.cons_append, ← hps,
                subCross_plains _ _ hpl, ih rest hk hrest true]

end Wheatley.RoundTrip
