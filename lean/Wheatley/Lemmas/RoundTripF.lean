import Wheatley.Lemmas.RoundTripE
namespace Wheatley.RoundTrip

/-- The pieces `convert_pn` sees for a written block are the block's tokens, one piece each. -/
theorem pnPieces_render (pre : List Char) (t : Tok) (rest : List Tok)
    (hpre : ∀ c ∈ pre, Plain c ∧ isStrip c = true) (hwf : ∀ u ∈ t :: rest, u.WF) :
    pnPieces (pre ++ render false (t :: rest)) = (t :: rest).map Tok.piece := by
  unfold pnPieces
  rw [subCross_plains pre _ (fun c hc => (hpre c hc).1),
      subCross_render _ (t :: rest) rfl hwf false, canon_eq rest t false]
  obtain ⟨x, xs, hj1, hx⟩ := J_first t rest (hwf t (by simp))
  obtain ⟨ys, y, hj2, hy⟩ := J_last rest t hwf
  have hlead : ∀ c ∈ pre ++ leadOf false t, isStrip c = true := by
    intro c hc
    simp only [List.mem_append] at hc
    rcases hc with hc | hc
    · exact (hpre c hc).2
    · cases t <;> simp [leadOf] at hc
      subst hc; decide
  have hs : stripPN (pre ++ (leadOf false t ++ (J (t :: rest) ++ trail (t :: rest)))) = J (t :: rest) := by
    have := strip_core (pre ++ leadOf false t) (trail (t :: rest)) (J (t :: rest)) x y xs ys hlead
      (trail_strip _) hj1 hj2 hx hy
    simpa [List.append_assoc] using this
  rw [hs, dedup_J rest t hwf]
  exact splitOn_joinWith '.' _ (by simp) (by
    intro p hp
    simp only [List.mem_map] at hp
    obtain ⟨u, hu, rfl⟩ := hp
    exact piece_nodot u (hwf u hu))

/-- What a token stands for: the places made (none for a cross). -/
def Tok.denote : Tok → Places
  | .cross .. => []
  | .pl ps => ps

theorem mapM_bells (ps : List Nat) (h : ∀ p ∈ ps, 1 ≤ p ∧ p ≤ 16) :
    ((ps.map bellChar).map upperAscii).mapM bellOfChar = some ps := by
  induction ps with
  | nil => rfl
  | cons p r ih =>
    have hp := bell_ok p (h p (by simp))
    have ih' := ih (fun q hq => h q (by simp [hq]))
    simp only [List.map_cons, List.mapM_cons, hp.2.2.2.2.1, hp.2.2.2.2.2.1]
    simp only [List.map_map] at ih' ⊢
    rw [ih']; rfl

theorem convertPiece_piece (t : Tok) (h : t.WF) : convertPiece t.piece = some t.denote := by
  cases t with
  | cross sym b a => rfl
  | pl ps =>
    obtain ⟨hne, hb⟩ := h
    unfold convertPiece
    have hnd : ¬ (Tok.pl ps).piece = ['-'] := by
      intro he
      cases ps with
      | nil => exact hne rfl
      | cons p r =>
        simp only [Tok.piece, List.map_cons, List.cons.injEq] at he
        exact (bell_ok p (hb p (by simp))).2.2.2.2.2.2 he.1
    rw [if_neg hnd]
    exact mapM_bells ps hb

theorem mapM_pieces (l : List Tok) (h : ∀ u ∈ l, u.WF) :
    (l.map Tok.piece).mapM convertPiece = some (l.map Tok.denote) := by
  induction l with
  | nil => rfl
  | cons t r ih =>
    simp only [List.map_cons, List.mapM_cons, convertPiece_piece t (h t (by simp)),
      ih (fun u hu => h u (by simp [hu]))]
    rfl

end Wheatley.RoundTrip
