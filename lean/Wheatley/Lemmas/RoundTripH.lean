import Wheatley.Lemmas.RoundTripG
namespace Wheatley.RoundTrip

theorem mapM_blocks (bs : List Block) (h : ∀ b ∈ bs, b.WF) :
    (bs.map Block.text).mapM (convertBlock · true) = some (bs.map (Block.denote true)) := by
  induction bs with
  | nil => rfl
  | cons b r ih =>
    simp only [List.map_cons, List.mapM_cons, convertBlock_text b (h b (by simp)) true,
      ih (fun x hx => h x (by simp [hx]))]
    rfl

theorem joinWith_contains (sep : Char) (p q : List Char) (rest : List (List Char)) :
    (joinWith sep (p :: q :: rest)).contains sep = true := by
  simp [joinWith]

end Wheatley.RoundTrip
