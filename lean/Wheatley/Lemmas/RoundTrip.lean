/-
Lemmas for the place-notation round trip (C02): what `re.sub`, `strip`, `replace` and `split` of
`convert_pn` do to a notation written out from its list of changes.
-/
import Wheatley.Model.Gen
namespace Wheatley.RoundTrip


/-! ### `str.split(sep)` on a joined list -/

theorem splitOn_nosep (sep : Char) (p : List Char) (h : sep ∉ p) : splitOn sep p = [p] := by
  induction p with
  | nil => rfl
  | cons c cs ih =>
    have hc : c ≠ sep := fun e => h (by simp [e])
    have hcs : sep ∉ cs := fun e => h (by simp [e])
    simp [splitOn, hc, ih hcs]

theorem splitOn_append (sep : Char) (p rest : List Char) (h : sep ∉ p) :
    splitOn sep (p ++ sep :: rest) = p :: splitOn sep rest := by
  induction p with
  | nil => simp [splitOn]
  | cons c cs ih =>
    have hc : c ≠ sep := fun e => h (by simp [e])
    have hcs : sep ∉ cs := fun e => h (by simp [e])
    simp [splitOn, hc, ih hcs]

/-- `sep.join(pieces)` -/
def joinWith (sep : Char) : List (List Char) → List Char
  | [] => []
  | [p] => p
  | p :: q :: rest => p ++ sep :: joinWith sep (q :: rest)

theorem splitOn_joinWith (sep : Char) (ps : List (List Char)) (hne : ps ≠ [])
    (h : ∀ p ∈ ps, sep ∉ p) : splitOn sep (joinWith sep ps) = ps := by
  induction ps with
  | nil => exact absurd rfl hne
  | cons p rest ih =>
    cases rest with
    | nil => simpa [joinWith] using splitOn_nosep sep p (h p (by simp))
    | cons q rest' =>
      simp only [joinWith]
      rw [splitOn_append sep p _ (h p (by simp)), ih (by simp) (fun x hx => h x (by simp [hx]))]



/-! ### `replace("..", ".")` -/

theorem dedup_cons (c : Char) (cs : List Char) (h : c ≠ '.') : dedupDots (c :: cs) = c :: dedupDots cs := by
  rw [dedupDots.eq_def]
  split
  · rename_i heq; simp at heq; exact absurd heq.1 h
  · rename_i heq; simp at heq; rw [heq.1, heq.2]
  · rename_i heq; simp at heq

theorem dedup_dotfree (p rest : List Char) (h : '.' ∉ p) : dedupDots (p ++ rest) = p ++ dedupDots rest := by
  induction p with
  | nil => rfl
  | cons c cs ih =>
    have hc : c ≠ '.' := fun e => h (by simp [e])
    have hcs : '.' ∉ cs := fun e => h (by simp [e])
    simp only [List.cons_append]
    rw [dedup_cons c _ hc, ih hcs]

theorem dedup_dot_then (c : Char) (cs : List Char) (h : c ≠ '.') :
    dedupDots ('.' :: c :: cs) = '.' :: dedupDots (c :: cs) := by
  rw [dedupDots.eq_def]
  split
  · rename_i heq; simp at heq; exact absurd heq.1 h
  · rename_i heq; simp at heq; rw [← heq.1, ← heq.2]
  · rename_i heq; simp at heq

theorem dedup_dotdot (cs : List Char) : dedupDots ('.' :: '.' :: cs) = '.' :: dedupDots cs := by
  simp [dedupDots]



/-! ### `re.sub("[.]*[x-][.]*", ".-.", s)` -/

theorem dropDots_length (s : List Char) : (dropDots s).length ≤ s.length := by
  induction s with
  | nil => simp [dropDots]
  | cons c cs ih =>
    rw [dropDots.eq_def]
    split
    · rename_i heq; simp at heq; rw [← heq.2]; simp; omega
    · simp

theorem dropDots_cons_of_ne (c : Char) (cs : List Char) (h : c ≠ '.') : dropDots (c :: cs) = c :: cs := by
  rw [dropDots.eq_def]
  split
  · rename_i heq; simp at heq; exact absurd heq.1 h
  · rfl

theorem dropDots_dot (cs : List Char) : dropDots ('.' :: cs) = dropDots cs := by
  simp [dropDots]

theorem subCrossAux_fuel : ∀ (n : Nat) (s : List Char), s.length ≤ n → subCrossAux n s = subCrossAux s.length s := by
  intro n
  induction n using Nat.strongRecOn with
  | _ n ih =>
    intro s hs
    cases s with
    | nil => cases n <;> rfl
    | cons c cs =>
      cases n with
      | zero => simp at hs
      | succ k =>
        have hk : cs.length ≤ k := by simpa using hs
        simp only [List.length_cons]
        unfold subCrossAux
        cases hd : dropDots (c :: cs) with
        | nil =>
          simp only []
          rw [ih k (by omega) cs hk, ih cs.length (by omega) cs (Nat.le_refl _)]
        | cons d rest =>
          simp only []
          have hlen : (d :: rest).length ≤ (c :: cs).length := by rw [← hd]; exact dropDots_length _
          have hr : (dropDots rest).length ≤ cs.length := by
            have := dropDots_length rest
            simp at hlen; omega
          split
          · rw [ih k (by omega) _ (by omega), ih cs.length (by omega) _ hr]
          · rw [ih k (by omega) cs hk, ih cs.length (by omega) cs (Nat.le_refl _)]

/-- One step of the substitution, without fuel. -/
theorem subCross_cons (c : Char) (cs : List Char) :
    subCross (c :: cs) =
      match dropDots (c :: cs) with
      | d :: rest => if isCross d then '.' :: '-' :: '.' :: subCross (dropDots rest) else c :: subCross cs
      | [] => c :: subCross cs := by
  unfold subCross
  simp only [List.length_cons]
  rw [subCrossAux]
  cases hd : dropDots (c :: cs) with
  | nil => simp only []
  | cons d rest =>
    simp only []
    have hlen : (d :: rest).length ≤ (c :: cs).length := by rw [← hd]; exact dropDots_length _
    have hr : (dropDots rest).length ≤ cs.length := by
      have := dropDots_length rest
      simp at hlen; omega
    split
    · rw [subCrossAux_fuel cs.length _ hr]
    · rfl


end Wheatley.RoundTrip
