/-
"Every place named in the notation is made" for parity-consistent changes.
-/
import Wheatley.Lemmas.Permute
namespace Wheatley

/-- Number of places in `[i, q)` that are *not* named in `P`. -/
def unmade (P : Places) (i q : Nat) : Nat :=
  ((List.range (q - i)).filter (fun d => !(P.contains (i + d)))).length

theorem unmade_self (P : Places) (i : Nat) : unmade P i i = 0 := by simp [unmade]

theorem unmade_step (P : Places) (i q : Nat) (h : i < q) :
    unmade P i q = (if i ∈ P then 0 else 1) + unmade P (i + 1) q := by
  unfold unmade
  have hq : q - i = (q - (i + 1)) + 1 := by omega
  rw [hq, List.range_succ_eq_map, List.filter_cons, List.filter_map]
  simp only [Nat.add_zero, List.length_map]
  have : (List.filter ((fun d => !P.contains (i + d)) ∘ Nat.succ) (List.range (q - (i + 1)))) =
      List.filter (fun d => !P.contains (i + 1 + d)) (List.range (q - (i + 1))) := by
    apply List.filter_congr
    intro d _
    simp only [Function.comp]
    congr 2
    omega
  rw [this]
  by_cases hc : i ∈ P
  · have hc' : P.contains i = true := by simpa using hc
    simp [hc, hc']
  · have hc' : P.contains i = false := by simpa using hc
    simp [hc, hc']; omega

/-- **Parity-consistent from place `i` on**: before every named place `q ≥ i` (within the stage) an
even number of places are unnamed — i.e. the unnamed places pair up. -/
def Consistent (stage : Nat) (P : Places) (i : Nat) : Prop :=
  ∀ q, q ∈ P → i ≤ q → q ≤ stage → unmade P i q % 2 = 0

theorem permuteAux_makes_place (stage : Nat) (P : Places) :
    ∀ (i : Nat) (l : Row), Consistent stage P i →
      ∀ p, p ∈ P → i ≤ p → p ≤ stage → (permuteAux stage P i l)[p - i]? = l[p - i]? := by
  intro i l
  fun_induction permuteAux stage P i l with
  | case1 i a b rest h1 h2 ih =>
    intro hc p hp hip hps
    by_cases hpi : p = i
    · subst hpi; simp
    · have hlt : i + 1 ≤ p := by omega
      have hc' : Consistent stage P (i + 1) := by
        intro q hq hiq hqs
        have := hc q hq (by omega) hqs
        rw [unmade_step P i q (by omega)] at this
        simpa [h2] using this
      have := ih hc' p hp hlt hps
      have e : p - i = (p - (i + 1)) + 1 := by omega
      rw [e]
      simpa using this
  | case2 i a b rest h1 h2 ih =>
    intro hc p hp hip hps
    have hni : P.contains i = false := by simpa using h2
    have hpi : p ≠ i := by intro e; subst e; exact h2 hp
    -- `i + 1` cannot be a named place: one unnamed place would precede it
    have hn1 : (i + 1) ∉ P := by
      intro hin
      have := hc (i + 1) hin (by omega) (by omega)
      rw [unmade_step P i (i + 1) (by omega), unmade_self] at this
      simp [h2] at this
    have hp1 : p ≠ i + 1 := by intro e; subst e; exact hn1 hp
    have hlt : i + 2 ≤ p := by omega
    have hc' : Consistent stage P (i + 2) := by
      intro q hq hiq hqs
      have := hc q hq (by omega) hqs
      rw [unmade_step P i q (by omega), unmade_step P (i + 1) q (by omega)] at this
      simp only [h2, hn1, if_false] at this
      have e2 : i + 1 + 1 = i + 2 := rfl
      rw [e2] at this
      omega
    have := ih hc' p hp hlt hps
    have e : p - i = (p - (i + 2)) + 2 := by omega
    rw [e]
    simpa using this
  | case3 i a b rest h1 => intro _ p _ _ _; rfl
  | case4 i l h => intro _ p _ _ _; rfl

/-- **Every place named in a parity-consistent change is made**: the bell in a named place `p ≤ stage`
stays there — for every stage, row and notation, with the implicit lead place taken into account. -/
theorem permute_makes_place (stage : Nat) (row : Row) (P : Places)
    (hc : Consistent stage P (if implicitLead P then 2 else 1)) (p : Nat) (hp : p ∈ P) (h1 : 1 ≤ p)
    (hps : p ≤ stage) : (permute stage row P)[p - 1]? = row[p - 1]? := by
  unfold permute
  by_cases hl : implicitLead P = true
  · simp only [hl, if_true] at hc ⊢
    cases row with
    | nil => rfl
    | cons a rest =>
      by_cases hp1 : p = 1
      · subst hp1; simp
      · have := permuteAux_makes_place stage P 2 rest hc p hp (by omega) hps
        have e : p - 1 = (p - 2) + 1 := by omega
        rw [e]
        simpa using this
  · simp only [hl, Bool.false_eq_true, if_false] at hc ⊢
    exact permuteAux_makes_place stage P 1 row hc p hp h1 hps

theorem permuteAux_swaps_unnamed (stage : Nat) (P : Places) :
    ∀ (i : Nat) (l : Row), Consistent stage P i →
      ∀ p, p ∉ P → i ≤ p → p < stage → p - i + 1 < l.length → unmade P i p % 2 = 0 →
        (permuteAux stage P i l)[p - i]? = l[p - i + 1]? ∧ (permuteAux stage P i l)[p - i + 1]? = l[p - i]? := by
  intro i l
  fun_induction permuteAux stage P i l with
  | case1 i a b rest h1 h2 ih =>
    intro hc p hp hip hps hlen hev
    have hpi : p ≠ i := by intro e; subst e; exact hp h2
    have hlt : i + 1 ≤ p := by omega
    have hc' : Consistent stage P (i + 1) := by
      intro q hq hiq hqs
      have := hc q hq (by omega) hqs
      rw [unmade_step P i q (by omega)] at this
      simpa [h2] using this
    have hev' : unmade P (i + 1) p % 2 = 0 := by
      rw [unmade_step P i p (by omega)] at hev
      simpa [h2] using hev
    have := ih hc' p hp hlt hps (by simp at hlen ⊢; omega) hev'
    have e : p - i = (p - (i + 1)) + 1 := by omega
    rw [e]
    simpa using this
  | case2 i a b rest h1 h2 ih =>
    intro hc p hp hip hps hlen hev
    have hn1 : (i + 1) ∉ P := by
      intro hin
      have := hc (i + 1) hin (by omega) (by omega)
      rw [unmade_step P i (i + 1) (by omega), unmade_self] at this
      simp [h2] at this
    by_cases hpi : p = i
    · subst hpi; simp
    · have hp1 : p ≠ i + 1 := by
        intro e; subst e
        rw [unmade_step P i (i + 1) (by omega), unmade_self] at hev
        simp [h2] at hev
      have hlt : i + 2 ≤ p := by omega
      have hc' : Consistent stage P (i + 2) := by
        intro q hq hiq hqs
        have := hc q hq (by omega) hqs
        rw [unmade_step P i q (by omega), unmade_step P (i + 1) q (by omega)] at this
        simp only [h2, hn1, if_false] at this
        have e2 : i + 1 + 1 = i + 2 := rfl
        rw [e2] at this
        omega
      have hev' : unmade P (i + 2) p % 2 = 0 := by
        rw [unmade_step P i p (by omega), unmade_step P (i + 1) p (by omega)] at hev
        simp only [h2, hn1, if_false] at hev
        have e2 : i + 1 + 1 = i + 2 := rfl
        rw [e2] at hev
        omega
      have := ih hc' p hp hlt hps (by simp at hlen ⊢; omega) hev'
      have e : p - i = (p - (i + 2)) + 2 := by omega
      rw [e]
      simpa using this
  | case3 i a b rest h1 => intro _ p _ hip hps _ _; omega
  | case4 i l h =>
    intro _ p _ _ _ hlen _
    exfalso
    match l, h with
    | [], _ => simp at hlen
    | [_], _ => simp at hlen
    | a :: b :: rest, h => exact h a b rest rfl

/-- **The unnamed places swap in pairs**: in a parity-consistent change the bell in an unnamed place
`p < stage` that has an even number of unnamed places before it changes places with its right-hand
neighbour (which is unnamed too). -/
theorem permute_swaps_unnamed (stage : Nat) (row : Row) (P : Places)
    (hc : Consistent stage P (if implicitLead P then 2 else 1)) (p : Nat) (hp : p ∉ P)
    (h1 : (if implicitLead P then 2 else 1) ≤ p) (hps : p < stage) (hlen : p < row.length)
    (hev : unmade P (if implicitLead P then 2 else 1) p % 2 = 0) :
    (permute stage row P)[p - 1]? = row[p]? ∧ (permute stage row P)[p]? = row[p - 1]? := by
  unfold permute
  by_cases hl : implicitLead P = true
  · simp only [hl, if_true] at hc h1 hev ⊢
    cases row with
    | nil => simp at hlen
    | cons a rest =>
      obtain ⟨k, rfl⟩ : ∃ k, p = k + 2 := ⟨p - 2, by omega⟩
      have := permuteAux_swaps_unnamed stage P 2 rest hc (k + 2) hp h1 hps (by simp at hlen; omega) hev
      simp only [Nat.add_sub_cancel] at this
      simp only [show k + 2 - 1 = k + 1 from rfl, List.getElem?_cons_succ]
      exact this
  · have hl' : implicitLead P = false := by simpa using hl
    simp only [hl', Bool.false_eq_true, if_false] at hc h1 hev ⊢
    obtain ⟨k, rfl⟩ : ∃ k, p = k + 1 := ⟨p - 1, by omega⟩
    have := permuteAux_swaps_unnamed stage P 1 row hc (k + 1) hp h1 hps (by omega) hev
    simpa using this
end Wheatley
