/-
Lifting an invariant of the regression rhythm to the timed world.

The regression rhythm object changes in six ways only: a strike is reported to it (`on_bell_ring`), a line is
initialised (`initialise_line`), a bell is expected (`expect_bell`), the peal speed or the inertia is set
(`change_setting`), its return flag is set or cleared.  A predicate that these preserve therefore holds of the rhythm
in every state of every run - for *all* events, any number of steps, any times, any interleaving of the socket
thread with the main thread, the sleeping Look To handler included.
-/
import Wheatley.Lemmas.Handlers
namespace Wheatley
variable {K : Type} [Num K]

/-- `P` is preserved by every operation on the regression rhythm. -/
structure RegInvariant (P : Reg K → Prop) : Prop where
  bellRing : ∀ (r : Reg K) (wt : K → K) (g : List (K × K × K) → K × K) (bell : Nat) (hand : Bool) (t : K),
    P r → P (r.onBellRing wt g bell hand t)
  init : ∀ (r : Reg K) (g : List (K × K × K) → K × K) (stage : Nat) (ut : Bool) (t : K),
    P r → P (r.initialiseLine g stage ut t)
  expect : ∀ (r : Reg K) (bell row place : Nat) (hand : Bool), P r → P (r.expect bell row place hand)
  speed : ∀ (r : Reg K) (s t : K), P r → P (r.changePealSpeed s t)
  flag : ∀ (r : Reg K) (b : Bool), P r → P { r with shouldReturn := b }
  inertia : ∀ (r : Reg K) (x : K), P r → P { r with preferredInertia := x }

namespace RegInvariant
variable {P : Reg K → Prop}

theorem withReg_some (w : World K) (f : (List (K × K × K) → K × K) → Reg K) : ∃ g, (w.withReg f).rh.reg = f g := by
  unfold World.withReg
  simp only []
  exact ⟨_, ite_proj (fun x : World K => x.rh.reg) _ _ _ _ rfl rfl⟩

theorem withReg (w : World K) (f : (List (K × K × K) → K × K) → Reg K) (hf : ∀ g, P (f g)) : P (w.withReg f).rh.reg := by
  obtain ⟨g, hg⟩ := withReg_some w f
  rw [hg]; exact hf g

theorem applyOut (h : RegInvariant P) (wt : K → K) (ct : K) (w : World K) (o : Out) (hp : P w.rh.reg) :
    P (World.applyOut wt ct w o).rh.reg := by
  unfold World.applyOut
  cases o <;> simp only []
  all_goals first
    | (split <;> exact hp)
    | skip
  · -- rReturn
    split
    · exact hp
    · exact h.flag _ true hp
  · -- rInit
    split
    · exact hp
    · split
      · apply withReg
        intro g
        exact h.init _ g _ _ _ hp
      · apply withReg
        intro g
        exact h.init _ g _ _ _ hp
  · -- rExpect
    split
    · exact hp
    · exact h.expect _ _ _ _ _ hp
  · -- rBellRing
    split
    · exact hp
    · show P (World.withReg _ _).rh.reg
      apply withReg
      intro g
      exact h.bellRing _ wt g _ _ _ hp
  · -- rSetting
    split
    · exact hp
    · split
      · split
        · split
          · exact h.speed _ _ _ hp
          · exact hp
        · exact hp
      · split
        · split
          · split
            · exact h.inertia _ _ hp
            · exact hp
          · exact hp
        · exact hp

theorem foldl (h : RegInvariant P) (wt : K → K) (ct : K) (outs : List Out) :
    ∀ (w : World K), P w.rh.reg → P (outs.foldl (World.applyOut wt ct) w).rh.reg := by
  induction outs with
  | nil => intro w hp; exact hp
  | cons o rest ih =>
    intro w hp
    simp only [List.foldl_cons]
    exact ih _ (h.applyOut wt ct w o hp)

theorem finishTick (h : RegInvariant P) (wt : K → K) (w : World K) (bell : Nat) (uc : Bool) (hp : P w.rh.reg) :
    P (w.finishTick wt bell uc).1.rh.reg := by
  unfold World.finishTick
  simp only []
  have h1 := h.foldl wt w.now (w.bot.tickEnd bell uc).2 ({ w with bot := (w.bot.tickEnd bell uc).1 } : World K) hp
  split
  · exact h1
  · exact h1

theorem afterInner (h : RegInvariant P) (wt : K → K) (w : World K) (bell : Nat) (uc hand : Bool) (d : K) (js : Bool)
    (hp : P w.rh.reg) : P (w.afterInner wt bell uc hand d js).1.rh.reg := by
  unfold World.afterInner
  split
  · split
    · simp only []
      split
      · exact h.finishTick wt _ bell uc hp
      · exact hp
    · exact h.finishTick wt _ bell uc hp
  · exact h.finishTick wt w bell uc hp

theorem beginWait_reg (w : World K) (bell : Nat) (uc hand : Bool) : (w.beginWait bell uc hand).1.rh.reg = w.rh.reg := by
  unfold World.beginWait
  split
  · rfl
  · simp only []
    split <;> (split <;> rfl)

/-- One step of the main thread. -/
theorem mainStep (h : RegInvariant P) (wt : K → K) (w : World K) (hp : P w.rh.reg) : P (w.mainStep wt).1.rh.reg := by
  unfold World.mainStep
  split
  · exact hp
  · split
    · split
      · split
        · simp only []
          have h1 := fun ct => h.foldl wt ct w.bot.lookTo.2 ({ w with bot := w.bot.lookTo.1 } : World K) hp
          split
          · exact h1 _
          · exact h1 _
        · exact hp
      · exact hp
    · exact hp
  · exact hp
  · split
    · exact hp
    · exact h.foldl wt w.now _ ({ w with pc := .ringCheck } : World K) hp
  · split
    · exact hp
    · exact hp
  · split
    · split
      · exact hp
      · show P (w.beginWait _ _ _).1.rh.reg
        rw [beginWait_reg]; exact hp
    · exact h.foldl wt w.now _ ({ w with pc := .outerTop } : World K) hp
  · split
    · exact hp
    · exact h.afterInner wt w _ _ _ _ _ hp
  · apply h.afterInner
    split
    · exact hp
    · exact h.flag _ false hp
  · exact h.afterInner wt w _ _ _ _ _ hp
  · exact hp

/-- One step of the socket thread, whatever the event. -/
theorem deliver (h : RegInvariant P) (wt : K → K) (w : World K) (e : Ev) (hp : P w.rh.reg) :
    P (World.deliver wt w e).rh.reg := by
  cases e with
  | resume =>
    unfold World.deliver
    simp only []
    split
    · rename_i s _
      unfold World.lookToResume World.lookToRest
      simp only []
      have hin : P (World.lookToInner ({ w with suspended := none } : World K) s).rh.reg := by
        unfold World.lookToInner
        split
        · apply withReg
          intro g
          exact h.init _ g _ _ _ hp
        · exact hp
      generalize World.lookToInner ({ w with suspended := none } : World K) s = wi at hin
      have h1 := h.foldl wt wi.now (wi.bot.armLookTo.startNextRow true).2
        ({ wi with bot := (wi.bot.armLookTo.startNextRow true).1 } : World K) hin
      split
      · exact h1
      · exact h1
    · exact hp
  | msg m =>
    unfold World.deliver
    simp only []
    split
    · unfold World.lookToBegin
      exact h.flag _ true hp
    · unfold World.deliverMsg
      simp only []
      have h1 := h.foldl wt w.now (w.bot.onMsg m).2 ({ w with bot := (w.bot.onMsg m).1 } : World K) hp
      split
      · exact h1
      · exact h1

theorem sleep_go (h : RegInvariant P) (wt : K → K) (limit : K) :
    ∀ (events : List (K × Ev)) (w : World K), P w.rh.reg → P (World.sleep.go wt limit w events).1.rh.reg := by
  intro events
  induction events with
  | nil => intro w hp; exact hp
  | cons ev rest ih =>
    intro w hp
    obtain ⟨t, m⟩ := ev
    unfold World.sleep.go
    split
    · apply ih
      apply h.deliver
      split
      · exact hp
      · exact hp
    · exact hp

theorem sleep (h : RegInvariant P) (wt : K → K) (endTime : K) (w : World K) (d : K) (events : List (K × Ev))
    (hp : P w.rh.reg) : P (World.sleep wt endTime w d events).1.rh.reg := by
  unfold World.sleep
  simp only []
  split
  · exact h.sleep_go wt endTime events w hp
  · exact h.sleep_go wt (w.now + d) events w hp

/-- **Every state of every run**, whatever the events and their times. -/
theorem run (h : RegInvariant P) (wt : K → K) (endTime : K) :
    ∀ (fuel : Nat) (w : World K) (events : List (K × Ev)), P w.rh.reg →
      P (World.run wt endTime fuel w events).1.rh.reg := by
  intro fuel
  induction fuel with
  | zero => intro w events hp; exact hp
  | succ fuel ih =>
    intro w events hp
    unfold World.run
    have hm := h.mainStep wt w hp
    split
    · rename_i w1 heq; rw [heq] at hm; exact hm
    · rename_i w1 heq; rw [heq] at hm; exact ih w1 events hm
    · rename_i w1 d heq
      rw [heq] at hm
      have hsl := h.sleep wt endTime w1 d events hm
      simp only []
      split
      · exact hsl
      · exact ih _ _ hsl

end RegInvariant
end Wheatley
