/-
Complete rows as an invariant of the Bot (for C01's system-level theorem): while the tower keeps its size, the Bot's
row is a rearrangement of the tower's bells whenever Wheatley is ringing - through every handler, every Look To
(gated or not), every `start_next_row`.
-/
import Wheatley.Lemmas.Gen
import Wheatley.Lemmas.StartRow
import Wheatley.Lemmas.BotInv
import Wheatley.Lemmas.Lift
namespace Wheatley
namespace Complete

/-- What a generator's configuration must satisfy for its rows to be rearrangements of its start row: nothing for
the notation- and rule-driven kinds (`permute` never loses a bell), for a composition every row of the payload - and
the rounds it falls back to when the payload is exhausted - is one; a placeholder never produces a row. -/
def GoodKind (k : GenKind) (sr : Row) : Prop :=
  match k with
  | .comp c => (∀ p ∈ c.rows, p.1.Perm sr) ∧ (rounds c.stage).Perm sr
  | _ => True

def GoodGen (g : Gen) : Prop := g.row.Perm g.startRow ∧ GoodKind g.kind g.startRow

theorem GoodGen.next {g : Gen} (h : GoodGen g) {hand : Bool} {g' : Gen} {r : Row} {calls : List String}
    (hn : g.next hand = .ok g' r calls) : r.Perm g.startRow ∧ GoodGen g' ∧ g'.startRow = g.startRow := by
  obtain ⟨k1, k2, k3⟩ := Gen.next_keeps g hand g' r calls hn
  have key : r.Perm g.startRow := by
    by_cases hp : g.Permuting
    · obtain ⟨places, hpl⟩ := Gen.next_permuting g hp hand g' r calls hn
      rw [hpl]
      exact (permute_perm g.stage g.row places).trans h.1
    · unfold Gen.Permuting at hp
      have h2 := h.2
      unfold Gen.next at hn
      split at hn
      · rename_i c hk; simp [hk, GenKind.permuting] at hp
      · rename_i c hk; simp [hk, GenKind.permuting] at hp
      · rename_i c hk; simp [hk, GenKind.permuting] at hp
      · rename_i c hk
        rw [hk] at h2
        simp only [GoodKind] at h2
        split at hn
        · rename_i r1 c1 heq
          injection hn with e1 e2 e3
          subst e2
          exact h2.1 _ (List.mem_of_getElem? heq)
        · injection hn with e1 e2 e3
          subst e2
          exact h2.2
      · cases hn
  refine ⟨key, ⟨by rw [k1, k2]; exact key, by rw [k3, k2]; exact h.2⟩, k2⟩

theorem GoodGen.reset {g : Gen} (h : GoodGen g) : GoodGen g.reset := ⟨List.Perm.refl _, h.2⟩
theorem GoodGen.setBob {g : Gen} (h : GoodGen g) : GoodGen g.setBob := h
theorem GoodGen.setSingle {g : Gen} (h : GoodGen g) : GoodGen g.setSingle := h

/-- The start row of a generator of stage `stage` is a prefix of the opening row of any tower at least that big: the
bells appended for the tower come after the ones appended for the stage. -/
theorem opening_extends (stage n : Nat) (cs : Option Row) (sr op : Row) (hle : stage ≤ n)
    (hs : startingRow stage cs = some sr) (ho : startingRow n cs = some op) : sr <+: op := by
  unfold startingRow at hs ho
  cases cs with
  | none =>
    simp only [Option.some.injEq] at hs ho
    subst hs ho
    obtain ⟨k, rfl⟩ := Nat.exists_eq_add_of_le hle
    refine ⟨(List.range' stage k).map (· + 1), ?_⟩
    simp only [Wheatley.rounds, List.range_eq_range', ← List.map_append]
    congr 1
    have := List.range'_append_1 (s := 0) (m := stage) (n := k)
    simpa using this
  | some c =>
    simp only at hs ho
    split at hs
    · cases hs
    · rename_i hd
      simp only [hd, Bool.false_eq_true, if_false, Option.some.injEq] at hs ho
      subst hs ho
      obtain ⟨k, rfl⟩ := Nat.exists_eq_add_of_le hle
      unfold appendMissing
      refine ⟨((List.range' stage k).map (· + 1)).filter (fun b => !c.contains b), ?_⟩
      rw [List.append_assoc, ← List.filter_append, ← List.map_append]
      congr 3
      have := List.range'_append_1 (s := 0) (m := stage) (n := k)
      simpa [List.range_eq_range'] using this

/-- The generator's start row is what `generate_starting_row` makes of its custom start row on its own stage, the
stage is within the tower, and the custom start row names bells of the tower only. -/
def Started (N : Nat) (g : Gen) : Prop :=
  startingRow g.stage g.customStart = some g.startRow ∧ g.stage ≤ N ∧
  (∀ c, g.customStart = some c → ∀ x ∈ c, 1 ≤ x ∧ x ≤ N)

theorem Started.of_cfg {N : Nat} {g g' : Gen} (h : Started N g) (hc : g'.cfg = g.cfg) : Started N g' := by
  simp only [Gen.cfg, Prod.mk.injEq] at hc
  obtain ⟨h1, h2, h3⟩ := hc
  unfold Started Gen.stage
  rw [h1, h2, h3]
  exact h

/-- A selection as Ringing Room's server mode makes them: complete rows, no custom start row, at most `N` bells. -/
def GoodSel (N : Nat) (g : Gen) : Prop :=
  GoodGen g ∧ g.startRow = rounds g.stage ∧ g.stage ≤ N ∧ g.customStart = none

theorem GoodSel.started {N : Nat} {g : Gen} (h : GoodSel N g) : Started N g := by
  obtain ⟨_, h2, h3, h4⟩ := h
  refine ⟨?_, h3, ?_⟩
  · rw [h4, h2]; rfl
  · intro c hc; rw [h4] at hc; cases hc

/-- The part of the invariant that does not depend on whether Wheatley is ringing. -/
structure Static (N : Nat) (b : Bot) : Prop where
  size : b.n = N
  rounds : b.rounds = Wheatley.rounds N
  op : startingRow N b.gen.customStart = some b.openingRow
  gen : GoodGen b.gen
  started : Started N b.gen
  srv : b.serverMode = true → b.gen.customStart = none
  queued : ∀ g, b.nextGen = some g → GoodSel N g ∧ b.serverMode = true

theorem Static.opening {N : Nat} {b : Bot} (h : Static N b) : b.openingRow.Perm (Wheatley.rounds N) :=
  startingRow_perm N _ _ h.op h.started.2.2

theorem Static.pre {N : Nat} {b : Bot} (h : Static N b) : b.gen.startRow <+: b.openingRow :=
  opening_extends _ _ _ _ _ h.started.2.1 h.started.1 h.op

theorem Static.congr {N : Nat} {b b' : Bot} (h : Static N b) (h1 : b'.n = b.n) (h2 : b'.rounds = b.rounds)
    (h3 : b'.openingRow = b.openingRow) (h4 : b'.gen = b.gen) (h5 : b'.nextGen = b.nextGen)
    (h6 : b'.serverId = b.serverId) : Static N b' := by
  have hsm : b'.serverMode = b.serverMode := by unfold Bot.serverMode; rw [h6]
  exact
  { size := by rw [h1]; exact h.size
    rounds := by rw [h2]; exact h.rounds
    op := by rw [h4, h3]; exact h.op
    gen := by rw [h4]; exact h.gen
    started := by rw [h4]; exact h.started
    srv := by rw [h4, hsm]; exact h.srv
    queued := by rw [h5, hsm]; exact h.queued }

/-- The generated row, padded with the opening row's tail, is a rearrangement of the opening row. -/
theorem padded_perm (r sr op : Row) (hperm : r.Perm sr) (hpre : sr <+: op) :
    (if r.length < op.length then r ++ op.drop r.length else r).Perm op := by
  obtain ⟨t, ht⟩ := hpre
  have hl : r.length = sr.length := hperm.length_eq
  rw [← ht, hl]
  simp only [List.length_append, List.drop_left']
  split
  · exact hperm.append_right t
  · rename_i hlt
    have : t = [] := by
      apply List.eq_nil_of_length_eq_zero; omega
    subst this; simpa using hperm

theorem generateNextRow_static (N : Nat) (b : Bot) (h : Static N b) :
    Static N (b.generateNextRow).1 ∧ (b.generateNextRow).1.isRinging = b.isRinging ∧
    ((b.generateNextRow).1.row.Perm (rounds N) ∨ (b.generateNextRow).1.row = b.row) := by
  unfold Bot.generateNextRow
  split
  · exact ⟨h.congr rfl rfl rfl rfl rfl rfl, rfl, Or.inl h.opening⟩
  · split
    · refine ⟨h.congr rfl rfl rfl rfl rfl rfl, rfl, Or.inl ?_⟩
      show b.rounds.Perm (rounds N)
      rw [h.rounds]
    · split
      · rename_i g' r calls hn
        obtain ⟨hr, hg', hs⟩ := h.gen.next hn
        have hcfg := Gen.next_cfg b.gen b.hand g' r calls hn
        have hcs : g'.customStart = b.gen.customStart := by
          simp only [Gen.cfg, Prod.mk.injEq] at hcfg; exact hcfg.2.1
        refine ⟨?_, rfl, Or.inl ?_⟩
        · exact { size := h.size, rounds := h.rounds,
                  op := (by show startingRow N g'.customStart = some b.openingRow; rw [hcs]; exact h.op),
                  gen := hg', started := h.started.of_cfg hcfg,
                  srv := (by intro hsm; show g'.customStart = none; rw [hcs]; exact h.srv hsm),
                  queued := h.queued }
        · exact (padded_perm r b.gen.startRow b.openingRow hr h.pre).trans h.opening
      · exact ⟨h, rfl, Or.inr rfl⟩
      · exact ⟨h, rfl, Or.inr rfl⟩

theorem snrFinish_static (N : Nat) (b : Bot) (o : List Out) (h : Static N b) :
    Static N (Bot.snrFinish b o).1 ∧ (Bot.snrFinish b o).1.isRinging = b.isRinging ∧
    ((Bot.snrFinish b o).1.row.Perm (rounds N) ∨ (Bot.snrFinish b o).1.row = b.row) := by
  unfold Bot.snrFinish
  split
  · exact ⟨h, rfl, Or.inr rfl⟩
  · have hg := generateNextRow_static N b h
    rcases hq : b.generateNextRow with ⟨b3, o9⟩
    rw [hq] at hg
    simp only [] at hg ⊢
    split <;> exact hg

theorem snrPrep_static (N : Nat) (b : Bot) (h : Static N b) :
    Static N b.snrPrep ∧ b.snrPrep.row = b.row ∧ b.snrPrep.ctl = b.ctl := by
  unfold Bot.snrPrep
  split <;> exact ⟨h.congr rfl rfl rfl rfl rfl rfl, rfl, rfl⟩

theorem ctlStep_ringing (c : Ctl) (i : CtlIn) (c' : Ctl) (s : Bool) (h : ctlStep c i = .ok c' s)
    (hr : c'.isRinging = true) : c.isRinging = true := by
  unfold ctlStep at h
  split at h
  · cases h
  · injection h with e1 e2
    subst e1
    cases hc : c.isRinging
    · simp [ctlNext, hc] at hr
    · rfl

/-- `start_next_row` keeps the static part, never *starts* Wheatley ringing, and leaves in `_row` either a complete
row or the row that was there. -/
theorem startNextRow_static (N : Nat) (b : Bot) (f : Bool) (h : Static N b) :
    Static N (b.startNextRow f).1 ∧ ((b.startNextRow f).1.isRinging = true → b.isRinging = true) ∧
    ((b.startNextRow f).1.row.Perm (rounds N) ∨ (b.startNextRow f).1.row = b.row) := by
  obtain ⟨hp, hprow, hpctl⟩ := snrPrep_static N b h
  unfold Bot.startNextRow
  split
  · refine ⟨hp, ?_, Or.inr hprow⟩
    intro hr
    have : b.snrPrep.ctl.isRinging = true := hr
    rw [hpctl] at this
    exact this
  · rename_i c started hstep
    simp only []
    have hring := ctlStep_ringing _ _ _ _ hstep
    have hq : Static N ((if started = true then b.snrPrep.resetGen else b.snrPrep).withCtl c) ∧
        ((if started = true then b.snrPrep.resetGen else b.snrPrep).withCtl c).row = b.row ∧
        ((if started = true then b.snrPrep.resetGen else b.snrPrep).withCtl c).isRinging = c.isRinging := by
      split
      · refine ⟨?_, hprow, rfl⟩
        exact { size := hp.size, rounds := hp.rounds, op := hp.op, gen := hp.gen.reset, started := hp.started,
                srv := hp.srv, queued := hp.queued }
      · exact ⟨hp.congr rfl rfl rfl rfl rfl rfl, hprow, rfl⟩
    generalize (if started = true then b.snrPrep.resetGen else b.snrPrep).withCtl c = q at hq
    obtain ⟨hs, hrow, hri⟩ := hq
    obtain ⟨f1, f2, f3⟩ := snrFinish_static N q _ hs
    refine ⟨f1, ?_, ?_⟩
    · intro hr
      rw [f2, hri] at hr
      exact hring hr
    · rcases f3 with f3 | f3
      · exact Or.inl f3
      · exact Or.inr (f3.trans hrow)

/-- The first row of a touch is the opening row. -/
theorem arm_row (b : Bot) :
    (b.armLookTo.startNextRow true).1.isRinging = true → (b.armLookTo.startNextRow true).1.row = b.openingRow := by
  generalize hd : b.armLookTo = d
  have hop : d.openingRow = b.openingRow := by subst hd; rfl
  have hro : d.ringingOpening = true := by subst hd; rfl
  have hrl : d.roundsLeft = (if !b.upDownIn then none else if d.gen.startHand then some 2 else some 3) := by
    subst hd; simp [Bot.armLookTo, Generated.upDownInHand, Generated.upDownInBack]
  have hne : startsNow d.ctl = false := by
    simp only [startsNow, Bot.ctl, hrl]
    cases b.upDownIn <;> simp
    split <;> simp
  have hstep : ctlStep d.ctl (d.ctlIn true) = .ok (ctlNext d.ctl (d.ctlIn true)) false := by
    simp [ctlStep, assertFails, hne]
  unfold Bot.startNextRow
  rw [hstep]
  simp only [Bool.false_and, Bool.false_eq_true, if_false]
  have hopen : (d.snrPrep.withCtl (ctlNext d.ctl (d.ctlIn true))).ringingOpening = true := by
    show (ctlNext d.ctl (d.ctlIn true)).ringingOpening = true
    simp only [ctlNext, hne, Bool.false_eq_true, if_false]
    exact hro
  have hopr : (d.snrPrep.withCtl (ctlNext d.ctl (d.ctlIn true))).openingRow = b.openingRow := by
    show d.snrPrep.openingRow = b.openingRow
    rw [(snrPrep_fields d).2.1, hop]
  generalize d.snrPrep.withCtl (ctlNext d.ctl (d.ctlIn true)) = q at hopen hopr
  unfold Bot.snrFinish
  split
  · rename_i hnr
    intro hr
    simp only [] at hr
    rw [hr] at hnr
    simp at hnr
  · have hg : q.generateNextRow = ({ q with row := q.openingRow }, []) := by
      unfold Bot.generateNextRow; simp [hopen]
    rw [hg]
    simp only [List.any_nil, Bool.false_eq_true, if_false]
    intro _
    exact hopr

/-- The invariant: the static part, and a complete row while ringing. -/
def Inv (N : Nat) (b : Bot) : Prop := Static N b ∧ (b.isRinging = true → b.row.Perm (rounds N))

theorem armLookTo_static (N : Nat) (b : Bot) (h : Static N b) : Static N b.armLookTo := by
  unfold Bot.armLookTo
  simp only []
  cases hn : b.nextGen with
  | none =>
    exact { size := h.size, rounds := h.rounds, op := h.op, gen := h.gen, started := h.started, srv := h.srv,
            queued := (by intro g hg; cases hg) }
  | some g =>
    obtain ⟨hg, hsm⟩ := h.queued g hn
    have hcs : b.gen.customStart = none := h.srv hsm
    exact { size := h.size, rounds := h.rounds,
            op := (by show startingRow N g.customStart = some b.openingRow; rw [hg.2.2.2, ← hcs]; exact h.op),
            gen := hg.1, started := hg.started, srv := (fun _ => hg.2.2.2),
            queued := (by intro g hg; cases hg) }

theorem arm_inv (N : Nat) (b : Bot) (h : Inv N b) : Inv N (b.armLookTo.startNextRow true).1 := by
  obtain ⟨f1, _, _⟩ := startNextRow_static N b.armLookTo true (armLookTo_static N b h.1)
  refine ⟨f1, fun hr => ?_⟩
  rw [arm_row b hr]
  exact h.1.opening

theorem tick_inv (N : Nat) (b : Bot) (bell : Nat) (uc : Bool) (h : Inv N b) : Inv N (b.tickEnd bell uc).1 := by
  unfold Bot.tickEnd
  simp only []
  split
  · have hs : Static N ({ b with place := b.place + 1 } : Bot) := h.1.congr rfl rfl rfl rfl rfl rfl
    obtain ⟨f1, f2, f3⟩ := startNextRow_static N _ false hs
    refine ⟨f1, fun hr => ?_⟩
    rcases f3 with f3 | f3
    · exact f3
    · rw [f3]; exact h.2 (f2 hr)
  · exact ⟨h.1.congr rfl rfl rfl rfl rfl rfl, h.2⟩

/-- Messages that leave the tower at `N` bells, and selections that fit it: strikes and global states (the bells set
at hand, a reconnection) carry a state of `N` bells, a size message repeats the size, a selected method or
composition has at most `N` bells, starts from rounds and has complete rows.  Everything else - calls, assignments, comings and goings, settings, Stop Touch - is unrestricted. -/
def Fixed (N : Nat) : Ev → Prop
  | .msg (.bellRung st _) => st.length = N
  | .msg (.globalState st) => st.length = N
  | .msg (.sizeChange n) => n = N
  | .msg (.rowGen (some g)) => GoodSel N g
  | _ => True

theorem rounds_prefix (s N : Nat) (h : s ≤ N) : rounds s <+: rounds N := by
  obtain ⟨k, rfl⟩ := Nat.exists_eq_add_of_le h
  refine ⟨(List.range' s k).map (· + 1), ?_⟩
  simp only [rounds, List.range_eq_range', ← List.map_append]
  congr 1
  have := List.range'_append_1 (s := 0) (m := s) (n := k)
  simpa using this

theorem foldSettings_inv (N : Nat) : ∀ (kvs : List (String × SVal)) (b : Bot), Inv N b → Inv N (foldSettings b kvs).1 := by
  intro kvs
  induction kvs with
  | nil => intro b h; exact h
  | cons kv rest ih =>
    intro b h
    obtain ⟨k, v⟩ := kv
    unfold foldSettings
    simp only []
    apply ih
    unfold Bot.onSetting
    split
    · split <;> first | exact ⟨h.1.congr rfl rfl rfl rfl rfl rfl, h.2⟩ | exact h
    · split
      · split <;> first | exact ⟨h.1.congr rfl rfl rfl rfl rfl rfl, h.2⟩ | exact h
      · split
        · split <;> first | exact ⟨h.1.congr rfl rfl rfl rfl rfl rfl, h.2⟩ | exact h
        · exact h

theorem msg_inv (N : Nat) (b : Bot) (m : Msg) (hm : Fixed N (.msg m)) (h : Inv N b) : Inv N (b.onMsg m).1 := by
  have keep : ∀ b' : Bot, b'.n = b.n → b'.rounds = b.rounds → b'.openingRow = b.openingRow → b'.gen = b.gen →
      b'.nextGen = b.nextGen → b'.serverId = b.serverId → b'.isRinging = b.isRinging → b'.row = b.row → Inv N b' := by
    intro b' h1 h2 h3 h4 h5 h6 h7 h8
    refine ⟨h.1.congr h1 h2 h3 h4 h5 h6, ?_⟩
    rw [h7, h8]; exact h.2
  cases m with
  | bellRung st who =>
    unfold Bot.onMsg
    simp only []
    have hn : ({ b with tower := b.tower.apply (.bellRung st who) } : Bot).n = b.n := by
      show st.length = b.n
      rw [h.1.size]; exact hm
    split
    · exact keep _ hn rfl rfl rfl rfl rfl rfl rfl
    · split <;> exact keep _ hn rfl rfl rfl rfl rfl rfl rfl
  | globalState st =>
    unfold Bot.onMsg
    simp only []
    generalize hq : ({ b with tower := b.tower.apply (.globalState st) } : Bot) = q
    have hqn : q.n = N := by subst hq; exact hm
    have hqs : Static N q := by
      subst hq
      exact { size := hqn, rounds := h.1.rounds, op := h.1.op, gen := h.1.gen, started := h.1.started, srv := h.1.srv,
              queued := h.1.queued }
    have hqr : q.isRinging = true → q.row.Perm (rounds N) := by subst hq; exact h.2
    unfold Bot.onSizeChange
    split
    · exact ⟨hqs, hqr⟩
    · rename_i op hop
      rw [hqn] at hop
      refine ⟨?_, hqr⟩
      exact { size := hqn, rounds := (by show Wheatley.rounds q.n = Wheatley.rounds N; rw [hqn]), op := hop,
              gen := hqs.gen, started := hqs.started, srv := hqs.srv,
              queued := (by
                intro g hg
                have hg' : q.nextGen = some g := by
                  revert hg
                  show (match q.nextGen with
                        | some g => if ({ q with openingRow := op, rounds := Wheatley.rounds q.n } : Bot).checkNumberOfBells g
                                    then some g else none
                        | none => none) = some g → q.nextGen = some g
                  cases q.nextGen with
                  | none => intro hg; cases hg
                  | some g0 =>
                    simp only []
                    split
                    · intro hg; exact hg
                    · intro hg; cases hg
                exact hqs.queued g hg') }
  | userEntered id name => unfold Bot.onMsg; exact keep _ rfl rfl rfl rfl rfl rfl rfl rfl
  | userList us => unfold Bot.onMsg; exact keep _ rfl rfl rfl rfl rfl rfl rfl rfl
  | sizeChange n =>
    unfold Bot.onMsg
    simp only []
    have hn : n = b.n := by rw [h.1.size]; exact hm
    have ht : b.tower.apply (.sizeChange n) = b.tower := by
      unfold Tower.apply
      have : (n != b.tower.size) = false := by
        rw [hn]; simp [Bot.n]
      simp [this]
    have hne : (n != b.n) = false := by rw [hn]; simp
    simp only [hne, Bool.false_eq_true, if_false]
    exact keep _ (by show (b.tower.apply (.sizeChange n)).size = b.tower.size; rw [ht]) rfl rfl rfl rfl rfl rfl rfl
  | assign bell user =>
    unfold Bot.onMsg
    simp only []
    refine keep _ ?_ rfl rfl rfl rfl rfl rfl rfl
    show (b.tower.apply (.assign bell user)).size = b.tower.size
    simp only [Tower.apply]
    split <;> rfl
  | userLeft id => unfold Bot.onMsg; exact keep _ rfl rfl rfl rfl rfl rfl rfl rfl
  | stopTouch =>
    unfold Bot.onMsg
    simp only []
    split
    · exact ⟨h.1.congr rfl rfl rfl rfl rfl rfl, fun hr => by cases hr⟩
    · exact keep _ rfl rfl rfl rfl rfl rfl rfl rfl
  | rowGen g =>
    unfold Bot.onMsg
    simp only []
    split
    · rename_i hsm
      cases g with
      | none => exact keep _ rfl rfl rfl rfl rfl rfl rfl rfl
      | some g =>
        refine ⟨?_, h.2⟩
        exact { size := h.1.size, rounds := h.1.rounds, op := h.1.op, gen := h.1.gen, started := h.1.started,
                srv := h.1.srv,
                queued := (by
                  intro g' hg'
                  injection hg' with hg'
                  subst hg'
                  exact ⟨hm, hsm⟩) }
    · exact keep _ rfl rfl rfl rfl rfl rfl rfl rfl
  | setting kvs =>
    unfold Bot.onMsg
    simp only []
    split
    · exact foldSettings_inv N kvs _ (keep _ rfl rfl rfl rfl rfl rfl rfl rfl)
    · exact keep _ rfl rfl rfl rfl rfl rfl rfl rfl
  | call c =>
    unfold Bot.onMsg
    simp only []
    have hb : Inv N ({ b with tower := b.tower.apply (.call c) } : Bot) := keep _ rfl rfl rfl rfl rfl rfl rfl rfl
    generalize ({ b with tower := b.tower.apply (.call c) } : Bot) = q at hb
    unfold Bot.onCall
    split
    · unfold Bot.onLookTo
      split
      · unfold Bot.lookTo
        split
        · exact hb
        · exact arm_inv N q hb
      · exact hb
    · split
      · unfold Bot.onGo
        split
        · exact ⟨hb.1.congr rfl rfl rfl rfl rfl rfl, hb.2⟩
        · exact hb
      · split
        · refine ⟨?_, hb.2⟩
          exact { size := hb.1.size, rounds := hb.1.rounds, op := hb.1.op, gen := hb.1.gen.setBob,
                  started := hb.1.started, srv := hb.1.srv, queued := hb.1.queued }
        · split
          · refine ⟨?_, hb.2⟩
            exact { size := hb.1.size, rounds := hb.1.rounds, op := hb.1.op, gen := hb.1.gen.setSingle,
                    started := hb.1.started, srv := hb.1.srv, queued := hb.1.queued }
          · split
            · exact ⟨hb.1.congr rfl rfl rfl rfl rfl rfl, hb.2⟩
            · split
              · exact ⟨hb.1.congr rfl rfl rfl rfl rfl rfl, hb.2⟩
              · split
                · exact ⟨hb.1.congr rfl rfl rfl rfl rfl rfl, hb.2⟩
                · exact hb

/-- The three together: `Inv N` is an invariant of the Bot for the events that keep the tower at `N` bells. -/
theorem botInvariant (N : Nat) : BotInvariant (Inv N) (Fixed N) :=
  { arm := arm_inv N, tick := tick_inv N, msg := msg_inv N }

end Complete
end Wheatley
