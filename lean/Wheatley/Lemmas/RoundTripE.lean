import Wheatley.Lemmas.RoundTrip
import Wheatley.Lemmas.RoundTripD
namespace Wheatley.RoundTrip

/-! ### After the substitution: strip, collapse double dots, split -/

def sepOf (t1 t2 : Tok) : List Char := if t1.isCross && t2.isCross then ['.', '.'] else ['.']

/-- The block between the stripped ends: pieces joined by one dot, two between adjacent crosses. -/
def J : List Tok → List Char
  | [] => []
  | [t] => t.piece
  | t1 :: t2 :: rest => t1.piece ++ (sepOf t1 t2 ++ J (t2 :: rest))

def trail : List Tok → List Char
  | [] => []
  | [.cross ..] => ['.']
  | [.pl _] => []
  | _ :: t2 :: rest => trail (t2 :: rest)

def leadOf (prev : Bool) : Tok → List Char
  | .cross .. => ['.']
  | .pl _ => if prev then ['.'] else []

theorem canon_eq : ∀ (rest : List Tok) (t : Tok) (prev : Bool),
    canon prev (t :: rest) = leadOf prev t ++ (J (t :: rest) ++ trail (t :: rest)) := by
  intro rest
  induction rest with
  | nil =>
    intro t prev
    cases t with
    | cross sym b a => rfl
    | pl ps => cases prev <;> simp [canon, leadOf, J, trail, Tok.piece]
  | cons t2 r ih =>
    intro t prev
    cases t with
    | cross sym b a =>
      simp only [canon, ih t2 false, leadOf, J, trail, Tok.piece, sepOf, Tok.isCross, Bool.true_and]
      cases t2 with
      | cross s2 b2 a2 => simp [leadOf]
      | pl ps2 => simp [leadOf]
    | pl ps =>
      simp only [canon, ih t2 true, leadOf, J, trail, Tok.piece, sepOf, Tok.isCross, Bool.false_and]
      cases t2 with
      | cross s2 b2 a2 => cases prev <;> simp
      | pl ps2 => cases prev <;> simp

def isStrip (c : Char) : Bool := stripSet.contains c

/-- `s.strip(".&+ ")` of padding ++ core ++ padding is the core, when the core begins and ends with
characters that are not padding. -/
theorem strip_core (a b m : List Char) (x y : Char) (xs ys : List Char)
    (ha : ∀ c ∈ a, isStrip c = true) (hb : ∀ c ∈ b, isStrip c = true)
    (hm1 : m = x :: xs) (hm2 : m = ys ++ [y])
    (hx : isStrip x = false) (hy : isStrip y = false) :
    stripPN (a ++ m ++ b) = m := by
  have dw : ∀ (a m : List Char), (∀ c ∈ a, isStrip c = true) →
      (a ++ m).dropWhile (stripSet.contains ·) = m.dropWhile (stripSet.contains ·) := by
    intro a m h
    induction a with
    | nil => rfl
    | cons c cs ih =>
      have hc : stripSet.contains c = true := h c (by simp)
      simp only [List.cons_append, List.dropWhile_cons, hc, if_true]
      exact ih (fun z hz => h z (by simp [hz]))
  unfold stripPN
  rw [List.append_assoc, dw a _ ha]
  have hx' : stripSet.contains x = false := hx
  have hy' : stripSet.contains y = false := hy
  have h1 : (m ++ b).dropWhile (stripSet.contains ·) = m ++ b := by
    rw [hm1]
    simp only [List.cons_append, List.dropWhile_cons, hx', Bool.false_eq_true, if_false]
  rw [h1]
  have h2 : (m ++ b).reverse = b.reverse ++ (y :: ys.reverse) := by
    rw [hm2]; simp [List.reverse_append]
  rw [h2, dw b.reverse _ (fun c hc => hb c (by simpa using hc))]
  simp only [List.dropWhile_cons, hy', Bool.false_eq_true, if_false]
  rw [hm2]; simp

theorem piece_nodot (t : Tok) (h : t.WF) : '.' ∉ t.piece := by
  cases t with
  | cross sym b a => simp [Tok.piece]
  | pl ps =>
    intro hm
    simp only [Tok.piece, List.mem_map] at hm
    obtain ⟨p, hp, he⟩ := hm
    exact (bell_ok p (h.2 p hp)).1 he

theorem piece_first (t : Tok) (h : t.WF) : ∃ x xs, t.piece = x :: xs ∧ isStrip x = false := by
  cases t with
  | cross sym b a => exact ⟨'-', [], rfl, by decide⟩
  | pl ps =>
    obtain ⟨hne, hb⟩ := h
    cases ps with
    | nil => exact absurd rfl hne
    | cons p ps' => exact ⟨bellChar p, ps'.map bellChar, rfl, (bell_ok p (hb p (by simp))).2.2.1⟩

theorem piece_last (t : Tok) (h : t.WF) : ∃ ys y, t.piece = ys ++ [y] ∧ isStrip y = false := by
  cases t with
  | cross sym b a => exact ⟨[], '-', rfl, by decide⟩
  | pl ps =>
    obtain ⟨hne, hb⟩ := h
    refine ⟨ps.dropLast.map bellChar, bellChar (ps.getLast hne), ?_, ?_⟩
    · show ps.map bellChar = _
      conv => lhs; rw [← List.dropLast_concat_getLast hne]
      simp
    · exact (bell_ok _ (hb _ (List.getLast_mem hne))).2.2.1

theorem J_first (t : Tok) (rest : List Tok) (h : t.WF) : ∃ x xs, J (t :: rest) = x :: xs ∧ isStrip x = false := by
  obtain ⟨x, xs, hp, hx⟩ := piece_first t h
  cases rest with
  | nil => exact ⟨x, xs, hp, hx⟩
  | cons t2 r => exact ⟨x, xs ++ (sepOf t t2 ++ J (t2 :: r)), by simp [J, hp], hx⟩

theorem J_last : ∀ (rest : List Tok) (t : Tok), (∀ u ∈ t :: rest, u.WF) →
    ∃ ys y, J (t :: rest) = ys ++ [y] ∧ isStrip y = false := by
  intro rest
  induction rest with
  | nil => intro t h; exact piece_last t (h t (by simp))
  | cons t2 r ih =>
    intro t h
    obtain ⟨ys, y, hj, hy⟩ := ih t2 (fun u hu => h u (by simp [hu]))
    exact ⟨t.piece ++ (sepOf t t2 ++ ys), y, by simp [J, hj], hy⟩

theorem trail_strip (l : List Tok) : ∀ c ∈ trail l, isStrip c = true := by
  induction l with
  | nil => simp [trail]
  | cons t r ih =>
    cases r with
    | nil => cases t <;> simp [trail] <;> decide
    | cons t2 r2 => simpa [trail] using ih

/-- Collapsing the double dots of the stripped block leaves the pieces joined by single dots. -/
theorem dedup_J : ∀ (rest : List Tok) (t : Tok), (∀ u ∈ t :: rest, u.WF) →
    dedupDots (J (t :: rest)) = joinWith '.' ((t :: rest).map Tok.piece) := by
  intro rest
  induction rest with
  | nil =>
    intro t h
    have := dedup_dotfree t.piece [] (piece_nodot t (h t (by simp)))
    simpa [J, joinWith, dedupDots] using this
  | cons t2 r ih =>
    intro t h
    have hwf2 : ∀ u ∈ t2 :: r, u.WF := fun u hu => h u (by simp [hu])
    simp only [J, List.map_cons, joinWith]
    rw [dedup_dotfree _ _ (piece_nodot t (h t (by simp)))]
    congr 1
    obtain ⟨x, xs, hj, hx⟩ := J_first t2 r (h t2 (by simp))
    have hxd : x ≠ '.' := by intro e; subst e; exact absurd hx (by decide)
    have ih' := ih t2 hwf2
    simp only [List.map_cons] at ih'
    unfold sepOf
    split
    · show dedupDots ('.' :: '.' :: J (t2 :: r)) = _
      rw [dedup_dotdot, ih']
    · show dedupDots ('.' :: J (t2 :: r)) = _
      rw [hj, dedup_dot_then x xs hxd, ← hj, ih']

end Wheatley.RoundTrip
