/-
C20 — Wheatley's picture of the tower always matches the message history.

`Tower.apply` is the model of the `RingingRoomTower` handlers (association lists, filters).  The
specification below says, per bell and per user id, what the *history* implies — "the last relevant
message" — without any data structure.  The refinement theorem holds for every history.
-/
import Wheatley.Lemmas.Assoc
import Wheatley.Lemmas.BotInv
import Wheatley.Model.Page
import Wheatley.Model.World
import Wheatley.Lemmas.Lift
namespace Wheatley.C20

/-- The view after a history of server messages (oldest first), starting from the empty view. -/
def view (hist : List Msg) : Tower := hist.foldl Tower.apply Tower.empty

/-! ### Specification (history most recent first) -/

/-- The strokes of the bells: the state carried by the last strike / global state, or all bells at
hand after a real size change. -/
def strokesSpec : List Msg → List Bool
  | [] => []
  | .bellRung st _ :: _ => st
  | .globalState st :: _ => st
  | .sizeChange n :: older => if n ≠ (strokesSpec older).length then List.replicate n true else strokesSpec older
  | _ :: older => strokesSpec older

/-- Who holds bell `b`: the last assignment of `b`, unless that user left since, or the bell was
removed by a real size change since. -/
def holderSpec : List Msg → Nat → Option Nat
  | [], _ => none
  | .assign b' u :: older, b => if b = b' then (if u = 0 then none else some u) else holderSpec older b
  | .userLeft id :: older, b => if holderSpec older b = some id then none else holderSpec older b
  | .sizeChange n :: older, b =>
    if n ≠ (strokesSpec older).length ∧ n < b then none else holderSpec older b
  | _ :: older, b => holderSpec older b

/-- The name of user `i`: the last announcement of `i` (single, or in a user list). -/
def nameSpec : List Msg → Nat → Option String
  | [], _ => none
  | .userEntered id name :: older, i => if i = id then some name else nameSpec older i
  | .userList users :: older, i =>
    match users.reverse.find? (fun p => p.1 == i) with
    | some p => some p.2
    | none => nameSpec older i
  | _ :: older, i => nameSpec older i

/-- The view `t` is what the history `older` (most recent first) implies. -/
structure Matches (t : Tower) (older : List Msg) : Prop where
  uAssigned : UniqueKeys t.assigned
  uNames : UniqueKeys t.userNames
  strokes : t.bellState = strokesSpec older
  holder : ∀ b, alGet t.assigned b = holderSpec older b
  name : ∀ i, alGet t.userNames i = nameSpec older i

theorem fold_names (users : List (Nat × String)) :
    ∀ (m : List (Nat × String)), UniqueKeys m →
      UniqueKeys (users.foldl (fun m (p : Nat × String) => alSet m p.1 p.2) m) ∧
      ∀ i, alGet (users.foldl (fun m (p : Nat × String) => alSet m p.1 p.2) m) i =
        match users.reverse.find? (fun p => p.1 == i) with
        | some p => some p.2
        | none => alGet m i := by
  induction users with
  | nil => intro m hm; exact ⟨hm, fun i => by simp⟩
  | cons u rest ih =>
    intro m hm
    obtain ⟨id, nm⟩ := u
    have hu := uniqueKeys_alSet m id nm hm
    obtain ⟨h1, h2⟩ := ih (alSet m id nm) hu
    refine ⟨h1, ?_⟩
    intro i
    simp only [List.foldl_cons]
    rw [h2 i]
    simp only [List.reverse_cons, List.find?_append]
    cases hf : rest.reverse.find? (fun p => p.1 == i) with
    | some p => simp
    | none =>
      simp only [Option.none_or, List.find?_cons, List.find?_nil]
      rw [alGet_alSet m hm]
      by_cases hi : i = id
      · subst hi; simp
      · have : (id == i) = false := by simpa using (Ne.symm hi)
        simp [hi, this]

/-- **One message**: if the view matches the history so far, the handler's update matches the history
extended by that message. -/
theorem step (t : Tower) (older : List Msg) (m : Msg) (h : Matches t older) : Matches (t.apply m) (m :: older) := by
  obtain ⟨ua, un, hs, hh, hn⟩ := h
  have hsize : t.size = (strokesSpec older).length := by simp [Tower.size, hs]
  cases m with
  | bellRung st who => exact ⟨ua, un, rfl, hh, hn⟩
  | globalState st => exact ⟨ua, un, rfl, hh, hn⟩
  | userEntered id name =>
    refine ⟨ua, uniqueKeys_alSet _ _ _ un, hs, hh, ?_⟩
    intro i
    simp only [Tower.apply, nameSpec]
    rw [alGet_alSet _ un, hn i]
  | userList users =>
    have hf := fold_names users t.userNames un
    refine ⟨ua, ?_, hs, hh, ?_⟩
    · exact hf.1
    · intro i
      simp only [Tower.apply, nameSpec]
      have := hf.2 i
      rw [this, hn i]
  | sizeChange n =>
    simp only [Tower.apply]
    by_cases hne : n = t.size
    · have : (n != t.size) = false := by simp [hne]
      simp only [this, Bool.false_eq_true, if_false]
      refine ⟨ua, un, ?_, ?_, hn⟩
      · simp only [strokesSpec]; rw [← hsize]; simp [hne, hs]
      · intro b; simp only [holderSpec]; rw [← hsize]; simp [hne, hh b]
    · have : (n != t.size) = true := by simpa using hne
      simp only [this, if_true]
      refine ⟨uniqueKeys_filter _ _ ua, un, ?_, ?_, hn⟩
      · simp only [strokesSpec]; rw [← hsize]; simp [hne]
      · intro b
        simp only [holderSpec]
        rw [← hsize, alGet_filter _ ua, hh b]
        by_cases hb : n < b
        · have hnb : ¬ b ≤ n := by omega
          simp only [hne, ne_eq, not_false_eq_true, hb, and_self, if_true]
          cases holderSpec older b <;> simp [hnb]
        · have hnb : b ≤ n := by omega
          simp only [hb, and_false, if_false]
          cases holderSpec older b <;> simp [hnb]
  | assign bell user =>
    simp only [Tower.apply]
    by_cases hu : user = 0
    · have : (user == 0) = true := by simp [hu]
      simp only [this, if_true]
      refine ⟨uniqueKeys_filter _ _ ua, un, hs, ?_, hn⟩
      intro b
      simp only [holderSpec, hu, if_true, alErase]
      rw [alGet_filter _ ua, hh b]
      by_cases hb : b = bell
      · subst hb; cases holderSpec older b <;> simp
      · simp only [hb, if_false]; cases holderSpec older b <;> simp [hb]
    · have : (user == 0) = false := by simpa using hu
      simp only [this, Bool.false_eq_true, if_false]
      refine ⟨uniqueKeys_alSet _ _ _ ua, un, hs, ?_, hn⟩
      intro b
      simp only [holderSpec, hu, if_false]
      rw [alGet_alSet _ ua, hh b]
  | call c => exact ⟨ua, un, hs, hh, hn⟩
  | userLeft id =>
    simp only [Tower.apply]
    refine ⟨uniqueKeys_filter _ _ ua, un, hs, ?_, hn⟩
    intro b
    simp only [holderSpec]
    rw [alGet_filter _ ua, hh b]
    cases hq : holderSpec older b with
    | none => simp
    | some v =>
      by_cases hv : v = id
      · subst hv; simp
      · simp [hv]
  | setting kvs => exact ⟨ua, un, hs, hh, hn⟩
  | rowGen g => exact ⟨ua, un, hs, hh, hn⟩
  | stopTouch => exact ⟨ua, un, hs, hh, hn⟩

theorem run (hist : List Msg) : ∀ (t : Tower) (older : List Msg), Matches t older →
    Matches (hist.foldl Tower.apply t) (hist.reverse ++ older) := by
  induction hist with
  | nil => intro t older h; simpa using h
  | cons m rest ih =>
    intro t older h
    have := ih (t.apply m) (m :: older) (step t older m h)
    simpa [List.foldl_cons, List.reverse_cons, List.append_assoc] using this

/-- **Refinement**: after *any* history of server messages the view is exactly what the history
implies — size and strokes, who holds which bell, and every user's name. -/
theorem tower_refines_spec (hist : List Msg) : Matches (view hist) hist.reverse := by
  have h0 : Matches Tower.empty [] :=
    ⟨by simp [UniqueKeys, Tower.empty], by simp [UniqueKeys, Tower.empty], rfl,
     fun b => by simp [Tower.empty, alGet, holderSpec], fun i => by simp [Tower.empty, alGet, nameSpec]⟩
  have := run hist Tower.empty [] h0
  rw [List.append_nil] at this
  exact this

/-- The size of the tower is the length of the implied stroke list. -/
theorem size_spec (hist : List Msg) : (view hist).size = (strokesSpec hist.reverse).length := by
  simp [Tower.size, (tower_refines_spec hist).strokes]

/-- **Whose bell**: "is bell `b` assigned to `name`" computed on the view equals the same question
asked of the history. -/
theorem is_assigned_spec (hist : List Msg) (b : Nat) (name : Option String) :
    (view hist).isAssignedTo b name = true ↔
      ((holderSpec hist.reverse b = none ∧ name = none) ∨
       (∃ id, holderSpec hist.reverse b = some id ∧ nameSpec hist.reverse id = name)) := by
  have h := tower_refines_spec hist
  unfold Tower.isAssignedTo
  rw [h.holder b]
  cases hq : holderSpec hist.reverse b with
  | none => simp
  | some id => simp [h.name id]

theorem snrFinish_tower (b : Bot) (o : List Out) : (Bot.snrFinish b o).1.tower = b.tower := by
  unfold Bot.snrFinish
  split
  · rfl
  · have h := (generateNextRow_fields b).2.2.2.2
    rcases hq : b.generateNextRow with ⟨b3, o9⟩
    rw [hq] at h
    simp only []
    split <;> exact h

theorem startNextRow_tower (b : Bot) (f : Bool) : (b.startNextRow f).1.tower = b.tower := by
  unfold Bot.startNextRow
  split
  · exact (snrPrep_fields b).2.2.2.2.1
  · simp only []
    rw [snrFinish_tower]
    split
    · show (Bot.snrPrep _).tower = _; exact (snrPrep_fields b).2.2.2.2.1
    · show (Bot.snrPrep _).tower = _; exact (snrPrep_fields b).2.2.2.2.1

/-- **The Bot's callbacks never disturb the view**: after any message the Bot's tower is exactly the
handler's update of the tower it had — so `tower_refines_spec` describes the tower the Bot consults. -/
theorem bot_keeps_view (b : Bot) (m : Msg) : (b.onMsg m).1.tower = b.tower.apply m := by
  have hsize : ∀ x : Bot, (x.onSizeChange).1.tower = x.tower := by
    intro x; simp only [Bot.onSizeChange]; split <;> rfl
  have hlook : ∀ x : Bot, (x.lookTo).1.tower = x.tower := by
    intro x
    unfold Bot.lookTo
    split
    · rfl
    · simp only []
      have := startNextRow_tower x.armLookTo true
      rcases hq : x.armLookTo.startNextRow true with ⟨d, o⟩
      rw [hq] at this
      exact this
  unfold Bot.onMsg
  simp only []
  cases m with
  | bellRung st who => simp only []; split <;> (try split) <;> rfl
  | globalState st => exact hsize _
  | userEntered id name => rfl
  | userList users => rfl
  | sizeChange n => simp only []; split
                    · exact hsize _
                    · rfl
  | assign bell user => rfl
  | call c =>
    simp only [Bot.onCall]
    split
    · unfold Bot.onLookTo; split
      · exact hlook _
      · rfl
    · split
      · unfold Bot.onGo; split <;> rfl
      · repeat' split
        all_goals rfl
  | userLeft id => rfl
  | setting kvs =>
    simp only []
    have : ∀ (l : List (String × SVal)) (x : Bot), (foldSettings x l).1.tower = x.tower := by
      intro l
      induction l with
      | nil => intro x; rfl
      | cons kv rest ih =>
        intro x
        obtain ⟨k, v⟩ := kv
        simp only [foldSettings]
        rw [ih]
        simp only [Bot.onSetting]
        repeat' split
        all_goals rfl
    split
    · exact this _ _
    · rfl
  | rowGen g => simp only []; split
                · split <;> rfl
                · rfl
  | stopTouch => simp only []; split <;> rfl

/-! ### The tower page and start-up -/

open Wheatley.Page in
/-- **Extraction round trip**: if the first occurrence of `server_ip` in the page is the template line
`server_ip: "<url>"` and the URL contains no quote, the extracted socket-server address is that URL. -/
theorem extract_roundtrip (pre url post : List Char)
    (hfirst : findSub marker (pre ++ "server_ip: \"".toList ++ url ++ ['"'] ++ post) 0 = some pre.length)
    (hq : '"' ∉ url) :
    extractUrl (pre ++ "server_ip: \"".toList ++ url ++ ['"'] ++ post) = some url := by
  unfold extractUrl
  rw [hfirst]
  have hdrop : (pre ++ "server_ip: \"".toList ++ url ++ ['"'] ++ post).drop (pre.length + 12) =
      url ++ ['"'] ++ post := by
    have : pre ++ "server_ip: \"".toList ++ url ++ ['"'] ++ post =
        (pre ++ "server_ip: \"".toList) ++ (url ++ ['"'] ++ post) := by simp [List.append_assoc]
    rw [this, List.drop_append_of_le_length (by simp)]
    have hl : (pre ++ "server_ip: \"".toList).length = pre.length + 12 := by simp
    rw [← hl, List.drop_length]; rfl
  have hc : (url ++ ['"'] ++ post).contains '"' = true := by simp
  simp only [markerLen, hdrop, hc, if_true]
  congr 1
  have : ∀ (u : List Char), '"' ∉ u → (u ++ ['"'] ++ post).takeWhile (· != '"') = u := by
    intro u
    induction u with
    | nil => intro _; simp
    | cons a r ih =>
      intro hu
      have ha : a ≠ '"' := by intro e; subst e; simp at hu
      have hr : '"' ∉ r := by intro e; exact hu (by simp [e])
      simp only [List.cons_append, List.takeWhile_cons]
      have : (a != '"') = true := by simpa using ha
      simp only [this, if_true]
      rw [ih hr]
  exact this url hq

/-- No marker, no URL: the tower is reported as not found. -/
theorem extract_fails_without_marker (html : List Char) (h : Page.findSub Page.marker html 0 = none) :
    Page.extractUrl html = none := by
  simp [Page.extractUrl, h]

/-- **Start-up**: the first things sent after connecting are `c_join` and then
`c_request_global_state`, before anything else happens. -/
theorem startup_emissions {K : Type} [Num K] (now : K) (bot : Bot) (rh : Rh K) (tape : List (K × K)) (lt : Option K) :
    ((World.init now bot rh tape lt).obs.reverse.map (·.out)) = [Out.join, Out.requestState] := rfl

/-! ### System level: the view in every state of every run -/

section System
variable {K : Type} [Num K]

/-- The messages among the events (a woken Look To handler is not a message). -/
def msgsOf (events : List (K × Ev)) : List Msg :=
  events.filterMap (fun ev => match ev.2 with | .msg m => some m | .resume => none)

theorem msgsOf_append (a b : List (K × Ev)) : msgsOf (a ++ b) = msgsOf a ++ msgsOf b := by
  unfold msgsOf; exact List.filterMap_append

theorem tickEnd_tower (b : Bot) (bell : Nat) (uc : Bool) : (b.tickEnd bell uc).1.tower = b.tower := by
  unfold Bot.tickEnd
  simp only []
  split
  · exact startNextRow_tower _ false
  · rfl

/-- Nothing the Bot does on its own - `tick`, `start_next_row`, the rest of a Look To - touches the view. -/
theorem keepsView (t : Tower) : BotInvariant (fun b => b.tower = t) (fun _ => False) :=
  { arm := fun b h => (startNextRow_tower b.armLookTo true).trans h
    tick := fun b bell uc h => (tickEnd_tower b bell uc).trans h
    msg := fun _ _ he _ => he.elim }

/-- The main thread never changes the view. -/
theorem mainStep_tower (wt : K → K) (w : World K) : (w.mainStep wt).1.bot.tower = w.bot.tower :=
  (keepsView w.bot.tower).mainStep wt w rfl

/-- One step of the socket thread changes the view exactly as the message's handler does. -/
theorem deliver_tower (wt : K → K) (w : World K) (e : Ev) :
    (World.deliver wt w e).bot.tower = (match e with | .msg m => w.bot.tower.apply m | .resume => w.bot.tower) := by
  cases e with
  | resume =>
    unfold World.deliver
    simp only []
    split
    · rename_i s _
      unfold World.lookToResume World.lookToRest
      simp only []
      have hin : (World.lookToInner ({ w with suspended := none } : World K) s).bot = w.bot := by
        unfold World.lookToInner
        split
        · exact (withReg_pc_obs ({ w with suspended := none } : World K) _).2.2
        · rfl
      generalize World.lookToInner ({ w with suspended := none } : World K) s = wi at hin
      have hR : (wi.bot.armLookTo.startNextRow true).1.tower = w.bot.tower := by
        rw [startNextRow_tower]; show wi.bot.tower = _; rw [hin]
      split
      · dsimp only; rw [(foldl_applyOut_bot_crashed wt _ _ _).1]; exact hR
      · rw [(foldl_applyOut_bot_crashed wt _ _ _).1]; exact hR
    · rfl
  | msg m =>
    unfold World.deliver
    simp only []
    split
    · rename_i s wr hsus
      -- only a call suspends, and a call leaves the view alone
      unfold World.lookToBegin
      show w.bot.tower = w.bot.tower.apply m
      unfold World.lookToSuspends at hsus
      cases m with
      | call c => rfl
      | _ => cases hsus
    · unfold World.deliverMsg
      simp only []
      have hm := bot_keeps_view w.bot m
      split
      · dsimp only; rw [(foldl_applyOut_bot_crashed wt _ _ _).1]; exact hm
      · rw [(foldl_applyOut_bot_crashed wt _ _ _).1]; exact hm

theorem sleep_go_tower (wt : K → K) (limit : K) :
    ∀ (events : List (K × Ev)) (w : World K),
      ∃ k, (World.sleep.go wt limit w events).2 = events.drop k ∧
        (World.sleep.go wt limit w events).1.bot.tower = (msgsOf (events.take k)).foldl Tower.apply w.bot.tower := by
  intro events
  induction events with
  | nil => intro w; exact ⟨0, rfl, rfl⟩
  | cons ev rest ih =>
    intro w
    obtain ⟨t, e⟩ := ev
    unfold World.sleep.go
    split
    · obtain ⟨k, h1, h2⟩ := ih (World.deliver wt (if w.now < t then { w with now := t } else w) e)
      refine ⟨k + 1, h1, ?_⟩
      rw [h2, deliver_tower]
      have hb : (if w.now < t then ({ w with now := t } : World K) else w).bot = w.bot := by split <;> rfl
      rw [hb]
      cases e with
      | msg m => simp [msgsOf, List.take_succ_cons]
      | resume => simp [msgsOf, List.take_succ_cons]
    · exact ⟨0, rfl, rfl⟩

theorem sleep_tower (wt : K → K) (endTime : K) (w : World K) (d : K) (events : List (K × Ev)) :
    ∃ k, (World.sleep wt endTime w d events).2.1 = events.drop k ∧
      (World.sleep wt endTime w d events).1.bot.tower = (msgsOf (events.take k)).foldl Tower.apply w.bot.tower := by
  unfold World.sleep
  simp only []
  split
  · exact sleep_go_tower wt endTime events w
  · obtain ⟨k, h1, h2⟩ := sleep_go_tower wt (w.now + d) events w
    exact ⟨k, h1, h2⟩

/-- **The view is the fold of the history, in every state of every run.**  Whatever the main thread is doing and
however far the run has got (`fuel`), the Bot's picture of the tower is exactly what `RingingRoomTower`'s handlers
make of the messages delivered so far - a prefix of the event list, in order - starting from the picture it had:
no step of the main thread, no callback of the Bot, no Look To in progress ever alters, delays or drops an update. -/
theorem view_is_the_fold_of_the_history (wt : K → K) (endTime : K) :
    ∀ (fuel : Nat) (w : World K) (events : List (K × Ev)),
      ∃ k, (World.run wt endTime fuel w events).1.bot.tower =
        (msgsOf (events.take k)).foldl Tower.apply w.bot.tower := by
  intro fuel
  induction fuel with
  | zero => intro w events; exact ⟨0, rfl⟩
  | succ fuel ih =>
    intro w events
    unfold World.run
    have hm := mainStep_tower wt w
    split
    · rename_i w1 heq; rw [heq] at hm; exact ⟨0, hm⟩
    · rename_i w1 heq
      rw [heq] at hm
      obtain ⟨k, hk⟩ := ih w1 events
      exact ⟨k, by rw [hk, hm]⟩
    · rename_i w1 d heq
      rw [heq] at hm
      obtain ⟨k1, h1, h2⟩ := sleep_tower wt endTime w1 d events
      simp only []
      split
      · exact ⟨k1, by rw [h2, hm]⟩
      · obtain ⟨k2, hk2⟩ := ih (World.sleep wt endTime w1 d events).1 (World.sleep wt endTime w1 d events).2.1
        refine ⟨k1 + k2, ?_⟩
        rw [hk2, h2, hm, h1, List.take_add, msgsOf_append, List.foldl_append]

/-- ... so, started from the empty view, it is `view` of the messages delivered so far, and everything
`tower_refines_spec` says of `view` - size, strokes, holders, names - holds of the tower the Bot consults at that
moment. -/
theorem view_matches_spec_throughout (wt : K → K) (endTime : K) (fuel : Nat) (w : World K) (events : List (K × Ev))
    (h0 : w.bot.tower = Tower.empty) :
    ∃ k, Matches (World.run wt endTime fuel w events).1.bot.tower (msgsOf (events.take k)).reverse := by
  obtain ⟨k, hk⟩ := view_is_the_fold_of_the_history wt endTime fuel w events
  refine ⟨k, ?_⟩
  rw [hk, h0]
  exact tower_refines_spec _

end System

/-! Non-vacuity: a user is announced, takes bell 3, the tower shrinks to 2 bells. -/
example :
    let hist := [Msg.globalState [true, true, true, true], .userEntered 7 "Alice", .assign 3 7, .sizeChange 2]
    holderSpec hist.reverse 3 = none ∧ holderSpec (hist.dropLast).reverse 3 = some 7 ∧
    (view hist).isAssignedTo 3 none = true ∧ (view hist.dropLast).isAssignedTo 3 (some "Alice") = true := by
  decide

end Wheatley.C20
