/-
C11 — left alone, Wheatley rings at exactly the configured peal speed and gap.

All statements hold in every linearly ordered field `K` (exact arithmetic); the functions
`pealSpeedToBlowInterval`, `indexToBlowTime`, `indexToRealTime` are the ones regenerated from
`regression.py` on every run.
-/
import Wheatley.Lemmas.NumField
import Wheatley.Lemmas.Rhythm
import Wheatley.Model.Solo
namespace Wheatley.C11
open Generated

variable {K : Type} [Field K] [LinearOrder K] [IsStrictOrderedRing K]

/-- `I = peal minutes · 60 / 2520 / (2N + 1)`. -/
theorem interval_formula (m : K) (N : Nat) :
    pealSpeedToBlowInterval m N = m * 60 / 2520 / (2 * (N : K) + 1) := by
  simp only [pealSpeedToBlowInterval, num_ofNat]
  push_cast
  ring

/-- The position of (row `r`, place `p`) in blows: `r·N + p + ⌊r/2⌋·g`. -/
theorem blow_index (s : Line K) (r p : Nat) :
    indexToBlowTime s r p = ((r * s.stage + p : Nat) : K) + ((r / 2 : Nat) : K) * s.gap := by
  simp only [indexToBlowTime, num_ofNat]

/-- … and its real time on the line: `start + I · (r·N + p + ⌊r/2⌋·g)`. -/
theorem real_time (s : Line K) (r p : Nat) :
    indexToRealTime s r p = s.start + s.interval * (((r * s.stage + p : Nat) : K) + ((r / 2 : Nat) : K) * s.gap) := by
  simp only [indexToRealTime, blowTimeToRealTime, blow_index]

/-- Look To anchors the line: when Wheatley leads, `start = Look To time + 3 s` (the constant is
regenerated from `LOOK_TO_DURATION`), stage and gap are the configured ones, and — one data point
being too few for a regression — the interval is the configured one. -/
theorem line_after_look_to (r : Reg K) (reg : List (K × K × K) → K × K) (stage : Nat) (startTime : K)
    (hmin : 2 ≤ r.minBells) :
    (r.initialiseLine reg stage false startTime).start = .fin startTime ∧
    (r.initialiseLine reg stage false startTime).stage = stage ∧
    (r.initialiseLine reg stage false startTime).gap = r.gap ∧
    (r.initialiseLine reg stage false startTime).interval = pealSpeedToBlowInterval r.pealSpeed stage := by
  unfold Reg.initialiseLine
  simp only [Bool.not_false, if_true]
  generalize hq : r.resetForTouch stage = q
  have hcfg := addDataPoint_cfg q reg 0 0 startTime (Num.ofNat 1)
  have hlen : (q.newDataSet 0 0 startTime (Num.ofNat 1)).length ≤ 1 := by
    have hd : q.dataSet = [] := by subst hq; rfl
    unfold Reg.newDataSet
    simp only [hd, List.nil_append]
    split
    · rw [List.length_tail]; exact le_trans (Nat.sub_le _ _) (List.length_filter_le _ _)
    · exact List.length_filter_le _ _
  have hqmin : q.minBells = r.minBells := by subst hq; rfl
  have hun := addDataPoint_line_unchanged q reg 0 0 startTime (Num.ofNat 1)
    (Or.inr (by rw [hqmin]; omega))
  have h1 : q.cfgOf = (r.preferredInertia, r.initialInertia, r.pealSpeed, r.gap, r.minBells, r.maxBells, stage) := by
    subst hq; rfl
  have h2 := hcfg.1
  rw [h1] at h2
  simp only [Reg.cfgOf, Prod.mk.injEq] at h2
  refine ⟨trivial, h2.2.2.2.2.2.2, h2.2.2.2.1, ?_⟩
  show (q.addDataPoint reg 0 0 startTime (Num.ofNat 1)).interval = _
  rw [hun.2]; subst hq; rfl

theorem lookToDuration_is_3 : (Num.ofQ lookToDuration : K) = 3 := by
  simp [num_ofQ, lookToDuration]

theorem tickSleep_is_10ms : (Num.ofQ tickSleep : K) = 1 / 100 := by
  simp [num_ofQ, tickSleep]

/-- A wait that begins before the bell's time on the line ends exactly on it. -/
theorem wait_hits_line (r : Reg K) (s now : K) (row place : Nat) (uc : Bool)
    (hs : r.start = .fin s) (h0 : s ≠ 0) (hlt : now < indexToRealTime (r.line s) row place) :
    r.waitPlan now row place uc = .sleep (indexToRealTime (r.line s) row place - now) := by
  unfold Reg.waitPlan
  simp only [hs, num_eqb, num_ofNat, Nat.cast_zero, decide_eq_true_eq, h0, if_false, hlt, if_true]

/-- The blow index strictly advances by at least one along the turns. -/
def Advancing (r : Reg K) : List (Nat × Nat) → Prop
  | [] => True
  | [_] => True
  | a :: b :: rest => r.blowTime a.1 a.2 + 1 ≤ r.blowTime b.1 b.2 ∧ Advancing r (b :: rest)

/-- **No accumulation, any number of rows**: if the first turn starts before its time and the 10 ms
tick sleep is shorter than the blow interval, every strike of the solo loop is exactly at its time on
the line `start + I·index`. -/
theorem solo_closed_form (r : Reg K) (s : K) (hs : r.start = .fin s) (h0 : s ≠ 0)
    (hI : (Num.ofQ tickSleep : K) < r.interval) :
    ∀ (turns : List (Nat × Nat)) (now : K), Advancing r turns →
      (∀ a ∈ turns.head?, now < indexToRealTime (r.line s) a.1 a.2) →
      soloTimes r now turns = turns.map (fun a => indexToRealTime (r.line s) a.1 a.2) := by
  intro turns
  induction turns with
  | nil => intro _ _ _; rfl
  | cons a rest ih =>
    intro now hadv hnow
    obtain ⟨row, place⟩ := a
    have hlt : now < indexToRealTime (r.line s) row place := hnow (row, place) (by simp)
    simp only [soloTimes, wait_hits_line r s now row place false hs h0 hlt, List.map_cons]
    have hnow' : now + (indexToRealTime (r.line s) row place - now) = indexToRealTime (r.line s) row place := by ring
    rw [hnow']
    congr 1
    cases rest with
    | nil => rfl
    | cons b rest' =>
      apply ih
      · exact hadv.2
      · intro c hc
        simp only [List.head?_cons, Option.mem_def, Option.some.injEq] at hc
        subst hc
        have hstep := hadv.1
        simp only [Reg.blowTime, indexToRealTime, blowTimeToRealTime, Reg.line] at hstep ⊢
        have hIpos : (0 : K) < r.interval := lt_trans (by simp [num_ofQ, tickSleep]) hI
        have : indexToBlowTime { stage := r.stage, gap := r.gap, start := s, interval := r.interval } row place =
               indexToBlowTime { stage := r.stage, gap := r.gap, start := Num.ofNat 0, interval := r.interval } row place := rfl
        have h2 : indexToBlowTime { stage := r.stage, gap := r.gap, start := s, interval := r.interval } b.1 b.2 =
               indexToBlowTime { stage := r.stage, gap := r.gap, start := Num.ofNat 0, interval := r.interval } b.1 b.2 := rfl
        rw [this, h2]
        nlinarith

/-- Consecutive turns in ringing order advance by at least one blow when the gap is not negative. -/
theorem step_in_row (r : Reg K) (row place : Nat) : r.blowTime row place + 1 = r.blowTime row (place + 1) := by
  simp only [Reg.blowTime, blow_index, Reg.line]; push_cast; ring

theorem step_to_next_row (r : Reg K) (hg : 0 ≤ r.gap) (row : Nat) (hN : 0 < r.stage) :
    r.blowTime row (r.stage - 1) + 1 ≤ r.blowTime (row + 1) 0 := by
  simp only [Reg.blowTime, blow_index, Reg.line]
  have h1 : ((row * r.stage + (r.stage - 1) : Nat) : K) + 1 = (((row + 1) * r.stage + 0 : Nat) : K) := by
    have : row * r.stage + (r.stage - 1) + 1 = (row + 1) * r.stage + 0 := by
      rw [Nat.add_mul]; omega
    exact_mod_cast this
  have h2 : ((row / 2 : Nat) : K) ≤ (((row + 1) / 2 : Nat) : K) := by
    exact_mod_cast Nat.div_le_div_right (Nat.le_succ row)
  nlinarith

/-- **Exactly the requested time**: with the default gap 1, 5040 rows (2520 whole pulls) span exactly
the configured number of minutes, on every tower size. -/
theorem peal_exact (m : K) (N : Nat) (start : K) :
    let s : Line K := { stage := N, gap := 1, start, interval := pealSpeedToBlowInterval m N }
    indexToRealTime s 5040 0 - indexToRealTime s 0 0 = m * 60 := by
  intro s
  simp only [real_time, s, interval_formula]
  have hN : (2 * (N : K) + 1) ≠ 0 := by positivity
  push_cast
  field_simp
  ring

/-- Each handstroke lead is opened by exactly `g` extra intervals: from the last place of a backstroke
row to the lead of the next row is `(1 + g)` intervals, from a handstroke row it is one. -/
theorem handstroke_gap (s : Line K) (k : Nat) (hN : 0 < s.stage) :
    indexToRealTime s (2 * k + 2) 0 - indexToRealTime s (2 * k + 1) (s.stage - 1) = s.interval * (1 + s.gap) ∧
    indexToRealTime s (2 * k + 1) 0 - indexToRealTime s (2 * k) (s.stage - 1) = s.interval := by
  simp only [real_time]
  have e1 : (2 * k + 2) / 2 = k + 1 := by omega
  have e2 : (2 * k + 1) / 2 = k := by omega
  have e3 : (2 * k) / 2 = k := by omega
  rw [e1, e2, e3]
  have c1 : (((2 * k + 2) * s.stage + 0 : Nat) : K) = (((2 * k + 1) * s.stage + (s.stage - 1) : Nat) : K) + 1 := by
    have : (2 * k + 2) * s.stage + 0 = (2 * k + 1) * s.stage + (s.stage - 1) + 1 := by
      have : (2 * k + 2) * s.stage = (2 * k + 1) * s.stage + s.stage := by ring
      omega
    exact_mod_cast this
  have c2 : (((2 * k + 1) * s.stage + 0 : Nat) : K) = (((2 * k) * s.stage + (s.stage - 1) : Nat) : K) + 1 := by
    have : (2 * k + 1) * s.stage + 0 = (2 * k) * s.stage + (s.stage - 1) + 1 := by
      have : (2 * k + 1) * s.stage = (2 * k) * s.stage + s.stage := by ring
      omega
    exact_mod_cast this
  rw [c1, c2]
  push_cast
  constructor <;> ring

/-! Non-vacuity: 2h58 on six bells. -/
example : pealSpeedToBlowInterval (178 : ℚ) 6 = 89 / 273 := by
  rw [interval_formula]; norm_num

end Wheatley.C11
