/-
C11 — left alone, Wheatley rings at exactly the configured peal speed and gap.

All statements hold in every linearly ordered field `K` (exact arithmetic); the functions
`pealSpeedToBlowInterval`, `indexToBlowTime`, `indexToRealTime` are the ones regenerated from
`regression.py` on every run.
-/
import Wheatley.Lemmas.NumField
import Wheatley.Lemmas.Rhythm
import Wheatley.Model.Solo
import Wheatley.Lemmas.SoloWorld
import Wheatley.Lemmas.Cli
namespace Wheatley.C11
open Generated

variable {K : Type} [Field K] [LinearOrder K] [IsStrictOrderedRing K]

/-- `I = peal minutes · 60 / 2520 / (2N + 1)`. -/
theorem interval_formula (m : K) (N : Nat) :
    pealSpeedToBlowInterval m N = m * 60 / 2520 / (2 * (N : K) + 1) := by
  simp only [pealSpeedToBlowInterval, num_ofNat]
  push_cast
  ring

/-- The position of (row `r`, place `p`) in blows: `r·N + p + ⌊r/2⌋·g`. -/
theorem blow_index (s : Line K) (r p : Nat) :
    indexToBlowTime s r p = ((r * s.stage + p : Nat) : K) + ((r / 2 : Nat) : K) * s.gap := by
  simp only [indexToBlowTime, num_ofNat]

/-- … and its real time on the line: `start + I · (r·N + p + ⌊r/2⌋·g)`. -/
theorem real_time (s : Line K) (r p : Nat) :
    indexToRealTime s r p = s.start + s.interval * (((r * s.stage + p : Nat) : K) + ((r / 2 : Nat) : K) * s.gap) := by
  simp only [indexToRealTime, blowTimeToRealTime, blow_index]

/-- Look To anchors the line: when Wheatley leads, `start = Look To time + 3 s` (the constant is
regenerated from `LOOK_TO_DURATION`), stage and gap are the configured ones, and — one data point
being too few for a regression — the interval is the configured one. -/
theorem line_after_look_to (r : Reg K) (reg : List (K × K × K) → K × K) (stage : Nat) (startTime : K)
    (hmin : 2 ≤ r.minBells) :
    (r.initialiseLine reg stage false startTime).start = .fin startTime ∧
    (r.initialiseLine reg stage false startTime).stage = stage ∧
    (r.initialiseLine reg stage false startTime).gap = r.gap ∧
    (r.initialiseLine reg stage false startTime).interval = pealSpeedToBlowInterval r.pealSpeed stage := by
  unfold Reg.initialiseLine
  simp only [Bool.not_false, if_true]
  generalize hq : r.resetForTouch stage = q
  have hcfg := addDataPoint_cfg q reg 0 0 startTime (Num.ofNat 1)
  have hlen : (q.newDataSet 0 0 startTime (Num.ofNat 1)).length ≤ 1 := by
    have hd : q.dataSet = [] := by subst hq; rfl
    unfold Reg.newDataSet
    simp only [hd, List.nil_append]
    split
    · rw [List.length_tail]; exact le_trans (Nat.sub_le _ _) (List.length_filter_le _ _)
    · exact List.length_filter_le _ _
  have hqmin : q.minBells = r.minBells := by subst hq; rfl
  have hun := addDataPoint_line_unchanged q reg 0 0 startTime (Num.ofNat 1)
    (Or.inr (by rw [hqmin]; omega))
  have h1 : q.cfgOf = (r.preferredInertia, r.initialInertia, r.pealSpeed, r.gap, r.minBells, r.maxBells, stage) := by
    subst hq; rfl
  have h2 := hcfg.1
  rw [h1] at h2
  simp only [Reg.cfgOf, Prod.mk.injEq] at h2
  refine ⟨trivial, h2.2.2.2.2.2.2, h2.2.2.2.1, ?_⟩
  show (q.addDataPoint reg 0 0 startTime (Num.ofNat 1)).interval = _
  rw [hun.2]; subst hq; rfl

theorem lookToDuration_is_3 : (Num.ofQ lookToDuration : K) = 3 := by
  simp [num_ofQ, lookToDuration]

theorem tickSleep_is_10ms : (Num.ofQ tickSleep : K) = 1 / 100 := by
  simp [num_ofQ, tickSleep]

/-- A wait that begins before the bell's time on the line ends exactly on it. -/
theorem wait_hits_line (r : Reg K) (s now : K) (row place : Nat) (uc : Bool)
    (hs : r.start = .fin s) (h0 : s ≠ 0) (hlt : now < indexToRealTime (r.line s) row place) :
    r.waitPlan now row place uc = .sleep (indexToRealTime (r.line s) row place - now) := by
  unfold Reg.waitPlan
  simp only [hs, num_eqb, num_ofNat, Nat.cast_zero, decide_eq_true_eq, h0, if_false, hlt, if_true]

/-- The blow index strictly advances by at least one along the turns. -/
def Advancing (r : Reg K) : List (Nat × Nat) → Prop
  | [] => True
  | [_] => True
  | a :: b :: rest => r.blowTime a.1 a.2 + 1 ≤ r.blowTime b.1 b.2 ∧ Advancing r (b :: rest)

/-- **No accumulation, any number of rows**: if the first turn starts before its time and the 10 ms
tick sleep is shorter than the blow interval, every strike of the solo loop is exactly at its time on
the line `start + I·index`. -/
theorem solo_closed_form (r : Reg K) (s : K) (hs : r.start = .fin s) (h0 : s ≠ 0)
    (hI : (Num.ofQ tickSleep : K) < r.interval) :
    ∀ (turns : List (Nat × Nat)) (now : K), Advancing r turns →
      (∀ a ∈ turns.head?, now < indexToRealTime (r.line s) a.1 a.2) →
      soloTimes r now turns = turns.map (fun a => indexToRealTime (r.line s) a.1 a.2) := by
  intro turns
  induction turns with
  | nil => intro _ _ _; rfl
  | cons a rest ih =>
    intro now hadv hnow
    obtain ⟨row, place⟩ := a
    have hlt : now < indexToRealTime (r.line s) row place := hnow (row, place) (by simp)
    simp only [soloTimes, wait_hits_line r s now row place false hs h0 hlt, List.map_cons]
    have hnow' : now + (indexToRealTime (r.line s) row place - now) = indexToRealTime (r.line s) row place := by ring
    rw [hnow']
    congr 1
    cases rest with
    | nil => rfl
    | cons b rest' =>
      apply ih
      · exact hadv.2
      · intro c hc
        simp only [List.head?_cons, Option.mem_def, Option.some.injEq] at hc
        subst hc
        have hstep := hadv.1
        simp only [Reg.blowTime, indexToRealTime, blowTimeToRealTime, Reg.line] at hstep ⊢
        have hIpos : (0 : K) < r.interval := lt_trans (by simp [num_ofQ, tickSleep]) hI
        have : indexToBlowTime { stage := r.stage, gap := r.gap, start := s, interval := r.interval } row place =
               indexToBlowTime { stage := r.stage, gap := r.gap, start := Num.ofNat 0, interval := r.interval } row place := rfl
        have h2 : indexToBlowTime { stage := r.stage, gap := r.gap, start := s, interval := r.interval } b.1 b.2 =
               indexToBlowTime { stage := r.stage, gap := r.gap, start := Num.ofNat 0, interval := r.interval } b.1 b.2 := rfl
        rw [this, h2]
        nlinarith

/-- Consecutive turns in ringing order advance by at least one blow when the gap is not negative. -/
theorem step_in_row (r : Reg K) (row place : Nat) : r.blowTime row place + 1 = r.blowTime row (place + 1) := by
  simp only [Reg.blowTime, blow_index, Reg.line]; push_cast; ring

theorem step_to_next_row (r : Reg K) (hg : 0 ≤ r.gap) (row : Nat) (hN : 0 < r.stage) :
    r.blowTime row (r.stage - 1) + 1 ≤ r.blowTime (row + 1) 0 := by
  simp only [Reg.blowTime, blow_index, Reg.line]
  have h1 : ((row * r.stage + (r.stage - 1) : Nat) : K) + 1 = (((row + 1) * r.stage + 0 : Nat) : K) := by
    have : row * r.stage + (r.stage - 1) + 1 = (row + 1) * r.stage + 0 := by
      rw [Nat.add_mul]; omega
    exact_mod_cast this
  have h2 : ((row / 2 : Nat) : K) ≤ (((row + 1) / 2 : Nat) : K) := by
    exact_mod_cast Nat.div_le_div_right (Nat.le_succ row)
  nlinarith

/-- **Exactly the requested time**: with the default gap 1, 5040 rows (2520 whole pulls) span exactly
the configured number of minutes, on every tower size. -/
theorem peal_exact (m : K) (N : Nat) (start : K) :
    let s : Line K := { stage := N, gap := 1, start, interval := pealSpeedToBlowInterval m N }
    indexToRealTime s 5040 0 - indexToRealTime s 0 0 = m * 60 := by
  intro s
  simp only [real_time, s, interval_formula]
  have hN : (2 * (N : K) + 1) ≠ 0 := by positivity
  push_cast
  field_simp
  ring

/-- Each handstroke lead is opened by exactly `g` extra intervals: from the last place of a backstroke
row to the lead of the next row is `(1 + g)` intervals, from a handstroke row it is one. -/
theorem handstroke_gap (s : Line K) (k : Nat) (hN : 0 < s.stage) :
    indexToRealTime s (2 * k + 2) 0 - indexToRealTime s (2 * k + 1) (s.stage - 1) = s.interval * (1 + s.gap) ∧
    indexToRealTime s (2 * k + 1) 0 - indexToRealTime s (2 * k) (s.stage - 1) = s.interval := by
  simp only [real_time]
  have e1 : (2 * k + 2) / 2 = k + 1 := by omega
  have e2 : (2 * k + 1) / 2 = k := by omega
  have e3 : (2 * k) / 2 = k := by omega
  rw [e1, e2, e3]
  have c1 : (((2 * k + 2) * s.stage + 0 : Nat) : K) = (((2 * k + 1) * s.stage + (s.stage - 1) : Nat) : K) + 1 := by
    have : (2 * k + 2) * s.stage + 0 = (2 * k + 1) * s.stage + (s.stage - 1) + 1 := by
      have : (2 * k + 2) * s.stage = (2 * k + 1) * s.stage + s.stage := by ring
      omega
    exact_mod_cast this
  have c2 : (((2 * k + 1) * s.stage + 0 : Nat) : K) = (((2 * k) * s.stage + (s.stage - 1) : Nat) : K) + 1 := by
    have : (2 * k + 1) * s.stage + 0 = (2 * k) * s.stage + (s.stage - 1) + 1 := by
      have : (2 * k + 1) * s.stage = (2 * k) * s.stage + s.stage := by ring
      omega
    exact_mod_cast this
  rw [c1, c2]
  push_cast
  constructor <;> ring

/-! Non-vacuity: 2h58 on six bells. -/
example : pealSpeedToBlowInterval (178 : ℚ) 6 = 89 / 273 := by
  rw [interval_formula]; norm_num

/-! ### The same for the real main loop (`World.run`), not only for its tick-loop abstraction `soloTimes` -/

theorem tickSleep_pos : (0 : K) < Num.ofQ tickSleep := by
  simp [num_ofQ, tickSleep]

/-- **One whole turn of the real main loop, alone in the tower.**  From the loop head (`ringCheck`)
with the next bell Wheatley's own, the line anchored, the clock before the bell's time and no message
due: three steps of `World.run` later the main thread is back at the loop head; the strike, the row's
calls and whatever the row boundary emits are logged at exactly `line time + hold-up`; the clock reads
that time plus the loop's 10 ms; the Bot is the one `tick()` leaves; line and hold-up are untouched. -/
theorem world_solo_turn (wt : K → K) (endTime : K) (fuel : Nat) (w : World K) (s : K) (bell : Nat)
    (hpc : w.pc = .ringCheck) (hr : w.bot.isRinging = true) (hstub : w.rh.stub = none)
    (hs : w.rh.reg.start = .fin s) (h0 : s ≠ 0)
    (hb : w.bot.tickBegin = some (bell, false))
    (hlt : w.now - w.delay < indexToRealTime (w.rh.reg.line s) w.bot.rowNumber w.bot.place)
    (hend : indexToRealTime (w.rh.reg.line s) w.bot.rowNumber w.bot.place + w.delay + Num.ofQ tickSleep ≤ endTime)
    (hnc : (w.bot.tickEnd bell false).2.findSome? isCrash = none) :
    ∃ w' : World K,
      World.run wt endTime (fuel + 3) w [] = World.run wt endTime fuel w' [] ∧
      w'.pc = .ringCheck ∧
      w'.now = indexToRealTime (w.rh.reg.line s) w.bot.rowNumber w.bot.place + w.delay + Num.ofQ tickSleep ∧
      w'.bot = (w.bot.tickEnd bell false).1 ∧
      w'.rh.reg.start = .fin s ∧ w'.rh.reg.interval = w.rh.reg.interval ∧ w'.rh.reg.stage = w.rh.reg.stage ∧
      w'.rh.reg.gap = w.rh.reg.gap ∧ w'.delay = w.delay ∧ w'.rh.stub = none ∧
      w'.obs = ((w.bot.tickEnd bell false).2.reverse.map
          (fun o => ({ t := indexToRealTime (w.rh.reg.line s) w.bot.rowNumber w.bot.place + w.delay, out := o } : Obs K)))
        ++ w.obs := by
  set T := indexToRealTime (w.rh.reg.line s) w.bot.rowNumber w.bot.place with hT
  have htick := tickSleep_pos (K := K)
  -- step 1: to the bell's time
  have h1 := solo_turn_begins wt w s bell hpc hr hstub hs h0 hb hlt
  obtain ⟨m1, m1now⟩ := markStroke_sameLine w w.bot.hand
  obtain ⟨ms, mi, mst, mg, md, mstub, mbot, mobs⟩ := m1
  set wA0 : World K := { w.markStroke w.bot.hand with pc := .innerSlept bell false w.bot.hand } with hA0
  have hA0now : wA0.now = w.now := m1now
  have hd1 : 0 < T - (w.now - w.delay) := by linarith
  have he1 : ¬ endTime < wA0.now + (T - (w.now - w.delay)) := by rw [hA0now]; intro h; linarith
  have r1 := run_sleep wt endTime (fuel + 2) w wA0 _ h1 he1 hd1
  set wA : World K := { wA0 with now := wA0.now + (T - (w.now - w.delay)) } with hA
  have hAnow : wA.now = T + w.delay := by show wA0.now + _ = _; rw [hA0now]; ring
  -- step 2: the strike and the row boundary
  have hAbot : wA.bot = w.bot := mbot
  have h2 := solo_turn_ends wt wA bell w.bot.hand rfl (by show (w.markStroke w.bot.hand).rh.stub = none; rw [mstub]; exact hstub)
    (by rw [hAbot]; exact hnc)
  obtain ⟨c1, c1now⟩ := clearReturn_sameLine wA
  obtain ⟨cs, ci, cst, cg, cd, cstub, cbot, cobs⟩ := c1
  obtain ⟨fr, fobs⟩ := foldl_applyOut_turnKind wt wA.now (wA.bot.tickEnd bell false).2
    { wA.clearReturn with bot := (wA.bot.tickEnd bell false).1 } (tickEnd_turnKind _ _ _)
  set wC : World K := (wA.bot.tickEnd bell false).2.foldl (World.applyOut wt wA.now)
    { wA.clearReturn with bot := (wA.bot.tickEnd bell false).1 } with hC
  have hCnow : wC.now = T + w.delay := by rw [fr.now]; show wA.clearReturn.now = _; rw [c1now, hAnow]
  have he2 : ¬ endTime < ({ wC with pc := PC.tickSlept } : World K).now + Num.ofQ tickSleep := by
    show ¬ endTime < wC.now + _; rw [hCnow]; intro h; linarith
  have r2 := run_sleep wt endTime (fuel + 1) wA { wC with pc := .tickSlept } _ h2 he2 htick
  -- step 3: the loop's 10 ms are over
  set wD : World K := { ({ wC with pc := PC.tickSlept } : World K) with now := wC.now + Num.ofQ tickSleep } with hD
  have h3 : wD.mainStep wt = ({ wD with pc := .ringCheck }, .continue) := by
    unfold World.mainStep; rfl
  have r3 := run_continue wt endTime fuel wD _ h3
  refine ⟨{ wD with pc := .ringCheck }, ?_, rfl, ?_, ?_, ?_, ?_, ?_, ?_, ?_, ?_, ?_⟩
  · rw [r1, r2]; exact r3
  · show wC.now + _ = _; rw [hCnow]
  · show wC.bot = _; rw [fr.bot]; show (wA.bot.tickEnd bell false).1 = _; rw [hAbot]
  · show wC.rh.reg.start = _; rw [fr.start]; show wA.clearReturn.rh.reg.start = _; rw [cs]
    show (w.markStroke w.bot.hand).rh.reg.start = _; rw [ms, hs]
  · show wC.rh.reg.interval = _; rw [fr.interval]; show wA.clearReturn.rh.reg.interval = _; rw [ci]; exact mi
  · show wC.rh.reg.stage = _; rw [fr.stage]; show wA.clearReturn.rh.reg.stage = _; rw [cst]; exact mst
  · show wC.rh.reg.gap = _; rw [fr.gap]; show wA.clearReturn.rh.reg.gap = _; rw [cg]; exact mg
  · show wC.delay = _; rw [fr.delay]
    have : ({ wA.clearReturn with bot := (wA.bot.tickEnd bell false).1 } : World K).delay = wA.clearReturn.delay := rfl
    rw [this, cd]; exact md
  · show wC.rh.stub = _; rw [fr.stub]; show wA.clearReturn.rh.stub = _; rw [cstub]
    show (w.markStroke w.bot.hand).rh.stub = none; rw [mstub]; exact hstub
  · show wC.obs = _; rw [fobs]
    have e1 : ({ wA.clearReturn with bot := (wA.bot.tickEnd bell false).1 } : World K).now = T + w.delay := by
      show wA.clearReturn.now = _; rw [c1now, hAnow]
    have e2 : ({ wA.clearReturn with bot := (wA.bot.tickEnd bell false).1 } : World K).obs = w.obs := by
      show wA.clearReturn.obs = _; rw [cobs]; exact mobs
    rw [e1, e2, hAbot]

/-- **Any number of turns of the real main loop, alone in the tower**: `3·n` steps of `World.run`
ring `n` turns, and every output of every turn — the strikes in particular — is logged at exactly the
turn's time on the line `start + I·(r·N + p + ⌊r/2⌋·g)` plus the hold-up accumulated before.  No error
accumulates: the clock after each turn is that time plus the loop's 10 ms, still before the next bell's
time because the interval is longer than 10 ms. -/
theorem world_solo_rows (wt : K → K) (endTime : K) (l : Line K) (D : K)
    (hI : (Num.ofQ tickSleep : K) < l.interval) (h0 : l.start ≠ 0) :
    ∀ (n fuel : Nat) (w : World K),
      w.pc = .ringCheck → w.rh.stub = none → w.rh.reg.start = .fin l.start → w.rh.reg.line l.start = l →
      w.delay = D → w.now - D < indexToRealTime l w.bot.rowNumber w.bot.place →
      AloneFor l D endTime n w.bot →
      ∃ w' : World K,
        World.run wt endTime (fuel + 3 * n) w [] = World.run wt endTime fuel w' [] ∧
        w'.obs = soloLog l D n w.bot ++ w.obs ∧ w'.pc = .ringCheck ∧
        w'.rh.reg.line l.start = l ∧ w'.delay = D := by
  intro n
  induction n with
  | zero =>
    intro fuel w hpc _ _ hl hd _ _
    exact ⟨w, rfl, by simp [soloLog], hpc, hl, hd⟩
  | succ n ih =>
    intro fuel w hpc hstub hs hl hd hlt hal
    obtain ⟨hr, hend, bell, hb, hnc, hadv, hrest⟩ := hal
    have hlt' : w.now - w.delay < indexToRealTime (w.rh.reg.line l.start) w.bot.rowNumber w.bot.place := by
      rw [hl, hd]; exact hlt
    have hend' : indexToRealTime (w.rh.reg.line l.start) w.bot.rowNumber w.bot.place + w.delay + Num.ofQ tickSleep ≤ endTime := by
      rw [hl, hd]; exact hend
    obtain ⟨w1, hrun, h1pc, h1now, h1bot, h1s, h1i, h1st, h1g, h1d, h1stub, h1obs⟩ :=
      world_solo_turn wt endTime (fuel + 3 * n) w l.start bell hpc hr hstub hs h0 hb hlt' hend' hnc
    have h1l : w1.rh.reg.line l.start = l := by
      rw [← hl]; unfold Reg.line; rw [h1i, h1st, h1g]
    rw [hl, hd] at h1now h1obs
    cases n with
    | zero =>
      refine ⟨w1, ?_, ?_, h1pc, h1l, by rw [h1d, hd]⟩
      · simpa using hrun
      · rw [h1obs]; simp [soloLog, hb]
    | succ m =>
      have hadv' := hadv.resolve_left (by omega)
      have hlt1 : w1.now - D < indexToRealTime l w1.bot.rowNumber w1.bot.place := by
        rw [h1now, h1bot]
        have hpos : (0 : K) < l.interval := lt_trans tickSleep_pos hI
        simp only [indexToRealTime, blowTimeToRealTime] at *
        nlinarith
      obtain ⟨w2, hrun2, h2obs, h2pc, h2l, h2d⟩ :=
        ih fuel w1 h1pc h1stub h1s h1l (by rw [h1d, hd]) hlt1 (by rw [h1bot]; exact hrest)
      refine ⟨w2, ?_, ?_, h2pc, h2l, h2d⟩
      · have e : fuel + 3 * (m + 1 + 1) = fuel + 3 * (m + 1) + 3 := by ring
        rw [e, hrun, hrun2]
      · rw [h2obs, h1obs, h1bot]
        simp [soloLog, hb, List.append_assoc]

/-! Non-vacuity: plain hunt on four, all bells Wheatley's, just after Look To; line anchored at 103 s
with four blows a second.  The first two turns (bells 1 and 2 of the opening rounds) satisfy `AloneFor`. -/
def soloBot : Bot :=
  (((Bot.init ((mkPlainHunt 4 none).getD mkPlaceholder) false false true none none).onMsg
      (.globalState [true, true, true, true])).1.lookTo).1

example : AloneFor ({ stage := 4, gap := 1, start := 103, interval := 1 / 4 } : Line ℚ) 0 1000 2 soloBot := by
  have e0 : soloBot.rowNumber = 0 := by decide
  have e1 : soloBot.place = 0 := by decide
  have e2 : (soloBot.tickEnd 1 false).1.rowNumber = 0 := by decide
  have e3 : (soloBot.tickEnd 1 false).1.place = 1 := by decide
  refine ⟨by decide, ?_, 1, by decide, by decide, Or.inr ?_, by decide, ?_, 2, by decide, by decide, Or.inl rfl, trivial⟩
  · rw [e0, e1]; simp [indexToRealTime, blowTimeToRealTime, indexToBlowTime, num_ofQ, tickSleep]; norm_num
  · rw [e0, e1, e2, e3]; simp [indexToBlowTime]
  · rw [e2, e3]; simp [indexToRealTime, blowTimeToRealTime, indexToBlowTime, num_ofQ, tickSleep]; norm_num


/-! ### The command line (`Model/Cli.lean`: `console_main`) -/

/-- The rhythm is built with the minutes that the last `-S` given (else the default) parses to, and with the last
`-G` given (else the default) as handstroke gap. -/
theorem cli_speed_and_gap (c : Parse.Chars) (os : List Cli.Opt) (u : Option (List Char × List Char)) (cfg : Cli.Cfg)
    (h : Cli.consoleMain c os u = .built cfg) :
    Parse.pealSpeed c ((Cli.speedsGiven os).getLast?.getD Generated.cliPealSpeed.toList) = .ok cfg.pealSpeed ∧
    cfg.gap = (Cli.gapsGiven os).getLast?.getD Generated.cliGapBits :=
  ⟨(Cli.main_built c os u cfg h).2.2.2.2.2.2.2.2.2, (Cli.main_built c os u cfg h).2.2.2.2.2.1⟩

end Wheatley.C11
