/-
C14 — a hold-up delays everything by the hold-up; time itself is irrelevant.
-/
import Wheatley.Props.C12
import Wheatley.Model.World
namespace Wheatley.C14
open Generated

variable {K : Type} [Field K] [LinearOrder K] [IsStrictOrderedRing K]

/-- **The wrapper lies about the time by exactly `delay`**: the inner rhythm plans its wait from
`now − delay`, so a bell whose time on the line is `bt` is waited for until the real time
`bt + delay` — everything after a hold-up is simply later by the accumulated delay, with unchanged
intervals (the line itself is untouched). -/
theorem wake_is_inner_plus_delay (w : World K) (wr : WaitR K) (bell : Nat) (uc hand : Bool) (s : K)
    (hstub : w.rh.stub = none) (hw : w.rh.wait = some wr) (hs : w.rh.reg.start = .fin s) (h0 : s ≠ 0)
    (hlt : w.now - wr.delay < indexToRealTime (w.rh.reg.line s) w.bot.rowNumber w.bot.place) :
    (w.beginWait bell uc hand).2.1 =
        indexToRealTime (w.rh.reg.line s) w.bot.rowNumber w.bot.place - (w.now - wr.delay) ∧
      w.now + (indexToRealTime (w.rh.reg.line s) w.bot.rowNumber w.bot.place - (w.now - wr.delay)) =
        indexToRealTime (w.rh.reg.line s) w.bot.rowNumber w.bot.place + wr.delay := by
  have hplan : w.rh.reg.waitPlan (w.now - wr.delay) w.bot.rowNumber w.bot.place uc =
      .sleep (indexToRealTime (w.rh.reg.line s) w.bot.rowNumber w.bot.place - (w.now - wr.delay)) := by
    unfold Reg.waitPlan
    simp only [hs, num_eqb, num_ofNat, Nat.cast_zero, decide_eq_true_eq, h0, if_false, hlt, if_true]
  refine ⟨?_, by ring⟩
  unfold World.beginWait
  simp only [hstub, hw, World.delay]
  rw [hplan]

/-- **The delay only grows, and only by whole polls slept**: leaving the polling loop adds exactly the
time slept in it (`d`, a sum of 10 ms polls); nothing else ever changes it, and Look To does not
reset it. -/
theorem delay_after_wait (w : World K) (wt : K → K) (wr : WaitR K) (bell : Nat) (hand : Bool) (d : K)
    (justSlept : Bool) (hw : w.rh.wait = some wr)
    (hleave : ((justSlept && wr.shouldReturn) || !((wr.expected hand).contains bell)) = true) :
    ∃ w' : World K, (w.afterInner wt bell true hand d justSlept) = (w'.finishTick wt bell true) ∧
      w'.rh.wait = some { (if d = 0 then wr else { wr with delay := wr.delay + d }) with shouldReturn := false } ∧
      w'.now = w.now := by
  unfold World.afterInner
  simp only [hw, if_true, hleave]
  refine ⟨_, rfl, ?_, rfl⟩
  simp only [num_eqb, W0, num_ofNat, Nat.cast_zero]
  by_cases hd : d = 0 <;> simp [hd]

/-- While the awaited bell is still expected the loop just polls: ten more milliseconds. -/
theorem poll_adds_one_step (w : World K) (wt : K → K) (wr : WaitR K) (bell : Nat) (hand : Bool) (d : K)
    (hw : w.rh.wait = some wr) (hexp : (wr.expected hand).contains bell = true) (hret : wr.shouldReturn = false) :
    w.afterInner wt bell true hand d true =
      ({ w with pc := .userPoll bell true hand d }, .sleep (Num.ofQ waitSleepTime)) ∧
    (Num.ofQ waitSleepTime : K) = 1 / 100 := by
  unfold World.afterInner
  simp only [hw, if_true, hexp, hret, Bool.and_false, Bool.not_true, Bool.or_self, Bool.false_eq_true, if_false]
  exact ⟨trivial, by simp [num_ofQ, waitSleepTime]⟩

/-- **Time itself is irrelevant (regression)**: moving every remembered real time by `c` moves the
fitted start by `c` and leaves the fitted interval unchanged … -/
theorem regression_origin_free (c : K) (ds : List (K × K × K)) (hd : det ds ≠ 0) :
    regress (ds.map (fun d => (d.1, d.2.1 + c, d.2.2))) = ((regress ds).1 + c, (regress ds).2) :=
  regress_shift c ds hd

/-- … and positions measured in blows (hence the weights `exp(−diff²)`) do not see the origin: a
strike at `t` against a line starting at `s` is where a strike at `t + c` is against a line starting
at `s + c`. -/
theorem position_origin_free (l : Line K) (t c : K) :
    realTimeToBlowTime { l with start := l.start + c } (t + c) = realTimeToBlowTime l t := by
  simp only [realTimeToBlowTime]; ring

/-- The time of a blow moves with the line. -/
theorem real_time_origin_free (l : Line K) (r p : Nat) (c : K) :
    indexToRealTime { l with start := l.start + c } r p = indexToRealTime l r p + c := by
  simp only [indexToRealTime, blowTimeToRealTime, indexToBlowTime]; ring

/-- Lerping commutes with moving the origin. -/
theorem lerp_origin_free (a b t c : K) : lerp (a + c) (b + c) t = lerp a b t + c := by
  simp only [lerp, num_ofNat]; push_cast; ring

/-! Non-vacuity: a wait planned 2 s before a bell due at 100 on the line, with 0.37 s of delay. -/
example : (101.63 : ℚ) + ((100 : ℚ) - (101.63 - 0.37) + 0) = 100 + 0.37 := by norm_num

end Wheatley.C14
