/-
C14 — a hold-up delays everything by the hold-up; time itself is irrelevant.
-/
import Wheatley.Props.C12
import Wheatley.Model.World
import Wheatley.Lemmas.World
import Wheatley.Lemmas.Handlers
namespace Wheatley.C14
open Generated

variable {K : Type} [Field K] [LinearOrder K] [IsStrictOrderedRing K]

/-- **The wrapper lies about the time by exactly `delay`**: the inner rhythm plans its wait from
`now − delay`, so a bell whose time on the line is `bt` is waited for until the real time
`bt + delay` — everything after a hold-up is simply later by the accumulated delay, with unchanged
intervals (the line itself is untouched). -/
theorem wake_is_inner_plus_delay (w : World K) (wr : WaitR K) (bell : Nat) (uc hand : Bool) (s : K)
    (hstub : w.rh.stub = none) (hw : w.rh.wait = some wr) (hs : w.rh.reg.start = .fin s) (h0 : s ≠ 0)
    (hlt : w.now - wr.delay < indexToRealTime (w.rh.reg.line s) w.bot.rowNumber w.bot.place) :
    (w.beginWait bell uc hand).2.1 =
        indexToRealTime (w.rh.reg.line s) w.bot.rowNumber w.bot.place - (w.now - wr.delay) ∧
      w.now + (indexToRealTime (w.rh.reg.line s) w.bot.rowNumber w.bot.place - (w.now - wr.delay)) =
        indexToRealTime (w.rh.reg.line s) w.bot.rowNumber w.bot.place + wr.delay := by
  have hplan : w.rh.reg.waitPlan (w.now - wr.delay) w.bot.rowNumber w.bot.place uc =
      .sleep (indexToRealTime (w.rh.reg.line s) w.bot.rowNumber w.bot.place - (w.now - wr.delay)) := by
    unfold Reg.waitPlan
    simp only [hs, num_eqb, num_ofNat, Nat.cast_zero, decide_eq_true_eq, h0, if_false, hlt, if_true]
  refine ⟨?_, by ring⟩
  unfold World.beginWait
  simp only [hstub, hw, World.delay]
  rw [hplan]

/-- **The delay only grows, and only by whole polls slept**: leaving the polling loop adds exactly the
time slept in it (`d`, a sum of 10 ms polls); nothing else ever changes it, and Look To does not
reset it. -/
theorem delay_after_wait (w : World K) (wt : K → K) (wr : WaitR K) (bell : Nat) (hand : Bool) (d : K)
    (justSlept : Bool) (hw : w.rh.wait = some wr)
    (hleave : ((justSlept && wr.shouldReturn) || !((wr.expected hand).contains bell)) = true) :
    ∃ w' : World K, (w.afterInner wt bell true hand d justSlept) = (w'.finishTick wt bell true) ∧
      w'.rh.wait = some { (if d = 0 then wr else { wr with delay := wr.delay + d }) with shouldReturn := false } ∧
      w'.now = w.now := by
  unfold World.afterInner
  simp only [hw, if_true, hleave]
  refine ⟨_, rfl, ?_, rfl⟩
  simp only [num_eqb, W0, num_ofNat, Nat.cast_zero]
  by_cases hd : d = 0 <;> simp [hd]

/-- While the awaited bell is still expected the loop just polls: ten more milliseconds. -/
theorem poll_adds_one_step (w : World K) (wt : K → K) (wr : WaitR K) (bell : Nat) (hand : Bool) (d : K)
    (hw : w.rh.wait = some wr) (hexp : (wr.expected hand).contains bell = true) (hret : wr.shouldReturn = false) :
    w.afterInner wt bell true hand d true =
      ({ w with pc := .userPoll bell true hand d }, .sleep (Num.ofQ waitSleepTime)) ∧
    (Num.ofQ waitSleepTime : K) = 1 / 100 := by
  unfold World.afterInner
  simp only [hw, if_true, hexp, hret, Bool.and_false, Bool.not_true, Bool.or_self, Bool.false_eq_true, if_false]
  exact ⟨trivial, by simp [num_ofQ, waitSleepTime]⟩

/-- **Time itself is irrelevant (regression)**: moving every remembered real time by `c` moves the
fitted start by `c` and leaves the fitted interval unchanged … -/
theorem regression_origin_free (c : K) (ds : List (K × K × K)) (hd : det ds ≠ 0) :
    regress (ds.map (fun d => (d.1, d.2.1 + c, d.2.2))) = ((regress ds).1 + c, (regress ds).2) :=
  regress_shift c ds hd

/-- … and positions measured in blows (hence the weights `exp(−diff²)`) do not see the origin: a
strike at `t` against a line starting at `s` is where a strike at `t + c` is against a line starting
at `s + c`. -/
theorem position_origin_free (l : Line K) (t c : K) :
    realTimeToBlowTime { l with start := l.start + c } (t + c) = realTimeToBlowTime l t := by
  simp only [realTimeToBlowTime]; ring

/-- The time of a blow moves with the line. -/
theorem real_time_origin_free (l : Line K) (r p : Nat) (c : K) :
    indexToRealTime { l with start := l.start + c } r p = indexToRealTime l r p + c := by
  simp only [indexToRealTime, blowTimeToRealTime, indexToBlowTime]; ring

/-- Lerping commutes with moving the origin. -/
theorem lerp_origin_free (a b t c : K) : lerp (a + c) (b + c) t = lerp a b t + c := by
  simp only [lerp, num_ofNat]; push_cast; ring

/-! Non-vacuity: a wait planned 2 s before a bell due at 100 on the line, with 0.37 s of delay. -/
example : (101.63 : ℚ) + ((100 : ℚ) - (101.63 - 0.37) + 0) = 100 + 0.37 := by norm_num

/-! ### The whole system: the hold-up is never forgotten -/
section System

theorem withReg_wait (w : World K) (f : (List (K × K × K) → K × K) → Reg K) : (w.withReg f).rh.wait = w.rh.wait := by
  unfold World.withReg
  simp only []
  exact ite_proj (fun x : World K => x.rh.wait) _ _ _ _ rfl rfl

theorem withReg_delay (w : World K) (f : (List (K × K × K) → K × K) → Reg K) : (w.withReg f).delay = w.delay := by
  unfold World.delay
  rw [withReg_wait]

theorem onBellRing_delay (x : WaitR K) (bell : Nat) (hand : Bool) : (x.onBellRing bell hand).delay = x.delay := by
  unfold WaitR.onBellRing WaitR.setExpected WaitR.setEarly
  cases hand <;> cases x.currentHand <;> simp

theorem delay_map (w : World K) (g : WaitR K → WaitR K) (hg : ∀ x, (g x).delay = x.delay) (r : Reg K) :
    ({ w with rh := { w.rh with reg := r, wait := w.rh.wait.map g } } : World K).delay = w.delay := by
  unfold World.delay
  cases hw : w.rh.wait with
  | none => simp
  | some x => simp [hg]

/-- Interpreting an output - a rhythm call included - never changes the accumulated hold-up. -/
theorem applyOut_delay (wt : K → K) (ct : K) (w : World K) (o : Out) : (World.applyOut wt ct w o).delay = w.delay := by
  unfold World.applyOut
  cases o <;> simp only []
  all_goals first
    | (split <;> rfl)
    | skip
  · -- rReturn
    split
    · rfl
    · cases hw : w.rh.wait <;> simp [World.delay, hw]
  · -- rInit
    split
    · rfl
    · split
      · rename_i wr hw
        rw [withReg_delay]
        have : w.delay = wr.delay := by
          unfold World.delay
          rw [hw]
        rw [this]
        rfl
      · rw [withReg_delay]; rfl
  · -- rExpect
    split
    · rfl
    · cases hw : w.rh.wait <;> simp [World.delay, hw, waitR_expect_delay]
  · -- rBellRing
    split
    · rfl
    · unfold World.delay
      simp only []
      rw [withReg_wait]
      cases hw : w.rh.wait <;> simp [onBellRing_delay]
  · -- rSetting
    split
    · rfl
    · split
      · split
        · split <;> rfl
        · rfl
      · split
        · split
          · split <;> rfl
          · rfl
        · rfl

theorem foldl_applyOut_delay (wt : K → K) (ct : K) (outs : List Out) :
    ∀ (w : World K), (outs.foldl (World.applyOut wt ct) w).delay = w.delay := by
  induction outs with
  | nil => intro w; rfl
  | cons o rest ih =>
    intro w
    simp only [List.foldl_cons]
    rw [ih, applyOut_delay]

/-- A law of the accumulated hold-up: `D` is a predicate on the delay, `Q` one on the polling loop's own count of
the time it has slept; the count starts in `Q`, a poll keeps it there, and adding a count in `Q` to a delay in `D`
gives a delay in `D`. -/
structure DelayLaw (D Q : K → Prop) : Prop where
  zero : Q W0
  step : ∀ d, Q d → Q (d + Num.ofQ waitSleepTime)
  add : ∀ x d, D x → Q d → D (x + d)

/-- The world obeys the law now. -/
structure Kept (D Q : K → Prop) (w : World K) : Prop where
  delay : D w.delay
  poll : ∀ bell uc hand d, w.pc = .userPoll bell uc hand d → Q d

variable {D Q : K → Prop}

theorem Kept.of_eq {w w' : World K} (h : Kept D Q w) (h1 : w'.delay = w.delay) (h2 : w'.pc = w.pc) : Kept D Q w' :=
  { delay := (by rw [h1]; exact h.delay), poll := (by rw [h2]; exact h.poll) }

theorem Kept.of_pc {w w' : World K} (h : D w.delay) (h1 : w'.delay = w.delay)
    (h2 : ∀ bell uc hand d, w'.pc ≠ .userPoll bell uc hand d) : Kept D Q w' :=
  { delay := (by rw [h1]; exact h), poll := (fun bell uc hand d e => absurd e (h2 bell uc hand d)) }

theorem finishTick_kept (wt : K → K) (w : World K) (bell : Nat) (uc : Bool) (h : D w.delay) :
    Kept D Q (w.finishTick wt bell uc).1 := by
  unfold World.finishTick
  simp only []
  have h1 := foldl_applyOut_delay wt w.now (w.bot.tickEnd bell uc).2 ({ w with bot := (w.bot.tickEnd bell uc).1 } : World K)
  split
  · exact Kept.of_pc h h1 (by intro _ _ _ _ e; cases e)
  · exact Kept.of_pc h h1 (by intro _ _ _ _ e; cases e)

theorem afterInner_kept (L : DelayLaw D Q) (wt : K → K) (w : World K) (bell : Nat) (uc hand : Bool) (d : K) (js : Bool)
    (hd : Q d) (h : D w.delay) : Kept D Q (w.afterInner wt bell uc hand d js).1 := by
  unfold World.afterInner
  split
  · rename_i wr hw
    have hwd : w.delay = wr.delay := by unfold World.delay; rw [hw]
    split
    · simp only []
      split
      · apply finishTick_kept
        show D (if Num.eqb d W0 = true then wr else { wr with delay := wr.delay + d }).delay
        rw [hwd] at h
        split
        · exact h
        · exact L.add _ _ h hd
      · exact { delay := h, poll := (by intro _ _ _ d' e; cases e; exact hd) }
    · apply finishTick_kept
      show D wr.delay
      rw [← hwd]; exact h
  · exact finishTick_kept wt w bell uc h

theorem beginWait_held (w : World K) (bell : Nat) (uc hand : Bool) :
    (w.beginWait bell uc hand).1.delay = w.delay ∧
    (∀ b u hd d, (w.beginWait bell uc hand).2.2 ≠ PC.userPoll b u hd d) := by
  unfold World.beginWait
  split
  · exact ⟨rfl, by intro _ _ _ _ e; cases e⟩
  · simp only []
    cases hw : w.rh.wait with
    | none => simp only []; split <;> exact ⟨by simp [World.delay, hw], by intro _ _ _ _ e; cases e⟩
    | some wr => simp only []; split <;> exact ⟨by simp [World.delay, hw], by intro _ _ _ _ e; cases e⟩

/-- One step of the main thread keeps the law. -/
theorem mainStep_kept (L : DelayLaw D Q) (wt : K → K) (w : World K) (h : Kept D Q w) : Kept D Q (w.mainStep wt).1 := by
  unfold World.mainStep
  split
  · exact h
  · split
    · split
      · split
        · simp only []
          have h1 := fun ct => foldl_applyOut_delay wt ct w.bot.lookTo.2 ({ w with bot := w.bot.lookTo.1 } : World K)
          split
          · exact Kept.of_pc h.delay (h1 _) (by intro _ _ _ _ e; cases e)
          · exact Kept.of_pc h.delay (h1 _) (by intro _ _ _ _ e; cases e)
        · exact Kept.of_pc h.delay rfl (by intro _ _ _ _ e; cases e)
      · exact Kept.of_pc h.delay rfl (by intro _ _ _ _ e; cases e)
    · exact Kept.of_pc h.delay rfl (by intro _ _ _ _ e; cases e)
  · exact Kept.of_pc h.delay rfl (by intro _ _ _ _ e; cases e)
  · split
    · exact Kept.of_pc h.delay rfl (by intro _ _ _ _ e; cases e)
    · refine Kept.of_pc h.delay (foldl_applyOut_delay wt w.now _ ({ w with pc := .ringCheck } : World K)) ?_
      rw [foldl_applyOut_pc]
      intro _ _ _ _ e; cases e
  · split
    · exact Kept.of_pc h.delay rfl (by intro _ _ _ _ e; cases e)
    · exact Kept.of_pc h.delay rfl (by intro _ _ _ _ e; cases e)
  · split
    · split
      · exact Kept.of_pc h.delay rfl (by intro _ _ _ _ e; cases e)
      · obtain ⟨b1, b2⟩ := beginWait_held w _ _ w.bot.hand
        exact Kept.of_pc h.delay b1 b2
    · refine Kept.of_pc h.delay (foldl_applyOut_delay wt w.now _ ({ w with pc := .outerTop } : World K)) ?_
      rw [foldl_applyOut_pc]
      intro _ _ _ _ e; cases e
  · split
    · exact h
    · exact afterInner_kept L wt w _ _ _ _ _ L.zero h.delay
  · apply afterInner_kept L _ _ _ _ _ _ _ L.zero
    split
    · exact h.delay
    · exact h.delay
  · rename_i bell uc hand d hpc
    exact afterInner_kept L wt w _ _ _ _ _ (L.step _ (h.poll _ _ _ _ hpc)) h.delay
  · exact Kept.of_pc h.delay rfl (by intro _ _ _ _ e; cases e)

theorem lookToSuspends_wait (w : World K) (m : Msg) (s : Susp K) (wr : WaitR K)
    (h : w.lookToSuspends m = some (s, wr)) : w.rh.wait = some wr := by
  unfold World.lookToSuspends at h
  split at h
  · split at h
    · split at h
      · rename_i wr' _ hw
        simp only [] at h
        split at h
        · split at h
          · injection h with h; injection h with _ h2; rw [hw, h2]
          · cases h
        · cases h
      · cases h
    · cases h
  · cases h

/-- The delivery of any event - an accepted Look To and the waking of its handler included - leaves the hold-up as
it is. -/
theorem deliver_delay (wt : K → K) (w : World K) (e : Ev) : (World.deliver wt w e).delay = w.delay := by
  cases e with
  | resume =>
    unfold World.deliver
    simp only []
    split
    · rename_i s _
      unfold World.lookToResume World.lookToRest
      simp only []
      have hin : (World.lookToInner ({ w with suspended := none } : World K) s).delay = w.delay := by
        unfold World.lookToInner
        split
        · exact withReg_delay ({ w with suspended := none } : World K) _
        · rfl
      generalize World.lookToInner ({ w with suspended := none } : World K) s = wi at hin
      have h1 := foldl_applyOut_delay wt wi.now (wi.bot.armLookTo.startNextRow true).2
        ({ wi with bot := (wi.bot.armLookTo.startNextRow true).1 } : World K)
      split
      · exact h1.trans hin
      · exact h1.trans hin
    · rfl
  | msg m =>
    unfold World.deliver
    simp only []
    split
    · rename_i s wr hsus
      have hw := lookToSuspends_wait w m s wr hsus
      unfold World.lookToBegin World.delay
      simp only [hw]
      rfl
    · unfold World.deliverMsg
      simp only []
      have h1 := foldl_applyOut_delay wt w.now (w.bot.onMsg m).2 ({ w with bot := (w.bot.onMsg m).1 } : World K)
      split
      · exact h1
      · exact h1

theorem deliver_kept (wt : K → K) (w : World K) (e : Ev) (h : Kept D Q w) : Kept D Q (World.deliver wt w e) :=
  h.of_eq (deliver_delay wt w e) (deliver_never_rings wt w e).1

theorem sleep_go_kept (wt : K → K) (limit : K) :
    ∀ (events : List (K × Ev)) (w : World K), Kept D Q w → Kept D Q (World.sleep.go wt limit w events).1 := by
  intro events
  induction events with
  | nil => intro w h; exact h
  | cons ev rest ih =>
    intro w h
    obtain ⟨t, m⟩ := ev
    unfold World.sleep.go
    split
    · apply ih
      apply deliver_kept
      split
      · exact h.of_eq rfl rfl
      · exact h
    · exact h

theorem sleep_kept (wt : K → K) (endTime : K) (w : World K) (d : K) (events : List (K × Ev)) (h : Kept D Q w) :
    Kept D Q (World.sleep wt endTime w d events).1 := by
  unfold World.sleep
  simp only []
  split
  · exact sleep_go_kept wt endTime events w h
  · exact (sleep_go_kept wt (w.now + d) events w h).of_eq rfl rfl

/-- The law holds in every state of every run, whatever the events. -/
theorem run_kept (L : DelayLaw D Q) (wt : K → K) (endTime : K) :
    ∀ (fuel : Nat) (w : World K) (events : List (K × Ev)), Kept D Q w → Kept D Q (World.run wt endTime fuel w events).1 := by
  intro fuel
  induction fuel with
  | zero => intro w events h; exact h
  | succ fuel ih =>
    intro w events h
    unfold World.run
    have hm := mainStep_kept L wt w h
    split
    · rename_i w1 heq; rw [heq] at hm; exact hm
    · rename_i w1 heq; rw [heq] at hm; exact ih w1 events hm
    · rename_i w1 d heq
      rw [heq] at hm
      have hsl := sleep_kept wt endTime w1 d events hm
      simp only []
      split
      · exact hsl
      · exact ih _ _ hsl

theorem W0_nonneg : (0 : K) ≤ W0 := by
  simp [W0, num_ofNat]

theorem poll_nonneg : (0 : K) ≤ Num.ofQ waitSleepTime := by
  simp [num_ofQ, waitSleepTime]

/-- The hold-up accumulated so far is at least `d0`, and the polling loop's own count of the time it has slept is
not negative. -/
abbrev Held (w : World K) (d0 : K) : Prop := Kept (fun x => d0 ≤ x) (fun d => 0 ≤ d) w

theorem heldLaw (d0 : K) : DelayLaw (fun x : K => d0 ≤ x) (fun d => 0 ≤ d) :=
  { zero := W0_nonneg, step := fun _ h => add_nonneg h poll_nonneg, add := fun _ _ h1 h2 => by linarith }

/-- **A hold-up is never forgotten.**  Whatever hold-up the band has caused so far stays in every later bell time:
in every state of every run - whatever is struck and whenever, whoever comes, goes, takes or drops a rope, whatever
is called, selected, set or stopped, *Look To and a new touch included*, for as many steps as you like - the
accumulated delay is at least what it was.  (Every wait is planned from `now − delay`, `wake_is_inner_plus_delay`:
so everything after a hold-up is later by at least that hold-up, for good.) -/
theorem hold_up_never_forgotten (wt : K → K) (endTime : K) (fuel : Nat) (w : World K) (events : List (K × Ev))
    (hpc : ∀ bell uc hand d, w.pc = .userPoll bell uc hand d → 0 ≤ d) :
    w.delay ≤ (World.run wt endTime fuel w events).1.delay :=
  (run_kept (heldLaw w.delay) wt endTime fuel w events { delay := le_refl _, poll := hpc }).delay

/-- From the moment the session is joined (the main thread is not yet polling for anyone). -/
theorem hold_up_monotone_from_start (wt : K → K) (endTime : K) (fuel : Nat) (now : K) (bot : Bot) (rh : Rh K)
    (tape : List (K × K)) (lt : Option K) (events : List (K × Ev)) :
    (World.init now bot rh tape lt).delay ≤ (World.run wt endTime fuel (World.init now bot rh tape lt) events).1.delay :=
  hold_up_never_forgotten wt endTime fuel _ events (by intro _ _ _ _ e; cases e)

/-- The law "a whole number of polls". -/
theorem pollsLaw (d0 : K) :
    DelayLaw (fun x : K => ∃ n : ℕ, x = d0 + n * Num.ofQ waitSleepTime) (fun d => ∃ m : ℕ, d = m * Num.ofQ waitSleepTime) :=
  { zero := ⟨0, by simp [W0, num_ofNat]⟩
    step := (by
      rintro d ⟨m, rfl⟩
      exact ⟨m + 1, by push_cast; ring⟩)
    add := (by
      rintro x d ⟨n, rfl⟩ ⟨m, rfl⟩
      exact ⟨n + m, by push_cast; ring⟩) }

/-- **The hold-up grows by whole polls only.**  In every state of every run, for all events, the accumulated delay
is what it was plus a whole number of the 10 ms polls the main thread slept while it waited for somebody: nothing
else - no handler, no Look To, no setting, no rounding of a clock difference - ever enters it. -/
theorem hold_up_is_whole_polls (wt : K → K) (endTime : K) (fuel : Nat) (w : World K) (events : List (K × Ev))
    (hpc : ∀ bell uc hand d, w.pc = .userPoll bell uc hand d → ∃ m : ℕ, d = m * Num.ofQ waitSleepTime) :
    ∃ n : ℕ, (World.run wt endTime fuel w events).1.delay = w.delay + n * Num.ofQ waitSleepTime :=
  (run_kept (pollsLaw w.delay) wt endTime fuel w events { delay := ⟨0, by simp⟩, poll := hpc }).delay

/-- Non-vacuity: a band 0.37 s behind, the main thread two polls into waiting for bell 3 - `Held`. -/
example : ∃ w : World ℚ, Held w (37 / 100) ∧ w.pc = .userPoll 3 true true (1 / 50) := by
  refine ⟨{ World.init (0 : ℚ) (Bot.init (Gen.init .placeholder none []) false false true none none)
              { reg := Reg.init (1 : ℚ) 180 1 4 15 0,
                wait := some { currentHand := true, expectedHand := [3], expectedBack := [], earlyHand := [],
                               earlyBack := [], delay := 37 / 100, shouldReturn := false },
                stub := none } [] none with pc := .userPoll 3 true true (1 / 50) }, ?_, rfl⟩
  exact { delay := le_refl _, poll := (by intro _ _ _ d e; cases e; norm_num) }

end System

end Wheatley.C14
