/-
C15 — pull-off: 3 s after Look To, or whenever the human treble actually goes.
-/
import Wheatley.Props.C11
import Wheatley.Model.World
namespace Wheatley.C15
open Generated

variable {K : Type} [Field K] [LinearOrder K] [IsStrictOrderedRing K]

/-- Whether a human leads is decided on the *opening row's* first bell (the bell that strikes first),
and the line's anchor handed to the rhythm is `Look To time + LOOK_TO_DURATION`. -/
theorem who_leads (b : Bot) (treble : Nat) (rest : Row) (h : b.openingRow = treble :: rest) :
    ∃ nUser o, (b.lookTo).2 = [Out.rReturn, Out.rInit b.n (b.userAssigned treble) nUser] ++ o := by
  unfold Bot.lookTo
  simp only [h]
  exact ⟨_, _, rfl⟩

/-- The World turns that call into `initialise_line(…, call_time + 3, …)`. -/
theorem anchor_is_look_to_plus_3 : (Num.ofQ lookToDuration : K) = 3 := C11.lookToDuration_is_3

/-- **Wheatley leads**: the line starts exactly 3 s after Look To, so (C11 `wait_hits_line`) the first
strike is exactly there. -/
theorem wheatley_leads (r : Reg K) (reg : List (K × K × K) → K × K) (stage : Nat) (startTime : K) :
    (r.initialiseLine reg stage false startTime).start = .fin startTime := by
  simp [Reg.initialiseLine]

/-- **A human leads**: the line is "not yet" … -/
theorem human_leads (r : Reg K) (reg : List (K × K × K) → K × K) (stage : Nat) (startTime : K) :
    (r.initialiseLine reg stage true startTime).start = .inf ∧
    (r.initialiseLine reg stage true startTime).dataSet = [] := by
  simp [Reg.initialiseLine, Reg.resetForTouch]

/-- … the leader's turn is the pull-off loop … -/
theorem leader_turn_is_pull_off (r : Reg K) (now : K) (row place : Nat) (h : r.start = .inf) :
    r.waitPlan now row place true = .pullOff := by
  simp [Reg.waitPlan, h]

/-- … which only polls — no strike, no progress, the same program counter — for as long as the line
is "not yet", however long that takes. -/
theorem pull_off_only_polls (w : World K) (wt : K → K) (bell : Nat) (uc hand : Bool)
    (hpc : w.pc = .pullOff bell uc hand) (h : w.rh.reg.start = .inf) :
    w.mainStep wt = (w, .sleep (Num.ofQ waitSleepTime)) := by
  unfold World.mainStep
  simp only [hpc, h]

/-- **Only the leader's strike ends it**: no other operation of the regression rhythm turns "not yet"
into a time — not another bell's strike (its expected blow is not 0), not a data point, not an
expectation. -/
theorem only_leader_anchors (r : Reg K) (wt : K → K) (reg : List (K × K × K) → K × K) (bell : Nat) (hand : Bool)
    (t : K) (h : r.start = .inf)
    (hnot : ∀ row place, r.lookupExpected bell hand = some (row, place) → r.blowTime row place ≠ 0) :
    (r.onBellRing wt reg bell hand t).start = .inf := by
  unfold Reg.onBellRing
  cases hq : r.lookupExpected bell hand with
  | none => simpa using h
  | some rp =>
    obtain ⟨row, place⟩ := rp
    have hb : Num.eqb (r.blowTime row place) (Num.ofNat 0) = false := by simpa using hnot row place hq
    simp only [hb, Bool.false_eq_true, if_false]
    exact addDataPoint_start_inf r reg row place t _ h

omit [Field K] [LinearOrder K] [IsStrictOrderedRing K] in
theorem expect_keeps_start (r : Reg K) (bell row place : Nat) (hand : Bool) :
    (r.expect bell row place hand).start = r.start := rfl

/-- **The leader's actual strike anchors the line**: the strike expected at blow 0 sets the start to
its own time, with weight 1 (it is never re-weighted) — and with the data set empty, as it is after
Look To, no regression can move it. -/
theorem leader_anchors (r : Reg K) (wt : K → K) (reg : List (K × K × K) → K × K) (bell : Nat) (hand : Bool)
    (t : K) (row place : Nat) (hexp : r.lookupExpected bell hand = some (row, place))
    (hb : r.blowTime row place = 0) (hempty : r.dataSet = []) (hmin : 2 ≤ r.minBells) :
    (r.onBellRing wt reg bell hand t).start = .fin t ∧
    (r.onBellRing wt reg bell hand t).interval = r.interval := by
  unfold Reg.onBellRing
  simp only [hexp]
  have hb' : Num.eqb (r.blowTime row place) (Num.ofNat 0) = true := by simp [hb]
  simp only [hb', if_true]
  generalize hq : ({ r with start := Time.fin t } : Reg K) = q
  have hqd : q.dataSet = [] := by subst hq; exact hempty
  have hqm : q.minBells = r.minBells := by subst hq; rfl
  generalize (if r.dataSet.length ≤ 1 then (Num.ofNat 1 : K) else
      (match r.start with
        | Time.fin s => wt (realTimeToBlowTime (r.line s) t - r.blowTime row place)
        | Time.inf => Num.ofNat 0)) = w
  have hlen : (q.newDataSet row place t w).length ≤ 1 := by
    unfold Reg.newDataSet
    simp only [hqd, List.nil_append]
    split
    · rw [List.length_tail]; exact le_trans (Nat.sub_le _ _) (List.length_filter_le _ _)
    · exact List.length_filter_le _ _
  have hun := addDataPoint_line_unchanged q reg row place t w (Or.inr (by rw [hqm]; omega))
  rw [hun.1, hun.2]
  subst hq
  exact ⟨rfl, rfl⟩

/-- The rest of the first row is then placed from that strike at the configured speed:
place `p` of row 0 is due `I·p` after it. -/
theorem first_row_from_leader (l : Line K) (p : Nat) :
    indexToRealTime l 0 p = l.start + l.interval * p := by
  simp [C11.real_time]

/-! Non-vacuity: blow 0 is (row 0, place 0) and nothing else. -/
example (r : Reg ℚ) (hN : 0 < r.stage) (hg : 0 ≤ r.gap) : r.blowTime 0 0 = 0 ∧ r.blowTime 0 1 ≠ 0 := by
  simp [Reg.blowTime, C11.blow_index, Reg.line]

end Wheatley.C15
