/-
C15 — pull-off: 3 s after Look To, or whenever the human treble actually goes.
-/
import Wheatley.Props.C11
import Wheatley.Model.World
import Wheatley.Lemmas.Outs
import Wheatley.Lemmas.Handlers
namespace Wheatley.C15
open Generated

variable {K : Type} [Field K] [LinearOrder K] [IsStrictOrderedRing K]

/-- Whether a human leads is decided on the *opening row's* first bell (the bell that strikes first),
and the line's anchor handed to the rhythm is `Look To time + LOOK_TO_DURATION`. -/
theorem who_leads (b : Bot) (treble : Nat) (rest : Row) (h : b.openingRow = treble :: rest) :
    ∃ nUser o, (b.lookTo).2 = [Out.rReturn, Out.rInit b.n (b.userAssigned treble) nUser] ++ o := by
  unfold Bot.lookTo
  simp only [h]
  exact ⟨_, _, rfl⟩

/-- The World turns that call into `initialise_line(…, call_time + 3, …)`. -/
theorem anchor_is_look_to_plus_3 : (Num.ofQ lookToDuration : K) = 3 := C11.lookToDuration_is_3

/-- **Wheatley leads**: the line starts exactly 3 s after Look To, so (C11 `wait_hits_line`) the first
strike is exactly there. -/
theorem wheatley_leads (r : Reg K) (reg : List (K × K × K) → K × K) (stage : Nat) (startTime : K) :
    (r.initialiseLine reg stage false startTime).start = .fin startTime := by
  simp [Reg.initialiseLine]

/-- **A human leads**: the line is "not yet" … -/
theorem human_leads (r : Reg K) (reg : List (K × K × K) → K × K) (stage : Nat) (startTime : K) :
    (r.initialiseLine reg stage true startTime).start = .inf ∧
    (r.initialiseLine reg stage true startTime).dataSet = [] := by
  simp [Reg.initialiseLine, Reg.resetForTouch]

/-- … the leader's turn is the pull-off loop … -/
theorem leader_turn_is_pull_off (r : Reg K) (now : K) (row place : Nat) (h : r.start = .inf) :
    r.waitPlan now row place true = .pullOff := by
  simp [Reg.waitPlan, h]

/-- … which only polls — no strike, no progress, the same program counter — for as long as the line
is "not yet", however long that takes. -/
theorem pull_off_only_polls (w : World K) (wt : K → K) (bell : Nat) (uc hand : Bool)
    (hpc : w.pc = .pullOff bell uc hand) (h : w.rh.reg.start = .inf) :
    w.mainStep wt = (w, .sleep (Num.ofQ waitSleepTime)) := by
  unfold World.mainStep
  simp only [hpc, h]

/-- **Only the leader's strike ends it**: no other operation of the regression rhythm turns "not yet"
into a time — not another bell's strike (its expected blow is not 0), not a data point, not an
expectation. -/
theorem only_leader_anchors (r : Reg K) (wt : K → K) (reg : List (K × K × K) → K × K) (bell : Nat) (hand : Bool)
    (t : K) (h : r.start = .inf)
    (hnot : ∀ row place, r.lookupExpected bell hand = some (row, place) → r.blowTime row place ≠ 0) :
    (r.onBellRing wt reg bell hand t).start = .inf := by
  unfold Reg.onBellRing
  cases hq : r.lookupExpected bell hand with
  | none => simpa using h
  | some rp =>
    obtain ⟨row, place⟩ := rp
    have hb : Num.eqb (r.blowTime row place) (Num.ofNat 0) = false := by simpa using hnot row place hq
    simp only [hb, Bool.false_eq_true, if_false]
    exact addDataPoint_start_inf r reg row place t _ h

omit [Field K] [LinearOrder K] [IsStrictOrderedRing K] in
theorem expect_keeps_start (r : Reg K) (bell row place : Nat) (hand : Bool) :
    (r.expect bell row place hand).start = r.start := rfl

/-- **The leader's actual strike anchors the line**: the strike expected at blow 0 sets the start to
its own time, with weight 1 (it is never re-weighted) — and with the data set empty, as it is after
Look To, no regression can move it. -/
theorem leader_anchors (r : Reg K) (wt : K → K) (reg : List (K × K × K) → K × K) (bell : Nat) (hand : Bool)
    (t : K) (row place : Nat) (hexp : r.lookupExpected bell hand = some (row, place))
    (hb : r.blowTime row place = 0) (hempty : r.dataSet = []) (hmin : 2 ≤ r.minBells) :
    (r.onBellRing wt reg bell hand t).start = .fin t ∧
    (r.onBellRing wt reg bell hand t).interval = r.interval := by
  unfold Reg.onBellRing
  simp only [hexp]
  have hb' : Num.eqb (r.blowTime row place) (Num.ofNat 0) = true := by simp [hb]
  simp only [hb', if_true]
  generalize hq : ({ r with start := Time.fin t } : Reg K) = q
  have hqd : q.dataSet = [] := by subst hq; exact hempty
  have hqm : q.minBells = r.minBells := by subst hq; rfl
  generalize (if r.dataSet.length ≤ 1 then (Num.ofNat 1 : K) else
      (match r.start with
        | Time.fin s => wt (realTimeToBlowTime (r.line s) t - r.blowTime row place)
        | Time.inf => Num.ofNat 0)) = w
  have hlen : (q.newDataSet row place t w).length ≤ 1 := by
    unfold Reg.newDataSet
    simp only [hqd, List.nil_append]
    split
    · rw [List.length_tail]; exact le_trans (Nat.sub_le _ _) (List.length_filter_le _ _)
    · exact List.length_filter_le _ _
  have hun := addDataPoint_line_unchanged q reg row place t w (Or.inr (by rw [hqm]; omega))
  rw [hun.1, hun.2]
  subst hq
  exact ⟨rfl, rfl⟩

/-- The rest of the first row is then placed from that strike at the configured speed:
place `p` of row 0 is due `I·p` after it. -/
theorem first_row_from_leader (l : Line K) (p : Nat) :
    indexToRealTime l 0 p = l.start + l.interval * p := by
  simp [C11.real_time]

/-! Non-vacuity: blow 0 is (row 0, place 0) and nothing else. -/
example (r : Reg ℚ) (hN : 0 < r.stage) (hg : 0 ≤ r.gap) : r.blowTime 0 0 = 0 ∧ r.blowTime 0 1 ≠ 0 := by
  simp [Reg.blowTime, C11.blow_index, Reg.line]

/-! ### Hold-ups of earlier touches (the waiting rhythm's `delay`) do not move the pull-off -/

theorem withReg_wait (w : World K) (f : (List (K × K × K) → K × K) → Reg K) :
    (w.withReg f).rh.wait = w.rh.wait ∧ (w.withReg f).rh.stub = w.rh.stub ∧ (w.withReg f).bot = w.bot
    ∧ (w.withReg f).now = w.now ∧ ∃ regf, (w.withReg f).rh.reg = f regf := by
  unfold World.withReg
  dsimp only
  split <;> split <;> exact ⟨rfl, rfl, rfl, rfl, _, rfl⟩

theorem look_to_with_hold_up (w : World K) (wt : K → K) (callTime : K) (stage n : Nat) (wr : WaitR K)
    (hstub : w.rh.stub = none) (hw : w.rh.wait = some wr) :
    let w' := w.applyOut wt callTime (.rInit stage false n)
    w'.rh.reg.start = .fin (callTime + 3 - w'.delay) ∧ w'.delay = wr.delay ∧ w'.bot = w.bot
      ∧ w'.rh.stub = none := by
  intro w'
  have h3 : (Num.ofQ lookToDuration : K) = 3 := anchor_is_look_to_plus_3
  simp only [w', World.applyOut, hstub, hw]
  generalize hw1 : ({ w with obs := _, rh := _, now := _, lastActivity := _ } : World K) = w1
  obtain ⟨hwait, hst, hbot, -, regf, hreg⟩ := withReg_wait w1
    (fun regf => w.rh.reg.initialiseLine regf stage false (callTime + Num.ofQ lookToDuration - wr.delay))
  have hd : World.delay (w1.withReg (fun regf => w.rh.reg.initialiseLine regf stage false
      (callTime + Num.ofQ lookToDuration - wr.delay))) = wr.delay := by
    unfold World.delay; rw [hwait]; subst hw1; rfl
  refine ⟨?_, hd, ?_, ?_⟩
  · rw [hreg, hd, wheatley_leads, h3]
  · rw [hbot]; subst hw1; rfl
  · rw [hst]; subst hw1; rfl

/-- The hold-up cancels: when the inner line starts at `T − delay` (inner frame), a wait for blow 0 that
begins before `T` on the real clock sleeps until exactly `T` on the real clock. -/
theorem wait_cancels_hold_up (v : World K) (T : K) (bell : Nat) (hand : Bool)
    (hst : v.rh.stub = none) (hs : v.rh.reg.start = .fin (T - v.delay))
    (hrow : v.bot.rowNumber = 0) (hplace : v.bot.place = 0) (hne : T - v.delay ≠ 0) (hnow : v.now < T) :
    v.now + (v.beginWait bell false hand).2.1 = T := by
  have hne' : Num.eqb (T - v.delay) (Num.ofNat 0 : K) = false := by simpa using hne
  have key : ∀ u : World K, u.rh.reg = v.rh.reg → u.now = v.now → u.delay = v.delay → u.bot = v.bot →
      u.rh.reg.waitPlan (u.now - u.delay) u.bot.rowNumber u.bot.place false = .sleep (T - v.now) := by
    intro u hr hn hdl hbt
    rw [hr, hn, hdl, hbt, hrow, hplace]
    unfold Reg.waitPlan
    simp only [hs, hne', Bool.false_eq_true, if_false]
    have hbt0 : indexToRealTime (v.rh.reg.line (T - v.delay)) 0 0 = T - v.delay := by
      simp [C11.real_time, Reg.line]
    rw [hbt0]
    have : v.now - v.delay < T - v.delay := by linarith
    simp only [this, if_true]
    congr 1; ring
  unfold World.beginWait
  simp only [hst]
  cases hwq : v.rh.wait with
  | none =>
    have h1 := key v rfl rfl rfl rfl
    simp only at h1 ⊢
    simp only [h1]; ring
  | some x =>

    have h1 := key v rfl rfl rfl rfl
    have hdl : ∀ u : World K, u.rh.wait = some { x with currentHand := hand } → u.delay = v.delay := by
      intro u h; unfold World.delay; simp only [h, hwq]
    rw [hdl _ rfl]
    simp only [h1]; ring

/-- **Wheatley leads, whatever happened before**: after Look To the wait for the first strike that
begins before `Look To + 3 s` ends exactly at `Look To + 3 s` of the real clock, for every hold-up the
waiting rhythm has accumulated in earlier touches. -/
theorem first_strike_despite_hold_up (w : World K) (wt : K → K) (callTime : K) (stage n : Nat) (wr : WaitR K)
    (bell : Nat) (hand : Bool)
    (hstub : w.rh.stub = none) (hw : w.rh.wait = some wr)
    (hrow : w.bot.rowNumber = 0) (hplace : w.bot.place = 0)
    (hne : callTime + 3 - wr.delay ≠ 0)
    (hnow : (w.applyOut wt callTime (.rInit stage false n)).now < callTime + 3) :
    (w.applyOut wt callTime (.rInit stage false n)).now +
      ((w.applyOut wt callTime (.rInit stage false n)).beginWait bell false hand).2.1 = callTime + 3 := by
  obtain ⟨hs, hd, hb, hst⟩ := look_to_with_hold_up w wt callTime stage n wr hstub hw
  exact wait_cancels_hold_up _ _ bell hand hst hs (by rw [hb]; exact hrow) (by rw [hb]; exact hplace)
    (by rw [hd]; exact hne) hnow
/-! ### Look To handled on the socket thread while the main thread is held up -/

omit [Field K] [LinearOrder K] [IsStrictOrderedRing K] in
theorem WaitR.expect_delay (x : WaitR K) (bell : Nat) (hand : Bool) : (x.expect bell hand).delay = x.delay := by
  unfold WaitR.expect WaitR.setExpected WaitR.setEarly
  cases hand <;> cases x.currentHand <;> simp <;> split <;> rfl

theorem applyOut_snrKind_keeps (wt : K → K) (ct : K) (w : World K) (o : Out) (h : o.snrKind = true) :
    (World.applyOut wt ct w o).rh.reg.start = w.rh.reg.start ∧ (World.applyOut wt ct w o).delay = w.delay := by
  unfold World.applyOut
  cases o <;> simp [Out.snrKind] at h
  · simp only []; split <;> exact ⟨rfl, rfl⟩
  · simp only []; split
    · exact ⟨rfl, rfl⟩
    · refine ⟨rfl, ?_⟩
      unfold World.delay
      cases hw : w.rh.wait with
      | none => simp
      | some x => simp [WaitR.expect_delay]
  · simp only []; split <;> exact ⟨rfl, rfl⟩

theorem foldl_applyOut_snrKind_keeps (wt : K → K) (ct : K) (outs : List Out) :
    ∀ (w : World K), (∀ o ∈ outs, o.snrKind = true) →
      (outs.foldl (World.applyOut wt ct) w).rh.reg.start = w.rh.reg.start ∧
      (outs.foldl (World.applyOut wt ct) w).delay = w.delay := by
  induction outs with
  | nil => intro w _; exact ⟨rfl, rfl⟩
  | cons o rest ih =>
    intro w h
    have h1 := applyOut_snrKind_keeps wt ct w o (h o (by simp))
    have h2 := ih (World.applyOut wt ct w o) (fun o' ho' => h o' (by simp [ho']))
    simp only [List.foldl_cons]
    exact ⟨h2.1.trans h1.1, h2.2.trans h1.2⟩

/-- The rest of the Look To handler (generator swap, flags, first row, expectations) neither moves the
line's start nor touches the hold-up. -/
theorem lookToRest_keeps (wt : K → K) (w : World K) :
    (w.lookToRest wt).rh.reg.start = w.rh.reg.start ∧ (w.lookToRest wt).delay = w.delay := by
  unfold World.lookToRest
  have hk := startNextRow_kinds w.bot.armLookTo true
  have hf := foldl_applyOut_snrKind_keeps wt w.now (w.bot.armLookTo.startNextRow true).2
    { w with bot := (w.bot.armLookTo.startNextRow true).1 } hk
  simp only []
  split
  · exact hf
  · exact hf

theorem lookToInner_anchor (w : World K) (s : Susp K) (wr : WaitR K) (hw : w.rh.wait = some wr)
    (hut : s.userTreble = false) :
    (w.lookToInner s).rh.reg.start = .fin (s.callTime + 3 - wr.delay) ∧ (w.lookToInner s).delay = wr.delay := by
  have h3 : (Num.ofQ lookToDuration : K) = 3 := anchor_is_look_to_plus_3
  unfold World.lookToInner
  simp only [hw, hut]
  obtain ⟨hwait, -, -, -, regf, hreg⟩ := withReg_wait w
    (fun regf => w.rh.reg.initialiseLine regf s.stage false (s.callTime + Num.ofQ lookToDuration - wr.delay))
  constructor
  · rw [hreg, wheatley_leads, h3]
  · unfold World.delay; rw [hwait, hw]

/-- **Look To while the main thread is held up.**  The handler sleeps 20 ms on the socket thread "to
clear any current waiting loops"; the main thread leaves its hold-up meanwhile and books the time it
waited.  When the handler wakes up, the line is anchored with the hold-up *as it is then*: in the inner
rhythm's frame the start is `Look To + 3 − delay` for the very `delay` that every later wait uses, so
(`wait_cancels_hold_up`) the interrupted hold-up does not leak into the new touch. -/
theorem resume_anchors_with_current_hold_up (w : World K) (wt : K → K) (s : Susp K) (wr : WaitR K)
    (hw : w.rh.wait = some wr) (hut : s.userTreble = false) :
    (w.lookToResume wt s).rh.reg.start = .fin (s.callTime + 3 - (w.lookToResume wt s).delay) ∧
    (w.lookToResume wt s).delay = wr.delay := by
  unfold World.lookToResume
  obtain ⟨h1, h2⟩ := lookToRest_keeps wt (({ w with suspended := none } : World K).lookToInner s)
  obtain ⟨h3, h4⟩ := lookToInner_anchor ({ w with suspended := none } : World K) s wr hw hut
  rw [h1, h2, h3, h4]
  exact ⟨rfl, rfl⟩
/-- **A peal-speed change does not end the wait for the leader**: while the line is "not yet", changing
(or re-sending) the peal speed changes the interval only; the line stays "not yet", so
(`leader_turn_is_pull_off`, `pull_off_only_polls`) Wheatley keeps waiting for the leader's strike. -/
theorem speed_change_keeps_waiting (r : Reg K) (newSpeed realTime : K) (h : r.start = .inf) :
    (r.changePealSpeed newSpeed realTime).start = .inf := by
  unfold Reg.changePealSpeed
  simp only [h]
  split <;> rfl

/-! ### Messages during the wait for the pull-off -/

/-- **Whatever arrives meanwhile**: while the main thread waits for the human leader to pull off, the delivery of
any event leaves it in that loop and strikes nothing (`only_the_main_thread_strikes`); and as long as the line is
still unanchored afterwards - only the leader's own strike anchors it (`only_leader_anchors`), or a new Look To -
the next wake-up only sleeps again. -/
theorem pull_off_survives_delivery (wt : K → K) (w : World K) (e : Ev) (bell : Nat) (uc hand : Bool)
    (hpc : w.pc = .pullOff bell uc hand) :
    (World.deliver wt w e).pc = .pullOff bell uc hand ∧
    ringsOf (World.deliver wt w e).obs = ringsOf w.obs ∧
    ((World.deliver wt w e).rh.reg.start = .inf →
      (World.deliver wt w e).mainStep wt = (World.deliver wt w e, .sleep (Num.ofQ waitSleepTime))) := by
  obtain ⟨h1, h2⟩ := deliver_never_rings wt w e
  exact ⟨h1.trans hpc, h2, fun hs => pull_off_only_polls _ wt bell uc hand (h1.trans hpc) hs⟩

end Wheatley.C15
