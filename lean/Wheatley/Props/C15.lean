/-
C15 — pull-off: 3 s after Look To, or whenever the human treble actually goes.
-/
import Wheatley.Props.C11
import Wheatley.Model.World
import Wheatley.Lemmas.Outs
import Wheatley.Lemmas.Handlers
namespace Wheatley.C15
open Generated

variable {K : Type} [Field K] [LinearOrder K] [IsStrictOrderedRing K]

/-- Whether a human leads is decided on the *opening row's* first bell (the bell that strikes first),
and the line's anchor handed to the rhythm is `Look To time + LOOK_TO_DURATION`. -/
theorem who_leads (b : Bot) (treble : Nat) (rest : Row) (h : b.openingRow = treble :: rest) :
    ∃ nUser o, (b.lookTo).2 = [Out.rReturn, Out.rInit b.n (b.userAssigned treble) nUser] ++ o := by
  unfold Bot.lookTo
  simp only [h]
  exact ⟨_, _, rfl⟩

/-- The World turns that call into `initialise_line(…, call_time + 3, …)`. -/
theorem anchor_is_look_to_plus_3 : (Num.ofQ lookToDuration : K) = 3 := C11.lookToDuration_is_3

/-- **Wheatley leads**: the line starts exactly 3 s after Look To, so (C11 `wait_hits_line`) the first
strike is exactly there. -/
theorem wheatley_leads (r : Reg K) (reg : List (K × K × K) → K × K) (stage : Nat) (startTime : K) :
    (r.initialiseLine reg stage false startTime).start = .fin startTime := by
  simp [Reg.initialiseLine]

/-- **A human leads**: the line is "not yet" … -/
theorem human_leads (r : Reg K) (reg : List (K × K × K) → K × K) (stage : Nat) (startTime : K) :
    (r.initialiseLine reg stage true startTime).start = .inf ∧
    (r.initialiseLine reg stage true startTime).dataSet = [] := by
  simp [Reg.initialiseLine, Reg.resetForTouch]

/-- … the leader's turn is the pull-off loop … -/
theorem leader_turn_is_pull_off (r : Reg K) (now : K) (row place : Nat) (h : r.start = .inf) :
    r.waitPlan now row place true = .pullOff := by
  simp [Reg.waitPlan, h]

/-- … which only polls — no strike, no progress, the same program counter — for as long as the line
is "not yet", however long that takes. -/
theorem pull_off_only_polls (w : World K) (wt : K → K) (bell : Nat) (uc hand : Bool)
    (hpc : w.pc = .pullOff bell uc hand) (h : w.rh.reg.start = .inf) :
    w.mainStep wt = (w, .sleep (Num.ofQ waitSleepTime)) := by
  unfold World.mainStep
  simp only [hpc, h]

/-- **Only the leader's strike ends it**: no other operation of the regression rhythm turns "not yet"
into a time — not another bell's strike (its expected blow is not 0), not a data point, not an
expectation. -/
theorem only_leader_anchors (r : Reg K) (wt : K → K) (reg : List (K × K × K) → K × K) (bell : Nat) (hand : Bool)
    (t : K) (h : r.start = .inf)
    (hnot : ∀ row place, r.lookupExpected bell hand = some (row, place) → r.blowTime row place ≠ 0) :
    (r.onBellRing wt reg bell hand t).start = .inf := by
  unfold Reg.onBellRing
  cases hq : r.lookupExpected bell hand with
  | none => simpa using h
  | some rp =>
    obtain ⟨row, place⟩ := rp
    have hb : Num.eqb (r.blowTime row place) (Num.ofNat 0) = false := by simpa using hnot row place hq
    simp only [hb, Bool.false_eq_true, if_false]
    exact addDataPoint_start_inf r reg row place t _ h

omit [Field K] [LinearOrder K] [IsStrictOrderedRing K] in
theorem expect_keeps_start (r : Reg K) (bell row place : Nat) (hand : Bool) :
    (r.expect bell row place hand).start = r.start := rfl

/-- **The leader's actual strike anchors the line**: the strike expected at blow 0 sets the start to
its own time, with weight 1 (it is never re-weighted) — and with the data set empty, as it is after
Look To, no regression can move it. -/
theorem leader_anchors (r : Reg K) (wt : K → K) (reg : List (K × K × K) → K × K) (bell : Nat) (hand : Bool)
    (t : K) (row place : Nat) (hexp : r.lookupExpected bell hand = some (row, place))
    (hb : r.blowTime row place = 0) (hempty : r.dataSet = []) (hmin : 2 ≤ r.minBells) :
    (r.onBellRing wt reg bell hand t).start = .fin t ∧
    (r.onBellRing wt reg bell hand t).interval = r.interval := by
  unfold Reg.onBellRing
  simp only [hexp]
  have hb' : Num.eqb (r.blowTime row place) (Num.ofNat 0) = true := by simp [hb]
  simp only [hb', if_true]
  generalize hq : ({ r with start := Time.fin t } : Reg K) = q
  have hqd : q.dataSet = [] := by subst hq; exact hempty
  have hqm : q.minBells = r.minBells := by subst hq; rfl
  generalize (if r.dataSet.length ≤ 1 then (Num.ofNat 1 : K) else
      (match r.start with
        | Time.fin s => wt (realTimeToBlowTime (r.line s) t - r.blowTime row place)
        | Time.inf => Num.ofNat 0)) = w
  have hlen : (q.newDataSet row place t w).length ≤ 1 := by
    unfold Reg.newDataSet
    simp only [hqd, List.nil_append]
    split
    · rw [List.length_tail]; exact le_trans (Nat.sub_le _ _) (List.length_filter_le _ _)
    · exact List.length_filter_le _ _
  have hun := addDataPoint_line_unchanged q reg row place t w (Or.inr (by rw [hqm]; omega))
  rw [hun.1, hun.2]
  subst hq
  exact ⟨rfl, rfl⟩

/-- The rest of the first row is then placed from that strike at the configured speed:
place `p` of row 0 is due `I·p` after it. -/
theorem first_row_from_leader (l : Line K) (p : Nat) :
    indexToRealTime l 0 p = l.start + l.interval * p := by
  simp [C11.real_time]

/-! Non-vacuity: blow 0 is (row 0, place 0) and nothing else. -/
example (r : Reg ℚ) (hN : 0 < r.stage) (hg : 0 ≤ r.gap) : r.blowTime 0 0 = 0 ∧ r.blowTime 0 1 ≠ 0 := by
  simp [Reg.blowTime, C11.blow_index, Reg.line]

/-! ### Hold-ups of earlier touches (the waiting rhythm's `delay`) do not move the pull-off -/

theorem withReg_wait (w : World K) (f : (List (K × K × K) → K × K) → Reg K) :
    (w.withReg f).rh.wait = w.rh.wait ∧ (w.withReg f).rh.stub = w.rh.stub ∧ (w.withReg f).bot = w.bot
    ∧ (w.withReg f).now = w.now ∧ ∃ regf, (w.withReg f).rh.reg = f regf := by
  unfold World.withReg
  dsimp only
  split <;> split <;> exact ⟨rfl, rfl, rfl, rfl, _, rfl⟩

theorem look_to_with_hold_up (w : World K) (wt : K → K) (callTime : K) (stage n : Nat) (wr : WaitR K)
    (hstub : w.rh.stub = none) (hw : w.rh.wait = some wr) :
    let w' := w.applyOut wt callTime (.rInit stage false n)
    w'.rh.reg.start = .fin (callTime + 3 - w'.delay) ∧ w'.delay = wr.delay ∧ w'.bot = w.bot
      ∧ w'.rh.stub = none := by
  intro w'
  have h3 : (Num.ofQ lookToDuration : K) = 3 := anchor_is_look_to_plus_3
  simp only [w', World.applyOut, hstub, hw]
  generalize hw1 : ({ w with obs := _, rh := _, now := _, lastActivity := _ } : World K) = w1
  obtain ⟨hwait, hst, hbot, -, regf, hreg⟩ := withReg_wait w1
    (fun regf => w.rh.reg.initialiseLine regf stage false (callTime + Num.ofQ lookToDuration - wr.delay))
  have hd : World.delay (w1.withReg (fun regf => w.rh.reg.initialiseLine regf stage false
      (callTime + Num.ofQ lookToDuration - wr.delay))) = wr.delay := by
    unfold World.delay; rw [hwait]; subst hw1; rfl
  refine ⟨?_, hd, ?_, ?_⟩
  · rw [hreg, hd, wheatley_leads, h3]
  · rw [hbot]; subst hw1; rfl
  · rw [hst]; subst hw1; rfl

/-- The hold-up cancels: when the inner line starts at `T − delay` (inner frame), a wait for blow 0 that
begins before `T` on the real clock sleeps until exactly `T` on the real clock. -/
theorem wait_cancels_hold_up (v : World K) (T : K) (bell : Nat) (hand : Bool)
    (hst : v.rh.stub = none) (hs : v.rh.reg.start = .fin (T - v.delay))
    (hrow : v.bot.rowNumber = 0) (hplace : v.bot.place = 0) (hne : T - v.delay ≠ 0) (hnow : v.now < T) :
    v.now + (v.beginWait bell false hand).2.1 = T := by
  have hne' : Num.eqb (T - v.delay) (Num.ofNat 0 : K) = false := by simpa using hne
  have key : ∀ u : World K, u.rh.reg = v.rh.reg → u.now = v.now → u.delay = v.delay → u.bot = v.bot →
      u.rh.reg.waitPlan (u.now - u.delay) u.bot.rowNumber u.bot.place false = .sleep (T - v.now) := by
    intro u hr hn hdl hbt
    rw [hr, hn, hdl, hbt, hrow, hplace]
    unfold Reg.waitPlan
    simp only [hs, hne', Bool.false_eq_true, if_false]
    have hbt0 : indexToRealTime (v.rh.reg.line (T - v.delay)) 0 0 = T - v.delay := by
      simp [C11.real_time, Reg.line]
    rw [hbt0]
    have : v.now - v.delay < T - v.delay := by linarith
    simp only [this, if_true]
    congr 1; ring
  unfold World.beginWait
  simp only [hst]
  cases hwq : v.rh.wait with
  | none =>
    have h1 := key v rfl rfl rfl rfl
    simp only at h1 ⊢
    simp only [h1]; ring
  | some x =>

    have h1 := key v rfl rfl rfl rfl
    have hdl : ∀ u : World K, u.rh.wait = some { x with currentHand := hand } → u.delay = v.delay := by
      intro u h; unfold World.delay; simp only [h, hwq]
    rw [hdl _ rfl]
    simp only [h1]; ring

/-- **Wheatley leads, whatever happened before**: after Look To the wait for the first strike that
begins before `Look To + 3 s` ends exactly at `Look To + 3 s` of the real clock, for every hold-up the
waiting rhythm has accumulated in earlier touches. -/
theorem first_strike_despite_hold_up (w : World K) (wt : K → K) (callTime : K) (stage n : Nat) (wr : WaitR K)
    (bell : Nat) (hand : Bool)
    (hstub : w.rh.stub = none) (hw : w.rh.wait = some wr)
    (hrow : w.bot.rowNumber = 0) (hplace : w.bot.place = 0)
    (hne : callTime + 3 - wr.delay ≠ 0)
    (hnow : (w.applyOut wt callTime (.rInit stage false n)).now < callTime + 3) :
    (w.applyOut wt callTime (.rInit stage false n)).now +
      ((w.applyOut wt callTime (.rInit stage false n)).beginWait bell false hand).2.1 = callTime + 3 := by
  obtain ⟨hs, hd, hb, hst⟩ := look_to_with_hold_up w wt callTime stage n wr hstub hw
  exact wait_cancels_hold_up _ _ bell hand hst hs (by rw [hb]; exact hrow) (by rw [hb]; exact hplace)
    (by rw [hd]; exact hne) hnow
/-! ### Look To handled on the socket thread while the main thread is held up -/

omit [Field K] [LinearOrder K] [IsStrictOrderedRing K] in
theorem WaitR.expect_delay (x : WaitR K) (bell : Nat) (hand : Bool) : (x.expect bell hand).delay = x.delay := by
  unfold WaitR.expect WaitR.setExpected WaitR.setEarly
  cases hand <;> cases x.currentHand <;> simp <;> split <;> rfl

theorem applyOut_snrKind_keeps (wt : K → K) (ct : K) (w : World K) (o : Out) (h : o.snrKind = true) :
    (World.applyOut wt ct w o).rh.reg.start = w.rh.reg.start ∧ (World.applyOut wt ct w o).delay = w.delay := by
  unfold World.applyOut
  cases o <;> simp [Out.snrKind] at h
  · simp only []; split <;> exact ⟨rfl, rfl⟩
  · simp only []; split
    · exact ⟨rfl, rfl⟩
    · refine ⟨rfl, ?_⟩
      unfold World.delay
      cases hw : w.rh.wait with
      | none => simp
      | some x => simp [WaitR.expect_delay]
  · simp only []; split <;> exact ⟨rfl, rfl⟩

theorem foldl_applyOut_snrKind_keeps (wt : K → K) (ct : K) (outs : List Out) :
    ∀ (w : World K), (∀ o ∈ outs, o.snrKind = true) →
      (outs.foldl (World.applyOut wt ct) w).rh.reg.start = w.rh.reg.start ∧
      (outs.foldl (World.applyOut wt ct) w).delay = w.delay := by
  induction outs with
  | nil => intro w _; exact ⟨rfl, rfl⟩
  | cons o rest ih =>
    intro w h
    have h1 := applyOut_snrKind_keeps wt ct w o (h o (by simp))
    have h2 := ih (World.applyOut wt ct w o) (fun o' ho' => h o' (by simp [ho']))
    simp only [List.foldl_cons]
    exact ⟨h2.1.trans h1.1, h2.2.trans h1.2⟩

/-- The rest of the Look To handler (generator swap, flags, first row, expectations) neither moves the
line's start nor touches the hold-up. -/
theorem lookToRest_keeps (wt : K → K) (w : World K) :
    (w.lookToRest wt).rh.reg.start = w.rh.reg.start ∧ (w.lookToRest wt).delay = w.delay := by
  unfold World.lookToRest
  have hk := startNextRow_kinds w.bot.armLookTo true
  have hf := foldl_applyOut_snrKind_keeps wt w.now (w.bot.armLookTo.startNextRow true).2
    { w with bot := (w.bot.armLookTo.startNextRow true).1 } hk
  simp only []
  split
  · exact hf
  · exact hf

theorem lookToInner_anchor (w : World K) (s : Susp K) (wr : WaitR K) (hw : w.rh.wait = some wr)
    (hut : s.userTreble = false) :
    (w.lookToInner s).rh.reg.start = .fin (s.callTime + 3 - wr.delay) ∧ (w.lookToInner s).delay = wr.delay := by
  have h3 : (Num.ofQ lookToDuration : K) = 3 := anchor_is_look_to_plus_3
  unfold World.lookToInner
  simp only [hw, hut]
  obtain ⟨hwait, -, -, -, regf, hreg⟩ := withReg_wait w
    (fun regf => w.rh.reg.initialiseLine regf s.stage false (s.callTime + Num.ofQ lookToDuration - wr.delay))
  constructor
  · rw [hreg, wheatley_leads, h3]
  · unfold World.delay; rw [hwait, hw]

/-- **Look To while the main thread is held up.**  The handler sleeps 20 ms on the socket thread "to
clear any current waiting loops"; the main thread leaves its hold-up meanwhile and books the time it
waited.  When the handler wakes up, the line is anchored with the hold-up *as it is then*: in the inner
rhythm's frame the start is `Look To + 3 − delay` for the very `delay` that every later wait uses, so
(`wait_cancels_hold_up`) the interrupted hold-up does not leak into the new touch. -/
theorem resume_anchors_with_current_hold_up (w : World K) (wt : K → K) (s : Susp K) (wr : WaitR K)
    (hw : w.rh.wait = some wr) (hut : s.userTreble = false) :
    (w.lookToResume wt s).rh.reg.start = .fin (s.callTime + 3 - (w.lookToResume wt s).delay) ∧
    (w.lookToResume wt s).delay = wr.delay := by
  unfold World.lookToResume
  obtain ⟨h1, h2⟩ := lookToRest_keeps wt (({ w with suspended := none } : World K).lookToInner s)
  obtain ⟨h3, h4⟩ := lookToInner_anchor ({ w with suspended := none } : World K) s wr hw hut
  rw [h1, h2, h3, h4]
  exact ⟨rfl, rfl⟩
/-- **A peal-speed change does not end the wait for the leader**: while the line is "not yet", changing
(or re-sending) the peal speed changes the interval only; the line stays "not yet", so
(`leader_turn_is_pull_off`, `pull_off_only_polls`) Wheatley keeps waiting for the leader's strike. -/
theorem speed_change_keeps_waiting (r : Reg K) (newSpeed realTime : K) (h : r.start = .inf) :
    (r.changePealSpeed newSpeed realTime).start = .inf := by
  unfold Reg.changePealSpeed
  simp only [h]
  split <;> rfl

/-! ### Messages during the wait for the pull-off -/

/-- **Whatever arrives meanwhile**: while the main thread waits for the human leader to pull off, the delivery of
any event leaves it in that loop and strikes nothing (`only_the_main_thread_strikes`); and as long as the line is
still unanchored afterwards - only the leader's own strike anchors it (`only_leader_anchors`), or a new Look To -
the next wake-up only sleeps again. -/
theorem pull_off_survives_delivery (wt : K → K) (w : World K) (e : Ev) (bell : Nat) (uc hand : Bool)
    (hpc : w.pc = .pullOff bell uc hand) :
    (World.deliver wt w e).pc = .pullOff bell uc hand ∧
    ringsOf (World.deliver wt w e).obs = ringsOf w.obs ∧
    ((World.deliver wt w e).rh.reg.start = .inf →
      (World.deliver wt w e).mainStep wt = (World.deliver wt w e, .sleep (Num.ofQ waitSleepTime))) := by
  obtain ⟨h1, h2⟩ := deliver_never_rings wt w e
  exact ⟨h1.trans hpc, h2, fun hs => pull_off_only_polls _ wt bell uc hand (h1.trans hpc) hs⟩

/-! ### Nothing before the leader, however long, whatever else arrives -/

section PullOff

/-- The line is not anchored, and the only expectation of the rhythm that sits at blow 0 is the leader's. -/
def Unanchored (w : World K) (lead : Nat) : Prop :=
  w.rh.reg.start = .inf ∧
  ∀ p ∈ w.rh.reg.expected, w.rh.reg.blowTime p.2.1 p.2.2 = 0 → p.1.1 = lead

/-- Events that are neither a strike of the leading bell, nor Look To, nor the second half of a Look To handler:
other bells' strikes, every other call, Stop Touch, assignments, settings, selections, size changes. -/
def QuietLead (lead : Nat) : Ev → Prop
  | .resume => False
  | .msg (.bellRung _ who) => who ≠ lead
  | .msg (.call c) => c ≠ Generated.call_LOOK_TO
  | .msg _ => True

def harmlessL (lead : Nat) : Out → Bool
  | .rInit _ _ _ => false
  | .rExpect _ _ _ _ => false
  | .rBellRing b _ => b != lead
  | _ => true

theorem addDataPoint_frame (r : Reg K) (reg : List (K × K × K) → K × K) (row place : Nat) (t wgt : K) :
    (r.addDataPoint reg row place t wgt).stage = r.stage ∧ (r.addDataPoint reg row place t wgt).gap = r.gap ∧
    (r.addDataPoint reg row place t wgt).expected = r.expected := by
  unfold Reg.addDataPoint
  simp only []
  generalize (if 0 < row then r.preferredInertia else r.initialInertia) = inertia
  by_cases h1 : Num.eqb inertia (Num.ofNat 1) = true
  · rw [if_pos h1]; exact ⟨rfl, rfl, rfl⟩
  · rw [if_neg h1]
    by_cases h2 : r.minBells ≤ ((r.newDataSet row place t wgt).length : Int)
    · rw [if_pos h2]
      unfold Reg.relerp
      simp only []
      cases r.start <;> exact ⟨rfl, rfl, rfl⟩
    · rw [if_neg h2]; exact ⟨rfl, rfl, rfl⟩

theorem onBellRing_frame (r : Reg K) (wt : K → K) (reg : List (K × K × K) → K × K) (b : Nat) (h : Bool) (t : K) :
    (r.onBellRing wt reg b h t).stage = r.stage ∧ (r.onBellRing wt reg b h t).gap = r.gap ∧
    (∀ p ∈ (r.onBellRing wt reg b h t).expected, p ∈ r.expected) := by
  unfold Reg.onBellRing
  split
  · exact ⟨rfl, rfl, fun p hp => hp⟩
  · simp only []
    split
    · obtain ⟨h1, h2, h3⟩ := addDataPoint_frame ({ r with start := Time.fin t } : Reg K) reg _ _ t _
      refine ⟨h1, h2, ?_⟩
      intro p hp
      have := (List.mem_filter.mp hp).1
      rw [h3] at this
      exact this
    · obtain ⟨h1, h2, h3⟩ := addDataPoint_frame r reg _ _ t _
      refine ⟨h1, h2, ?_⟩
      intro p hp
      have := (List.mem_filter.mp hp).1
      rw [h3] at this
      exact this

theorem blowTime_frame (r r' : Reg K) (hs : r'.stage = r.stage) (hg : r'.gap = r.gap) (row place : Nat) :
    r'.blowTime row place = r.blowTime row place := by
  unfold Reg.blowTime Reg.line indexToBlowTime
  simp only [hs, hg]

theorem lookup_mem (r : Reg K) (b : Nat) (h : Bool) (rp : Nat × Nat) (hl : r.lookupExpected b h = some rp) :
    ((b, h), rp) ∈ r.expected := by
  unfold Reg.lookupExpected at hl
  split at hl
  · rename_i p hp
    simp only [Option.some.injEq] at hl
    have hm := List.mem_of_find?_eq_some hp
    have hk := List.find?_some hp
    simp only [beq_iff_eq] at hk
    have : p = ((b, h), rp) := by
      cases p with
      | mk k v => simp only at hk hl; subst hk; subst hl; rfl
    rw [← this]; exact hm
  · cases hl

/-- A strike of a bell other than the leader leaves the line unanchored. -/
theorem onBellRing_unanchored (r : Reg K) (wt : K → K) (reg : List (K × K × K) → K × K) (b : Nat) (h : Bool) (t : K)
    (lead : Nat) (hb : b ≠ lead) (hs : r.start = .inf)
    (hi : ∀ p ∈ r.expected, r.blowTime p.2.1 p.2.2 = 0 → p.1.1 = lead) :
    (r.onBellRing wt reg b h t).start = .inf ∧
    ∀ p ∈ (r.onBellRing wt reg b h t).expected, (r.onBellRing wt reg b h t).blowTime p.2.1 p.2.2 = 0 → p.1.1 = lead := by
  obtain ⟨f1, f2, f3⟩ := onBellRing_frame r wt reg b h t
  refine ⟨?_, ?_⟩
  · apply only_leader_anchors r wt reg b h t hs
    intro row place hl h0
    have := hi _ (lookup_mem r b h (row, place) hl) h0
    exact hb this
  · intro p hp h0
    rw [blowTime_frame r _ f1 f2] at h0
    exact hi p (f3 p hp) h0

theorem changePealSpeed_unanchored (r : Reg K) (sp t : K) (lead : Nat) (hs : r.start = .inf)
    (hi : ∀ p ∈ r.expected, r.blowTime p.2.1 p.2.2 = 0 → p.1.1 = lead) :
    (r.changePealSpeed sp t).start = .inf ∧
    ∀ p ∈ (r.changePealSpeed sp t).expected, (r.changePealSpeed sp t).blowTime p.2.1 p.2.2 = 0 → p.1.1 = lead := by
  have e : (r.changePealSpeed sp t).start = .inf ∧ (r.changePealSpeed sp t).expected = r.expected ∧
      (r.changePealSpeed sp t).stage = r.stage ∧ (r.changePealSpeed sp t).gap = r.gap := by
    unfold Reg.changePealSpeed
    simp only []
    split
    · exact ⟨hs, rfl, rfl, rfl⟩
    · rw [hs]; exact ⟨rfl, rfl, rfl, rfl⟩
  obtain ⟨e1, e2, e3, e4⟩ := e
  refine ⟨e1, ?_⟩
  intro p hp h0
  rw [blowTime_frame r _ e3 e4] at h0
  rw [e2] at hp
  exact hi p hp h0

theorem withReg_reg (w : World K) (f : (List (K × K × K) → K × K) → Reg K) :
    ∃ g, (w.withReg f).rh.reg = f g := by
  unfold World.withReg
  simp only []
  exact ⟨_, ite_proj (fun x : World K => x.rh.reg) _ _ _ _ rfl rfl⟩

theorem applyOut_harmlessL (wt : K → K) (ct : K) (w : World K) (o : Out) (lead : Nat)
    (ho : harmlessL lead o = true) (hu : Unanchored w lead) : Unanchored (World.applyOut wt ct w o) lead := by
  obtain ⟨hs, hi⟩ := hu
  cases o with
  | rInit _ _ _ => simp [harmlessL] at ho
  | rExpect _ _ _ _ => simp [harmlessL] at ho
  | rBellRing b h =>
    have hb : b ≠ lead := by simpa [harmlessL] using ho
    unfold World.applyOut
    simp only []
    split
    · exact ⟨hs, hi⟩
    · obtain ⟨g, hg⟩ := withReg_reg ({ w with obs := { t := w.now, out := Out.rBellRing b h } :: w.obs } : World K)
        (fun regf => w.rh.reg.onBellRing wt regf b h (w.now - World.delay ({ w with obs := { t := w.now, out := Out.rBellRing b h } :: w.obs } : World K)))
      show (World.withReg _ _).rh.reg.start = .inf ∧ ∀ p ∈ (World.withReg _ _).rh.reg.expected, _
      rw [hg]
      exact onBellRing_unanchored w.rh.reg wt g b h _ lead hb hs hi
  | rSetting key v =>
    unfold World.applyOut
    simp only []
    split
    · exact ⟨hs, hi⟩
    · split
      · split
        · split
          · exact changePealSpeed_unanchored w.rh.reg _ _ lead hs hi
          · exact ⟨hs, hi⟩
        all_goals exact ⟨hs, hi⟩
      · split
        · split
          · split
            · exact ⟨hs, hi⟩
            · exact ⟨hs, hi⟩
          all_goals exact ⟨hs, hi⟩
        · exact ⟨hs, hi⟩
  | rReturn => unfold World.applyOut; simp only []; split <;> exact ⟨hs, hi⟩
  | ring _ _ => unfold World.applyOut; simp only []; split <;> exact ⟨hs, hi⟩
  | call _ => unfold World.applyOut; simp only []; split <;> exact ⟨hs, hi⟩
  | setIsRinging _ => unfold World.applyOut; simp only []; split <;> exact ⟨hs, hi⟩
  | rollCall _ => unfold World.applyOut; simp only []; split <;> exact ⟨hs, hi⟩
  | join => unfold World.applyOut; simp only []; split <;> exact ⟨hs, hi⟩
  | requestState => unfold World.applyOut; simp only []; split <;> exact ⟨hs, hi⟩
  | crash _ => unfold World.applyOut; simp only []; split <;> exact ⟨hs, hi⟩

theorem foldl_applyOut_harmlessL (wt : K → K) (ct : K) (lead : Nat) (outs : List Out) :
    ∀ (w : World K), (∀ o ∈ outs, harmlessL lead o = true) → Unanchored w lead →
      Unanchored (outs.foldl (World.applyOut wt ct) w) lead := by
  induction outs with
  | nil => intro w _ hu; exact hu
  | cons o rest ih =>
    intro w h hu
    simp only [List.foldl_cons]
    exact ih _ (fun o' ho' => h o' (by simp [ho'])) (applyOut_harmlessL wt ct w o lead (h o (by simp)) hu)

theorem foldSettings_harmlessL (lead : Nat) :
    ∀ (kvs : List (String × SVal)) (b : Bot), ∀ o ∈ (foldSettings b kvs).2, harmlessL lead o = true := by
  intro kvs
  induction kvs with
  | nil => intro b o ho; simp [foldSettings] at ho
  | cons kv rest ih =>
    intro b o ho
    obtain ⟨k, v⟩ := kv
    simp only [foldSettings, List.mem_append] at ho
    rcases ho with h | h
    · unfold Bot.onSetting at h
      split at h
      · simp at h
      · split at h
        · simp at h
        · split at h
          · simp at h
          · simp at h; subst h; rfl
    · exact ih _ o h

theorem makeCalls_harmlessL (b : Bot) (cs : List String) (lead : Nat) : ∀ o ∈ b.makeCalls cs, harmlessL lead o = true := by
  intro o ho
  unfold Bot.makeCalls at ho
  split at ho
  · rw [List.mem_map] at ho
    obtain ⟨x, _, rfl⟩ := ho
    rfl
  · simp at ho

/-- What the handler of such a message hands to the rhythm cannot anchor the line. -/
theorem onMsg_quietLead (b : Bot) (m : Msg) (lead : Nat) (hq : QuietLead lead (.msg m)) :
    ∀ o ∈ (b.onMsg m).2, harmlessL lead o = true := by
  intro o ho
  unfold Bot.onMsg at ho
  simp only [] at ho
  cases m with
  | bellRung st who =>
    simp only [] at ho
    split at ho
    · simp at ho
    · split at ho
      · simp at ho; subst ho
        have : who ≠ lead := hq
        simp [harmlessL, this]
      · simp at ho
  | globalState st =>
    simp only [] at ho
    unfold Bot.onSizeChange at ho
    split at ho
    · simp at ho; subst ho; rfl
    · simp at ho
  | sizeChange n =>
    simp only [] at ho
    split at ho
    · unfold Bot.onSizeChange at ho
      split at ho
      · simp at ho; subst ho; rfl
      · simp at ho
    · simp at ho
  | call c =>
    simp only [] at ho
    have hc : (c == Generated.call_LOOK_TO) = false := by
      have : c ≠ Generated.call_LOOK_TO := hq
      simpa using this
    unfold Bot.onCall at ho
    simp only [hc, Bool.false_eq_true, if_false] at ho
    split at ho
    · unfold Bot.onGo at ho
      split at ho
      · exact makeCalls_harmlessL _ _ lead o ho
      · simp at ho
    · repeat' split at ho
      all_goals simp at ho
  | setting kvs =>
    simp only [] at ho
    split at ho
    · exact foldSettings_harmlessL lead _ _ o ho
    · simp at ho
  | rowGen g =>
    simp only [] at ho
    repeat' split at ho
    all_goals simp at ho
  | stopTouch =>
    simp only [] at ho
    split at ho
    · simp at ho; rcases ho with rfl | rfl <;> rfl
    · simp at ho
  | userEntered _ _ => simp at ho
  | userList _ => simp at ho
  | assign _ _ => simp at ho
  | userLeft _ => simp at ho

theorem lookToSuspends_quietLead (w : World K) (m : Msg) (lead : Nat) (hq : QuietLead lead (.msg m)) :
    w.lookToSuspends m = none := by
  unfold World.lookToSuspends
  cases m with
  | call c =>
    have hc : (c == Generated.call_LOOK_TO) = false := by
      have : c ≠ Generated.call_LOOK_TO := hq
      simpa using this
    simp [hc]
  | _ => rfl

theorem deliver_quietLead (wt : K → K) (w : World K) (e : Ev) (lead : Nat) (hq : QuietLead lead e)
    (hu : Unanchored w lead) : Unanchored (World.deliver wt w e) lead := by
  cases e with
  | resume => exact absurd hq (by simp [QuietLead])
  | msg m =>
    unfold World.deliver
    simp only [lookToSuspends_quietLead w m lead hq]
    unfold World.deliverMsg
    simp only []
    have hb : Unanchored ({ w with bot := (w.bot.onMsg m).1 } : World K) lead := hu
    have := foldl_applyOut_harmlessL wt w.now lead (w.bot.onMsg m).2 _ (onMsg_quietLead w.bot m lead hq) hb
    split
    · exact this
    · exact this

theorem sleep_go_quietLead (wt : K → K) (limit : K) (lead : Nat) :
    ∀ (events : List (K × Ev)) (w : World K), (∀ ev ∈ events, QuietLead lead ev.2) → Unanchored w lead →
      Unanchored (World.sleep.go wt limit w events).1 lead ∧
      (∀ ev ∈ (World.sleep.go wt limit w events).2, QuietLead lead ev.2) := by
  intro events
  induction events with
  | nil => intro w _ hu; exact ⟨hu, by intro ev h; cases h⟩
  | cons ev rest ih =>
    intro w hq hu
    obtain ⟨t, m⟩ := ev
    unfold World.sleep.go
    split
    · have hu1 : Unanchored (if w.now < t then ({ w with now := t } : World K) else w) lead := by
        split
        · exact hu
        · exact hu
      exact ih _ (fun ev' h' => hq ev' (by simp [h'])) (deliver_quietLead wt _ m lead (hq (t, m) (by simp)) hu1)
    · exact ⟨hu, hq⟩

theorem sleep_quietLead (wt : K → K) (endTime : K) (w : World K) (d : K) (events : List (K × Ev)) (lead : Nat)
    (hq : ∀ ev ∈ events, QuietLead lead ev.2) (hu : Unanchored w lead) :
    Unanchored (World.sleep wt endTime w d events).1 lead ∧
    (∀ ev ∈ (World.sleep wt endTime w d events).2.1, QuietLead lead ev.2) := by
  unfold World.sleep
  simp only []
  split
  · exact sleep_go_quietLead wt endTime lead events w hq hu
  · obtain ⟨h1, h2⟩ := sleep_go_quietLead wt (w.now + d) lead events w hq hu
    exact ⟨h1, h2⟩

/-- **Nothing before the leader, however long and whatever else arrives.**  The main thread is in the pull-off
loop, the line is unanchored and the only expectation at blow 0 is the leader's.  If none of the events still to
come is a strike of the leading bell or a Look To - they may be anything else: the other ringers striking before
the leader, calls, Stop Touch, settings, assignments, size changes - then for the whole rest of the run, of
whatever length, Wheatley strikes nothing. -/
theorem silent_until_the_leader_pulls_off (wt : K → K) (endTime : K) (lead bell : Nat) (uc hand : Bool) :
    ∀ (fuel : Nat) (w : World K) (events : List (K × Ev)),
      w.pc = .pullOff bell uc hand → Unanchored w lead → (∀ ev ∈ events, QuietLead lead ev.2) →
      ringsOf (World.run wt endTime fuel w events).1.obs = ringsOf w.obs := by
  intro fuel
  induction fuel with
  | zero => intro w events _ _ _; rfl
  | succ fuel ih =>
    intro w events hpc hu hq
    have hstep := pull_off_only_polls w wt bell uc hand hpc hu.1
    unfold World.run
    simp only [hstep]
    obtain ⟨sp, sr⟩ := sleep_never_rings wt endTime w (Num.ofQ waitSleepTime) events
    obtain ⟨su, sq⟩ := sleep_quietLead wt endTime w (Num.ofQ waitSleepTime) events lead hq hu
    split
    · exact sr
    · rw [ih _ _ (sp.trans hpc) su sq]
      exact sr

/-- Non-vacuity: after Look To with a human on the treble, the rhythm expects bell 1 at (row 0, place 0) and bell 3
at (row 0, place 2): only the leader's expectation sits at blow 0. -/
example (r : Reg ℚ) (hs : r.start = .inf) (he : r.expected = [((1, true), (0, 0)), ((3, true), (0, 2))]) :
    ∀ p ∈ r.expected, r.blowTime p.2.1 p.2.2 = 0 → p.1.1 = 1 := by
  intro p hp h0
  rw [he] at hp
  simp only [List.mem_cons, List.not_mem_nil, or_false] at hp
  rcases hp with rfl | rfl
  · rfl
  · exfalso
    revert h0
    simp [Reg.blowTime, Reg.line, indexToBlowTime, num_ofNat]

end PullOff


end Wheatley.C15
