/-
C01 — every row Wheatley rings is a complete row: each tower bell exactly once.

Property theorems only (helper lemmas live in `Wheatley/Lemmas`).  Bot-level statements (opening
row, cover padding, closing rounds) are in the second half, over the model of `bot.py`.
-/
import Wheatley.Lemmas.Gen
import Wheatley.Lemmas.StartRow
import Wheatley.Model.Bot
namespace Wheatley.C01

/-- One change never loses or duplicates a bell: for every stage, every row and **every** place
set (all `2^n` of them, parity-consistent or not). -/
theorem permute_complete (stage : Nat) (row : Row) (places : Places) :
    (permute stage row places).Perm row :=
  permute_perm stage row places

/-- The start row (`generate_starting_row`) is a complete row of the tower whenever it is accepted
and mentions only bells that exist. -/
theorem start_row_complete (n : Nat) (custom : Option Row) (r : Row)
    (h : startingRow n custom = some r) (hfit : ∀ c, custom = some c → ∀ b ∈ c, 1 ≤ b ∧ b ≤ n) :
    r.Perm (rounds n) :=
  startingRow_perm n custom r h hfit

/-- Every row a notation- or rule-driven generator (place notation, Grandsire, Stedman, Plain
Hunt, Dixon's) ever produces is a permutation of its start row — for every configuration and
**every** history of `next_row` / `set_bob` / `set_single` / `reset`, of any length. -/
theorem gen_rows_complete (g : Gen) (hp : g.Permuting) (hrow : g.row.Perm g.startRow)
    (ops : List GenOp) : ∀ r ∈ evRows (g.runOps ops).2, r.Perm g.startRow :=
  Gen.runOps_inv (fun r => r.Perm g.startRow) ops g hp
    (fun r places h => (permute_perm g.stage r places).trans h) (List.Perm.refl _) hrow

/-- … in particular no bell is struck twice and none is omitted, when the start row is a complete
row of the tower. -/
theorem gen_rows_each_bell_once (g : Gen) (n : Nat) (hp : g.Permuting)
    (hstart : g.startRow.Perm (rounds n)) (hrow : g.row.Perm g.startRow) (ops : List GenOp) :
    ∀ r ∈ evRows (g.runOps ops).2, r.Nodup ∧ ∀ b, b ∈ r ↔ (1 ≤ b ∧ b ≤ n) := by
  intro r hr
  have hperm := (gen_rows_complete g hp hrow ops r hr).trans hstart
  exact ⟨hperm.nodup_iff.mpr (rounds_nodup n), fun b => (hperm.mem_iff).trans (mem_rounds n b)⟩

/-- A freshly constructed generator satisfies the hypotheses. -/
theorem init_row (kind : GenKind) (cs : Option Row) (sr : Row) :
    (Gen.init kind cs sr).row.Perm (Gen.init kind cs sr).startRow := List.Perm.refl _

/-! Non-vacuity: Grandsire Triples with a Bob and a Single really is an instance. -/
example : ∃ g, mkGrandsire 7 none = some g ∧ g.Permuting ∧ g.startRow = rounds 7 ∧
    (evRows (g.runOps [.next true, .bob, .next false, .next true, .single, .next false]).2).length = 4 := by
  refine ⟨(mkGrandsire 7 none).get (by decide), by simp, ?_, ?_, ?_⟩ <;> decide

/-! ### Bot level: opening row, cover padding, closing rounds -/

/-- The start row of a generator of stage `stage` is a prefix of the opening row of any tower at least
that big: the bells appended for the tower (`generate_starting_row(number_of_bells, …)`) come after
the ones appended for the stage. -/
theorem opening_extends_start_row (stage n : Nat) (cs : Option Row) (sr op : Row) (hle : stage ≤ n)
    (hs : startingRow stage cs = some sr) (ho : startingRow n cs = some op) : sr <+: op := by
  unfold startingRow at hs ho
  cases cs with
  | none =>
    simp only [Option.some.injEq] at hs ho
    subst hs ho
    obtain ⟨k, rfl⟩ := Nat.exists_eq_add_of_le hle
    refine ⟨(List.range' stage k).map (· + 1), ?_⟩
    simp only [rounds, List.range_eq_range', ← List.map_append]
    congr 1
    have := List.range'_append_1 (s := 0) (m := stage) (n := k)
    simpa using this
  | some c =>
    simp only at hs ho
    split at hs
    · cases hs
    · rename_i hd
      simp only [hd, Bool.false_eq_true, if_false, Option.some.injEq] at hs ho
      subst hs ho
      obtain ⟨k, rfl⟩ := Nat.exists_eq_add_of_le hle
      unfold appendMissing
      refine ⟨((List.range' stage k).map (· + 1)).filter (fun b => !c.contains b), ?_⟩
      rw [List.append_assoc, ← List.filter_append, ← List.map_append]
      congr 3
      have := List.range'_append_1 (s := 0) (m := stage) (n := k)
      simpa [List.range_eq_range'] using this

/-- **The Bot's padding completes the row**: when the generated row is a permutation of the
generator's start row and that start row is a prefix of the opening row, the row the Bot rings —
the generated row followed by the opening row's tail — is a permutation of the opening row. -/
theorem bot_row_complete (b : Bot) (g' : Gen) (r sr : Row) (calls : List String)
    (h1 : b.ringingOpening = false) (h2 : b.ringingRounds = false) (hn : b.gen.next b.hand = .ok g' r calls)
    (hperm : r.Perm sr) (hpre : sr <+: b.openingRow) :
    (b.generateNextRow).1.row.Perm b.openingRow := by
  simp only [Bot.generateNextRow, h1, h2, hn, Bool.false_eq_true, if_false]
  obtain ⟨t, ht⟩ := hpre
  have hl : r.length = sr.length := hperm.length_eq
  rw [← ht, hl]
  simp only [List.length_append, List.drop_left']
  split
  · exact hperm.append_right t
  · rename_i hlt
    have : t = [] := by
      apply List.eq_nil_of_length_eq_zero; omega
    subst this; simpa using hperm

/-- Opening row and closing rounds are rung as they are. -/
theorem bot_opening_and_rounds (b : Bot) :
    (b.ringingOpening = true → (b.generateNextRow).1.row = b.openingRow) ∧
    (b.ringingOpening = false → b.ringingRounds = true → (b.generateNextRow).1.row = b.rounds) := by
  constructor
  · intro h; simp [Bot.generateNextRow, h]
  · intro h1 h2; simp [Bot.generateNextRow, h1, h2]
end Wheatley.C01
