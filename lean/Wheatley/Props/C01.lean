/-
C01 — every row Wheatley rings is a complete row: each tower bell exactly once.

Property theorems only (helper lemmas live in `Wheatley/Lemmas`).  Bot-level statements (opening
row, cover padding, closing rounds) are in the second half, over the model of `bot.py`.
-/
import Wheatley.Lemmas.Gen
import Wheatley.Lemmas.StartRow
import Wheatley.Model.Bot
import Wheatley.Lemmas.Complete
namespace Wheatley.C01

/-- One change never loses or duplicates a bell: for every stage, every row and **every** place
set (all `2^n` of them, parity-consistent or not). -/
theorem permute_complete (stage : Nat) (row : Row) (places : Places) :
    (permute stage row places).Perm row :=
  permute_perm stage row places

/-- The start row (`generate_starting_row`) is a complete row of the tower whenever it is accepted
and mentions only bells that exist. -/
theorem start_row_complete (n : Nat) (custom : Option Row) (r : Row)
    (h : startingRow n custom = some r) (hfit : ∀ c, custom = some c → ∀ b ∈ c, 1 ≤ b ∧ b ≤ n) :
    r.Perm (rounds n) :=
  startingRow_perm n custom r h hfit

/-- Every row a notation- or rule-driven generator (place notation, Grandsire, Stedman, Plain
Hunt, Dixon's) ever produces is a permutation of its start row — for every configuration and
**every** history of `next_row` / `set_bob` / `set_single` / `reset`, of any length. -/
theorem gen_rows_complete (g : Gen) (hp : g.Permuting) (hrow : g.row.Perm g.startRow)
    (ops : List GenOp) : ∀ r ∈ evRows (g.runOps ops).2, r.Perm g.startRow :=
  Gen.runOps_inv (fun r => r.Perm g.startRow) ops g hp
    (fun r places h => (permute_perm g.stage r places).trans h) (List.Perm.refl _) hrow

/-- … in particular no bell is struck twice and none is omitted, when the start row is a complete
row of the tower. -/
theorem gen_rows_each_bell_once (g : Gen) (n : Nat) (hp : g.Permuting)
    (hstart : g.startRow.Perm (rounds n)) (hrow : g.row.Perm g.startRow) (ops : List GenOp) :
    ∀ r ∈ evRows (g.runOps ops).2, r.Nodup ∧ ∀ b, b ∈ r ↔ (1 ≤ b ∧ b ≤ n) := by
  intro r hr
  have hperm := (gen_rows_complete g hp hrow ops r hr).trans hstart
  exact ⟨hperm.nodup_iff.mpr (rounds_nodup n), fun b => (hperm.mem_iff).trans (mem_rounds n b)⟩

/-- A freshly constructed generator satisfies the hypotheses. -/
theorem init_row (kind : GenKind) (cs : Option Row) (sr : Row) :
    (Gen.init kind cs sr).row.Perm (Gen.init kind cs sr).startRow := List.Perm.refl _

/-! Non-vacuity: Grandsire Triples with a Bob and a Single really is an instance. -/
example : ∃ g, mkGrandsire 7 none = some g ∧ g.Permuting ∧ g.startRow = rounds 7 ∧
    (evRows (g.runOps [.next true, .bob, .next false, .next true, .single, .next false]).2).length = 4 := by
  refine ⟨(mkGrandsire 7 none).get (by decide), by simp, ?_, ?_, ?_⟩ <;> decide

/-! ### Bot level: opening row, cover padding, closing rounds -/

/-- The start row of a generator of stage `stage` is a prefix of the opening row of any tower at least
that big: the bells appended for the tower (`generate_starting_row(number_of_bells, …)`) come after
the ones appended for the stage. -/
theorem opening_extends_start_row (stage n : Nat) (cs : Option Row) (sr op : Row) (hle : stage ≤ n)
    (hs : startingRow stage cs = some sr) (ho : startingRow n cs = some op) : sr <+: op :=
  Complete.opening_extends stage n cs sr op hle hs ho

/-- **The Bot's padding completes the row**: when the generated row is a permutation of the
generator's start row and that start row is a prefix of the opening row, the row the Bot rings —
the generated row followed by the opening row's tail — is a permutation of the opening row. -/
theorem bot_row_complete (b : Bot) (g' : Gen) (r sr : Row) (calls : List String)
    (h1 : b.ringingOpening = false) (h2 : b.ringingRounds = false) (hn : b.gen.next b.hand = .ok g' r calls)
    (hperm : r.Perm sr) (hpre : sr <+: b.openingRow) :
    (b.generateNextRow).1.row.Perm b.openingRow := by
  simp only [Bot.generateNextRow, h1, h2, hn, Bool.false_eq_true, if_false]
  obtain ⟨t, ht⟩ := hpre
  have hl : r.length = sr.length := hperm.length_eq
  rw [← ht, hl]
  simp only [List.length_append, List.drop_left']
  split
  · exact hperm.append_right t
  · rename_i hlt
    have : t = [] := by
      apply List.eq_nil_of_length_eq_zero; omega
    subst this; simpa using hperm

/-- Opening row and closing rounds are rung as they are. -/
theorem bot_opening_and_rounds (b : Bot) :
    (b.ringingOpening = true → (b.generateNextRow).1.row = b.openingRow) ∧
    (b.ringingOpening = false → b.ringingRounds = true → (b.generateNextRow).1.row = b.rounds) := by
  constructor
  · intro h; simp [Bot.generateNextRow, h]
  · intro h1 h2; simp [Bot.generateNextRow, h1, h2]

/-! ### System level: every row of every run

The statements above are about one generator history or one `generate_next_row`.  This one is about the whole
program: the timed world of `Model/World.lean` - main thread, socket thread, clock - run for any number of steps on
any history of events, delivered at any times. -/

section System
variable {K : Type} [Num K]
open Complete

/-- **Whenever Wheatley is ringing, the row it is ringing or waiting for is a complete row of the tower** - in every
state of every run.  `N` is the size of the tower, which the events leave alone (`Fixed N`: strikes and global
states describe `N` bells, size messages repeat `N`, selections have at most `N` bells and complete rows);
everything else is arbitrary: Look To at any moment (also during a touch, also while its own handler is still
asleep), Go, Bob, Single, That's all, Rounds, Stand, assignments, comings and goings, settings, selections, Stop
Touch, the bells set at hand - in any order, at any times, for as many steps as you like (`fuel`).

`Inv N` of the starting state is what the first global state establishes (`loaded_complete`). -/
theorem every_row_is_complete (N : Nat) (wt : K → K) (endTime : K) (fuel : Nat) (w : World K)
    (events : List (K × Ev)) (hs : ∀ ev ∈ events, Fixed N ev.2) (h : Inv N w.bot) :
    (World.run wt endTime fuel w events).1.bot.isRinging = true →
      (World.run wt endTime fuel w events).1.bot.row.Perm (rounds N) :=
  ((botInvariant N).run wt endTime fuel w events hs h).2

/-- ... so no bell is struck twice in it and none is omitted: the row has no repetition and its bells are exactly
`1 … N`. -/
theorem every_row_each_bell_once (N : Nat) (wt : K → K) (endTime : K) (fuel : Nat) (w : World K)
    (events : List (K × Ev)) (hs : ∀ ev ∈ events, Fixed N ev.2) (h : Inv N w.bot)
    (hr : (World.run wt endTime fuel w events).1.bot.isRinging = true) :
    (World.run wt endTime fuel w events).1.bot.row.Nodup ∧
    ∀ x, x ∈ (World.run wt endTime fuel w events).1.bot.row ↔ (1 ≤ x ∧ x ≤ N) := by
  have hperm := every_row_is_complete N wt endTime fuel w events hs h hr
  exact ⟨hperm.nodup_iff.mpr (rounds_nodup N), fun x => (hperm.mem_iff).trans (mem_rounds N x)⟩

/-- The queue, the opening row and rounds stay in order too (the static part of the invariant), whether Wheatley is
ringing or not: in every state the opening row is a complete row of the tower and extends the generator's start
row, and whatever is queued for the next touch fits the tower. -/
theorem opening_row_always_complete (N : Nat) (wt : K → K) (endTime : K) (fuel : Nat) (w : World K)
    (events : List (K × Ev)) (hs : ∀ ev ∈ events, Fixed N ev.2) (h : Inv N w.bot) :
    (World.run wt endTime fuel w events).1.bot.openingRow.Perm (rounds N) ∧
    (World.run wt endTime fuel w events).1.bot.gen.startRow <+: (World.run wt endTime fuel w events).1.bot.openingRow ∧
    (World.run wt endTime fuel w events).1.bot.rounds = rounds N := by
  have hi := ((botInvariant N).run wt endTime fuel w events hs h).1
  exact ⟨hi.opening, hi.pre, hi.rounds⟩

/-- The hypothesis is what `wait_loaded` waits for: a freshly built Bot that has received its first
`s_global_state` satisfies the invariant for the size that state describes - for any generator with complete rows
(`GoodGen`: nothing to ask of notation- and rule-driven ones) whose start row was made by `generate_starting_row`
for a stage within the tower (`Started`; what `Look To` would otherwise refuse, C17). -/
theorem loaded_complete (g : Gen) (u s c : Bool) (nm : Option String) (id : Option Nat) (st : List Bool)
    (hg : GoodGen g) (hst : Started st.length g) (hsrv : id.isSome = true → g.customStart = none) :
    Inv st.length ((Bot.init g u s c nm id).onMsg (.globalState st)).1 := by
  unfold Bot.onMsg
  simp only []
  generalize hq : ({ Bot.init g u s c nm id with
    tower := (Bot.init g u s c nm id).tower.apply (.globalState st) } : Bot) = q
  have hq1 : q.n = st.length := by subst hq; rfl
  have hq2 : q.gen = g := by subst hq; rfl
  have hq3 : q.isRinging = false := by subst hq; rfl
  have hq4 : q.nextGen = none := by subst hq; rfl
  have hq5 : q.serverId = id := by subst hq; rfl
  obtain ⟨op, hop⟩ : ∃ op, startingRow q.n q.gen.customStart = some op := by
    rw [hq2]
    obtain ⟨h1, _, _⟩ := hst
    unfold startingRow at h1 ⊢
    cases hcs : g.customStart with
    | none => exact ⟨_, rfl⟩
    | some cs =>
      rw [hcs] at h1
      simp only [] at h1 ⊢
      split at h1
      · cases h1
      · rename_i hd; simp [hd]
  unfold Bot.onSizeChange
  simp only [hop]
  refine ⟨?_, ?_⟩
  · exact { size := hq1, rounds := (by show rounds q.n = rounds st.length; rw [hq1]),
            op := (by show startingRow st.length q.gen.customStart = some op; rw [← hq1]; exact hop),
            gen := (by show GoodGen q.gen; rw [hq2]; exact hg),
            started := (by show Started st.length q.gen; rw [hq2]; exact hst),
            srv := (by
              intro hsm
              show q.gen.customStart = none
              rw [hq2]
              apply hsrv
              have : q.serverId.isSome = true := hsm
              rw [hq5] at this
              exact this),
            queued := (by
              intro g' hg'
              have : (none : Option Gen) = some g' := by
                rw [← hg']
                show none = (match q.nextGen with
                  | some g => if ({ q with openingRow := op, rounds := rounds q.n } : Bot).checkNumberOfBells g then some g else none
                  | none => none)
                rw [hq4]
              cases this) }
  · intro hr
    have : q.isRinging = true := hr
    rw [hq3] at this
    cases this

/-- Non-vacuity: Grandsire Triples in a tower of eight, the tower loaded, then Look To, Go, a Bob, the bells set at
hand again - all events of the class, the start state satisfies the invariant. -/
example : ∃ g, mkGrandsire 7 none = some g ∧ GoodGen g ∧ Started 8 g ∧
    (∀ e ∈ [Ev.msg (.call "Look to"), .msg (.call "Go"), .msg (.call "Bob"), .msg (.globalState (List.replicate 8 true)),
            .msg (.bellRung (List.replicate 8 false) 3), .resume], Fixed 8 e) := by
  refine ⟨(mkGrandsire 7 none).get (by decide), by simp, ⟨List.Perm.refl _, ?_⟩, ⟨by decide, by decide, ?_⟩, ?_⟩
  · have : ((mkGrandsire 7 none).get (by decide)).kind.permuting = true := by decide
    revert this
    cases ((mkGrandsire 7 none).get (by decide)).kind <;> simp [GoodKind, GenKind.permuting]
  · intro c hc
    have : ((mkGrandsire 7 none).get (by decide)).customStart = none := by decide
    rw [this] at hc; cases hc
  · intro e he
    simp only [List.mem_cons, List.mem_nil_iff, or_false] at he
    rcases he with rfl | rfl | rfl | rfl | rfl | rfl <;> simp [Fixed]

end System
end Wheatley.C01
