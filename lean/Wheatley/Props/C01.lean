/-
C01 — every row Wheatley rings is a complete row: each tower bell exactly once.

Property theorems only (helper lemmas live in `Wheatley/Lemmas`).  Bot-level statements (opening
row, cover padding, closing rounds) are in the second half, over the model of `bot.py`.
-/
import Wheatley.Lemmas.Gen
import Wheatley.Lemmas.StartRow
namespace Wheatley.C01

/-- One change never loses or duplicates a bell: for every stage, every row and **every** place
set (all `2^n` of them, parity-consistent or not). -/
theorem permute_complete (stage : Nat) (row : Row) (places : Places) :
    (permute stage row places).Perm row :=
  permute_perm stage row places

/-- The start row (`generate_starting_row`) is a complete row of the tower whenever it is accepted
and mentions only bells that exist. -/
theorem start_row_complete (n : Nat) (custom : Option Row) (r : Row)
    (h : startingRow n custom = some r) (hfit : ∀ c, custom = some c → ∀ b ∈ c, 1 ≤ b ∧ b ≤ n) :
    r.Perm (rounds n) :=
  startingRow_perm n custom r h hfit

/-- Every row a notation- or rule-driven generator (place notation, Grandsire, Stedman, Plain
Hunt, Dixon's) ever produces is a permutation of its start row — for every configuration and
**every** history of `next_row` / `set_bob` / `set_single` / `reset`, of any length. -/
theorem gen_rows_complete (g : Gen) (hp : g.Permuting) (hrow : g.row.Perm g.startRow)
    (ops : List GenOp) : ∀ r ∈ evRows (g.runOps ops).2, r.Perm g.startRow :=
  Gen.runOps_inv (fun r => r.Perm g.startRow) ops g hp
    (fun r places h => (permute_perm g.stage r places).trans h) (List.Perm.refl _) hrow

/-- … in particular no bell is struck twice and none is omitted, when the start row is a complete
row of the tower. -/
theorem gen_rows_each_bell_once (g : Gen) (n : Nat) (hp : g.Permuting)
    (hstart : g.startRow.Perm (rounds n)) (hrow : g.row.Perm g.startRow) (ops : List GenOp) :
    ∀ r ∈ evRows (g.runOps ops).2, r.Nodup ∧ ∀ b, b ∈ r ↔ (1 ≤ b ∧ b ≤ n) := by
  intro r hr
  have hperm := (gen_rows_complete g hp hrow ops r hr).trans hstart
  exact ⟨hperm.nodup_iff.mpr (rounds_nodup n), fun b => (hperm.mem_iff).trans (mem_rounds n b)⟩

/-- A freshly constructed generator satisfies the hypotheses. -/
theorem init_row (kind : GenKind) (cs : Option Row) (sr : Row) :
    (Gen.init kind cs sr).row.Perm (Gen.init kind cs sr).startRow := List.Perm.refl _

/-! Non-vacuity: Grandsire Triples with a Bob and a Single really is an instance. -/
example : ∃ g, mkGrandsire 7 none = some g ∧ g.Permuting ∧ g.startRow = rounds 7 ∧
    (evRows (g.runOps [.next true, .bob, .next false, .next true, .single, .next false]).2).length = 4 := by
  refine ⟨(mkGrandsire 7 none).get (by decide), by simp, ?_, ?_, ?_⟩ <;> decide

end Wheatley.C01
