/-
C07 — stop discipline: That's all, Rounds, Stand, stop-at-rounds; bells left at hand.
-/
import Wheatley.Props.C06
import Wheatley.Lemmas.Cli
import Wheatley.Lemmas.Handlers
namespace Wheatley.C07
open Wheatley.C06

/-- **Stand** (or stop-at-rounds): with the stand flag up at a boundary, ringing stops iff the coming
row would be a handstroke; otherwise the flag stays up and everything else goes on. -/
theorem stand_law (c : Ctl) (i : CtlIn) (h : c.shouldStand = true) :
    (handOf (nextRowNumber c i) = true →
        (ctlNext c i).isRinging = false ∧ (ctlNext c i).shouldStand = false) ∧
    (handOf (nextRowNumber c i) = false →
        (ctlNext c i).isRinging = c.isRinging ∧ (ctlNext c i).shouldStand = true) := by
  unfold handOf
  constructor <;> intro hp <;> simp [ctlNext, h, hp]

/-- **Ringing only ever stops at a whole-pull boundary**: if a boundary turns `isRinging` off, the row
that would have come next is a handstroke — so every bell has been struck an even number of times
since row 0. -/
theorem stops_only_before_handstroke (c : Ctl) (i : CtlIn) (h1 : c.isRinging = true)
    (h2 : (ctlNext c i).isRinging = false) : handOf (ctlNext c i).rowNumber = true := by
  unfold handOf
  simp only [ctlNext] at h2 ⊢
  by_cases hp : (nextRowNumber c i % 2 == 0) = true
  · exact hp
  · simp [hp, h1] at h2

/-- … and it only stops because a stand was requested (Stand next, or stop-at-rounds seeing rounds
after the opening rows). -/
theorem stops_only_on_request (c : Ctl) (i : CtlIn) (h1 : c.isRinging = true)
    (h2 : (ctlNext c i).isRinging = false) :
    c.shouldStand = true ∨ (i.stopAtRounds = true ∧ i.justRounds = true ∧ c.ringingOpening = false) := by
  simp only [ctlNext] at h2
  by_cases hs : c.shouldStand = true
  · left; exact hs
  · right
    by_cases hc : (i.stopAtRounds && i.justRounds && !c.ringingOpening) = true
    · simp at hc; exact ⟨hc.1.1, hc.1.2, hc.2⟩
    · simp [hc, hs, h1] at h2

/-- **stop-at-rounds**: once rounds has been rung outside the opening rows the stand flag goes up
(and `stand_law` applies from there). -/
theorem stop_at_rounds_law (c : Ctl) (i : CtlIn) (h1 : i.stopAtRounds = true) (h2 : i.justRounds = true)
    (h3 : c.ringingOpening = false) :
    (handOf (nextRowNumber c i) = true → (ctlNext c i).isRinging = false) ∧
    (handOf (nextRowNumber c i) = false → (ctlNext c i).shouldStand = true) := by
  unfold handOf
  constructor <;> intro hp <;> simp [ctlNext, h1, h2, h3, hp]

/-- **That's all** sets a one-row countdown … -/
theorem thats_all_sets (b : Bot) :
    (b.onCall Generated.call_THATS_ALL).1.ctl = { b.ctl with rowsLeft := some 1 } := by
  simp [Bot.onCall, Generated.call_THATS_ALL, Generated.call_LOOK_TO, Generated.call_GO, Generated.call_BOB,
    Generated.call_SINGLE, Bot.ctl]

/-- … so, called during a method row that is not rounds, the next boundary keeps the method going
for one more row and the one after switches to rounds; -/
theorem thats_all_one_more_row (c : Ctl) (i j : CtlIn) (h : c.rowsLeft = some 1) (hr : i.justRounds = false)
    (hs : startsNow c = false) :
    (ctlNext c i).ringingRounds = c.ringingRounds ∧ (ctlNext c i).rowsLeft = some 0 ∧
    (ctlNext (ctlNext c i) j).rowsLeft = none ∧
    (startsNow (ctlNext c i) = false → (ctlNext (ctlNext c i) j).ringingRounds = true) := by
  simp [ctlNext, h, hr, hs]

/-- … and called while the row in progress already is rounds, rounds follows at once. -/
theorem thats_all_in_rounds (c : Ctl) (i : CtlIn) (h : c.rowsLeft = some 1) (hr : i.justRounds = true) :
    (ctlNext c i).ringingRounds = true ∧ (ctlNext c i).rowsLeft = none := by
  simp [ctlNext, h, hr]

/-- Rounds then goes on until told otherwise: with no That's-all countdown and no start armed the
flags do not change. -/
theorem flags_persist (c : Ctl) (i : CtlIn) (h1 : c.rowsLeft = none) (h2 : c.roundsLeft = none) :
    (ctlNext c i).ringingRounds = c.ringingRounds ∧ (ctlNext c i).ringingOpening = c.ringingOpening ∧
    (ctlNext c i).rowsLeft = none ∧ (ctlNext c i).roundsLeft = none := by
  simp [ctlNext, startsNow, h1, h2]

/-- In rounds mode (opening flag down) the row rung is rounds on the tower's bells. -/
theorem rounds_row_rung (b : Bot) (h1 : b.ringingOpening = false) (h2 : b.ringingRounds = true) :
    (b.generateNextRow).1.row = b.rounds := (generateNextRow_row b).2 h1 h2

/-- **Rounds** puts the opening flag up: from the next row the opening row is rung (`opening_row_rung`)
until a start is armed. -/
theorem rounds_call_law (b : Bot) :
    (b.onCall Generated.call_ROUNDS).1.ctl = { b.ctl with ringingOpening := true } := by
  simp [Bot.onCall, Generated.call_ROUNDS, Generated.call_THATS_ALL, Generated.call_LOOK_TO, Generated.call_GO,
    Generated.call_BOB, Generated.call_SINGLE, Bot.ctl]

/-- **Stand next** puts the stand flag up and changes nothing else. -/
theorem stand_call_law (b : Bot) :
    (b.onCall Generated.call_STAND).1.ctl = { b.ctl with shouldStand := true } := by
  simp [Bot.onCall, Generated.call_STAND, Generated.call_ROUNDS, Generated.call_THATS_ALL, Generated.call_LOOK_TO,
    Generated.call_GO, Generated.call_BOB, Generated.call_SINGLE, Bot.ctl]

/-- Once stopped, a boundary cannot restart ringing … -/
theorem stopped_stays_stopped (c : Ctl) (i : CtlIn) (h : c.isRinging = false) :
    (ctlNext c i).isRinging = false := by
  simp [ctlNext, h]

/-- … and a stopped Bot produces no row, no strike and no call at a boundary (the early return). -/
theorem silent_when_stopped (b : Bot) (o : List Out) (h : b.isRinging = false) :
    Bot.snrFinish b o = (b, o) := by
  simp [Bot.snrFinish, h]

/-- **Nothing more until the next Look To**: the only server message that can turn `isRinging` on is
the call "Look to". -/
theorem only_look_to_starts (b : Bot) (m : Msg) (h : b.isRinging = false)
    (hm : m ≠ .call Generated.call_LOOK_TO) : (b.onMsg m).1.isRinging = false := by
  have hb : ({ b with tower := b.tower.apply m } : Bot).isRinging = false := h
  generalize hq : ({ b with tower := b.tower.apply m } : Bot) = q at hb
  have hsize : ∀ x : Bot, x.isRinging = false → (x.onSizeChange).1.isRinging = false := by
    intro x hx; simp only [Bot.onSizeChange]; split <;> simpa using hx
  cases m with
  | bellRung state who => simp only [Bot.onMsg, hq]; split <;> (try split) <;> exact hb
  | globalState state => simp only [Bot.onMsg, hq]; exact hsize q hb
  | userEntered id name => simp only [Bot.onMsg, hq]; exact hb
  | userList users => simp only [Bot.onMsg, hq]; exact hb
  | sizeChange n =>
    simp only [Bot.onMsg, hq]
    split
    · exact hsize q hb
    · exact hb
  | assign bell user => simp only [Bot.onMsg, hq]; exact hb
  | call c =>
    have hc : c ≠ Generated.call_LOOK_TO := fun e => hm (by rw [e])
    simp only [Bot.onMsg, hq, Bot.onCall, hc, beq_iff_eq, if_false]
    split
    · simp only [Bot.onGo]; split <;> first | simpa using hb | simpa using h
    · repeat' split
      all_goals first | simpa using hb | simpa using h
  | userLeft id => simp only [Bot.onMsg, hq]; exact hb
  | setting kvs =>
    simp only [Bot.onMsg, hq]
    split
    · have : ∀ (l : List (String × SVal)) (b : Bot), b.isRinging = false → (foldSettings b l).1.isRinging = false := by
        intro l
        induction l with
        | nil => intro b hb; simpa [foldSettings] using hb
        | cons kv rest ih =>
          intro b hb
          obtain ⟨k, v⟩ := kv
          simp only [foldSettings]
          apply ih
          simp only [Bot.onSetting]
          repeat' split
          all_goals simpa using hb
      first | exact this kvs q hb | exact this kvs _ h
    · first | exact hb | exact h
  | rowGen g =>
    simp only [Bot.onMsg, hq]
    split
    · split <;> first | simpa using hb | simpa using h
    · first | exact hb | exact h
  | stopTouch => simp only [Bot.onMsg, hq]; split <;> first | simp [hb] | simp [h]

/-! Non-vacuity: Stand during row 7 (backstroke) stops after row 7 (8 rows, even); during row 6 it
stops after row 7 as well. -/
example :
    let c : Ctl := { isRinging := true, ringingRounds := false, ringingOpening := false, roundsLeft := none,
                     rowsLeft := none, shouldStand := true, rowNumber := 7 }
    let i : CtlIn := { isFirst := false, justRounds := false, stopAtRounds := false, startHand := true, fits := true }
    (ctlNext c i).isRinging = false ∧ (ctlNext { c with rowNumber := 6 } i).isRinging = true ∧
    (ctlNext (ctlNext { c with rowNumber := 6 } i) i).isRinging = false := by decide



/-- **A switch is not a call**: no setting (handbell style, up-down-in, calling on / off, or anything passed
on to the rhythm) touches the stand flag, the ringing flags or the counters - in particular switching
handbell style off does not cancel a Stand next. -/
theorem setting_keeps_stand (b : Bot) (key : String) (v : SVal) :
    (b.onSetting key v).1.shouldStand = b.shouldStand ∧ (b.onSetting key v).1.isRinging = b.isRinging ∧
    (b.onSetting key v).1.rowsLeftBeforeRounds = b.rowsLeftBeforeRounds ∧
    (b.onSetting key v).1.roundsLeft = b.roundsLeft ∧ (b.onSetting key v).1.ringingRounds = b.ringingRounds ∧
    (b.onSetting key v).1.ringingOpening = b.ringingOpening := by
  unfold Bot.onSetting
  split
  · cases toBool? v <;> exact ⟨rfl, rfl, rfl, rfl, rfl, rfl⟩
  · split
    · cases toBool? v <;> exact ⟨rfl, rfl, rfl, rfl, rfl, rfl⟩
    · split
      · cases toBool? v <;> exact ⟨rfl, rfl, rfl, rfl, rfl, rfl⟩
      · exact ⟨rfl, rfl, rfl, rfl, rfl, rfl⟩

/-! ### The command line (`Model/Cli.lean`: `console_main`) -/

/-- Stop-at-rounds is on exactly when `-s` or `-H` was given: handbell style is both switches. -/
theorem cli_stop_at_rounds (c : Parse.Chars) (os : List Cli.Opt) (u : Option (List Char × List Char)) (cfg : Cli.Cfg)
    (h : Cli.consoleMain c os u = .built cfg) :
    cfg.sar = (decide (Cli.Opt.sar ∈ os) || decide (Cli.Opt.handbell ∈ os)) :=
  (Cli.main_built c os u cfg h).2.1

/-! ### Nothing more until the next Look To - for the whole run -/

section Idle
variable {K : Type} [Num K]

/-- Wheatley is not ringing and the main thread is in (or on its way into) the idle loop; no Look To handler is
asleep on the socket thread. -/
def Idle (w : World K) : Prop :=
  w.bot.isRinging = false ∧ w.suspended = none ∧
  (w.pc = .outerTop ∨ w.pc = .idleCheck ∨ w.pc = .idleSlept ∨ w.pc = .done ∨ ∃ it, w.pc = .waitLoaded it none)

/-- Any event but the call "Look to". -/
def NotLookTo : Ev → Prop
  | .msg (.call c) => c ≠ Generated.call_LOOK_TO
  | _ => True

theorem foldl_applyOut_bot_susp (wt : K → K) (ct : K) (outs : List Out) :
    ∀ (w : World K), (outs.foldl (World.applyOut wt ct) w).bot = w.bot := by
  intro w
  exact (foldl_applyOut_bot_crashed wt ct outs w).1

/-- An event that is not Look To leaves an idle Wheatley idle. -/
theorem deliver_idle (wt : K → K) (w : World K) (e : Ev) (hq : NotLookTo e) (h : Idle w) :
    Idle (World.deliver wt w e) := by
  obtain ⟨hr, hs, hpc⟩ := h
  obtain ⟨dp, _⟩ := deliver_never_rings wt w e
  cases e with
  | resume =>
    have : World.deliver wt w .resume = w := by
      unfold World.deliver
      simp only [hs]
    rw [this]
    exact ⟨hr, hs, hpc⟩
  | msg m =>
    have hm : m ≠ .call Generated.call_LOOK_TO := by
      intro e
      subst e
      exact hq rfl
    have hsus : w.lookToSuspends m = none := by
      unfold World.lookToSuspends
      cases m with
      | call c =>
        have hc : (c == Generated.call_LOOK_TO) = false := by
          have : c ≠ Generated.call_LOOK_TO := fun e => hm (by rw [e])
          simpa using this
        simp [hc]
      | _ => rfl
    have hd : World.deliver wt w (.msg m) = w.deliverMsg wt m := by
      unfold World.deliver
      simp only [hsus]
    have e1 : (List.foldl (World.applyOut wt w.now) ({ w with bot := (w.bot.onMsg m).1 } : World K)
        (w.bot.onMsg m).2).bot.isRinging = false := by
      rw [foldl_applyOut_bot_susp]; exact only_look_to_starts w.bot m hr hm
    have e2 : (List.foldl (World.applyOut wt w.now) ({ w with bot := (w.bot.onMsg m).1 } : World K)
        (w.bot.onMsg m).2).suspended = none := by
      rw [foldl_applyOut_suspended]; exact hs
    refine ⟨?_, ?_, by rw [dp]; exact hpc⟩
    · rw [hd]
      unfold World.deliverMsg
      simp only []
      split
      · exact e1
      · exact e1
    · rw [hd]
      unfold World.deliverMsg
      simp only []
      split
      · exact e2
      · exact e2

theorem sleep_go_idle (wt : K → K) (limit : K) :
    ∀ (events : List (K × Ev)) (w : World K), (∀ ev ∈ events, NotLookTo ev.2) → Idle w →
      Idle (World.sleep.go wt limit w events).1 ∧ (∀ ev ∈ (World.sleep.go wt limit w events).2, NotLookTo ev.2) := by
  intro events
  induction events with
  | nil => intro w _ h; exact ⟨h, by intro ev hev; cases hev⟩
  | cons ev rest ih =>
    intro w hq h
    obtain ⟨t, m⟩ := ev
    unfold World.sleep.go
    split
    · apply ih _ (fun ev' h' => hq ev' (by simp [h']))
      apply deliver_idle wt _ m (hq (t, m) (by simp))
      split
      · exact h
      · exact h
    · exact ⟨h, hq⟩

theorem sleep_idle (wt : K → K) (endTime : K) (w : World K) (d : K) (events : List (K × Ev))
    (hq : ∀ ev ∈ events, NotLookTo ev.2) (h : Idle w) :
    Idle (World.sleep wt endTime w d events).1 ∧ (∀ ev ∈ (World.sleep wt endTime w d events).2.1, NotLookTo ev.2) := by
  unfold World.sleep
  simp only []
  split
  · exact sleep_go_idle wt endTime events w hq h
  · obtain ⟨h1, h2⟩ := sleep_go_idle wt (w.now + d) events w hq h
    exact ⟨h1, h2⟩

/-- A step of the idle main thread emits nothing at all and stays idle. -/
theorem mainStep_idle_bot (wt : K → K) (w : World K) (h : Idle w) : (w.mainStep wt).1.bot = w.bot := by
  obtain ⟨hr, hs, hpc⟩ := h
  rcases hpc with hp | hp | hp | hp | ⟨it, hp⟩
  · unfold World.mainStep; simp only [hp]
  · unfold World.mainStep; simp only [hp, hr, Bool.not_false, if_true]
  · unfold World.mainStep; simp only [hp]
    split <;> rfl
  · unfold World.mainStep; simp only [hp]
  · unfold World.mainStep; simp only [hp]
    split
    · split <;> rfl
    · rfl

theorem mainStep_idle (wt : K → K) (w : World K) (h : Idle w) :
    Idle (w.mainStep wt).1 ∧ (w.mainStep wt).1.obs = w.obs := by
  obtain ⟨hr, hs, hpc⟩ := h
  rcases hpc with hp | hp | hp | hp | ⟨it, hp⟩
  · unfold World.mainStep; simp only [hp]
    exact ⟨⟨hr, hs, Or.inr (Or.inl rfl)⟩, trivial⟩
  · unfold World.mainStep; simp only [hp, hr, Bool.not_false, if_true]
    exact ⟨⟨hr, hs, Or.inr (Or.inr (Or.inl rfl))⟩, trivial⟩
  · unfold World.mainStep; simp only [hp]
    split
    · exact ⟨⟨hr, hs, Or.inr (Or.inr (Or.inr (Or.inl rfl)))⟩, rfl⟩
    · exact ⟨⟨hr, hs, Or.inr (Or.inl rfl)⟩, rfl⟩
  · unfold World.mainStep; simp only [hp]
    exact ⟨⟨hr, hs, Or.inr (Or.inr (Or.inr (Or.inl hp)))⟩, trivial⟩
  · unfold World.mainStep; simp only [hp]
    split
    · split
      · exact ⟨⟨hr, hs, Or.inl rfl⟩, rfl⟩
      · exact ⟨⟨hr, hs, Or.inr (Or.inr (Or.inr (Or.inr ⟨it + 1, rfl⟩)))⟩, rfl⟩
    · exact ⟨⟨hr, hs, Or.inr (Or.inr (Or.inr (Or.inl rfl)))⟩, rfl⟩

/-- **Nothing more until the next Look To, however long, whatever else arrives**: Wheatley is not ringing (it has
stood, or never started).  If none of the events still to come is the call "Look to" - they may be anything else:
Go, Bob, That's all, strikes of any bell, assignments, settings, selections, size changes, Stop Touch - then for the
whole rest of the run, of whatever length, it strikes nothing. -/
theorem silent_until_look_to (wt : K → K) (endTime : K) :
    ∀ (fuel : Nat) (w : World K) (events : List (K × Ev)), Idle w → (∀ ev ∈ events, NotLookTo ev.2) →
      ringsOf (World.run wt endTime fuel w events).1.obs = ringsOf w.obs := by
  intro fuel
  induction fuel with
  | zero => intro w events _ _; rfl
  | succ fuel ih =>
    intro w events h hq
    obtain ⟨hi, ho⟩ := mainStep_idle wt w h
    unfold World.run
    split
    · rename_i w1 heq; rw [heq] at ho; exact congrArg ringsOf ho
    · rename_i w1 heq
      rw [heq] at hi ho
      rw [ih w1 events hi hq]; exact congrArg ringsOf ho
    · rename_i w1 d heq
      rw [heq] at hi ho
      obtain ⟨sp, sr⟩ := sleep_never_rings wt endTime w1 d events
      obtain ⟨si, sq⟩ := sleep_idle wt endTime w1 d events hq hi
      simp only []
      split
      · rw [sr]; exact congrArg ringsOf ho
      · rw [ih _ _ si sq, sr]; exact congrArg ringsOf ho

/-- In particular: from the moment it is launched (not spawned by a Look To), Wheatley strikes nothing before the
first Look To. -/
theorem nothing_before_the_first_look_to (wt : K → K) (endTime now : K) (g : Gen) (u s c : Bool)
    (n : Option String) (id : Option Nat) (rh : Rh K) (tape : List (K × K)) (fuel : Nat) (events : List (K × Ev))
    (hq : ∀ ev ∈ events, NotLookTo ev.2) :
    ringsOf (World.run wt endTime fuel (World.init now (Bot.init g u s c n id) rh tape none) events).1.obs = [] := by
  rw [silent_until_look_to wt endTime fuel _ events ⟨rfl, rfl, Or.inr (Or.inr (Or.inr (Or.inr ⟨0, rfl⟩)))⟩ hq]
  simp [World.init, ringsOf, Out.isRing]

end Idle

end Wheatley.C07
