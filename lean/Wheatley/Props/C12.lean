/-
C12 — Wheatley moves onto a steady human rhythm.

`regress` is the closed form of `calculate_regression` (its agreement with numpy is part of the
correspondence of every timed run); `Reg.addDataPoint` is `_add_data_point`.  Everything holds in any
linearly ordered field.
-/
import Wheatley.Lemmas.Regress
import Wheatley.Lemmas.Rhythm
import Wheatley.Lemmas.Cli
import Wheatley.Lemmas.LiftReg
namespace Wheatley.C12
open Generated

variable {K : Type} [Field K] [LinearOrder K] [IsStrictOrderedRing K]

/-- **Exact recovery** (any weights): data on the humans' line `t = a + c·b` with a non-singular
system give back `(a, c)`. -/
theorem wls_recovers (a c : K) (ds : List (K × K × K)) (h : OnLine a c ds) (hd : det ds ≠ 0) :
    regress ds = (a, c) := regress_recovers a c ds h hd

/-- **Non-singular** whenever the weights are positive (every kept point has weight > 0.001) and two
kept strikes have different blow times. -/
theorem system_nonsingular (ds : List (K × K × K)) (hw : PosWeights ds)
    (h : ∃ d ∈ ds, ∃ e ∈ ds, d.1 ≠ e.1) : det ds ≠ 0 := ne_of_gt (det_pos ds hw h)

theorem lerp_eq (a b t : K) : lerp a b t = (1 - t) * a + t * b := by
  simp [lerp]

/-- **One update**: when the kept data lie on the humans' line (`a`, `c`), a regression moves Wheatley's
line to `lerp(humans' line, old line, inertia)`: the error is multiplied by the inertia. -/
theorem contraction (r : Reg K) (row place : Nat) (t w s a c : K) (hs : r.start = .fin s)
    (hi : (if 0 < row then r.preferredInertia else r.initialInertia) ≠ 1)
    (hn : r.minBells ≤ ((r.newDataSet row place t w).length : Int))
    (hline : OnLine a c (r.newDataSet row place t w)) (hdet : det (r.newDataSet row place t w) ≠ 0) :
    ∃ s', (r.addDataPoint regress row place t w).start = .fin s' ∧
      s' - a = (if 0 < row then r.preferredInertia else r.initialInertia) * (s - a) ∧
      (r.addDataPoint regress row place t w).interval - c =
        (if 0 < row then r.preferredInertia else r.initialInertia) * (r.interval - c) := by
  have h1 : Num.eqb (if 0 < row then r.preferredInertia else r.initialInertia) (Num.ofNat 1) = false := by
    simp only [num_eqb, num_ofNat, Nat.cast_one, decide_eq_false_iff_not]; exact hi
  obtain ⟨e1, e2⟩ := addDataPoint_regressed r regress row place t w s hs h1 hn
  rw [wls_recovers a c _ hline hdet] at e1 e2
  refine ⟨_, e1, ?_, ?_⟩
  · simp only [lerp_eq]; ring
  · rw [e2]; simp only [lerp_eq]; ring

/-- **Inertia 0**: the line *is* the humans' line after one such update — exactly, from the first
regression onwards. -/
theorem inertia0_exact (r : Reg K) (row place : Nat) (t w s a c : K) (hs : r.start = .fin s)
    (hi : (if 0 < row then r.preferredInertia else r.initialInertia) = 0)
    (hn : r.minBells ≤ ((r.newDataSet row place t w).length : Int))
    (hline : OnLine a c (r.newDataSet row place t w)) (hdet : det (r.newDataSet row place t w) ≠ 0) :
    (r.addDataPoint regress row place t w).start = .fin a ∧
    (r.addDataPoint regress row place t w).interval = c := by
  obtain ⟨s', e1, e2, e3⟩ := contraction r row place t w s a c hs (by rw [hi]; exact zero_ne_one) hn hline hdet
  rw [hi] at e2 e3
  have : s' = a := by linarith
  rw [this] at e1
  exact ⟨e1, by linarith⟩

/-- **Geometric convergence**: `k` updates multiply the error by `inertia^k`; for inertia ≤ ½ that is at
most `2⁻ᵏ` of the initial error. -/
theorem geometric (i e0 : K) (k : Nat) (hi0 : 0 ≤ i) (hi : i ≤ 1 / 2) :
    |i ^ k * e0| ≤ (1 / 2) ^ k * |e0| := by
  rw [abs_mul, abs_pow, abs_of_nonneg hi0]
  exact mul_le_mul_of_nonneg_right (pow_le_pow_left₀ hi0 hi k) (abs_nonneg e0)

/-- **Fixed point**: if the humans are already on Wheatley's line nothing changes at all — for every
inertia, every human set and every data-set size. -/
theorem fixed_point (r : Reg K) (row place : Nat) (t w s : K) (hs : r.start = .fin s)
    (hline : OnLine s r.interval (r.newDataSet row place t w))
    (hdet : det (r.newDataSet row place t w) ≠ 0) :
    (r.addDataPoint regress row place t w).start = .fin s ∧
    (r.addDataPoint regress row place t w).interval = r.interval := by
  by_cases h1 : Num.eqb (if 0 < row then r.preferredInertia else r.initialInertia) (Num.ofNat 1) = true
  · have := addDataPoint_line_unchanged r regress row place t w (Or.inl h1)
    rw [this.1, this.2]; exact ⟨hs, rfl⟩
  · by_cases hn : r.minBells ≤ ((r.newDataSet row place t w).length : Int)
    · obtain ⟨e1, e2⟩ := addDataPoint_regressed r regress row place t w s hs (by simpa using h1) hn
      rw [wls_recovers s r.interval _ hline hdet] at e1 e2
      refine ⟨?_, ?_⟩
      · rw [e1]; congr 1; simp only [lerp_eq]; ring
      · rw [e2]; simp only [lerp_eq]; ring
    · have := addDataPoint_line_unchanged r regress row place t w (Or.inr hn)
      rw [this.1, this.2]; exact ⟨hs, rfl⟩

/-- **Memory turns over**: the data set never holds more than `max − 1` points after an update, so
after that many kept strikes on a new line every remembered point lies on it. -/
theorem memory_bounded (r : Reg K) (row place : Nat) (t w : K) (hmax : 1 ≤ r.maxBells)
    (hlen : (r.dataSet.length : Int) < r.maxBells) :
    ((r.newDataSet row place t w).length : Int) < r.maxBells := by
  unfold Reg.newDataSet
  simp only []
  have hf : ((r.dataSet ++ [(r.blowTime row place, t, w)]).filter
      (fun d => decide (Num.ofQ weightRejectionThreshold < d.2.2))).length ≤ r.dataSet.length + 1 := by
    refine le_trans (List.length_filter_le _ _) ?_
    simp
  split
  · rename_i h
    rw [List.length_tail]
    have : (0 : Int) < ((r.dataSet ++ [(r.blowTime row place, t, w)]).filter
        (fun d => decide (Num.ofQ weightRejectionThreshold < d.2.2))).length := by omega
    omega
  · rename_i h; omega

/-- The oldest point is the one forgotten. -/
theorem forgets_oldest (r : Reg K) (row place : Nat) (t w : K) :
    r.newDataSet row place t w =
      let kept := (r.dataSet ++ [(r.blowTime row place, t, w)]).filter
        (fun d => decide (Num.ofQ weightRejectionThreshold < d.2.2))
      if r.maxBells ≤ (kept.length : Int) then kept.tail else kept := rfl

/-! Non-vacuity: three strikes on the line `t = 10 + 2·b` with unequal weights. -/
example : regress [((0 : ℚ), 10, 1), (1, 12, 1 / 2), (3, 16, 1 / 5)] = (10, 2) := by
  apply wls_recovers
  · intro d hd; simp at hd; rcases hd with rfl | rfl | rfl <;> norm_num
  · simp [det, sW, sWB, sWBB]; norm_num

/-- The fit the driver evaluates at `Float` to cross-check the implementation's `numpy.linalg`
results (about the first data point, so that no digits are lost to the size of the blow index or of
the epoch) is the same function as the `regress` of the theorems above. -/
theorem centred_evaluation_is_the_same_fit (ds : List (K × K × K)) (hd : det ds ≠ 0) :
    regressCentred ds = regress ds := regressCentred_eq ds hd

/-- **Every touch is fitted to its own strikes**: `initialise_line` empties the data set, whoever leads
(when Wheatley leads, its own first blow is the only point left), so nothing heard in an earlier touch of
the session takes part in any regression of the new one. -/
theorem look_to_forgets_data (r : Reg K) (reg : List (K × K × K) → K × K) (stage : Nat) (t : K) :
    (r.initialiseLine reg stage true t).dataSet = [] ∧
    (r.initialiseLine reg stage false t).dataSet.length ≤ 1 := by
  constructor
  · simp [Reg.initialiseLine, Reg.resetForTouch]
  · simp only [Reg.initialiseLine, Bool.not_false, if_true]
    have hd : (r.resetForTouch stage).dataSet = [] := rfl
    have hrel : ∀ (q : Reg K) (fit : K × K) (i : K), (q.relerp fit i).dataSet = q.dataSet := by
      intro q fit i; unfold Reg.relerp; cases q.start <;> rfl
    have : ((r.resetForTouch stage).addDataPoint reg 0 0 t (Num.ofNat 1)).dataSet =
        (r.resetForTouch stage).newDataSet 0 0 t (Num.ofNat 1) := by
      unfold Reg.addDataPoint
      simp only []
      by_cases h1 : Num.eqb (if 0 < 0 then (r.resetForTouch stage).preferredInertia
          else (r.resetForTouch stage).initialInertia) (Num.ofNat 1 : K) = true
      · rw [if_pos h1]
      · rw [if_neg h1]
        by_cases h2 : (r.resetForTouch stage).minBells ≤
            (((r.resetForTouch stage).newDataSet 0 0 t (Num.ofNat 1)).length : Int)
        · rw [if_pos h2, hrel]
        · rw [if_neg h2]
    show ((r.resetForTouch stage).addDataPoint reg 0 0 t (Num.ofNat 1)).dataSet.length ≤ 1
    rw [this]
    unfold Reg.newDataSet
    simp only [hd, List.nil_append]
    split
    · rw [List.length_tail]; exact le_trans (Nat.sub_le _ _) (List.length_filter_le _ _)
    · exact List.length_filter_le _ _

/-! ### The whole system: the memory stays bounded -/
section System

/-- The regression remembers fewer than `max_bells` strikes. -/
def Mem (r : Reg K) : Prop := 1 ≤ r.maxBells ∧ (r.dataSet.length : Int) < r.maxBells

theorem relerp_keeps (q : Reg K) (fit : K × K) (i : K) :
    (q.relerp fit i).dataSet = q.dataSet ∧ (q.relerp fit i).maxBells = q.maxBells := by
  unfold Reg.relerp
  cases q.start <;> exact ⟨rfl, rfl⟩

theorem addDataPoint_keeps (r : Reg K) (reg : List (K × K × K) → K × K) (row place : Nat) (t w : K) :
    (r.addDataPoint reg row place t w).dataSet = r.newDataSet row place t w ∧
    (r.addDataPoint reg row place t w).maxBells = r.maxBells := by
  unfold Reg.addDataPoint
  simp only []
  by_cases h1 : Num.eqb (if 0 < row then r.preferredInertia else r.initialInertia) (Num.ofNat 1 : K) = true
  · rw [if_pos h1]; exact ⟨rfl, rfl⟩
  · rw [if_neg h1]
    by_cases h2 : r.minBells ≤ ((r.newDataSet row place t w).length : Int)
    · rw [if_pos h2]; exact relerp_keeps _ _ _
    · rw [if_neg h2]; exact ⟨rfl, rfl⟩

theorem addDataPoint_mem (r : Reg K) (reg : List (K × K × K) → K × K) (row place : Nat) (t w : K) (h : Mem r) :
    Mem (r.addDataPoint reg row place t w) := by
  obtain ⟨a, b⟩ := addDataPoint_keeps r reg row place t w
  unfold Mem
  rw [a, b]
  exact ⟨h.1, memory_bounded r row place t w h.1 h.2⟩

theorem onBellRing_mem (r : Reg K) (wt : K → K) (g : List (K × K × K) → K × K) (bell : Nat) (hand : Bool) (t : K)
    (h : Mem r) : Mem (r.onBellRing wt g bell hand t) := by
  unfold Reg.onBellRing
  split
  · exact h
  · rename_i row place _
    simp only []
    have h1 : Mem (if Num.eqb (r.blowTime row place) (Num.ofNat 0) = true then { r with start := .fin t } else r) := by
      split <;> exact h
    exact addDataPoint_mem _ g _ _ _ _ h1

theorem initialiseLine_mem (r : Reg K) (g : List (K × K × K) → K × K) (stage : Nat) (ut : Bool) (t : K) (h : Mem r) :
    Mem (r.initialiseLine g stage ut t) := by
  have h0 : Mem (r.resetForTouch stage) := ⟨h.1, by show ((0 : Nat) : Int) < r.maxBells; have := h.1; omega⟩
  unfold Reg.initialiseLine
  split
  · exact addDataPoint_mem _ g 0 0 t _ h0
  · exact h0

theorem changePealSpeed_mem (r : Reg K) (s t : K) (h : Mem r) : Mem (r.changePealSpeed s t) := by
  unfold Reg.changePealSpeed
  simp only []
  split
  · exact h
  · split <;> exact h

/-- `Mem` is preserved by every operation on the rhythm. -/
theorem memInvariant : RegInvariant (Mem (K := K)) :=
  { bellRing := onBellRing_mem, init := initialiseLine_mem, expect := fun _ _ _ _ _ h => h,
    speed := changePealSpeed_mem, flag := fun _ _ h => h, inertia := fun _ _ h => h }

/-- **The memory turns over - in every run.**  In every state of every run, for *all* events at any times (strikes
early, late or wrong, Look To and its sleeping handler, speed and inertia settings, Stop Touch, several touches),
the regression holds fewer than `max_bells` strikes.  So once the band has struck that many times on a new line,
nothing of the old line is left in what Wheatley fits (`forgets_oldest`: it is the oldest point that goes), and
`wls_recovers` puts the fit on the new line. -/
theorem memory_stays_bounded (wt : K → K) (endTime : K) (fuel : Nat) (w : World K) (events : List (K × Ev))
    (h : Mem w.rh.reg) :
    ((World.run wt endTime fuel w events).1.rh.reg.dataSet.length : Int) <
      (World.run wt endTime fuel w events).1.rh.reg.maxBells :=
  (memInvariant.run wt endTime fuel w events h).2

/-- A newly created rhythm (empty data set, `max_bells ≥ 1`) satisfies the invariant. -/
example : Mem (Reg.init (1 : ℚ) 180 1 4 15 0) := by
  constructor <;> decide

/-- What the command line fixed: the two memory bounds, the inertia of the first row and the handstroke gap. -/
def cfgOf (r : Reg K) : Int × Int × K × K := (r.minBells, r.maxBells, r.initialInertia, r.gap)

theorem relerp_cfg (q : Reg K) (fit : K × K) (i : K) : cfgOf (q.relerp fit i) = cfgOf q := by
  unfold Reg.relerp
  cases q.start <;> rfl

theorem addDataPoint_cfg (r : Reg K) (reg : List (K × K × K) → K × K) (row place : Nat) (t w : K) :
    cfgOf (r.addDataPoint reg row place t w) = cfgOf r := by
  unfold Reg.addDataPoint
  simp only []
  by_cases h1 : Num.eqb (if 0 < row then r.preferredInertia else r.initialInertia) (Num.ofNat 1 : K) = true
  · rw [if_pos h1]; rfl
  · rw [if_neg h1]
    by_cases h2 : r.minBells ≤ ((r.newDataSet row place t w).length : Int)
    · rw [if_pos h2]; exact relerp_cfg _ _ _
    · rw [if_neg h2]; rfl

/-- No operation on the rhythm touches its configuration. -/
theorem cfgInvariant (c : Int × Int × K × K) : RegInvariant (fun r : Reg K => cfgOf r = c) :=
  { bellRing := (by
      intro r wt g bell hand t h
      unfold Reg.onBellRing
      split
      · exact h
      · rename_i row place _
        simp only []
        have h1 : cfgOf (if Num.eqb (r.blowTime row place) (Num.ofNat 0) = true then { r with start := .fin t } else r) = c := by
          split <;> exact h
        exact (addDataPoint_cfg _ g _ _ _ _).trans h1)
    init := (by
      intro r g stage ut t h
      unfold Reg.initialiseLine
      split
      · exact (addDataPoint_cfg (r.resetForTouch stage) g 0 0 t _).trans h
      · exact h)
    expect := fun _ _ _ _ _ h => h
    speed := (by
      intro r s t h
      unfold Reg.changePealSpeed
      simp only []
      split
      · exact h
      · split <;> exact h)
    flag := fun _ _ h => h
    inertia := fun _ _ h => h }

/-- **The values given on the command line are the values used, throughout**: in every state of every run, for all
events (settings from the server included - they reach the peal speed and the running inertia only), the rhythm's
memory bounds (`-X`, and the minimum of four), the inertia of the first row and the handstroke gap are what the
rhythm was created with (`cli_memory` below says what that is). -/
theorem configuration_never_changes (wt : K → K) (endTime : K) (fuel : Nat) (w : World K) (events : List (K × Ev)) :
    cfgOf (World.run wt endTime fuel w events).1.rh.reg = cfgOf w.rh.reg :=
  (cfgInvariant (cfgOf w.rh.reg)).run wt endTime fuel w events rfl

end System

/-! ### The command line (`Model/Cli.lean`: `console_main`) -/

/-- The size of the memory is the last `-X` given (else the default); the number of strikes needed before the
first regression is four, or that size when it is smaller. -/
theorem cli_memory (c : Parse.Chars) (os : List Cli.Opt) (u : Option (List Char × List Char)) (cfg : Cli.Cfg)
    (h : Cli.consoleMain c os u = .built cfg) :
    cfg.maxBells = (Cli.maxBellsGiven os).getLast?.getD Generated.cliMaxBells ∧
    cfg.minBells = min (Generated.minBellsInDataset : Int) cfg.maxBells :=
  ⟨(Cli.main_built c os u cfg h).2.2.2.2.2.2.1, (Cli.main_built c os u cfg h).2.2.2.2.2.2.2.1⟩

end Wheatley.C12
