/-
C12 — Wheatley moves onto a steady human rhythm.

`regress` is the closed form of `calculate_regression` (its agreement with numpy is part of the
correspondence of every timed run); `Reg.addDataPoint` is `_add_data_point`.  Everything holds in any
linearly ordered field.
-/
import Wheatley.Lemmas.Regress
import Wheatley.Lemmas.Rhythm
import Wheatley.Lemmas.Cli
namespace Wheatley.C12
open Generated

variable {K : Type} [Field K] [LinearOrder K] [IsStrictOrderedRing K]

/-- **Exact recovery** (any weights): data on the humans' line `t = a + c·b` with a non-singular
system give back `(a, c)`. -/
theorem wls_recovers (a c : K) (ds : List (K × K × K)) (h : OnLine a c ds) (hd : det ds ≠ 0) :
    regress ds = (a, c) := regress_recovers a c ds h hd

/-- **Non-singular** whenever the weights are positive (every kept point has weight > 0.001) and two
kept strikes have different blow times. -/
theorem system_nonsingular (ds : List (K × K × K)) (hw : PosWeights ds)
    (h : ∃ d ∈ ds, ∃ e ∈ ds, d.1 ≠ e.1) : det ds ≠ 0 := ne_of_gt (det_pos ds hw h)

theorem lerp_eq (a b t : K) : lerp a b t = (1 - t) * a + t * b := by
  simp [lerp]

/-- **One update**: when the kept data lie on the humans' line (`a`, `c`), a regression moves Wheatley's
line to `lerp(humans' line, old line, inertia)`: the error is multiplied by the inertia. -/
theorem contraction (r : Reg K) (row place : Nat) (t w s a c : K) (hs : r.start = .fin s)
    (hi : (if 0 < row then r.preferredInertia else r.initialInertia) ≠ 1)
    (hn : r.minBells ≤ ((r.newDataSet row place t w).length : Int))
    (hline : OnLine a c (r.newDataSet row place t w)) (hdet : det (r.newDataSet row place t w) ≠ 0) :
    ∃ s', (r.addDataPoint regress row place t w).start = .fin s' ∧
      s' - a = (if 0 < row then r.preferredInertia else r.initialInertia) * (s - a) ∧
      (r.addDataPoint regress row place t w).interval - c =
        (if 0 < row then r.preferredInertia else r.initialInertia) * (r.interval - c) := by
  have h1 : Num.eqb (if 0 < row then r.preferredInertia else r.initialInertia) (Num.ofNat 1) = false := by
    simp only [num_eqb, num_ofNat, Nat.cast_one, decide_eq_false_iff_not]; exact hi
  obtain ⟨e1, e2⟩ := addDataPoint_regressed r regress row place t w s hs h1 hn
  rw [wls_recovers a c _ hline hdet] at e1 e2
  refine ⟨_, e1, ?_, ?_⟩
  · simp only [lerp_eq]; ring
  · rw [e2]; simp only [lerp_eq]; ring

/-- **Inertia 0**: the line *is* the humans' line after one such update — exactly, from the first
regression onwards. -/
theorem inertia0_exact (r : Reg K) (row place : Nat) (t w s a c : K) (hs : r.start = .fin s)
    (hi : (if 0 < row then r.preferredInertia else r.initialInertia) = 0)
    (hn : r.minBells ≤ ((r.newDataSet row place t w).length : Int))
    (hline : OnLine a c (r.newDataSet row place t w)) (hdet : det (r.newDataSet row place t w) ≠ 0) :
    (r.addDataPoint regress row place t w).start = .fin a ∧
    (r.addDataPoint regress row place t w).interval = c := by
  obtain ⟨s', e1, e2, e3⟩ := contraction r row place t w s a c hs (by rw [hi]; exact zero_ne_one) hn hline hdet
  rw [hi] at e2 e3
  have : s' = a := by linarith
  rw [this] at e1
  exact ⟨e1, by linarith⟩

/-- **Geometric convergence**: `k` updates multiply the error by `inertia^k`; for inertia ≤ ½ that is at
most `2⁻ᵏ` of the initial error. -/
theorem geometric (i e0 : K) (k : Nat) (hi0 : 0 ≤ i) (hi : i ≤ 1 / 2) :
    |i ^ k * e0| ≤ (1 / 2) ^ k * |e0| := by
  rw [abs_mul, abs_pow, abs_of_nonneg hi0]
  exact mul_le_mul_of_nonneg_right (pow_le_pow_left₀ hi0 hi k) (abs_nonneg e0)

/-- **Fixed point**: if the humans are already on Wheatley's line nothing changes at all — for every
inertia, every human set and every data-set size. -/
theorem fixed_point (r : Reg K) (row place : Nat) (t w s : K) (hs : r.start = .fin s)
    (hline : OnLine s r.interval (r.newDataSet row place t w))
    (hdet : det (r.newDataSet row place t w) ≠ 0) :
    (r.addDataPoint regress row place t w).start = .fin s ∧
    (r.addDataPoint regress row place t w).interval = r.interval := by
  by_cases h1 : Num.eqb (if 0 < row then r.preferredInertia else r.initialInertia) (Num.ofNat 1) = true
  · have := addDataPoint_line_unchanged r regress row place t w (Or.inl h1)
    rw [this.1, this.2]; exact ⟨hs, rfl⟩
  · by_cases hn : r.minBells ≤ ((r.newDataSet row place t w).length : Int)
    · obtain ⟨e1, e2⟩ := addDataPoint_regressed r regress row place t w s hs (by simpa using h1) hn
      rw [wls_recovers s r.interval _ hline hdet] at e1 e2
      refine ⟨?_, ?_⟩
      · rw [e1]; congr 1; simp only [lerp_eq]; ring
      · rw [e2]; simp only [lerp_eq]; ring
    · have := addDataPoint_line_unchanged r regress row place t w (Or.inr hn)
      rw [this.1, this.2]; exact ⟨hs, rfl⟩

/-- **Memory turns over**: the data set never holds more than `max − 1` points after an update, so
after that many kept strikes on a new line every remembered point lies on it. -/
theorem memory_bounded (r : Reg K) (row place : Nat) (t w : K) (hmax : 1 ≤ r.maxBells)
    (hlen : (r.dataSet.length : Int) < r.maxBells) :
    ((r.newDataSet row place t w).length : Int) < r.maxBells := by
  unfold Reg.newDataSet
  simp only []
  have hf : ((r.dataSet ++ [(r.blowTime row place, t, w)]).filter
      (fun d => decide (Num.ofQ weightRejectionThreshold < d.2.2))).length ≤ r.dataSet.length + 1 := by
    refine le_trans (List.length_filter_le _ _) ?_
    simp
  split
  · rename_i h
    rw [List.length_tail]
    have : (0 : Int) < ((r.dataSet ++ [(r.blowTime row place, t, w)]).filter
        (fun d => decide (Num.ofQ weightRejectionThreshold < d.2.2))).length := by omega
    omega
  · rename_i h; omega

/-- The oldest point is the one forgotten. -/
theorem forgets_oldest (r : Reg K) (row place : Nat) (t w : K) :
    r.newDataSet row place t w =
      let kept := (r.dataSet ++ [(r.blowTime row place, t, w)]).filter
        (fun d => decide (Num.ofQ weightRejectionThreshold < d.2.2))
      if r.maxBells ≤ (kept.length : Int) then kept.tail else kept := rfl

/-! Non-vacuity: three strikes on the line `t = 10 + 2·b` with unequal weights. -/
example : regress [((0 : ℚ), 10, 1), (1, 12, 1 / 2), (3, 16, 1 / 5)] = (10, 2) := by
  apply wls_recovers
  · intro d hd; simp at hd; rcases hd with rfl | rfl | rfl <;> norm_num
  · simp [det, sW, sWB, sWBB]; norm_num

/-- The fit the driver evaluates at `Float` to cross-check the implementation's `numpy.linalg`
results (about the first data point, so that no digits are lost to the size of the blow index or of
the epoch) is the same function as the `regress` of the theorems above. -/
theorem centred_evaluation_is_the_same_fit (ds : List (K × K × K)) (hd : det ds ≠ 0) :
    regressCentred ds = regress ds := regressCentred_eq ds hd

/-- **Every touch is fitted to its own strikes**: `initialise_line` empties the data set, whoever leads
(when Wheatley leads, its own first blow is the only point left), so nothing heard in an earlier touch of
the session takes part in any regression of the new one. -/
theorem look_to_forgets_data (r : Reg K) (reg : List (K × K × K) → K × K) (stage : Nat) (t : K) :
    (r.initialiseLine reg stage true t).dataSet = [] ∧
    (r.initialiseLine reg stage false t).dataSet.length ≤ 1 := by
  constructor
  · simp [Reg.initialiseLine, Reg.resetForTouch]
  · simp only [Reg.initialiseLine, Bool.not_false, if_true]
    have hd : (r.resetForTouch stage).dataSet = [] := rfl
    have hrel : ∀ (q : Reg K) (fit : K × K) (i : K), (q.relerp fit i).dataSet = q.dataSet := by
      intro q fit i; unfold Reg.relerp; cases q.start <;> rfl
    have : ((r.resetForTouch stage).addDataPoint reg 0 0 t (Num.ofNat 1)).dataSet =
        (r.resetForTouch stage).newDataSet 0 0 t (Num.ofNat 1) := by
      unfold Reg.addDataPoint
      simp only []
      by_cases h1 : Num.eqb (if 0 < 0 then (r.resetForTouch stage).preferredInertia
          else (r.resetForTouch stage).initialInertia) (Num.ofNat 1 : K) = true
      · rw [if_pos h1]
      · rw [if_neg h1]
        by_cases h2 : (r.resetForTouch stage).minBells ≤
            (((r.resetForTouch stage).newDataSet 0 0 t (Num.ofNat 1)).length : Int)
        · rw [if_pos h2, hrel]
        · rw [if_neg h2]
    show ((r.resetForTouch stage).addDataPoint reg 0 0 t (Num.ofNat 1)).dataSet.length ≤ 1
    rw [this]
    unfold Reg.newDataSet
    simp only [hd, List.nil_append]
    split
    · rw [List.length_tail]; exact le_trans (Nat.sub_le _ _) (List.length_filter_le _ _)
    · exact List.length_filter_le _ _

/-! ### The command line (`Model/Cli.lean`: `console_main`) -/

/-- The size of the memory is the last `-X` given (else the default); the number of strikes needed before the
first regression is four, or that size when it is smaller. -/
theorem cli_memory (c : Parse.Chars) (os : List Cli.Opt) (u : Option (List Char × List Char)) (cfg : Cli.Cfg)
    (h : Cli.consoleMain c os u = .built cfg) :
    cfg.maxBells = (Cli.maxBellsGiven os).getLast?.getD Generated.cliMaxBells ∧
    cfg.minBells = min (Generated.minBellsInDataset : Int) cfg.maxBells :=
  ⟨(Cli.main_built c os u cfg h).2.2.2.2.2.2.1, (Cli.main_built c os u cfg h).2.2.2.2.2.2.2.1⟩

end Wheatley.C12
