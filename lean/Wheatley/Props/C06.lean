/-
C06 — start discipline: rounds until Go, method starts on the right stroke.

`ctlStep` / `ctlNext` are the control flow of `start_next_row`; `startNextRow_ctl` (Lemmas/Ctl)
says the model of the code moves its flags and counters exactly so.  "Row `k` is in progress"
means `rowNumber = k`; a row boundary is one `ctlStep`.
-/
import Wheatley.Lemmas.Ctl
import Wheatley.Lemmas.Cli
namespace Wheatley.C06

/-- The stroke of row `k`: `true` = handstroke. -/
def handOf (k : Nat) : Bool := k % 2 == 0

/-- What `_on_go` writes into the counter. -/
def goCounter (rowNumber : Nat) (startHand : Bool) : Nat := if handOf rowNumber == startHand then 1 else 0

/-- `_on_go()` while rounds / the opening row is being rung arms the counter from the parity of the
row in progress; nothing else changes. -/
theorem go_arms_counter (b : Bot) (h : b.ringingRounds = true ∨ b.ringingOpening = true) :
    (b.onGo).1.ctl = { b.ctl with roundsLeft := some (goCounter b.rowNumber b.gen.startHand) } ∧
    (b.onGo).1.gen = b.gen := by
  unfold Bot.onGo
  have : (b.ringingRounds || b.ringingOpening) = true := by rcases h with h | h <;> simp [h]
  simp [this, goCounter, handOf, Bot.hand, Bot.ctl]

/-- **A Go while the method is being rung changes nothing.** -/
theorem go_during_method_noop (b : Bot) (h1 : b.ringingRounds = false) (h2 : b.ringingOpening = false) :
    b.onGo = (b, []) := by
  simp [Bot.onGo, h1, h2]

/-- Every boundary numbers the coming row: 0 after Look To, one more otherwise — so rows alternate
strokes beginning at handstroke. -/
theorem row_numbers (c : Ctl) (i : CtlIn) :
    (ctlNext c i).rowNumber = if i.isFirst then 0 else c.rowNumber + 1 := rfl

/-- **Rounds until Go**: while no start is armed (`roundsLeft = none`) a boundary never starts the
method, never fails, and never leaves the opening row. -/
theorem opening_until_go (c : Ctl) (i : CtlIn) (h : c.roundsLeft = none) :
    ctlStep c i = .ok (ctlNext c i) false ∧ (ctlNext c i).roundsLeft = none ∧
    (ctlNext c i).ringingOpening = c.ringingOpening := by
  simp [ctlStep, assertFails, startsNow, ctlNext, h]

/-- A running countdown that has not reached zero just counts down: no start, no failure. -/
theorem countdown (c : Ctl) (i : CtlIn) (k : Nat) (h : c.roundsLeft = some (k + 1)) :
    ctlStep c i = .ok (ctlNext c i) false ∧ (ctlNext c i).roundsLeft = some k ∧
    (ctlNext c i).ringingOpening = c.ringingOpening := by
  simp [ctlStep, assertFails, startsNow, ctlNext, h]

/-- At zero the method starts, provided the coming row is on the start stroke. -/
theorem start_at_zero (c : Ctl) (i : CtlIn) (h : c.roundsLeft = some 0)
    (hp : handOf (nextRowNumber c i) = i.startHand) :
    ctlStep c i = .ok (ctlNext c i) true ∧ (ctlNext c i).ringingOpening = false ∧
    (ctlNext c i).roundsLeft = none ∧ (ctlNext c i).ringingRounds = (!i.fits || (ctlNext c i).ringingRounds) := by
  unfold handOf at hp
  simp [ctlStep, assertFails, startsNow, ctlNext, h, hp]
  cases i.fits <;> simp

/-- The stroke assertion fails exactly when a zero counter meets the wrong stroke. -/
theorem crash_iff (c : Ctl) (i : CtlIn) :
    ctlStep c i = .crash ↔ (c.roundsLeft = some 0 ∧ handOf (nextRowNumber c i) ≠ i.startHand) := by
  unfold ctlStep assertFails startsNow handOf
  constructor
  · intro h
    split at h
    · rename_i hc; simp at hc; exact ⟨by simpa using hc.1, by simpa using hc.2⟩
    · cases h
  · rintro ⟨h1, h2⟩
    simp [h1, h2]

theorem handOf_succ (k : Nat) : handOf (k + 1) = !handOf k := by
  unfold handOf
  rcases Nat.mod_two_eq_zero_or_one k with h | h <;> simp [Nat.add_mod, h]

/-- **Never sooner, and on the right stroke (Go on the "other" stroke).**  Go delivered during row `k`
whose stroke is not the method's start stroke: the very next row (`k+1`, which is on the start
stroke) starts the method, and the stroke assertion holds. -/
theorem go_starts_next_row (c : Ctl) (i : CtlIn) (hf : i.isFirst = false)
    (hp : handOf c.rowNumber ≠ i.startHand)
    (hc : c.roundsLeft = some (goCounter c.rowNumber i.startHand)) :
    ctlStep c i = .ok (ctlNext c i) true ∧ (ctlNext c i).rowNumber = c.rowNumber + 1 ∧
    handOf (ctlNext c i).rowNumber = i.startHand ∧ (ctlNext c i).ringingOpening = false := by
  have hg : goCounter c.rowNumber i.startHand = 0 := by simp [goCounter, hp]
  rw [hg] at hc
  have hn : nextRowNumber c i = c.rowNumber + 1 := by simp [nextRowNumber, hf]
  have hpar : handOf (c.rowNumber + 1) = i.startHand := by
    rw [handOf_succ]; cases h1 : handOf c.rowNumber <;> cases h2 : i.startHand <;> simp_all
  obtain ⟨e, o, _, _⟩ := start_at_zero c i hc (by rw [hn]; exact hpar)
  refine ⟨e, ?_, ?_, o⟩
  · rw [row_numbers]; simp [hf]
  · rw [row_numbers]; simp only [hf]; exact hpar

/-- **Never sooner, and on the right stroke (Go on the method's start stroke).**  Go delivered during
row `k` which is itself on the start stroke: row `k+1` is still an opening row (no start, flags
kept) and row `k+2` starts the method; the assertion holds. -/
theorem go_starts_row_after_next (c : Ctl) (i j : CtlIn) (hf : i.isFirst = false) (hj : j.isFirst = false)
    (hs : j.startHand = i.startHand) (hp : handOf c.rowNumber = i.startHand)
    (hc : c.roundsLeft = some (goCounter c.rowNumber i.startHand)) :
    ctlStep c i = .ok (ctlNext c i) false ∧ (ctlNext c i).ringingOpening = c.ringingOpening ∧
    ctlStep (ctlNext c i) j = .ok (ctlNext (ctlNext c i) j) true ∧
    (ctlNext (ctlNext c i) j).rowNumber = c.rowNumber + 2 ∧
    handOf (ctlNext (ctlNext c i) j).rowNumber = i.startHand ∧
    (ctlNext (ctlNext c i) j).ringingOpening = false := by
  have hg : goCounter c.rowNumber i.startHand = 1 := by simp [goCounter, hp]
  rw [hg] at hc
  obtain ⟨e1, r1, o1⟩ := countdown c i 0 hc
  have n1 : (ctlNext c i).rowNumber = c.rowNumber + 1 := by rw [row_numbers]; simp [hf]
  have hn : nextRowNumber (ctlNext c i) j = c.rowNumber + 2 := by simp [nextRowNumber, hj, n1]
  have hpar : handOf (c.rowNumber + 2) = j.startHand := by
    rw [hs, ← hp, show c.rowNumber + 2 = (c.rowNumber + 1) + 1 from rfl, handOf_succ, handOf_succ]; simp
  obtain ⟨e2, o2, _, _⟩ := start_at_zero (ctlNext c i) j r1 (by rw [hn]; exact hpar)
  refine ⟨e1, o1, e2, ?_, ?_, o2⟩
  · rw [row_numbers]; simp [hj, n1]
  · rw [row_numbers]; simp only [hj, n1]; rw [← hs]; exact hpar

/-- **A later, superfluous Go before the start does not move it**: re-arming during row `k+1` (the
row after a Go on the start stroke) computes 0, which is what the counter already holds. -/
theorem second_go_same_start (k : Nat) (startHand : Bool) (hp : handOf k = startHand) :
    goCounter (k + 1) startHand = 0 ∧ goCounter k startHand = 1 := by
  unfold goCounter
  rw [handOf_succ, hp]
  cases startHand <;> simp

/-- **Up-down-in**: `look_to_has_been_called` arms the counter with 2 for a handstroke start and 3
for a backstroke start (values regenerated from the source), makes the queued generator current,
clears the stop flags, and then runs the first row boundary. -/
theorem look_to_counter (b : Bot) :
    b.armLookTo.roundsLeft =
      (if !b.upDownIn then none else if (b.nextGen.getD b.gen).startHand then some 2 else some 3) ∧
    b.armLookTo.gen = b.nextGen.getD b.gen ∧ b.armLookTo.nextGen = none ∧ b.armLookTo.isRinging = true ∧
    b.armLookTo.ringingOpening = true ∧ b.armLookTo.shouldStand = false ∧
    b.armLookTo.rowsLeftBeforeRounds = none ∧
    (∀ treble rest, b.openingRow = treble :: rest → (b.lookTo).1 = (b.armLookTo.startNextRow true).1) := by
  refine ⟨by simp [Bot.armLookTo, Generated.upDownInHand, Generated.upDownInBack], rfl, rfl, rfl, rfl, rfl, rfl, ?_⟩
  intro treble rest h
  unfold Bot.lookTo
  simp only [h]

/-- … so with a handstroke start rows 0 and 1 are opening rows and row 2 starts the method, -/
theorem udi_hand_start (c : Ctl) (i0 i1 i2 : CtlIn) (h : c.roundsLeft = some 2)
    (f0 : i0.isFirst = true) (f1 : i1.isFirst = false) (f2 : i2.isFirst = false) (hs : i2.startHand = true) :
    let c0 := ctlNext c i0
    let c1 := ctlNext c0 i1
    let c2 := ctlNext c1 i2
    ctlStep c i0 = .ok c0 false ∧ ctlStep c0 i1 = .ok c1 false ∧ ctlStep c1 i2 = .ok c2 true ∧
    c0.rowNumber = 0 ∧ c1.rowNumber = 1 ∧ c2.rowNumber = 2 ∧
    c0.ringingOpening = c.ringingOpening ∧ c1.ringingOpening = c.ringingOpening ∧
    c2.ringingOpening = false := by
  intro c0 c1 c2
  obtain ⟨e0, r0, o0⟩ := countdown c i0 1 h
  obtain ⟨e1, r1, o1⟩ := countdown c0 i1 0 r0
  have n0 : c0.rowNumber = 0 := by simp [c0, row_numbers, f0]
  have n1 : c1.rowNumber = 1 := by simp [c1, row_numbers, f1, n0]
  have hn : nextRowNumber c1 i2 = 2 := by simp [nextRowNumber, f2, n1]
  obtain ⟨e2, o2, _, _⟩ := start_at_zero c1 i2 r1 (by rw [hn, hs]; rfl)
  exact ⟨e0, e1, e2, n0, n1, by simp [c2, row_numbers, f2, n1], o0, by rw [o1, o0], o2⟩

/-- … and with a backstroke start rows 0–2 are opening rows and row 3 starts the method. -/
theorem udi_back_start (c : Ctl) (i0 i1 i2 i3 : CtlIn) (h : c.roundsLeft = some 3)
    (f0 : i0.isFirst = true) (f1 : i1.isFirst = false) (f2 : i2.isFirst = false) (f3 : i3.isFirst = false)
    (hs : i3.startHand = false) :
    let c0 := ctlNext c i0
    let c1 := ctlNext c0 i1
    let c2 := ctlNext c1 i2
    let c3 := ctlNext c2 i3
    ctlStep c i0 = .ok c0 false ∧ ctlStep c0 i1 = .ok c1 false ∧ ctlStep c1 i2 = .ok c2 false ∧
    ctlStep c2 i3 = .ok c3 true ∧ c3.rowNumber = 3 ∧ c2.ringingOpening = c.ringingOpening ∧
    c3.ringingOpening = false := by
  intro c0 c1 c2 c3
  obtain ⟨e0, r0, o0⟩ := countdown c i0 2 h
  obtain ⟨e1, r1, o1⟩ := countdown c0 i1 1 r0
  obtain ⟨e2, r2, o2⟩ := countdown c1 i2 0 r1
  have n0 : c0.rowNumber = 0 := by simp [c0, row_numbers, f0]
  have n1 : c1.rowNumber = 1 := by simp [c1, row_numbers, f1, n0]
  have n2 : c2.rowNumber = 2 := by simp [c2, row_numbers, f2, n1]
  have hn : nextRowNumber c2 i3 = 3 := by simp [nextRowNumber, f3, n2]
  obtain ⟨e3, o3, _, _⟩ := start_at_zero c2 i3 r2 (by rw [hn, hs]; rfl)
  exact ⟨e0, e1, e2, e3, by simp [c3, row_numbers, f3, n2], by rw [o2, o1, o0], o3⟩

/-- While the opening flag is up the row rung is the opening row (rounds or the custom start row). -/
theorem opening_row_rung (b : Bot) (h : b.ringingOpening = true) :
    (b.generateNextRow).1.row = b.openingRow := (generateNextRow_row b).1 h

/-! Non-vacuity: a Go in row 4 (handstroke) of a handstroke-start method starts it at row 6;
a Go in row 5 starts it at row 6 too. -/
example : goCounter 4 true = 1 ∧ goCounter 5 true = 0 := by decide

/-! ### The command line (`Model/Cli.lean`: `console_main`) -/

/-- Up-down-in is on exactly when `-u` or `-H` was given (anywhere on the command line, any number of times) -
whatever else was given. -/
theorem cli_up_down_in (c : Parse.Chars) (os : List Cli.Opt) (u : Option (List Char × List Char)) (cfg : Cli.Cfg)
    (h : Cli.consoleMain c os u = .built cfg) :
    cfg.udi = (decide (Cli.Opt.udi ∈ os) || decide (Cli.Opt.handbell ∈ os)) :=
  (Cli.main_built c os u cfg h).1

end Wheatley.C06
