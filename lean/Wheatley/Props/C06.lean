/-
C06 — start discipline: rounds until Go, method starts on the right stroke.

`ctlStep` / `ctlNext` are the control flow of `start_next_row`; `startNextRow_ctl` (Lemmas/Ctl)
says the model of the code moves its flags and counters exactly so.  "Row `k` is in progress"
means `rowNumber = k`; a row boundary is one `ctlStep`.
-/
import Wheatley.Lemmas.Ctl
import Wheatley.Lemmas.Cli
import Wheatley.Lemmas.Handlers
import Wheatley.Lemmas.BotInv
namespace Wheatley.C06

/-- The stroke of row `k`: `true` = handstroke. -/
def handOf (k : Nat) : Bool := k % 2 == 0

/-- What `_on_go` writes into the counter. -/
def goCounter (rowNumber : Nat) (startHand : Bool) : Nat := if handOf rowNumber == startHand then 1 else 0

/-- `_on_go()` while rounds / the opening row is being rung arms the counter from the parity of the
row in progress; nothing else changes. -/
theorem go_arms_counter (b : Bot) (h : b.ringingRounds = true ∨ b.ringingOpening = true) :
    (b.onGo).1.ctl = { b.ctl with roundsLeft := some (goCounter b.rowNumber b.gen.startHand) } ∧
    (b.onGo).1.gen = b.gen := by
  unfold Bot.onGo
  have : (b.ringingRounds || b.ringingOpening) = true := by rcases h with h | h <;> simp [h]
  simp [this, goCounter, handOf, Bot.hand, Bot.ctl]

/-- **A Go while the method is being rung changes nothing.** -/
theorem go_during_method_noop (b : Bot) (h1 : b.ringingRounds = false) (h2 : b.ringingOpening = false) :
    b.onGo = (b, []) := by
  simp [Bot.onGo, h1, h2]

/-- Every boundary numbers the coming row: 0 after Look To, one more otherwise — so rows alternate
strokes beginning at handstroke. -/
theorem row_numbers (c : Ctl) (i : CtlIn) :
    (ctlNext c i).rowNumber = if i.isFirst then 0 else c.rowNumber + 1 := rfl

/-- **Rounds until Go**: while no start is armed (`roundsLeft = none`) a boundary never starts the
method, never fails, and never leaves the opening row. -/
theorem opening_until_go (c : Ctl) (i : CtlIn) (h : c.roundsLeft = none) :
    ctlStep c i = .ok (ctlNext c i) false ∧ (ctlNext c i).roundsLeft = none ∧
    (ctlNext c i).ringingOpening = c.ringingOpening := by
  simp [ctlStep, assertFails, startsNow, ctlNext, h]

/-- A running countdown that has not reached zero just counts down: no start, no failure. -/
theorem countdown (c : Ctl) (i : CtlIn) (k : Nat) (h : c.roundsLeft = some (k + 1)) :
    ctlStep c i = .ok (ctlNext c i) false ∧ (ctlNext c i).roundsLeft = some k ∧
    (ctlNext c i).ringingOpening = c.ringingOpening := by
  simp [ctlStep, assertFails, startsNow, ctlNext, h]

/-- At zero the method starts, provided the coming row is on the start stroke. -/
theorem start_at_zero (c : Ctl) (i : CtlIn) (h : c.roundsLeft = some 0)
    (hp : handOf (nextRowNumber c i) = i.startHand) :
    ctlStep c i = .ok (ctlNext c i) true ∧ (ctlNext c i).ringingOpening = false ∧
    (ctlNext c i).roundsLeft = none ∧ (ctlNext c i).ringingRounds = (!i.fits || (ctlNext c i).ringingRounds) := by
  unfold handOf at hp
  simp [ctlStep, assertFails, startsNow, ctlNext, h, hp]
  cases i.fits <;> simp

/-- The stroke assertion fails exactly when a zero counter meets the wrong stroke. -/
theorem crash_iff (c : Ctl) (i : CtlIn) :
    ctlStep c i = .crash ↔ (c.roundsLeft = some 0 ∧ handOf (nextRowNumber c i) ≠ i.startHand) := by
  unfold ctlStep assertFails startsNow handOf
  constructor
  · intro h
    split at h
    · rename_i hc; simp at hc; exact ⟨by simpa using hc.1, by simpa using hc.2⟩
    · cases h
  · rintro ⟨h1, h2⟩
    simp [h1, h2]

theorem handOf_succ (k : Nat) : handOf (k + 1) = !handOf k := by
  unfold handOf
  rcases Nat.mod_two_eq_zero_or_one k with h | h <;> simp [Nat.add_mod, h]

/-- **Never sooner, and on the right stroke (Go on the "other" stroke).**  Go delivered during row `k`
whose stroke is not the method's start stroke: the very next row (`k+1`, which is on the start
stroke) starts the method, and the stroke assertion holds. -/
theorem go_starts_next_row (c : Ctl) (i : CtlIn) (hf : i.isFirst = false)
    (hp : handOf c.rowNumber ≠ i.startHand)
    (hc : c.roundsLeft = some (goCounter c.rowNumber i.startHand)) :
    ctlStep c i = .ok (ctlNext c i) true ∧ (ctlNext c i).rowNumber = c.rowNumber + 1 ∧
    handOf (ctlNext c i).rowNumber = i.startHand ∧ (ctlNext c i).ringingOpening = false := by
  have hg : goCounter c.rowNumber i.startHand = 0 := by simp [goCounter, hp]
  rw [hg] at hc
  have hn : nextRowNumber c i = c.rowNumber + 1 := by simp [nextRowNumber, hf]
  have hpar : handOf (c.rowNumber + 1) = i.startHand := by
    rw [handOf_succ]; cases h1 : handOf c.rowNumber <;> cases h2 : i.startHand <;> simp_all
  obtain ⟨e, o, _, _⟩ := start_at_zero c i hc (by rw [hn]; exact hpar)
  refine ⟨e, ?_, ?_, o⟩
  · rw [row_numbers]; simp [hf]
  · rw [row_numbers]; simp only [hf]; exact hpar

/-- **Never sooner, and on the right stroke (Go on the method's start stroke).**  Go delivered during
row `k` which is itself on the start stroke: row `k+1` is still an opening row (no start, flags
kept) and row `k+2` starts the method; the assertion holds. -/
theorem go_starts_row_after_next (c : Ctl) (i j : CtlIn) (hf : i.isFirst = false) (hj : j.isFirst = false)
    (hs : j.startHand = i.startHand) (hp : handOf c.rowNumber = i.startHand)
    (hc : c.roundsLeft = some (goCounter c.rowNumber i.startHand)) :
    ctlStep c i = .ok (ctlNext c i) false ∧ (ctlNext c i).ringingOpening = c.ringingOpening ∧
    ctlStep (ctlNext c i) j = .ok (ctlNext (ctlNext c i) j) true ∧
    (ctlNext (ctlNext c i) j).rowNumber = c.rowNumber + 2 ∧
    handOf (ctlNext (ctlNext c i) j).rowNumber = i.startHand ∧
    (ctlNext (ctlNext c i) j).ringingOpening = false := by
  have hg : goCounter c.rowNumber i.startHand = 1 := by simp [goCounter, hp]
  rw [hg] at hc
  obtain ⟨e1, r1, o1⟩ := countdown c i 0 hc
  have n1 : (ctlNext c i).rowNumber = c.rowNumber + 1 := by rw [row_numbers]; simp [hf]
  have hn : nextRowNumber (ctlNext c i) j = c.rowNumber + 2 := by simp [nextRowNumber, hj, n1]
  have hpar : handOf (c.rowNumber + 2) = j.startHand := by
    rw [hs, ← hp, show c.rowNumber + 2 = (c.rowNumber + 1) + 1 from rfl, handOf_succ, handOf_succ]; simp
  obtain ⟨e2, o2, _, _⟩ := start_at_zero (ctlNext c i) j r1 (by rw [hn]; exact hpar)
  refine ⟨e1, o1, e2, ?_, ?_, o2⟩
  · rw [row_numbers]; simp [hj, n1]
  · rw [row_numbers]; simp only [hj, n1]; rw [← hs]; exact hpar

/-- **A later, superfluous Go before the start does not move it**: re-arming during row `k+1` (the
row after a Go on the start stroke) computes 0, which is what the counter already holds. -/
theorem second_go_same_start (k : Nat) (startHand : Bool) (hp : handOf k = startHand) :
    goCounter (k + 1) startHand = 0 ∧ goCounter k startHand = 1 := by
  unfold goCounter
  rw [handOf_succ, hp]
  cases startHand <;> simp

/-- **Up-down-in**: `look_to_has_been_called` arms the counter with 2 for a handstroke start and 3
for a backstroke start (values regenerated from the source), makes the queued generator current,
clears the stop flags, and then runs the first row boundary. -/
theorem look_to_counter (b : Bot) :
    b.armLookTo.roundsLeft =
      (if !b.upDownIn then none else if (b.nextGen.getD b.gen).startHand then some 2 else some 3) ∧
    b.armLookTo.gen = b.nextGen.getD b.gen ∧ b.armLookTo.nextGen = none ∧ b.armLookTo.isRinging = true ∧
    b.armLookTo.ringingOpening = true ∧ b.armLookTo.shouldStand = false ∧
    b.armLookTo.rowsLeftBeforeRounds = none ∧
    (∀ treble rest, b.openingRow = treble :: rest → (b.lookTo).1 = (b.armLookTo.startNextRow true).1) := by
  refine ⟨by simp [Bot.armLookTo, Generated.upDownInHand, Generated.upDownInBack], rfl, rfl, rfl, rfl, rfl, rfl, ?_⟩
  intro treble rest h
  unfold Bot.lookTo
  simp only [h]

/-- … so with a handstroke start rows 0 and 1 are opening rows and row 2 starts the method, -/
theorem udi_hand_start (c : Ctl) (i0 i1 i2 : CtlIn) (h : c.roundsLeft = some 2)
    (f0 : i0.isFirst = true) (f1 : i1.isFirst = false) (f2 : i2.isFirst = false) (hs : i2.startHand = true) :
    let c0 := ctlNext c i0
    let c1 := ctlNext c0 i1
    let c2 := ctlNext c1 i2
    ctlStep c i0 = .ok c0 false ∧ ctlStep c0 i1 = .ok c1 false ∧ ctlStep c1 i2 = .ok c2 true ∧
    c0.rowNumber = 0 ∧ c1.rowNumber = 1 ∧ c2.rowNumber = 2 ∧
    c0.ringingOpening = c.ringingOpening ∧ c1.ringingOpening = c.ringingOpening ∧
    c2.ringingOpening = false := by
  intro c0 c1 c2
  obtain ⟨e0, r0, o0⟩ := countdown c i0 1 h
  obtain ⟨e1, r1, o1⟩ := countdown c0 i1 0 r0
  have n0 : c0.rowNumber = 0 := by simp [c0, row_numbers, f0]
  have n1 : c1.rowNumber = 1 := by simp [c1, row_numbers, f1, n0]
  have hn : nextRowNumber c1 i2 = 2 := by simp [nextRowNumber, f2, n1]
  obtain ⟨e2, o2, _, _⟩ := start_at_zero c1 i2 r1 (by rw [hn, hs]; rfl)
  exact ⟨e0, e1, e2, n0, n1, by simp [c2, row_numbers, f2, n1], o0, by rw [o1, o0], o2⟩

/-- … and with a backstroke start rows 0–2 are opening rows and row 3 starts the method. -/
theorem udi_back_start (c : Ctl) (i0 i1 i2 i3 : CtlIn) (h : c.roundsLeft = some 3)
    (f0 : i0.isFirst = true) (f1 : i1.isFirst = false) (f2 : i2.isFirst = false) (f3 : i3.isFirst = false)
    (hs : i3.startHand = false) :
    let c0 := ctlNext c i0
    let c1 := ctlNext c0 i1
    let c2 := ctlNext c1 i2
    let c3 := ctlNext c2 i3
    ctlStep c i0 = .ok c0 false ∧ ctlStep c0 i1 = .ok c1 false ∧ ctlStep c1 i2 = .ok c2 false ∧
    ctlStep c2 i3 = .ok c3 true ∧ c3.rowNumber = 3 ∧ c2.ringingOpening = c.ringingOpening ∧
    c3.ringingOpening = false := by
  intro c0 c1 c2 c3
  obtain ⟨e0, r0, o0⟩ := countdown c i0 2 h
  obtain ⟨e1, r1, o1⟩ := countdown c0 i1 1 r0
  obtain ⟨e2, r2, o2⟩ := countdown c1 i2 0 r1
  have n0 : c0.rowNumber = 0 := by simp [c0, row_numbers, f0]
  have n1 : c1.rowNumber = 1 := by simp [c1, row_numbers, f1, n0]
  have n2 : c2.rowNumber = 2 := by simp [c2, row_numbers, f2, n1]
  have hn : nextRowNumber c2 i3 = 3 := by simp [nextRowNumber, f3, n2]
  obtain ⟨e3, o3, _, _⟩ := start_at_zero c2 i3 r2 (by rw [hn, hs]; rfl)
  exact ⟨e0, e1, e2, e3, by simp [c3, row_numbers, f3, n2], by rw [o2, o1, o0], o3⟩

/-- While the opening flag is up the row rung is the opening row (rounds or the custom start row). -/
theorem opening_row_rung (b : Bot) (h : b.ringingOpening = true) :
    (b.generateNextRow).1.row = b.openingRow := (generateNextRow_row b).1 h

/-! Non-vacuity: a Go in row 4 (handstroke) of a handstroke-start method starts it at row 6;
a Go in row 5 starts it at row 6 too. -/
example : goCounter 4 true = 1 ∧ goCounter 5 true = 0 := by decide

/-! ### The command line (`Model/Cli.lean`: `console_main`) -/

/-- Up-down-in is on exactly when `-u` or `-H` was given (anywhere on the command line, any number of times) -
whatever else was given. -/
theorem cli_up_down_in (c : Parse.Chars) (os : List Cli.Opt) (u : Option (List Char × List Char)) (cfg : Cli.Cfg)
    (h : Cli.consoleMain c os u = .built cfg) :
    cfg.udi = (decide (Cli.Opt.udi ∈ os) || decide (Cli.Opt.handbell ∈ os)) :=
  (Cli.main_built c os u cfg h).1

/-! ### Only the opening row until Go - for the whole run -/

section UntilGo
variable {K : Type} [Num K]

/-- Wheatley is on the opening row, no start is armed, and up-down-in is off. -/
def Opening (b : Bot) : Prop := b.ringingOpening = true ∧ b.roundsLeft = none ∧ b.upDownIn = false

/-- Events that cannot start the method: anything but the call "Go" and the settings channel (which could switch
up-down-in on). -/
def NoStart : Ev → Prop
  | .msg (.call c) => c ≠ Generated.call_GO
  | .msg (.setting _) => False
  | _ => True

theorem snrFinish_opening_fields (b : Bot) (o : List Out) :
    (Bot.snrFinish b o).1.ringingOpening = b.ringingOpening ∧ (Bot.snrFinish b o).1.roundsLeft = b.roundsLeft ∧
    (Bot.snrFinish b o).1.upDownIn = b.upDownIn := by
  have hc := snrFinish_ctl b o
  have hu : (Bot.snrFinish b o).1.upDownIn = b.upDownIn := by
    unfold Bot.snrFinish
    split
    · rfl
    · have hg : (b.generateNextRow).1.upDownIn = b.upDownIn := by
        unfold Bot.generateNextRow
        split
        · rfl
        · split
          · rfl
          · split <;> rfl
      rcases hq : b.generateNextRow with ⟨b3, o9⟩
      rw [hq] at hg
      simp only [] at hg ⊢
      split <;> exact hg
  have h1 : (Bot.snrFinish b o).1.ctl.ringingOpening = b.ctl.ringingOpening := by rw [hc]
  have h2 : (Bot.snrFinish b o).1.ctl.roundsLeft = b.ctl.roundsLeft := by rw [hc]
  exact ⟨h1, h2, hu⟩

/-- A row boundary with no start armed leaves Wheatley on the opening row. -/
theorem startNextRow_opening (b : Bot) (f : Bool) (h : Opening b) : Opening (b.startNextRow f).1 := by
  obtain ⟨h1, h2, h3⟩ := h
  have hne : startsNow b.ctl = false := by simp [startsNow, Bot.ctl, h2]
  have hstep : ctlStep b.ctl (b.ctlIn f) = .ok (ctlNext b.ctl (b.ctlIn f)) false := by
    simp [ctlStep, assertFails, hne]
  unfold Bot.startNextRow
  rw [hstep]
  simp only [Bool.false_and, Bool.false_eq_true, if_false]
  obtain ⟨f1, f2, f3⟩ := snrFinish_opening_fields (b.snrPrep.withCtl (ctlNext b.ctl (b.ctlIn f))) []
  refine ⟨?_, ?_, ?_⟩
  · rw [f1]
    show (ctlNext b.ctl (b.ctlIn f)).ringingOpening = true
    simp only [ctlNext, hne, Bool.false_eq_true, if_false]
    exact h1
  · rw [f2]
    show (ctlNext b.ctl (b.ctlIn f)).roundsLeft = none
    simp only [ctlNext, hne, Bool.false_eq_true, if_false, Bot.ctl, h2]
    try (split <;> rfl)
  · rw [f3]
    show b.snrPrep.upDownIn = false
    unfold Bot.snrPrep
    split <;> exact h3

theorem lookTo_opening (b : Bot) (h : b.upDownIn = false) (ho : Opening b) : Opening b.lookTo.1 := by
  unfold Bot.lookTo
  split
  · exact ho
  · apply startNextRow_opening
    exact ⟨rfl, by simp [Bot.armLookTo, h], h⟩

theorem tickEnd_opening (b : Bot) (bell : Nat) (uc : Bool) (h : Opening b) : Opening (b.tickEnd bell uc).1 := by
  unfold Bot.tickEnd
  simp only []
  split
  · exact startNextRow_opening _ false h
  · exact h

theorem onMsg_opening (b : Bot) (m : Msg) (hq : NoStart (.msg m)) (h : Opening b) : Opening (b.onMsg m).1 := by
  obtain ⟨h1, h2, h3⟩ := h
  have keep : ∀ b' : Bot, b'.ringingOpening = b.ringingOpening → b'.roundsLeft = b.roundsLeft →
      b'.upDownIn = b.upDownIn → Opening b' := by
    intro b' e1 e2 e3
    exact ⟨e1.trans h1, e2.trans h2, e3.trans h3⟩
  have hsize : ∀ x : Bot, Opening x → Opening (x.onSizeChange).1 := by
    intro x hx
    unfold Bot.onSizeChange
    split
    · exact hx
    · exact hx
  unfold Bot.onMsg
  simp only []
  cases m with
  | bellRung st who => simp only []; split <;> (try split) <;> exact keep _ rfl rfl rfl
  | globalState st => exact hsize _ (keep _ rfl rfl rfl)
  | sizeChange n =>
    simp only []
    split
    · exact hsize _ (keep _ rfl rfl rfl)
    · exact keep _ rfl rfl rfl
  | call c =>
    have hgo : (c == Generated.call_GO) = false := by
      have : c ≠ Generated.call_GO := hq
      simpa using this
    simp only [Bot.onCall, hgo, Bool.false_eq_true, if_false]
    split
    · unfold Bot.onLookTo
      split
      · exact lookTo_opening _ h3 (keep _ rfl rfl rfl)
      · exact keep _ rfl rfl rfl
    · repeat' split
      all_goals first | exact keep _ rfl rfl rfl | exact ⟨rfl, h2, h3⟩
  | setting kvs => exact absurd hq (by simp [NoStart])
  | rowGen g =>
    simp only []
    split
    · split <;> exact keep _ rfl rfl rfl
    · exact keep _ rfl rfl rfl
  | stopTouch => simp only []; split <;> exact keep _ rfl rfl rfl
  | userEntered _ _ => exact keep _ rfl rfl rfl
  | userList _ => exact keep _ rfl rfl rfl
  | assign _ _ => exact keep _ rfl rfl rfl
  | userLeft _ => exact keep _ rfl rfl rfl

theorem finishTick_opening (wt : K → K) (w : World K) (bell : Nat) (uc : Bool) (h : Opening w.bot) :
    Opening (w.finishTick wt bell uc).1.bot := by
  unfold World.finishTick
  simp only []
  have hb := (foldl_applyOut_bot_crashed wt w.now (w.bot.tickEnd bell uc).2
    ({ w with bot := (w.bot.tickEnd bell uc).1 } : World K)).1
  split
  · dsimp only; rw [hb]; exact tickEnd_opening w.bot bell uc h
  · dsimp only; rw [hb]; exact tickEnd_opening w.bot bell uc h

theorem afterInner_opening (wt : K → K) (w : World K) (bell : Nat) (uc hand : Bool) (d : K) (js : Bool)
    (h : Opening w.bot) : Opening (w.afterInner wt bell uc hand d js).1.bot := by
  unfold World.afterInner
  split
  · split
    · simp only []
      split
      · exact finishTick_opening wt _ bell uc h
      · exact h
    · exact finishTick_opening wt _ bell uc h
  · exact finishTick_opening wt w bell uc h

theorem mainStep_opening (wt : K → K) (w : World K) (h : Opening w.bot) : Opening (w.mainStep wt).1.bot := by
  unfold World.mainStep
  split
  · exact h
  · split
    · split
      · split
        · simp only []
          have hl := lookTo_opening w.bot h.2.2 h
          split
          · dsimp only; rw [(foldl_applyOut_bot_crashed wt _ _ _).1]; exact hl
          · dsimp only; rw [(foldl_applyOut_bot_crashed wt _ _ _).1]; exact hl
        · exact h
      · exact h
    · exact h
  · exact h
  · split
    · exact h
    · rw [(foldl_applyOut_bot_crashed wt _ _ _).1]; exact h
  · split <;> exact h
  · split
    · split
      · exact h
      · dsimp only
        have : ∀ bell uc, (w.beginWait bell uc w.bot.hand).1.bot = w.bot := by
          intro bell uc
          unfold World.beginWait
          split
          · rfl
          · simp only []
            split <;> (split <;> rfl)
        rw [this]; exact h
    · rw [(foldl_applyOut_bot_crashed wt _ _ _).1]; exact h
  · split
    · exact h
    · exact afterInner_opening wt w _ _ _ _ _ h
  · apply afterInner_opening
    split <;> exact h
  · exact afterInner_opening wt w _ _ _ _ _ h
  · exact h

theorem deliver_opening (wt : K → K) (w : World K) (e : Ev) (hq : NoStart e) (h : Opening w.bot) :
    Opening (World.deliver wt w e).bot := by
  cases e with
  | resume =>
    unfold World.deliver
    simp only []
    split
    · rename_i s _
      unfold World.lookToResume World.lookToRest
      simp only []
      have hin : (World.lookToInner ({ w with suspended := none } : World K) s).bot = w.bot := by
        unfold World.lookToInner
        split
        · exact (withReg_pc_obs ({ w with suspended := none } : World K) _).2.2
        · rfl
      generalize World.lookToInner ({ w with suspended := none } : World K) s = wi at hin
      have hO : Opening (wi.bot.armLookTo.startNextRow true).1 := by
        apply startNextRow_opening
        have hu : wi.bot.upDownIn = false := by rw [hin]; exact h.2.2
        exact ⟨rfl, by simp [Bot.armLookTo, hu], hu⟩
      split
      · dsimp only; rw [(foldl_applyOut_bot_crashed wt _ _ _).1]; exact hO
      · rw [(foldl_applyOut_bot_crashed wt _ _ _).1]; exact hO
    · exact h
  | msg m =>
    unfold World.deliver
    simp only []
    split
    · unfold World.lookToBegin; exact h
    · unfold World.deliverMsg
      simp only []
      have hb := onMsg_opening w.bot m hq h
      split
      · dsimp only; rw [(foldl_applyOut_bot_crashed wt _ _ _).1]; exact hb
      · rw [(foldl_applyOut_bot_crashed wt _ _ _).1]; exact hb

theorem sleep_go_opening (wt : K → K) (limit : K) :
    ∀ (events : List (K × Ev)) (w : World K), (∀ ev ∈ events, NoStart ev.2) → Opening w.bot →
      Opening (World.sleep.go wt limit w events).1.bot ∧ (∀ ev ∈ (World.sleep.go wt limit w events).2, NoStart ev.2) := by
  intro events
  induction events with
  | nil => intro w _ h; exact ⟨h, by intro ev hev; cases hev⟩
  | cons ev rest ih =>
    intro w hq h
    obtain ⟨t, m⟩ := ev
    unfold World.sleep.go
    split
    · apply ih _ (fun ev' h' => hq ev' (by simp [h']))
      apply deliver_opening wt _ m (hq (t, m) (by simp))
      split
      · exact h
      · exact h
    · exact ⟨h, hq⟩

theorem sleep_opening (wt : K → K) (endTime : K) (w : World K) (d : K) (events : List (K × Ev))
    (hq : ∀ ev ∈ events, NoStart ev.2) (h : Opening w.bot) :
    Opening (World.sleep wt endTime w d events).1.bot ∧
    (∀ ev ∈ (World.sleep wt endTime w d events).2.1, NoStart ev.2) := by
  unfold World.sleep
  simp only []
  split
  · exact sleep_go_opening wt endTime events w hq h
  · obtain ⟨h1, h2⟩ := sleep_go_opening wt (w.now + d) events w hq h
    exact ⟨h1, h2⟩

/-- **Only the opening row until Go, however long, whatever else arrives**: up-down-in is off and no start is
armed.  As long as nobody calls Go (and nobody touches the settings), every row boundary of every touch - Look To
may be called again and again, Bobs, That's all, Rounds, strikes, size changes may arrive - leaves Wheatley on the
opening row: in every state `World.run` reaches, for any fuel. -/
theorem opening_row_until_go (wt : K → K) (endTime : K) :
    ∀ (fuel : Nat) (w : World K) (events : List (K × Ev)), Opening w.bot → (∀ ev ∈ events, NoStart ev.2) →
      Opening (World.run wt endTime fuel w events).1.bot := by
  intro fuel
  induction fuel with
  | zero => intro w events h _; exact h
  | succ fuel ih =>
    intro w events h hq
    have hm := mainStep_opening wt w h
    unfold World.run
    split
    · rename_i w1 heq; rw [heq] at hm; exact hm
    · rename_i w1 heq; rw [heq] at hm; exact ih w1 events hm hq
    · rename_i w1 d heq
      rw [heq] at hm
      obtain ⟨hsl, hsq⟩ := sleep_opening wt endTime w1 d events hq hm
      simp only []
      split
      · exact hsl
      · exact ih _ _ hsl hsq

/-- … and on the opening row, the row generated at a boundary *is* the opening row. -/
theorem opening_row_is_rung (b : Bot) (h : Opening b) : (b.generateNextRow).1.row = b.openingRow :=
  (generateNextRow_row b).1 h.1

end UntilGo

end Wheatley.C06
