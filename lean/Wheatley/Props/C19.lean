/-
C19 — under Ringing Room's control, changes apply atomically and only between touches.
-/
import Wheatley.Generated.HandlerIR
import Wheatley.Props.C17
import Wheatley.Props.C15
import Wheatley.Props.C10
import Wheatley.Props.C07
import Wheatley.Lemmas.Cli
namespace Wheatley.C19
open Wheatley.Server

/-! ### (a) Atomicity -/

/-- **The real handlers respect the lock discipline** — checked on the action sequences regenerated
from `bot.py` on every run (removing a `with self.next_row_generator_lock:` makes this fail). -/
theorem ir_disciplined :
    disciplined Generated.onRowGenChange 0 = true ∧ disciplined Generated.onSizeChange 0 = true ∧
    disciplined Generated.lookTo 0 = true ∧ disciplined Generated.onLookTo 0 = true := by decide

/-- A thread is inside a critical section. -/
def Thread.inside (th : Thread) : Bool := th.depth != 0

/-- **Mutual-exclusion invariant** of the system: the lock's owner is the one thread (if any) that is
inside a critical section. -/
def MutexInv (s : Sys) : Prop :=
  ∀ t th, s.threads[t]? = some th → (th.depth ≠ 0 ↔ s.owner = some t)

theorem getElem?_set' (l : List Thread) (i j : Nat) (a : Thread) (th : Thread)
    (h : (l.set i a)[j]? = some th) : (j = i ∧ th = a) ∨ (j ≠ i ∧ l[j]? = some th) := by
  by_cases hij : j = i
  · subst hij
    left
    rw [List.getElem?_set_self'] at h
    cases hq : l[j]? with
    | none => rw [hq] at h; simp at h
    | some x => rw [hq] at h; simp at h; exact ⟨rfl, h.symm⟩
  · right
    rw [List.getElem?_set_ne (Ne.symm hij)] at h
    exact ⟨hij, h⟩

/-- The invariant is preserved by every enabled step of every thread. -/
theorem step_keeps_mutex (s s' : Sys) (t : Nat) (h : MutexInv s) (hs : s.step t = some s') : MutexInv s' := by
  unfold Sys.step at hs
  cases hth : s.threads[t]? with
  | none => simp [hth] at hs
  | some th =>
    simp only [hth] at hs
    have hself := h t th hth
    cases htodo : th.todo with
    | nil => simp [htodo] at hs
    | cons a rest =>
      simp only [htodo] at hs
      cases a with
      | acq =>
        simp only [] at hs
        split at hs
        · rename_i hen
          injection hs with hs; subst hs
          intro u thu hu
          rcases getElem?_set' _ _ _ _ _ hu with ⟨rfl, rfl⟩ | ⟨hne, hu'⟩
          · simp
          · have := h u thu hu'
            constructor
            · intro hd
              have ho := this.mp hd
              rw [ho] at hen
              simp at hen
              exact absurd hen hne
            · intro ho; injection ho with ho; exact absurd ho.symm hne
        · cases hs
      | rel =>
        simp only [] at hs
        split at hs
        · cases hs
        · rename_i hd0
          have hd0' : th.depth ≠ 0 := by simpa using hd0
          have hown := hself.mp hd0'
          injection hs with hs; subst hs
          intro u thu hu
          rcases getElem?_set' _ _ _ _ _ hu with ⟨rfl, rfl⟩ | ⟨hne, hu'⟩
          · simp only []
            by_cases hd : th.depth - 1 = 0
            · simp [hd]
            · simp [hd, hown]
          · have := h u thu hu'
            have hud : thu.depth = 0 := by
              by_cases hz : thu.depth = 0
              · exact hz
              · have := this.mp hz; rw [hown] at this; injection this with e; exact absurd e.symm hne
            simp only []
            constructor
            · intro hz; exact absurd hud hz
            · intro ho
              split at ho
              · cases ho
              · rw [hown] at ho; injection ho with e; exact absurd e.symm hne
      | rdNext | wrNext | rdGen | wrGen | branch =>
        all_goals
          simp only [] at hs
          injection hs with hs; subst hs
          intro u thu hu
          rcases getElem?_set' _ _ _ _ _ hu with ⟨rfl, rfl⟩ | ⟨hne, hu'⟩
          · exact hself
          · exact h u thu hu'

/-- **Mutual exclusion for every schedule**: from a state where nobody holds the lock, after any
schedule at most one thread is inside a critical section — so the critical sections of the handlers
never overlap, however their statements are interleaved. -/
theorem mutex (s : Sys) (h : MutexInv s) (sched : List Nat) : MutexInv (s.run sched) := by
  induction sched generalizing s with
  | nil => exact h
  | cons t ts ih =>
    unfold Sys.run
    cases hs : s.step t with
    | none => exact ih s h
    | some s' => exact ih s' (step_keeps_mutex s s' t h hs)

theorem at_most_one_inside (s : Sys) (h : MutexInv s) (sched : List Nat) (t u : Nat) (th tu : Thread)
    (ht : (s.run sched).threads[t]? = some th) (hu : (s.run sched).threads[u]? = some tu)
    (hti : th.depth ≠ 0) (hui : tu.depth ≠ 0) : t = u := by
  have hm := mutex s h sched
  have h1 := (hm t th ht).mp hti
  have h2 := (hm u tu hu).mp hui
  rw [h1] at h2; injection h2

/-- The initial system (all threads outside, lock free) satisfies the invariant. -/
theorem init_mutex (progs : List (List Act)) :
    MutexInv { threads := progs.map (fun p => { todo := p, depth := 0 }), owner := none } := by
  intro t th ht
  simp only [List.getElem?_map] at ht
  cases hq : progs[t]? with
  | none => rw [hq] at ht; simp at ht
  | some p => rw [hq] at ht; simp at ht; subst ht; simp

/-! #### Protected accesses happen only under the lock, in every reachable state -/

/-- Every thread's remaining program is disciplined at the depth the thread is at. -/
def DiscInv (s : Sys) : Prop := ∀ (t : Nat) (th : Thread), s.threads[t]? = some th → disciplined th.todo th.depth = true

theorem step_keeps_disc (s s' : Sys) (t : Nat) (h : DiscInv s) (hs : s.step t = some s') : DiscInv s' := by
  unfold Sys.step at hs
  cases hth : s.threads[t]? with
  | none => simp [hth] at hs
  | some th =>
    simp only [hth] at hs
    have hself := h t th hth
    cases htodo : th.todo with
    | nil => simp [htodo] at hs
    | cons a rest =>
      simp only [htodo] at hs
      rw [htodo] at hself
      cases a with
      | acq =>
        simp only [] at hs
        split at hs
        · injection hs with hs; subst hs
          intro u thu hu
          rcases getElem?_set' _ _ _ _ _ hu with ⟨rfl, rfl⟩ | ⟨_, hu'⟩
          · simpa [disciplined] using hself
          · exact h u thu hu'
        · cases hs
      | rel =>
        simp only [] at hs
        split at hs
        · cases hs
        · injection hs with hs; subst hs
          intro u thu hu
          rcases getElem?_set' _ _ _ _ _ hu with ⟨rfl, rfl⟩ | ⟨_, hu'⟩
          · simp only [disciplined, Bool.and_eq_true] at hself; exact hself.2
          · exact h u thu hu'
      | rdNext | wrNext | wrGen =>
        all_goals
          simp only [] at hs
          injection hs with hs; subst hs
          intro u thu hu
          rcases getElem?_set' _ _ _ _ _ hu with ⟨rfl, rfl⟩ | ⟨_, hu'⟩
          · simp only [disciplined, Bool.and_eq_true] at hself; exact hself.2
          · exact h u thu hu'
      | rdGen | branch =>
        all_goals
          simp only [] at hs
          injection hs with hs; subst hs
          intro u thu hu
          rcases getElem?_set' _ _ _ _ _ hu with ⟨rfl, rfl⟩ | ⟨_, hu'⟩
          · simpa [disciplined] using hself
          · exact h u thu hu'

theorem run_keeps_disc (s : Sys) (h : DiscInv s) (sched : List Nat) : DiscInv (s.run sched) := by
  induction sched generalizing s with
  | nil => exact h
  | cons t ts ih =>
    unfold Sys.run
    cases hs : s.step t with
    | none => exact ih s h
    | some s' => exact ih s' (step_keeps_disc s s' t h hs)

theorem init_disc (progs : List (List Act)) (h : ∀ p ∈ progs, disciplined p 0 = true) :
    DiscInv { threads := progs.map (fun p => { todo := p, depth := 0 }), owner := none } := by
  intro t th ht
  simp only [List.getElem?_map] at ht
  cases hq : progs[t]? with
  | none => rw [hq] at ht; simp at ht
  | some p =>
    rw [hq] at ht; simp at ht; subst ht
    exact h p (List.mem_of_getElem? hq)

/-- **Whoever touches a protected cell owns the lock**: in every state any schedule can reach from
disciplined programs, a thread whose next action reads or writes `next_row_generator`, or writes
`row_generator`, is the lock's owner — so (with `mutex`) the protected accesses of two handlers never
interleave inside a critical section, whatever the interleaving of their statements: each critical
section acts on the protected cells as one atomic step. -/
theorem protected_access_by_owner (progs : List (List Act)) (hp : ∀ p ∈ progs, disciplined p 0 = true)
    (sched : List Nat) (t : Nat) (th : Thread) (a : Act) (rest : List Act)
    (ht : (({ threads := progs.map (fun p => { todo := p, depth := 0 }), owner := none } : Sys).run sched).threads[t]? = some th)
    (htodo : th.todo = a :: rest) (ha : a.protected = true) :
    (({ threads := progs.map (fun p => { todo := p, depth := 0 }), owner := none } : Sys).run sched).owner = some t := by
  have hm := mutex _ (init_mutex progs) sched
  have hd := run_keeps_disc _ (init_disc progs hp) sched
  have hdt := hd t th ht
  rw [htodo] at hdt
  have hdepth : th.depth ≠ 0 := by
    cases a <;> simp [Act.protected] at ha <;> simp [disciplined] at hdt <;> exact hdt.1
  exact (hm t th ht).mp hdepth

/-- … in particular for the four handlers as they are in `bot.py` today, in any number and mix. -/
theorem handlers_protected_access_by_owner (progs : List (List Act))
    (hp : ∀ p ∈ progs, p ∈ [Generated.onRowGenChange, Generated.onSizeChange, Generated.lookTo, Generated.onLookTo])
    (sched : List Nat) (t : Nat) (th : Thread) (a : Act) (rest : List Act)
    (ht : (({ threads := progs.map (fun p => { todo := p, depth := 0 }), owner := none } : Sys).run sched).threads[t]? = some th)
    (htodo : th.todo = a :: rest) (ha : a.protected = true) :
    (({ threads := progs.map (fun p => { todo := p, depth := 0 }), owner := none } : Sys).run sched).owner = some t := by
  refine protected_access_by_owner progs ?_ sched t th a rest ht htodo ha
  intro p hpm
  have := hp p hpm
  simp only [List.mem_cons, List.mem_nil_iff, or_false] at this
  rcases this with rfl | rfl | rfl | rfl
  · exact ir_disciplined.1
  · exact ir_disciplined.2.1
  · exact ir_disciplined.2.2.1
  · exact ir_disciplined.2.2.2

/-! #### Fate of a selection, at the granularity mutual exclusion justifies -/

/-- **Row-generator change ∥ size change**: the size handler first updates the tower (not under the
lock), then runs its critical section; the row-generator handler is one critical section.  Whatever
the interleaving of the three pieces, the cells end as in one of the two sequential orders. -/
theorem rowgen_size_serialisable (c : Cells) (g n : Nat) :
    let seq1 := csSize (wrSize n (csRowGen g c))      -- selection first, then the size change
    let seq2 := csRowGen g (csSize (wrSize n c))      -- size change first, then the selection
    csSize (wrSize n (csRowGen g c)) = seq1 ∧
    csSize (csRowGen g (wrSize n c)) = seq1 ∧          -- the selection lands between the two halves
    csRowGen g (csSize (wrSize n c)) = seq2 := by
  refine ⟨rfl, ?_, rfl⟩
  simp only [csSize, csRowGen, wrSize]
  by_cases h : fits g n = true <;> simp [h]

/-- **Row-generator change ∥ Look To**: both are single critical sections (the gate and the swap of
`_on_look_to` sit under one re-entrant hold), so the only schedules are the two sequential ones. -/
theorem rowgen_lookto_serialisable (c : Cells) (g : Nat) :
    ∀ outcome ∈ [csLookTo (csRowGen g c), csRowGen g (csLookTo c)],
      outcome = csLookTo (csRowGen g c) ∨ outcome = csRowGen g (csLookTo c) := by
  intro o ho; simpa using ho

/-- A selection is never lost or duplicated: after either order it is exactly one of *current*
(applied by this Look To) or *queued* (waiting for the next one) — or was refused by the size check. -/
theorem selection_fate (c : Cells) (g : Nat) :
    ((csLookTo (csRowGen g c)).gen = g ∧ (csLookTo (csRowGen g c)).next = none ∧ fits g c.size = true) ∨
    ((csLookTo (csRowGen g c)).next = some g ∧ (csLookTo (csRowGen g c)).gen = c.gen ∧ fits g c.size = false) := by
  simp only [csLookTo, csRowGen, Option.getD_some]
  by_cases h : fits g c.size = true
  · left; simp [h]
  · right; simp [h]

/-- A queued selection is discarded by a size change iff it no longer fits. -/
theorem discarded_iff (c : Cells) (g n : Nat) :
    (csSize (wrSize n (csRowGen g c))).next = none ↔ fits g n = false := by
  simp only [csSize, csRowGen, wrSize]
  by_cases h : fits g n = true <;> simp [h]

/-! ### (b) Only between touches -/

/-- **A new selection is never applied mid-touch**: no server message other than the call "Look to"
changes which generator is current (Bob and Single only set its flags) … -/
theorem selection_waits_for_look_to (b : Bot) (m : Msg) (hm : m ≠ .call Generated.call_LOOK_TO) :
    (b.onMsg m).1.gen.kind = b.gen.kind := by
  have hsize : ∀ x : Bot, (x.onSizeChange).1.gen = x.gen := by
    intro x; simp only [Bot.onSizeChange]; split <;> rfl
  unfold Bot.onMsg
  simp only []
  cases m with
  | bellRung st who => simp only []; split <;> (try split) <;> rfl
  | globalState st => rw [hsize]
  | userEntered id name => rfl
  | userList users => rfl
  | sizeChange n => simp only []; split
                    · rw [hsize]
                    · rfl
  | assign bell user => rfl
  | call c =>
    have hc : c ≠ Generated.call_LOOK_TO := fun e => hm (by rw [e])
    simp only [Bot.onCall, hc, beq_iff_eq, if_false]
    split
    · unfold Bot.onGo; split <;> rfl
    · repeat' split
      all_goals rfl
  | userLeft id => rfl
  | setting kvs =>
    simp only []
    have : ∀ (l : List (String × SVal)) (x : Bot), (foldSettings x l).1.gen = x.gen := by
      intro l
      induction l with
      | nil => intro x; rfl
      | cons kv rest ih =>
        intro x
        obtain ⟨k, v⟩ := kv
        simp only [foldSettings]
        rw [ih]
        simp only [Bot.onSetting]
        repeat' split
        all_goals rfl
    split
    · rw [this]
    · rfl
  | rowGen g => simp only []; split
                · split <;> rfl
                · rfl
  | stopTouch => simp only []; split <;> rfl

/-- … nor does any turn of the main loop (rows, method start, reset): -/
theorem turn_keeps_selection (b : Bot) (bell : Nat) (uc : Bool) :
    (b.tickEnd bell uc).1.gen.kind = b.gen.kind := by
  unfold Bot.tickEnd
  simp only []
  split
  · exact C10.startNextRow_gen_kind _ false
  · rfl

/-- … it becomes current **exactly at the next Look To**, which also empties the queue. -/
theorem look_to_applies_queued (b : Bot) (treble : Nat) (rest : Row) (h : b.openingRow = treble :: rest) :
    (b.lookTo).1.gen.kind = (b.nextGen.getD b.gen).kind ∧ b.armLookTo.nextGen = none := by
  obtain ⟨_, hg, hn, _, _, _, _, hl⟩ := C06.look_to_counter b
  rw [hl treble rest h, C10.startNextRow_gen_kind, hg]
  exact ⟨rfl, hn⟩

/-- A row-generator message only ever fills the queue. -/
theorem rowgen_only_queues (b : Bot) (g : Gen) (hs : b.serverMode = true) :
    (b.onMsg (.rowGen (some g))).1.nextGen = some g ∧ (b.onMsg (.rowGen (some g))).1.gen = b.gen ∧
    (b.onMsg (.rowGen none)).1 = b := by
  simp [Bot.onMsg, Tower.apply, Bot.serverMode] at hs ⊢
  simp [hs]

/-! ### Peal-speed change, Stop Touch, roll call, exit -/

section
variable {K : Type} [Field K] [LinearOrder K] [IsStrictOrderedRing K]
open Generated

/-- **A peal-speed change bends the line without a jump**: the new line passes through the point
(current position in blows, now) of the old one. -/
theorem speed_change_continuous (r : Reg K) (s now newSpeed : K) (hs : r.start = .fin s)
    (hI : r.interval ≠ 0) :
    (r.changePealSpeed newSpeed now).start =
        .fin (now - realTimeToBlowTime (r.line s) now * pealSpeedToBlowInterval newSpeed r.stage) ∧
      (r.changePealSpeed newSpeed now).interval = pealSpeedToBlowInterval newSpeed r.stage ∧
      (now - realTimeToBlowTime (r.line s) now * pealSpeedToBlowInterval newSpeed r.stage) +
        pealSpeedToBlowInterval newSpeed r.stage * realTimeToBlowTime (r.line s) now = now := by
  have hI' : Num.eqb r.interval (Num.ofNat 0) = false := by simpa using hI
  unfold Reg.changePealSpeed
  simp only []
  rw [if_neg (by simp; exact hI)]
  simp only [hs]
  exact ⟨trivial, trivial, by ring⟩

/-- … and the position itself (how far through the touch, in blows) is the same on both lines at that
instant. -/
theorem speed_change_keeps_position (r : Reg K) (s now newSpeed : K) (hs : r.start = .fin s)
    (hI : r.interval ≠ 0) (hN : pealSpeedToBlowInterval newSpeed r.stage ≠ 0) :
    ∀ s', (r.changePealSpeed newSpeed now).start = .fin s' →
      realTimeToBlowTime ((r.changePealSpeed newSpeed now).line s') now = realTimeToBlowTime (r.line s) now := by
  intro s' h
  have hI' : Num.eqb r.interval (Num.ofNat 0) = false := by simpa using hI
  unfold Reg.changePealSpeed at h ⊢
  simp only [] at h ⊢
  rw [if_neg (by simp; exact hI)] at h ⊢
  simp only [hs] at h ⊢
  injection h with h
  subst h
  simp only [realTimeToBlowTime, Reg.line]
  field_simp
  ring
end

/-- **Stop Touch**: the flag goes down, the clients are told, and every wait loop is asked to return. -/
theorem stop_touch_law (b : Bot) (hs : b.serverMode = true) :
    (b.onMsg .stopTouch).1.isRinging = false ∧ (b.onMsg .stopTouch).2 = [.setIsRinging false, .rReturn] := by
  have hs' : b.serverId.isSome = true := hs
  simp [Bot.onMsg, Bot.serverMode, hs']

/-- An emission (not a call on the rhythm object) is only recorded. -/
theorem applyOut_setIsRinging {K : Type} [Num K] (wt : K → K) (ct : K) (w : World K) (v : Bool) :
    World.applyOut wt ct w (.setIsRinging v) = { w with obs := { t := w.now, out := .setIsRinging v } :: w.obs } := by
  unfold World.applyOut; simp only []; split <;> rfl

theorem applyOut_rollCall {K : Type} [Num K] (wt : K → K) (ct : K) (w : World K) (id : Nat) :
    World.applyOut wt ct w (.rollCall id) = { w with obs := { t := w.now, out := .rollCall id } :: w.obs } := by
  unfold World.applyOut; simp only []; split <;> rfl

/-- **At most the one strike already due**: once the flag is down the tick loop starts no new turn — the
only strike that can still go out is the one whose turn had begun. -/
theorem no_new_turn_when_stopped {K : Type} [Num K] (w : World K) (wt : K → K) (hpc : w.pc = .ringCheck)
    (hr : w.bot.isRinging = false) :
    (w.mainStep wt).1.pc = .outerTop ∧ (w.mainStep wt).1.bot = w.bot ∧
    (∀ o ∈ (w.mainStep wt).1.obs, o ∈ w.obs ∨ o.out = .setIsRinging false) := by
  unfold World.mainStep
  simp only [hpc, hr, Bool.false_eq_true, if_false]
  cases hsm : w.bot.serverMode
  · simp only [Bool.false_eq_true, if_false, List.foldl_nil]
    exact ⟨trivial, trivial, fun o ho => Or.inl ho⟩
  · simp only [if_true, List.foldl_cons, List.foldl_nil, applyOut_setIsRinging]
    refine ⟨trivial, trivial, ?_⟩
    intro o ho
    simp only [List.mem_cons] at ho
    rcases ho with rfl | ho
    · right; rfl
    · left; exact ho

/-- **Roll call is answered only when ringing actually starts**: the idle → ringing transition of the
main loop (server mode) emits "is ringing" and the roll-call reply, in that order … -/
theorem roll_call_on_start {K : Type} [Num K] (w : World K) (wt : K → K) (id : Nat) (hpc : w.pc = .idleCheck)
    (hr : w.bot.isRinging = true) (hid : w.bot.serverId = some id) :
    (w.mainStep wt).1.pc = .ringCheck ∧
    ((w.mainStep wt).1.obs.take 2).map (·.out) = [Out.rollCall id, Out.setIsRinging true] := by
  unfold World.mainStep
  simp only [hpc, hr, Bool.not_true, Bool.false_eq_true, if_false, hid, List.foldl_cons, List.foldl_nil,
    applyOut_setIsRinging, applyOut_rollCall]
  exact ⟨trivial, rfl⟩

/-- … and no handler and no turn of the Bot ever emits one. -/
theorem bot_never_roll_calls (b : Bot) (bell : Nat) (uc : Bool) (id : Nat) (v : Bool) :
    Out.rollCall id ∉ (b.tickEnd bell uc).2 ∧ Out.setIsRinging v ∉ (b.tickEnd bell uc).2 := by
  constructor <;> (intro hm; rcases tickEnd_kinds b bell uc _ hm with h | h <;> cases h)

section
variable {K : Type} [Num K]

theorem withReg_exited (w : World K) (f : (List (K × K × K) → K × K) → Reg K) :
    (w.withReg f).exited = w.exited := by
  unfold World.withReg
  simp only []
  split <;> (split <;> rfl)

theorem applyOut_exited (wt : K → K) (ct : K) (w : World K) (o : Out) :
    (World.applyOut wt ct w o).exited = w.exited := by
  unfold World.applyOut
  cases o <;> simp only [] <;> (repeat' split) <;>
    first
      | rfl
      | (rw [withReg_exited])
      | (show (World.withReg _ _).exited = _; rw [withReg_exited])

theorem foldl_applyOut_exited (wt : K → K) (ct : K) (outs : List Out) :
    ∀ w : World K, (outs.foldl (World.applyOut wt ct) w).exited = w.exited := by
  induction outs with
  | nil => intro w; rfl
  | cons o rest ih => intro w; simp only [List.foldl_cons]; rw [ih, applyOut_exited]

theorem finishTick_exited (wt : K → K) (w : World K) (bell : Nat) (uc : Bool) :
    (w.finishTick wt bell uc).1.exited = w.exited := by
  unfold World.finishTick
  simp only []
  split <;> (simp only []; rw [foldl_applyOut_exited])

theorem afterInner_exited (wt : K → K) (w : World K) (bell : Nat) (uc hand : Bool) (d : K) (js : Bool) :
    (w.afterInner wt bell uc hand d js).1.exited = w.exited := by
  unfold World.afterInner
  cases hw : w.rh.wait with
  | none => simp only []; rw [finishTick_exited]
  | some wr =>
    simp only []
    cases uc with
    | false => simp only [Bool.false_eq_true, if_false]; rw [finishTick_exited]
    | true =>
      simp only [if_true]
      by_cases hl : ((js && wr.shouldReturn) || !((wr.expected hand).contains bell)) = true
      · simp only [hl, if_true]; rw [finishTick_exited]
      · simp only [hl, Bool.false_eq_true, if_false]

theorem beginWait_exited (w : World K) (bell : Nat) (uc hand : Bool) :
    (w.beginWait bell uc hand).1.exited = w.exited := by
  unfold World.beginWait
  split
  · rfl
  · simp only []
    split <;> (split <;> rfl)

omit [Num K] in
/-- **Look To is activity**: the moment an accepted Look To begins to be handled — on the socket
thread, before it goes to sleep inside `initialise_line` and long before it sets `is_ringing` — the
inactivity clock is restarted … -/
theorem look_to_is_activity (w : World K) (s : Susp K) (wr : WaitR K) :
    (w.lookToBegin s wr).lastActivity = w.now ∧ (w.lookToBegin s wr).now = w.now ∧
    (w.lookToBegin s wr).suspended = some s := ⟨rfl, rfl, rfl⟩

/-- … and likewise when the whole handler runs at once (keep-going rhythm, `--look-to-time` start-up). -/
theorem look_to_is_activity_atomic (wt : K → K) (ct : K) (w : World K) (stage n : Nat) (ut : Bool) :
    (World.applyOut wt ct w (.rInit stage ut n)).lastActivity = w.now := by
  unfold World.applyOut
  simp only []
  split
  · rfl
  · split
    · unfold World.withReg; simp only []; split <;> (split <;> rfl)
    · unfold World.withReg; simp only []; split <;> (split <;> rfl)

/-- **Exit law**: the main loop returns only from the idle loop, only in server mode, only when not
ringing, and only after more than `INACTIVITY_EXIT_TIME` (300 s, regenerated from the source) without
activity. -/
theorem exit_law (w : World K) (wt : K → K) (hex : w.exited = false)
    (h : (w.mainStep wt).1.exited = true) :
    w.pc = .idleSlept ∧ w.bot.serverMode = true ∧ w.bot.isRinging = false ∧
    w.lastActivity + Num.ofQ Generated.inactivityExitTime < w.now := by
  unfold World.mainStep at h
  split at h
  · simp [hex] at h
  · -- waitLoaded
    split at h
    · split at h
      · split at h
        · simp only [] at h
          split at h <;> (simp only [] at h; rw [foldl_applyOut_exited] at h; simp [hex] at h)
        · simp [hex] at h
      · simp [hex] at h
    · simp [hex] at h
  · simp [hex] at h
  · split at h
    · simp [hex] at h
    · simp only [] at h; rw [foldl_applyOut_exited] at h; simp [hex] at h
  · rename_i hpc
    split at h
    · rename_i hc
      simp only [Bool.and_eq_true, Bool.not_eq_true', decide_eq_true_eq] at hc
      exact ⟨hpc, hc.1.1, hc.1.2, hc.2⟩
    · simp [hex] at h
  · split at h
    · split at h
      · simp [hex] at h
      · simp only [] at h
        rename_i bell uc _
        have := beginWait_exited w bell uc w.bot.hand
        rcases hq : w.beginWait bell uc w.bot.hand with ⟨w1, d, pc⟩
        rw [hq] at this h
        simp only [] at this h
        rw [this] at h; simp [hex] at h
    · simp only [] at h; rw [foldl_applyOut_exited] at h; simp [hex] at h
  · split at h
    · simp [hex] at h
    · rw [afterInner_exited] at h; simp [hex] at h
  · rw [afterInner_exited] at h
    split at h <;> simp [hex] at h
  · rw [afterInner_exited] at h; simp [hex] at h
  · simp [hex] at h

end

/-! ### Stop Touch reaches every phase of a turn (inner sleep, hold-up for a human) -/

section
variable {K : Type} [Num K]

/-- Stop Touch (and Look To) reach the waiting rhythm: `return_to_mainloop()` raises the flag of the
wrapper whatever the main thread is doing. -/
theorem return_request_raises_flag (wt : K → K) (ct : K) (w : World K) (wr : WaitR K)
    (hstub : w.rh.stub = none) (hw : w.rh.wait = some wr) :
    (World.applyOut wt ct w .rReturn).rh.wait = some { wr with shouldReturn := true } := by
  unfold World.applyOut
  simp only [hstub, hw, Option.map_some]

/-- **A request that arrives while the main thread still sleeps towards a human's place is not lost**:
when that sleep ends and the human has not rung, the hold-up loop is entered with the flag still up … -/
theorem return_request_survives_inner_wait (wt : K → K) (w : World K) (wr : WaitR K) (bell : Nat) (hand : Bool)
    (hpc : w.pc = .innerSlept bell true hand) (hstub : w.rh.stub = none) (hw : w.rh.wait = some wr)
    (hexp : (wr.expected hand).contains bell = true) :
    (w.mainStep wt).1.pc = .userPoll bell true hand W0 ∧ (w.mainStep wt).1.rh.wait = some wr := by
  unfold World.mainStep
  simp only [hpc, hstub]
  unfold World.afterInner
  simp only [hw, hexp, if_true, Bool.false_and, Bool.not_true, Bool.or_self, Bool.false_eq_true, if_false]
  exact ⟨trivial, trivial⟩

/-- … and the first test of the hold-up loop then ends the turn (`finishTick`: back to the tick loop,
which finds `is_ringing` false, C19 `no_new_turn_when_stopped`) whether or not the human ever rings. -/
theorem return_request_ends_hold_up (wt : K → K) (w : World K) (wr : WaitR K) (bell : Nat) (hand : Bool) (d : K)
    (hpc : w.pc = .userPoll bell true hand d) (hw : w.rh.wait = some wr) (hret : wr.shouldReturn = true) :
    ∃ w1 : World K, w.mainStep wt = w1.finishTick wt bell true ∧ w1.bot = w.bot ∧
      ∃ wr1, w1.rh.wait = some wr1 ∧ wr1.shouldReturn = false := by
  unfold World.mainStep
  simp only [hpc]
  unfold World.afterInner
  simp only [hw, hret, if_true, Bool.and_self, Bool.true_or]
  exact ⟨_, rfl, rfl, _, rfl, rfl⟩

/-- The turn that `finishTick` ends does not come back to a wait: the main thread is at the tick
sleep, or has died with the recorded exception. -/
theorem finishTick_leaves_wait (wt : K → K) (w : World K) (bell : Nat) (uc : Bool) :
    (w.finishTick wt bell uc).1.pc = .tickSlept ∨ (w.finishTick wt bell uc).1.pc = .done := by
  unfold World.finishTick
  split
  split
  · right; rfl
  · left; rfl
end

theorem inactivity_is_300s : Generated.inactivityExitTime = (300, 1) := rfl

/-! ### `server_main` (`Model/Cli.lean`) -/

/-- Spawned by Ringing Room, Wheatley is built with nothing to ring (the place holder: a method has to be
selected first), under the instance id it was given, talking to the socket server on the local port it was given. -/
theorem server_mode_starts_empty (port id : Option Int) :
    (match (Cli.serverMain port id).cfg.source with | .gen g => g.kind == .placeholder | _ => false) = true ∧
    (Cli.serverMain port id).serverId = id ∧
    (∀ p : Int, port = some p → (Cli.serverMain port id).url = "http://127.0.0.1:".toList ++ (toString p).toList) := by
  refine ⟨rfl, rfl, ?_⟩
  intro p hp
  subst hp
  rfl

/-! ### Never mid-touch: for the whole run -/

section Selection
variable {K : Type} [Num K]

/-- The method being rung is of kind `k`, no Look To handler is asleep on the socket thread, and the main thread
is not about to run a spawned Look To. -/
def Ringing (k : GenKind) (w : World K) : Prop :=
  w.bot.gen.kind = k ∧ w.suspended = none ∧ (∀ it t, w.pc ≠ .waitLoaded it (some t))

theorem beginWait_frame (w : World K) (bell : Nat) (uc hand : Bool) :
    (w.beginWait bell uc hand).1.bot = w.bot ∧ (w.beginWait bell uc hand).1.suspended = w.suspended ∧
    (∀ it t, (w.beginWait bell uc hand).2.2 ≠ .waitLoaded it (some t)) := by
  unfold World.beginWait
  split
  · exact ⟨rfl, rfl, fun _ _ h => by cases h⟩
  · simp only []
    split <;> (split <;> exact ⟨rfl, rfl, fun _ _ h => by cases h⟩)

theorem finishTick_ringing (wt : K → K) (k : GenKind) (w : World K) (bell : Nat) (uc : Bool)
    (hk : w.bot.gen.kind = k) (hs : w.suspended = none) : Ringing k (w.finishTick wt bell uc).1 := by
  unfold World.finishTick
  simp only []
  have hg := turn_keeps_selection w.bot bell uc
  have hb := (foldl_applyOut_bot_crashed wt w.now (w.bot.tickEnd bell uc).2
    ({ w with bot := (w.bot.tickEnd bell uc).1 } : World K)).1
  have hsu := foldl_applyOut_suspended wt w.now (w.bot.tickEnd bell uc).2
    ({ w with bot := (w.bot.tickEnd bell uc).1 } : World K)
  split
  · refine ⟨?_, ?_, fun _ _ h => by cases h⟩
    · dsimp only; rw [hb]; exact hg.trans hk
    · dsimp only; rw [hsu]; exact hs
  · refine ⟨?_, ?_, fun _ _ h => by cases h⟩
    · dsimp only; rw [hb]; exact hg.trans hk
    · dsimp only; rw [hsu]; exact hs

theorem afterInner_ringing (wt : K → K) (k : GenKind) (w : World K) (bell : Nat) (uc hand : Bool) (d : K) (js : Bool)
    (hk : w.bot.gen.kind = k) (hs : w.suspended = none) : Ringing k (w.afterInner wt bell uc hand d js).1 := by
  unfold World.afterInner
  split
  · split
    · simp only []
      split
      · exact finishTick_ringing wt k _ bell uc hk hs
      · exact ⟨hk, hs, fun _ _ h => by cases h⟩
    · exact finishTick_ringing wt k _ bell uc hk hs
  · exact finishTick_ringing wt k w bell uc hk hs

theorem mainStep_ringing (wt : K → K) (k : GenKind) (w : World K) (h : Ringing k w) : Ringing k (w.mainStep wt).1 := by
  obtain ⟨hk, hs, hp⟩ := h
  unfold World.mainStep
  split
  · exact ⟨hk, hs, hp⟩
  · -- waitLoaded
    rename_i it lt hpc
    cases lt with
    | some t => exact absurd hpc (hp it t)
    | none =>
      simp only []
      split
      · split
        · exact ⟨hk, hs, fun _ _ h => by cases h⟩
        · exact ⟨hk, hs, fun _ _ h => by cases h⟩
      · exact ⟨hk, hs, fun _ _ h => by cases h⟩
  · exact ⟨hk, hs, fun _ _ h => by cases h⟩
  · split
    · exact ⟨hk, hs, fun _ _ h => by cases h⟩
    · refine ⟨?_, ?_, ?_⟩
      · rw [(foldl_applyOut_bot_crashed wt _ _ _).1]; exact hk
      · rw [foldl_applyOut_suspended]; exact hs
      · intro it t; rw [foldl_applyOut_pc]; intro h; cases h
  · split
    · exact ⟨hk, hs, fun _ _ h => by cases h⟩
    · exact ⟨hk, hs, fun _ _ h => by cases h⟩
  · split
    · split
      · exact ⟨hk, hs, fun _ _ h => by cases h⟩
      · refine ⟨?_, ?_, ?_⟩
        · dsimp only; rw [(beginWait_frame w _ _ _).1]; exact hk
        · dsimp only; rw [(beginWait_frame w _ _ _).2.1]; exact hs
        · intro it t; dsimp only; exact (beginWait_frame w _ _ _).2.2 it t
    · refine ⟨?_, ?_, ?_⟩
      · rw [(foldl_applyOut_bot_crashed wt _ _ _).1]; exact hk
      · rw [foldl_applyOut_suspended]; exact hs
      · intro it t; rw [foldl_applyOut_pc]; intro h; cases h
  · split
    · exact ⟨hk, hs, hp⟩
    · exact afterInner_ringing wt k w _ _ _ _ _ hk hs
  · apply afterInner_ringing
    · split <;> exact hk
    · split <;> exact hs
  · exact afterInner_ringing wt k w _ _ _ _ _ hk hs
  · exact ⟨hk, hs, fun _ _ h => by cases h⟩

theorem deliver_ringing (wt : K → K) (k : GenKind) (w : World K) (e : Ev) (hq : C07.NotLookTo e) (h : Ringing k w) :
    Ringing k (World.deliver wt w e) := by
  obtain ⟨hk, hs, hp⟩ := h
  obtain ⟨dp, _⟩ := deliver_never_rings wt w e
  cases e with
  | resume =>
    have : World.deliver wt w .resume = w := by
      unfold World.deliver
      simp only [hs]
    rw [this]
    exact ⟨hk, hs, hp⟩
  | msg m =>
    have hm : m ≠ .call Generated.call_LOOK_TO := by
      intro e
      subst e
      exact hq rfl
    have hsus : w.lookToSuspends m = none := by
      unfold World.lookToSuspends
      cases m with
      | call c =>
        have hc : (c == Generated.call_LOOK_TO) = false := by
          have : c ≠ Generated.call_LOOK_TO := fun e => hm (by rw [e])
          simpa using this
        simp [hc]
      | _ => rfl
    have hd : World.deliver wt w (.msg m) = w.deliverMsg wt m := by
      unfold World.deliver
      simp only [hsus]
    refine ⟨?_, ?_, fun it t => by rw [dp]; exact hp it t⟩
    · rw [hd]
      unfold World.deliverMsg
      simp only []
      split
      · dsimp only; rw [(foldl_applyOut_bot_crashed wt _ _ _).1]
        exact (selection_waits_for_look_to w.bot m hm).trans hk
      · rw [(foldl_applyOut_bot_crashed wt _ _ _).1]
        exact (selection_waits_for_look_to w.bot m hm).trans hk
    · rw [hd]
      unfold World.deliverMsg
      simp only []
      split
      · dsimp only; rw [foldl_applyOut_suspended]; exact hs
      · rw [foldl_applyOut_suspended]; exact hs

theorem sleep_go_ringing (wt : K → K) (limit : K) (k : GenKind) :
    ∀ (events : List (K × Ev)) (w : World K), (∀ ev ∈ events, C07.NotLookTo ev.2) → Ringing k w →
      Ringing k (World.sleep.go wt limit w events).1 ∧
      (∀ ev ∈ (World.sleep.go wt limit w events).2, C07.NotLookTo ev.2) := by
  intro events
  induction events with
  | nil => intro w _ h; exact ⟨h, by intro ev hev; cases hev⟩
  | cons ev rest ih =>
    intro w hq h
    obtain ⟨t, m⟩ := ev
    unfold World.sleep.go
    split
    · apply ih _ (fun ev' h' => hq ev' (by simp [h']))
      apply deliver_ringing wt k _ m (hq (t, m) (by simp))
      split
      · exact h
      · exact h
    · exact ⟨h, hq⟩

theorem sleep_ringing (wt : K → K) (endTime : K) (k : GenKind) (w : World K) (d : K) (events : List (K × Ev))
    (hq : ∀ ev ∈ events, C07.NotLookTo ev.2) (h : Ringing k w) :
    Ringing k (World.sleep wt endTime w d events).1 ∧
    (∀ ev ∈ (World.sleep wt endTime w d events).2.1, C07.NotLookTo ev.2) := by
  unfold World.sleep
  simp only []
  split
  · exact sleep_go_ringing wt endTime k events w hq h
  · obtain ⟨h1, h2⟩ := sleep_go_ringing wt (w.now + d) k events w hq h
    exact ⟨⟨h1.1, h1.2.1, h1.2.2⟩, h2⟩

/-- **Never mid-touch, however long, whatever else arrives**: whatever is selected, called, set, struck or resized
while Wheatley runs, as long as nobody calls Look To the method being rung stays the method it is - the selection
waits in the queue (`rowgen_only_queues`) and becomes current exactly at Look To (`look_to_applies_queued`).  For
every run of `World.run`, of any length, under any events other than the call "Look to". -/
theorem method_changes_only_at_look_to (wt : K → K) (endTime : K) (k : GenKind) :
    ∀ (fuel : Nat) (w : World K) (events : List (K × Ev)), Ringing k w → (∀ ev ∈ events, C07.NotLookTo ev.2) →
      (World.run wt endTime fuel w events).1.bot.gen.kind = k := by
  intro fuel
  induction fuel with
  | zero => intro w events h _; exact h.1
  | succ fuel ih =>
    intro w events h hq
    have hm := mainStep_ringing wt k w h
    unfold World.run
    split
    · rename_i w1 heq; rw [heq] at hm; exact hm.1
    · rename_i w1 heq; rw [heq] at hm; exact ih w1 events hm hq
    · rename_i w1 d heq
      rw [heq] at hm
      obtain ⟨hsl, hsq⟩ := sleep_ringing wt endTime k w1 d events hq hm
      simp only []
      split
      · exact hsl.1
      · exact ih _ _ hsl hsq

end Selection

end Wheatley.C19
