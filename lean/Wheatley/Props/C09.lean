/-
C09 — unless told to keep going, Wheatley never gets ahead of a human.

The waiting wrapper keeps, per stroke, the set of human bells *expected* and the set heard *early*.
The theorems say: a turn on a human bell cannot end while that bell is expected on the stroke being
rung; every human bell of a row is put into that set when the row starts unless it was already heard
on that stroke; and only hearing that bell on that stroke takes it out.
-/
import Wheatley.Model.World
import Wheatley.Lemmas.SoloWorld
import Wheatley.Lemmas.Cli
import Wheatley.Lemmas.Handlers
namespace Wheatley.C09

variable {K : Type} [Num K]

set_option linter.unusedSectionVars false

/-- **The wait holds**: while the awaited human bell is expected on the turn's stroke (and nobody
called Look To / Stop Touch) the turn does not end — the main thread only sleeps one more poll, the
Bot is untouched, nothing is emitted. -/
theorem wait_holds (w : World K) (wt : K → K) (wr : WaitR K) (bell : Nat) (hand : Bool) (d : K) (justSlept : Bool)
    (hw : w.rh.wait = some wr) (hexp : bell ∈ wr.expected hand)
    (hret : (justSlept && wr.shouldReturn) = false) :
    w.afterInner wt bell true hand d justSlept =
      ({ w with pc := .userPoll bell true hand d }, .sleep (Num.ofQ Generated.waitSleepTime)) := by
  unfold World.afterInner
  have : (wr.expected hand).contains bell = true := by simpa using hexp
  simp only [hw, if_true, this, hret, Bool.not_true, Bool.or_self, Bool.false_eq_true, if_false]

/-- … and the next wake-up comes back to the same test. -/
theorem poll_returns_to_test (w : World K) (wt : K → K) (bell : Nat) (uc hand : Bool) (d : K)
    (hpc : w.pc = .userPoll bell uc hand d) :
    w.mainStep wt = w.afterInner wt bell uc hand (d + Num.ofQ Generated.waitSleepTime) true := by
  unfold World.mainStep
  simp only [hpc]

theorem mem_setAdd (l : List Nat) (a b : Nat) : b ∈ setAdd l a ↔ b ∈ l ∨ b = a := by
  unfold setAdd
  by_cases h : l.contains a = true
  · simp only [h, if_true]
    constructor
    · intro hb; exact Or.inl hb
    · rintro (hb | rfl)
      · exact hb
      · simpa using h
  · simp only [h, Bool.false_eq_true, if_false, List.mem_append, List.mem_singleton]

theorem mem_setDel (l : List Nat) (a b : Nat) : b ∈ setDel l a ↔ b ∈ l ∧ b ≠ a := by
  unfold setDel
  simp [List.mem_filter]

theorem expected_setExpected (wr : WaitR K) (h h' : Bool) (l : List Nat) :
    (wr.setExpected h l).expected h' = if h' = h then l else wr.expected h' := by
  cases h <;> cases h' <;> simp [WaitR.setExpected, WaitR.expected]

theorem expected_setEarly (wr : WaitR K) (h h' : Bool) (l : List Nat) :
    (wr.setEarly h l).expected h' = wr.expected h' := by
  cases h <;> cases h' <;> simp [WaitR.setEarly, WaitR.expected]

theorem early_setEarly (wr : WaitR K) (h h' : Bool) (l : List Nat) :
    (wr.setEarly h l).early h' = if h' = h then l else wr.early h' := by
  cases h <;> cases h' <;> simp [WaitR.setEarly, WaitR.early]

theorem early_setExpected (wr : WaitR K) (h h' : Bool) (l : List Nat) :
    (wr.setExpected h l).early h' = wr.early h' := by
  cases h <;> cases h' <;> simp [WaitR.setExpected, WaitR.early]

/-- **Every human bell of the row is armed**: after `expect_bell(bell, …, stroke)` the bell is in the
expected set of that stroke, unless it is recorded as already heard on that stroke (rung a stroke
ahead). -/
theorem expect_arms (wr : WaitR K) (bell : Nat) (hand : Bool) :
    bell ∈ (wr.expect bell hand).expected hand ∨ bell ∈ (wr.expect bell hand).early hand := by
  unfold WaitR.expect
  simp only []
  generalize (if (hand != wr.currentHand) = true then
      (({ wr with currentHand := hand }).setExpected hand []).setEarly (!hand) [] else wr) = q
  by_cases h : (q.early hand).contains bell = true
  · right; rw [if_pos h]; simpa using h
  · left
    rw [if_neg h, expected_setExpected]
    simp [mem_setAdd]

/-- The early set of a stroke only ever receives a bell through a strike *heard on that stroke* while
the other stroke was being rung: "early" means it has actually rung that stroke. -/
theorem early_only_by_strike (wr : WaitR K) (bell b : Nat) (hand h : Bool)
    (hnew : b ∈ (wr.onBellRing bell hand).early h) (hold : b ∉ wr.early h) :
    b = bell ∧ hand ≠ wr.currentHand ∧ h = !wr.currentHand := by
  unfold WaitR.onBellRing at hnew
  by_cases hc : hand = wr.currentHand
  · simp only [hc, beq_self_eq_true, if_true] at hnew
    rw [early_setEarly] at hnew
    have hcur : ∀ (x : Bool) l, (wr.setExpected x l).currentHand = wr.currentHand := by
      intro x l; cases x <;> simp [WaitR.setExpected]
    split at hnew
    · rename_i hh
      rw [mem_setDel, early_setExpected] at hnew
      rw [hcur] at hh hnew
      exfalso
      apply hold
      rw [hh]; exact hnew.1
    · rw [early_setExpected] at hnew; exact absurd hnew hold
  · have hc' : (hand == wr.currentHand) = false := by simpa using hc
    simp only [hc', Bool.false_eq_true, if_false] at hnew
    rw [early_setEarly] at hnew
    split at hnew
    · rename_i hh
      rw [mem_setAdd] at hnew
      rcases hnew with hn | hn
      · rw [hh] at hold; exact absurd hn hold
      · exact ⟨hn, hc, hh⟩
    · exact absurd hnew hold

/-- **Only its own strike on the stroke being rung disarms a bell**: hearing any strike keeps every
other expected bell expected, and keeps this bell expected unless the strike is of this bell on the
current stroke. -/
theorem strike_disarms_only_itself (wr : WaitR K) (bell b : Nat) (hand h : Bool)
    (hexp : b ∈ wr.expected h)
    (hother : ¬ (b = bell ∧ hand = wr.currentHand ∧ h = wr.currentHand)) :
    b ∈ (wr.onBellRing bell hand).expected h := by
  unfold WaitR.onBellRing
  by_cases hc : hand = wr.currentHand
  · simp only [hc, beq_self_eq_true, if_true]
    rw [expected_setEarly, expected_setExpected]
    split
    · rename_i hh
      rw [mem_setDel]
      refine ⟨by rw [← hh]; exact hexp, ?_⟩
      intro hb
      exact hother ⟨hb, hc, hh⟩
    · exact hexp
  · have hc' : (hand == wr.currentHand) = false := by simpa using hc
    simp only [hc', Bool.false_eq_true, if_false]
    rw [expected_setEarly]
    exact hexp

/-- … and its own strike on the current stroke does disarm it: the wait then ends at the next test. -/
theorem own_strike_disarms (wr : WaitR K) (bell : Nat) :
    bell ∉ (wr.onBellRing bell wr.currentHand).expected wr.currentHand := by
  unfold WaitR.onBellRing
  simp only [beq_self_eq_true, if_true]
  rw [expected_setEarly, expected_setExpected]
  simp [mem_setDel]

/-- Arming the bells of the *same* row never disarms one already armed; only the first expectation of
a row on the other stroke clears that other stroke's (stale) set. -/
theorem expect_keeps_armed (wr : WaitR K) (bell b : Nat) (hand h : Bool)
    (hexp : b ∈ wr.expected h) (hsame : hand = wr.currentHand ∨ h ≠ hand) :
    b ∈ (wr.expect bell hand).expected h := by
  unfold WaitR.expect
  simp only []
  have key : ∀ q : WaitR K, b ∈ q.expected h →
      b ∈ (if (q.early hand).contains bell = true then q else
            q.setExpected hand (setAdd (q.expected hand) bell)).expected h := by
    intro q hq
    split
    · exact hq
    · rw [expected_setExpected]
      split
      · rename_i hh; rw [mem_setAdd]; left; rw [← hh]; exact hq
      · exact hq
  apply key
  by_cases hc : hand = wr.currentHand
  · have : (hand != wr.currentHand) = false := by simp [hc]
    simp only [this, Bool.false_eq_true, if_false]; exact hexp
  · have : (hand != wr.currentHand) = true := by simpa using hc
    simp only [this, if_true]
    rw [expected_setEarly, expected_setExpected]
    rcases hsame with hs | hs
    · exact absurd hs hc
    · simp only [hs, if_false]
      cases h <;> simpa [WaitR.expected] using hexp

/-- Keep-going mode has no such loop at all: without the wrapper a turn ends as soon as the inner wait
returns. -/
theorem keep_going_never_waits (w : World K) (wt : K → K) (bell : Nat) (uc hand : Bool) (d : K) (js : Bool)
    (h : w.rh.wait = none) : w.afterInner wt bell uc hand d js = w.finishTick wt bell uc := by
  simp [World.afterInner, h]

/-- **Look To forgets who was early**: the outer half of `initialise_line` empties both expected sets
and both early sets and goes back to handstroke, whatever was left over from an earlier touch (a strike
made after the touch had stood is not counted as "already rung" in the new touch). -/
theorem look_to_forgets_early (wr : WaitR K) (h : Bool) :
    wr.initialise.early h = [] ∧ wr.initialise.expected h = [] ∧ wr.initialise.currentHand = true := by
  cases h <;> exact ⟨rfl, rfl, rfl⟩

/-- … so every human bell of the first row of a touch is armed, without exception. -/
theorem first_row_arms (wr : WaitR K) (bell : Nat) :
    bell ∈ (wr.initialise.expect bell true).expected true := by
  rcases expect_arms wr.initialise bell true with h | h
  · exact h
  · exfalso
    unfold WaitR.expect at h
    simp only [WaitR.initialise, bne_self_eq_false, Bool.false_eq_true, if_false] at h
    simp [WaitR.early, WaitR.setExpected] at h

section Waiting
open Generated
variable {F : Type} [Field F] [LinearOrder F] [IsStrictOrderedRing F]

theorem poll_pos : (0 : F) < Num.ofQ waitSleepTime := by
  simp [num_ofQ, waitSleepTime]

/-- **However long it takes**: while the awaited human bell has not been heard on the stroke being rung
(and nobody calls Look To or Stop Touch), the main thread polls — for any number `n` of polls, that is for
milliseconds or for minutes.  Nothing is emitted, the Bot does not move, the clock advances by `n` polls. -/
theorem waits_as_long_as_it_takes (wt : F → F) (endTime : F) (wr : WaitR F) (bell : Nat) (hand : Bool)
    (hexp : bell ∈ wr.expected hand) (hret : wr.shouldReturn = false) :
    ∀ (n fuel : Nat) (w : World F) (d : F),
      w.pc = .userPoll bell true hand d → w.rh.wait = some wr →
      w.now + (n : F) * Num.ofQ waitSleepTime ≤ endTime →
      ∃ w' : World F, World.run wt endTime (fuel + n) w [] = World.run wt endTime fuel w' [] ∧
        w'.obs = w.obs ∧ w'.bot = w.bot ∧ w'.rh.wait = some wr ∧
        w'.now = w.now + (n : F) * Num.ofQ waitSleepTime ∧
        w'.pc = .userPoll bell true hand (d + (n : F) * Num.ofQ waitSleepTime) := by
  intro n
  induction n with
  | zero =>
    intro fuel w d hpc hw _
    exact ⟨w, rfl, rfl, rfl, hw, by simp, by simpa using hpc⟩
  | succ k ih =>
    intro fuel w d hpc hw hend
    have hp := poll_pos (F := F)
    have hstep : w.mainStep wt =
        ({ w with pc := .userPoll bell true hand (d + Num.ofQ waitSleepTime) }, .sleep (Num.ofQ waitSleepTime)) := by
      rw [poll_returns_to_test w wt bell true hand d hpc]
      exact wait_holds w wt wr bell hand _ true hw hexp (by simp [hret])
    have hk : (((k + 1 : Nat) : F)) = (k : F) + 1 := by push_cast; ring
    have hnot : ¬ endTime < ({ w with pc := PC.userPoll bell true hand (d + Num.ofQ waitSleepTime) } : World F).now
        + Num.ofQ waitSleepTime := by
      show ¬ endTime < w.now + _
      rw [hk] at hend
      intro h
      have : (0 : F) ≤ (k : F) * Num.ofQ waitSleepTime := mul_nonneg (Nat.cast_nonneg k) (le_of_lt hp)
      nlinarith
    have r1 := run_sleep wt endTime (fuel + k) w _ _ hstep hnot hp
    set w1 : World F := { ({ w with pc := PC.userPoll bell true hand (d + Num.ofQ waitSleepTime) } : World F) with
      now := w.now + Num.ofQ waitSleepTime } with hw1
    have hend1 : w1.now + (k : F) * Num.ofQ waitSleepTime ≤ endTime := by
      show w.now + Num.ofQ waitSleepTime + _ ≤ _
      rw [hk] at hend; nlinarith
    obtain ⟨w2, hrun, hobs, hbot, hwait, hnow, hpc2⟩ :=
      ih fuel w1 (d + Num.ofQ waitSleepTime) rfl hw hend1
    refine ⟨w2, ?_, hobs, hbot, hwait, ?_, ?_⟩
    · have e : fuel + (k + 1) = fuel + k + 1 := by omega
      rw [e, r1]; exact hrun
    · rw [hnow, hk]; show w.now + Num.ofQ waitSleepTime + _ = _; ring
    · rw [hpc2, hk]; congr 1; ring

end Waiting

section Settings
variable {K : Type} [Num K]


/-- **A setting is no reason to stop waiting**: passing a setting on to the rhythm leaves the waiting
wrapper exactly as it was - who is awaited, who was early, the return-to-main-loop flag. -/
theorem setting_keeps_waiting (wt : K → K) (ct : K) (w : World K) (key : String) (v : SVal) :
    (World.applyOut wt ct w (.rSetting key v)).rh.wait = w.rh.wait := by
  unfold World.applyOut
  simp only []
  split
  · rfl
  · split
    · split
      · split <;> rfl
      · rfl
    · split
      · split
        · split <;> rfl
        · rfl
      · rfl

end Settings

/-! ### The command line (`Model/Cli.lean`: `console_main`) -/

/-- The waiting wrapper is used unless `-k` was given; the deprecated `--wait` changes nothing. -/
theorem cli_waits_unless_keep_going (c : Parse.Chars) (os : List Cli.Opt) (u : Option (List Char × List Char))
    (cfg : Cli.Cfg) (h : Cli.consoleMain c os u = .built cfg) :
    cfg.useWait = !decide (Cli.Opt.keepGoing ∈ os) :=
  (Cli.main_built c os u cfg h).2.2.2.1

/-! ### Messages during the wait -/

/-- **Whatever else happens meanwhile**: while the main thread is polling for a human bell, the delivery of any
event whatsoever leaves it at the same test and strikes nothing; and unless that event took the bell out of the
awaited set (its own strike on this stroke - `strike_disarms_only_itself`) or asked the wait to be given up
(Look To, Stop Touch), the next wake-up sleeps again.  -/
theorem poll_survives_delivery {K : Type} [Num K] (wt : K → K) (w : World K) (e : Ev) (bell : Nat) (hand : Bool) (d : K)
    (hpc : w.pc = .userPoll bell true hand d) :
    (World.deliver wt w e).pc = .userPoll bell true hand d ∧
    ringsOf (World.deliver wt w e).obs = ringsOf w.obs ∧
    (∀ wr', (World.deliver wt w e).rh.wait = some wr' → bell ∈ wr'.expected hand → wr'.shouldReturn = false →
      (World.deliver wt w e).mainStep wt =
        ({ (World.deliver wt w e) with pc := .userPoll bell true hand (d + Num.ofQ Generated.waitSleepTime) },
         .sleep (Num.ofQ Generated.waitSleepTime))) := by
  obtain ⟨h1, h2⟩ := deliver_never_rings wt w e
  refine ⟨h1.trans hpc, h2, ?_⟩
  intro wr' hw hexp hret
  rw [poll_returns_to_test _ wt bell true hand d (h1.trans hpc)]
  exact wait_holds _ wt wr' bell hand _ true hw hexp (by simp [hret])

/-! ### However long, whatever else arrives -/

section Silence
variable {K : Type} [Num K]

/-- The wrapper is waiting for `bell` on stroke `hand` and has not been asked to give up. -/
def Armed (w : World K) (bell : Nat) (hand : Bool) : Prop :=
  ∃ wr, w.rh.wait = some wr ∧ bell ∈ wr.expected hand ∧ wr.shouldReturn = false

/-- Events that are neither a strike of `bell`, nor Look To, nor Stop Touch, nor the second half of a Look To
handler: other bells' strikes, every other call, assignments, arrivals and departures, settings, selections, size
changes, states set at hand. -/
def Quiet (bell : Nat) : Ev → Prop
  | .resume => False
  | .msg (.bellRung _ who) => who ≠ bell
  | .msg (.call c) => c ≠ Generated.call_LOOK_TO
  | .msg .stopTouch => False
  | .msg _ => True

/-- Outputs of a handler that cannot end the wait for `bell`. -/
def harmless (bell : Nat) : Out → Bool
  | .rReturn => false
  | .rInit _ _ _ => false
  | .rExpect _ _ _ _ => false
  | .rBellRing b _ => b != bell
  | _ => true

theorem shouldReturn_onBellRing (wr : WaitR K) (b : Nat) (h : Bool) :
    (wr.onBellRing b h).shouldReturn = wr.shouldReturn := by
  unfold WaitR.onBellRing WaitR.setEarly WaitR.setExpected
  cases wr.currentHand <;> cases h <;> simp

theorem withReg_wait (w : World K) (f : (List (K × K × K) → K × K) → Reg K) :
    (w.withReg f).rh.wait = w.rh.wait := by
  unfold World.withReg
  simp only []
  exact ite_proj (fun x : World K => x.rh.wait) _ _ _ _ rfl rfl

theorem applyOut_harmless (wt : K → K) (ct : K) (w : World K) (o : Out) (bell : Nat) (hand : Bool)
    (ho : harmless bell o = true) (ha : Armed w bell hand) : Armed (World.applyOut wt ct w o) bell hand := by
  obtain ⟨wr, hw, hexp, hret⟩ := ha
  cases o with
  | rReturn => simp [harmless] at ho
  | rInit _ _ _ => simp [harmless] at ho
  | rExpect _ _ _ _ => simp [harmless] at ho
  | rBellRing b h =>
    have hb : b ≠ bell := by simpa [harmless] using ho
    unfold World.applyOut
    simp only []
    split
    · exact ⟨wr, hw, hexp, hret⟩
    · refine ⟨wr.onBellRing b h, ?_, ?_, ?_⟩
      · show Option.map _ (World.withReg _ _).rh.wait = _
        rw [withReg_wait]
        show Option.map _ w.rh.wait = _
        rw [hw]; rfl
      · exact strike_disarms_only_itself wr b bell h hand hexp (fun hh => hb hh.1.symm)
      · rw [shouldReturn_onBellRing]; exact hret
  | rSetting key v =>
    refine ⟨wr, ?_, hexp, hret⟩
    rw [setting_keeps_waiting]; exact hw
  | ring _ _ => unfold World.applyOut; simp only []; split <;> exact ⟨wr, hw, hexp, hret⟩
  | call _ => unfold World.applyOut; simp only []; split <;> exact ⟨wr, hw, hexp, hret⟩
  | setIsRinging _ => unfold World.applyOut; simp only []; split <;> exact ⟨wr, hw, hexp, hret⟩
  | rollCall _ => unfold World.applyOut; simp only []; split <;> exact ⟨wr, hw, hexp, hret⟩
  | join => unfold World.applyOut; simp only []; split <;> exact ⟨wr, hw, hexp, hret⟩
  | requestState => unfold World.applyOut; simp only []; split <;> exact ⟨wr, hw, hexp, hret⟩
  | crash _ => unfold World.applyOut; simp only []; split <;> exact ⟨wr, hw, hexp, hret⟩

theorem foldl_applyOut_harmless (wt : K → K) (ct : K) (bell : Nat) (hand : Bool) (outs : List Out) :
    ∀ (w : World K), (∀ o ∈ outs, harmless bell o = true) → Armed w bell hand →
      Armed (outs.foldl (World.applyOut wt ct) w) bell hand := by
  induction outs with
  | nil => intro w _ ha; exact ha
  | cons o rest ih =>
    intro w h ha
    simp only [List.foldl_cons]
    exact ih _ (fun o' ho' => h o' (by simp [ho'])) (applyOut_harmless wt ct w o bell hand (h o (by simp)) ha)

theorem foldSettings_harmless (bell : Nat) :
    ∀ (kvs : List (String × SVal)) (b : Bot), ∀ o ∈ (foldSettings b kvs).2, harmless bell o = true := by
  intro kvs
  induction kvs with
  | nil => intro b o ho; simp [foldSettings] at ho
  | cons kv rest ih =>
    intro b o ho
    obtain ⟨k, v⟩ := kv
    simp only [foldSettings, List.mem_append] at ho
    rcases ho with h | h
    · unfold Bot.onSetting at h
      split at h
      · simp at h
      · split at h
        · simp at h
        · split at h
          · simp at h
          · simp at h; subst h; rfl
    · exact ih _ o h

theorem makeCalls_harmless (b : Bot) (cs : List String) (bell : Nat) : ∀ o ∈ b.makeCalls cs, harmless bell o = true := by
  intro o ho
  unfold Bot.makeCalls at ho
  split at ho
  · rw [List.mem_map] at ho
    obtain ⟨x, _, rfl⟩ := ho
    rfl
  · simp at ho

/-- What the handler of a quiet message hands to the rhythm cannot end the wait. -/
theorem onMsg_quiet (b : Bot) (m : Msg) (bell : Nat) (hq : Quiet bell (.msg m)) :
    ∀ o ∈ (b.onMsg m).2, harmless bell o = true := by
  intro o ho
  unfold Bot.onMsg at ho
  simp only [] at ho
  cases m with
  | bellRung st who =>
    simp only [] at ho
    split at ho
    · simp at ho
    · split at ho
      · simp at ho; subst ho
        have : who ≠ bell := hq
        simp [harmless, this]
      · simp at ho
  | globalState st =>
    simp only [] at ho
    unfold Bot.onSizeChange at ho
    split at ho
    · simp at ho; subst ho; rfl
    · simp at ho
  | sizeChange n =>
    simp only [] at ho
    split at ho
    · unfold Bot.onSizeChange at ho
      split at ho
      · simp at ho; subst ho; rfl
      · simp at ho
    · simp at ho
  | call c =>
    simp only [] at ho
    have hc : (c == Generated.call_LOOK_TO) = false := by
      have : c ≠ Generated.call_LOOK_TO := hq
      simpa using this
    unfold Bot.onCall at ho
    simp only [hc, Bool.false_eq_true, if_false] at ho
    split at ho
    · unfold Bot.onGo at ho
      split at ho
      · exact makeCalls_harmless _ _ bell o ho
      · simp at ho
    · repeat' split at ho
      all_goals simp at ho
  | setting kvs =>
    simp only [] at ho
    split at ho
    · exact foldSettings_harmless bell _ _ o ho
    · simp at ho
  | rowGen g =>
    simp only [] at ho
    repeat' split at ho
    all_goals simp at ho
  | stopTouch => exact absurd hq (by simp [Quiet])
  | userEntered _ _ => simp at ho
  | userList _ => simp at ho
  | assign _ _ => simp at ho
  | userLeft _ => simp at ho

theorem lookToSuspends_quiet (w : World K) (m : Msg) (bell : Nat) (hq : Quiet bell (.msg m)) :
    w.lookToSuspends m = none := by
  unfold World.lookToSuspends
  cases m with
  | call c =>
    have hc : (c == Generated.call_LOOK_TO) = false := by
      have : c ≠ Generated.call_LOOK_TO := hq
      simpa using this
    simp [hc]
  | _ => rfl

/-- A quiet event leaves the wait armed. -/
theorem deliver_quiet (wt : K → K) (w : World K) (e : Ev) (bell : Nat) (hand : Bool) (hq : Quiet bell e)
    (ha : Armed w bell hand) : Armed (World.deliver wt w e) bell hand := by
  cases e with
  | resume => exact absurd hq (by simp [Quiet])
  | msg m =>
    unfold World.deliver
    simp only [lookToSuspends_quiet w m bell hq]
    unfold World.deliverMsg
    simp only []
    have hb : Armed ({ w with bot := (w.bot.onMsg m).1 } : World K) bell hand := ha
    have := foldl_applyOut_harmless wt w.now bell hand (w.bot.onMsg m).2 _ (onMsg_quiet w.bot m bell hq) hb
    split
    · exact this
    · exact this

theorem sleep_go_quiet (wt : K → K) (limit : K) (bell : Nat) (hand : Bool) :
    ∀ (events : List (K × Ev)) (w : World K), (∀ ev ∈ events, Quiet bell ev.2) → Armed w bell hand →
      Armed (World.sleep.go wt limit w events).1 bell hand ∧
      (∀ ev ∈ (World.sleep.go wt limit w events).2, Quiet bell ev.2) := by
  intro events
  induction events with
  | nil => intro w _ ha; exact ⟨ha, by intro ev h; cases h⟩
  | cons ev rest ih =>
    intro w hq ha
    obtain ⟨t, m⟩ := ev
    unfold World.sleep.go
    split
    · have ha1 : Armed (if w.now < t then ({ w with now := t } : World K) else w) bell hand := by
        split
        · exact ha
        · exact ha
      exact ih _ (fun ev' h' => hq ev' (by simp [h'])) (deliver_quiet wt _ m bell hand (hq (t, m) (by simp)) ha1)
    · exact ⟨ha, hq⟩

theorem sleep_quiet (wt : K → K) (endTime : K) (w : World K) (d : K) (events : List (K × Ev)) (bell : Nat) (hand : Bool)
    (hq : ∀ ev ∈ events, Quiet bell ev.2) (ha : Armed w bell hand) :
    Armed (World.sleep wt endTime w d events).1 bell hand ∧
    (∀ ev ∈ (World.sleep wt endTime w d events).2.1, Quiet bell ev.2) := by
  unfold World.sleep
  simp only []
  split
  · exact sleep_go_quiet wt endTime bell hand events w hq ha
  · obtain ⟨h1, h2⟩ := sleep_go_quiet wt (w.now + d) bell hand events w hq ha
    exact ⟨h1, h2⟩

/-- **Never ahead, however long and whatever else arrives.**  The main thread is polling for a human bell that is
awaited on the stroke being rung.  If none of the events still to come is a strike of that bell, a Look To or a
Stop Touch - they may be anything else: other ringers' strikes, calls, assignments, people coming and going,
settings, selections, size changes - then for the whole rest of the run, of whatever length, Wheatley strikes
nothing. -/
theorem silent_until_the_bell_rings (wt : K → K) (endTime : K) (bell : Nat) (hand : Bool) :
    ∀ (fuel : Nat) (w : World K) (d : K) (events : List (K × Ev)),
      w.pc = .userPoll bell true hand d → Armed w bell hand → (∀ ev ∈ events, Quiet bell ev.2) →
      ringsOf (World.run wt endTime fuel w events).1.obs = ringsOf w.obs := by
  intro fuel
  induction fuel with
  | zero => intro w d events _ _ _; rfl
  | succ fuel ih =>
    intro w d events hpc ha hq
    obtain ⟨wr, hw, hexp, hret⟩ := ha
    have hstep : w.mainStep wt =
        ({ w with pc := .userPoll bell true hand (d + Num.ofQ Generated.waitSleepTime) },
         .sleep (Num.ofQ Generated.waitSleepTime)) := by
      rw [poll_returns_to_test w wt bell true hand d hpc]
      exact wait_holds w wt wr bell hand _ true hw hexp (by simp [hret])
    unfold World.run
    simp only [hstep]
    set w1 : World K := { w with pc := .userPoll bell true hand (d + Num.ofQ Generated.waitSleepTime) } with hw1
    have ha1 : Armed w1 bell hand := ⟨wr, hw, hexp, hret⟩
    obtain ⟨sp, sr⟩ := sleep_never_rings wt endTime w1 (Num.ofQ Generated.waitSleepTime) events
    obtain ⟨sa, sq⟩ := sleep_quiet wt endTime w1 (Num.ofQ Generated.waitSleepTime) events bell hand hq ha1
    split
    · exact sr
    · rw [ih _ (d + Num.ofQ Generated.waitSleepTime) _ sp sa sq]
      exact sr

/-- Non-vacuity: a world whose main thread polls for bell 2 at handstroke with bell 2 awaited; a strike of
bell 3, a Bob, an assignment and a size change are quiet events for it, a strike of bell 2 and Look To are not. -/
example : ∃ w : World Float, w.pc = .userPoll 2 true true 0 ∧ Armed w 2 true :=
  ⟨{ World.init (0 : Float) (Bot.init mkPlaceholder true false true none none)
        { reg := Reg.init 0.5 178 1 4 15 0,
          wait := some { (WaitR.init : WaitR Float) with expectedHand := [2] }, stub := none } [] none with
      pc := .userPoll 2 true true 0 }, rfl, ⟨_, rfl, by simp [WaitR.expected], rfl⟩⟩

example : Quiet 2 (.msg (.bellRung [true, true, false] 3)) ∧ Quiet 2 (.msg (.call "Bob")) ∧
    Quiet 2 (.msg (.assign 2 7)) ∧ Quiet 2 (.msg (.sizeChange 8)) ∧
    ¬ Quiet 2 (.msg (.bellRung [true, false] 2)) ∧ ¬ Quiet 2 (.msg (.call "Look to")) := by
  refine ⟨by simp [Quiet], by simp [Quiet, Generated.call_LOOK_TO], trivial, trivial, by simp [Quiet], ?_⟩
  simp [Quiet, Generated.call_LOOK_TO]

end Silence

end Wheatley.C09
