/-
C13 — inertia 1 ignores the band; a gross blunder never drags the rhythm.
-/
import Mathlib.Analysis.Complex.ExponentialBounds
import Wheatley.Props.C12
import Wheatley.Model.World
import Wheatley.Lemmas.Cli
import Wheatley.Lemmas.Handlers
import Wheatley.Lemmas.Ctl
import Wheatley.Props.C11
namespace Wheatley.C13
open Generated

variable {K : Type} [Field K] [LinearOrder K] [IsStrictOrderedRing K]

/-- **Inertia 1**: a data point never changes start or interval (the early return), whatever its time
and weight — so after the first whole pull (row ≥ 1 uses the preferred inertia) the line is
independent of everything the humans do. -/
theorem inertia1_line_invariant (r : Reg K) (reg : List (K × K × K) → K × K) (row place : Nat) (t w : K)
    (hrow : 0 < row) (hi : r.preferredInertia = 1) :
    (r.addDataPoint reg row place t w).start = r.start ∧
    (r.addDataPoint reg row place t w).interval = r.interval := by
  apply addDataPoint_line_unchanged
  left
  simp [hrow, hi]

/-- … hence a whole human strike leaves the line alone too (it only consumes the expectation). -/
theorem inertia1_strike (r : Reg K) (wt : K → K) (reg : List (K × K × K) → K × K) (bell : Nat) (hand : Bool)
    (t : K) (row place : Nat) (hexp : r.lookupExpected bell hand = some (row, place)) (hrow : 0 < row)
    (hi : r.preferredInertia = 1) (hb : r.blowTime row place ≠ 0) :
    (r.onBellRing wt reg bell hand t).start = r.start ∧
    (r.onBellRing wt reg bell hand t).interval = r.interval := by
  unfold Reg.onBellRing
  simp only [hexp]
  have hb' : Num.eqb (r.blowTime row place) (Num.ofNat 0) = false := by simpa using hb
  simp only [hb', Bool.false_eq_true, if_false]
  exact inertia1_line_invariant r reg row place t _ hrow hi

/-- `exp(-9) < 0.001` — for the real exponential function. -/
theorem exp_neg9 : Real.exp (-9) < 1 / 1000 := by
  have h := Real.exp_one_gt_d9
  have h9 : Real.exp (-9) = (Real.exp 1)⁻¹ ^ 9 := by
    rw [← Real.exp_neg, ← Real.exp_nat_mul]; norm_num
  rw [h9]
  have hpos : (0 : ℝ) < Real.exp 1 := Real.exp_pos 1
  have hinv : (Real.exp 1)⁻¹ < (2.7182818283 : ℝ)⁻¹ := by
    apply inv_strictAnti₀ (by norm_num) h
  have h0 : (0 : ℝ) ≤ (Real.exp 1)⁻¹ := le_of_lt (inv_pos.mpr hpos)
  calc (Real.exp 1)⁻¹ ^ 9 < ((2.7182818283 : ℝ)⁻¹) ^ 9 := pow_lt_pow_left₀ hinv h0 (by norm_num)
    _ < 1 / 1000 := by norm_num

/-- A strike three or more places from its slot gets a weight below the rejection threshold. -/
theorem blunder_weight (d : ℝ) (h : 3 ≤ |d|) : Real.exp (-(d ^ 2)) < 1 / 1000 := by
  have h9 : (9 : ℝ) ≤ d ^ 2 := by
    have : |d| ^ 2 = d ^ 2 := sq_abs d
    nlinarith [abs_nonneg d]
  calc Real.exp (-(d ^ 2)) ≤ Real.exp (-9) := Real.exp_le_exp.mpr (by linarith)
    _ < 1 / 1000 := exp_neg9

/-- **The blunder is dropped at once**: a new point whose weight is not above the threshold leaves the
data set exactly as it was, provided the remembered points are all above it (they were kept) and the
memory is not over-full (it never is, `C12.memory_bounded`). -/
theorem blunder_dropped (r : Reg K) (row place : Nat) (t w : K)
    (hw : ¬ (Num.ofQ weightRejectionThreshold : K) < w)
    (hkept : ∀ d ∈ r.dataSet, (Num.ofQ weightRejectionThreshold : K) < d.2.2)
    (hlen : (r.dataSet.length : Int) < r.maxBells) :
    r.newDataSet row place t w = r.dataSet := by
  unfold Reg.newDataSet
  simp only []
  have hf : (r.dataSet ++ [(r.blowTime row place, t, w)]).filter
      (fun d => decide (Num.ofQ weightRejectionThreshold < d.2.2)) = r.dataSet := by
    rw [List.filter_append]
    have h1 : r.dataSet.filter (fun d => decide (Num.ofQ weightRejectionThreshold < d.2.2)) = r.dataSet :=
      List.filter_eq_self.mpr (fun d hd => by simpa using hkept d hd)
    have h2 : [(r.blowTime row place, t, w)].filter (fun d => decide (Num.ofQ weightRejectionThreshold < d.2.2)) = [] := by
      simp [hw]
    rw [h1, h2, List.append_nil]
  rw [hf]
  split
  · omega
  · rfl

/-- **… and harmless once the rhythm is settled** (all remembered points on the current line): the line
after the blunder is the line before it — the same as if the strike had not happened. -/
theorem blunder_harmless (r : Reg K) (row place : Nat) (t w s : K) (hs : r.start = .fin s)
    (hw : ¬ (Num.ofQ weightRejectionThreshold : K) < w)
    (hkept : ∀ d ∈ r.dataSet, (Num.ofQ weightRejectionThreshold : K) < d.2.2)
    (hlen : (r.dataSet.length : Int) < r.maxBells)
    (hsettled : OnLine s r.interval r.dataSet) (hdet : det r.dataSet ≠ 0) :
    (r.addDataPoint regress row place t w).start = .fin s ∧
    (r.addDataPoint regress row place t w).interval = r.interval ∧
    (r.addDataPoint regress row place t w).dataSet = r.dataSet := by
  have hds := blunder_dropped r row place t w hw hkept hlen
  obtain ⟨h1, h2⟩ := C12.fixed_point r row place t w s hs (by rw [hds]; exact hsettled) (by rw [hds]; exact hdet)
  exact ⟨h1, h2, by rw [(addDataPoint_cfg r regress row place t w).2.1, hds]⟩

theorem threshold_value : (Num.ofQ weightRejectionThreshold : K) = 1 / 1000 := by
  simp [num_ofQ, weightRejectionThreshold]

/-- A strike a whole row early lands on the other stroke: it is not expected there and changes nothing. -/
theorem unexpected_stroke_ignored (r : Reg K) (wt : K → K) (reg : List (K × K × K) → K × K) (bell : Nat)
    (hand : Bool) (t : K) (h : r.lookupExpected bell hand = none) :
    r.onBellRing wt reg bell hand t = r := by
  simp [Reg.onBellRing, h]

/-- **Inertia 1 can be switched on at run time**: an `inertia` setting of 0 or 1 (the integers the
settings channel sends) becomes the rhythm's preferred inertia — in particular exactly 1 is accepted,
and from then on (`inertia1_line_invariant`) no strike moves the line. -/
theorem inertia_setting_applies {K : Type} [Num K] (w : World K) (wt : K → K) (ct : K) (n : Int)
    (hstub : w.rh.stub = none) (h0 : 0 ≤ n) (h1 : n ≤ 1) :
    (World.applyOut wt ct w (.rSetting "inertia" (.int n))).rh.reg.preferredInertia = Num.ofNat n.toNat := by
  unfold World.applyOut
  simp only [hstub]
  have hk : ("inertia" == "peal_speed") = false := by decide
  simp [hk, h0, h1]

/-- **An expectation is used once**: the strike that matches it removes it, so a later strike of the same
bell on the same stroke that arrives before the next expectation has been set (rung more than a row
ahead) is "unexpected" and (`unexpected_stroke_ignored`) changes nothing. -/
theorem expectation_used_once (r : Reg K) (wt : K → K) (reg : List (K × K × K) → K × K) (bell : Nat)
    (hand : Bool) (t : K) :
    (r.onBellRing wt reg bell hand t).lookupExpected bell hand = none := by
  unfold Reg.onBellRing
  cases hq : r.lookupExpected bell hand with
  | none => simpa using hq
  | some p =>
    obtain ⟨row, place⟩ := p
    simp only []
    unfold Reg.lookupExpected
    rw [List.find?_eq_none.mpr]
    intro x hx
    simp only [List.mem_filter] at hx
    simpa using hx.2


/-! ### System level: with inertia 1 the line never moves -/

section System

/-- A regression rhythm with inertia 1 on the line `(s, i)`: every pending expectation is past the first row, the
stage is positive and the gap not negative. -/
structure RegDeaf (r : Reg K) (s : Time K) (i : K) : Prop where
  inertia : r.preferredInertia = 1
  start : r.start = s
  interval : r.interval = i
  stage : 0 < r.stage
  gap : 0 ≤ r.gap
  rows : ∀ p ∈ r.expected, 0 < p.2.1

/-- The world of a touch under way whose rhythm is deaf: the real rhythm (no stub), the main thread past
`wait_loaded`, no Look To handler asleep. -/
structure Deaf (w : World K) (s : Time K) (i : K) : Prop where
  stub : w.rh.stub = none
  reg : RegDeaf w.rh.reg s i
  notSpawn : ∀ it t, w.pc ≠ .waitLoaded it (some t)
  awake : w.suspended = none

theorem Deaf.of_eq {w w' : World K} {s : Time K} {i : K} (h : Deaf w s i) (h1 : w'.rh.stub = none)
    (h2 : RegDeaf w'.rh.reg s i) (h3 : w'.pc = w.pc) (h4 : w'.suspended = w.suspended) : Deaf w' s i :=
  { stub := h1, reg := h2, notSpawn := (by rw [h3]; exact h.notSpawn), awake := (by rw [h4]; exact h.awake) }

/-- The events of a touch under way: anything but a Look To (which starts a new line), a setting (which may bend
it or change the inertia) and the waking of a Look To handler. -/
def Band : Ev → Prop
  | .msg (.call c) => c ≠ Generated.call_LOOK_TO
  | .msg (.setting _) => False
  | .resume => False
  | _ => True

/-- Outputs that cannot move the line of a deaf rhythm. -/
def quietOut : Out → Bool
  | .rInit _ _ _ => false
  | .rSetting _ _ => false
  | .rExpect _ row _ _ => decide (0 < row)
  | _ => true

theorem withReg_reg (w : World K) (f : (List (K × K × K) → K × K) → Reg K) :
    (∃ g, (w.withReg f).rh.reg = f g) ∧ (w.withReg f).rh.stub = w.rh.stub ∧ (w.withReg f).rh.wait = w.rh.wait ∧
    (w.withReg f).pc = w.pc ∧ (w.withReg f).suspended = w.suspended ∧ (w.withReg f).bot = w.bot := by
  unfold World.withReg
  simp only []
  exact ⟨⟨_, ite_proj (fun x : World K => x.rh.reg) _ _ _ _ rfl rfl⟩,
    ite_proj (fun x : World K => x.rh.stub) _ _ _ _ rfl rfl, ite_proj (fun x : World K => x.rh.wait) _ _ _ _ rfl rfl,
    ite_proj (fun x : World K => x.pc) _ _ _ _ rfl rfl, ite_proj (fun x : World K => x.suspended) _ _ _ _ rfl rfl,
    ite_proj (fun x : World K => x.bot) _ _ _ _ rfl rfl⟩

theorem blowTime_pos (r : Reg K) (row place : Nat) (hrow : 0 < row) (hst : 0 < r.stage) (hg : 0 ≤ r.gap) :
    r.blowTime row place ≠ 0 := by
  unfold Reg.blowTime
  rw [C11.blow_index]
  have h1 : (1 : K) ≤ ((row * (r.line (Num.ofNat 0)).stage + place : Nat) : K) := by
    have : 1 ≤ row * r.stage + place := by
      have := Nat.mul_pos hrow hst
      omega
    exact_mod_cast this
  have h2 : (0 : K) ≤ ((row / 2 : Nat) : K) * (r.line (Num.ofNat 0)).gap := by
    apply mul_nonneg
    · exact Nat.cast_nonneg _
    · exact hg
  intro h
  linarith

/-- A human strike heard by a deaf rhythm: the line stays, and so does everything `RegDeaf` speaks of. -/
theorem onBellRing_deaf (r : Reg K) (wt : K → K) (reg : List (K × K × K) → K × K) (bell : Nat) (hand : Bool) (t : K)
    (s : Time K) (i : K) (h : RegDeaf r s i) : RegDeaf (r.onBellRing wt reg bell hand t) s i := by
  obtain ⟨hi, hs, hiv, hst, hg, hrows⟩ := h
  cases hq : r.lookupExpected bell hand with
  | none =>
    rw [unexpected_stroke_ignored r wt reg bell hand t hq]
    exact ⟨hi, hs, hiv, hst, hg, hrows⟩
  | some p =>
    obtain ⟨row, place⟩ := p
    have hrow : 0 < row := by
      unfold Reg.lookupExpected at hq
      split at hq
      · rename_i q hf
        injection hq with hq
        have := hrows q (List.mem_of_find?_eq_some hf)
        rw [hq] at this
        exact this
      · cases hq
    obtain ⟨h1, h2⟩ := inertia1_strike r wt reg bell hand t row place hq hrow hi (blowTime_pos r row place hrow hst hg)
    refine ⟨?_, h1.trans hs, h2.trans hiv, ?_, ?_, ?_⟩
    all_goals
      unfold Reg.onBellRing
      simp only [hq]
      have hb' : Num.eqb (r.blowTime row place) (Num.ofNat 0) = false := by
        simpa using blowTime_pos r row place hrow hst hg
      simp only [hb', Bool.false_eq_true, if_false]
      generalize (ite (r.dataSet.length ≤ 1) _ _ : K) = wgt
      obtain ⟨c1, _, c3, _⟩ := addDataPoint_cfg r reg row place t wgt
      simp only [Reg.cfgOf, Prod.mk.injEq] at c1
    · exact c1.1.trans hi
    · show 0 < (r.addDataPoint reg row place t wgt).stage
      rw [c1.2.2.2.2.2.2]; exact hst
    · show 0 ≤ (r.addDataPoint reg row place t wgt).gap
      rw [c1.2.2.2.1]; exact hg
    · intro p hp
      simp only [List.mem_filter] at hp
      rw [c3] at hp
      exact hrows p hp.1

theorem withReg_deaf (w : World K) (f : (List (K × K × K) → K × K) → Reg K) (s : Time K) (i : K) (h : Deaf w s i)
    (hf : ∀ g, RegDeaf (f g) s i) : Deaf (w.withReg f) s i := by
  obtain ⟨⟨g, hg⟩, f2, _, f4, f5, _⟩ := withReg_reg w f
  exact h.of_eq (f2.trans h.stub) (by rw [hg]; exact hf g) f4 f5

theorem applyOut_deaf (wt : K → K) (ct : K) (w : World K) (o : Out) (s : Time K) (i : K)
    (ho : quietOut o = true) (h : Deaf w s i) : Deaf (World.applyOut wt ct w o) s i := by
  unfold World.applyOut
  simp only []
  cases o with
  | rInit _ _ _ => simp [quietOut] at ho
  | rSetting _ _ => simp [quietOut] at ho
  | rExpect bell row place hand =>
    have hrow : 0 < row := by simpa [quietOut] using ho
    simp only [h.stub]
    refine h.of_eq (by first | rfl | exact h.stub) ?_ rfl rfl
    exact { inertia := h.reg.inertia, start := h.reg.start, interval := h.reg.interval, stage := h.reg.stage,
            gap := h.reg.gap,
            rows := (by
              intro p hp
              simp only [Reg.expect, List.mem_append, List.mem_filter, List.mem_singleton] at hp
              rcases hp with hp | hp
              · exact h.reg.rows p hp.1
              · rw [hp]; exact hrow) }
  | rBellRing bell hand =>
    simp only [h.stub]
    have h0 : Deaf ({ w with obs := { t := w.now, out := Out.rBellRing bell hand } :: w.obs } : World K) s i :=
      h.of_eq h.stub h.reg rfl rfl
    have h1 := withReg_deaf _ (fun regf => w.rh.reg.onBellRing wt regf bell hand
      (w.now - ({ w with obs := { t := w.now, out := Out.rBellRing bell hand } :: w.obs } : World K).delay)) s i h0
      (fun g => onBellRing_deaf w.rh.reg wt g bell hand _ s i h.reg)
    exact h1.of_eq h1.stub h1.reg rfl rfl
  | rReturn =>
    simp only [h.stub]
    exact h.of_eq (by first | rfl | exact h.stub)
      { inertia := h.reg.inertia, start := h.reg.start, interval := h.reg.interval, stage := h.reg.stage,
        gap := h.reg.gap, rows := h.reg.rows } rfl rfl
  | ring _ _ => simp only [h.stub]; exact h.of_eq h.stub h.reg rfl rfl
  | call _ => simp only [h.stub]; exact h.of_eq h.stub h.reg rfl rfl
  | setIsRinging _ => simp only [h.stub]; exact h.of_eq h.stub h.reg rfl rfl
  | rollCall _ => simp only [h.stub]; exact h.of_eq h.stub h.reg rfl rfl
  | join => simp only [h.stub]; exact h.of_eq h.stub h.reg rfl rfl
  | requestState => simp only [h.stub]; exact h.of_eq h.stub h.reg rfl rfl
  | crash _ => simp only [h.stub]; exact h.of_eq h.stub h.reg rfl rfl

theorem Deaf.of_reg {w w' : World K} {s : Time K} {i : K} (h : Deaf w s i) (h1 : w'.rh.stub = none)
    (h2 : RegDeaf w'.rh.reg s i) (h3 : ∀ it t, w'.pc ≠ .waitLoaded it (some t)) (h4 : w'.suspended = none) :
    Deaf w' s i :=
  { stub := h1, reg := h2, notSpawn := h3, awake := h4 }

theorem foldl_applyOut_deaf (wt : K → K) (ct : K) (s : Time K) (i : K) (outs : List Out) :
    ∀ (w : World K), (∀ o ∈ outs, quietOut o = true) → Deaf w s i → Deaf (outs.foldl (World.applyOut wt ct) w) s i := by
  induction outs with
  | nil => intro w _ h; exact h
  | cons o rest ih =>
    intro w hq h
    simp only [List.foldl_cons]
    exact ih _ (fun o' ho' => hq o' (by simp [ho'])) (applyOut_deaf wt ct w o s i (hq o (by simp)) h)

/-- The expectations `start_next_row` sets for the coming row carry its number, which is not 0 unless it is the
first row of a touch. -/
theorem startNextRow_expect_row (b : Bot) (x r p : Nat) (hd : Bool)
    (h : Out.rExpect x r p hd ∈ (b.startNextRow false).2) : r = b.rowNumber + 1 := by
  unfold Bot.startNextRow at h
  split at h
  · simp at h
  · rename_i c started hstep
    simp only [] at h
    have hc : c.rowNumber = b.rowNumber + 1 := by
      unfold ctlStep at hstep
      split at hstep
      · cases hstep
      · injection hstep with e1 e2
        subst e1
        simp [ctlNext, nextRowNumber, Bot.ctlIn, Bot.ctl]
    have ho4 : ∀ o ∈ (if (started && !b.checkNumberOfBells b.gen) = true then b.makeCalls ["Stand"] else []),
        o ≠ Out.rExpect x r p hd := by
      intro o ho
      split at ho
      · have := makeCalls_kind b _ o ho
        intro e; subst e
        unfold Bot.makeCalls at ho
        split at ho
        · simp at ho
        · simp at ho
      · simp at ho
    generalize (if (started && !b.checkNumberOfBells b.gen) = true then b.makeCalls ["Stand"] else []) = o4 at h ho4
    have hq : ((if started = true then b.snrPrep.resetGen else b.snrPrep).withCtl c).rowNumber = c.rowNumber := rfl
    generalize (if started = true then b.snrPrep.resetGen else b.snrPrep).withCtl c = q at h hq
    unfold Bot.snrFinish at h
    split at h
    · exact absurd rfl (ho4 _ h)
    · have hctl := generateNextRow_ctl q
      have hout : ∀ o ∈ (q.generateNextRow).2, o ≠ Out.rExpect x r p hd := by
        intro o ho e
        subst e
        unfold Bot.generateNextRow at ho
        split at ho
        · simp at ho
        · split at ho
          · simp at ho
          · split at ho <;> simp at ho
      rcases hg : q.generateNextRow with ⟨b3, o9⟩
      rw [hg] at hctl hout
      simp only [hg] at h
      have hb3 : b3.rowNumber = q.rowNumber := by
        have := congrArg Ctl.rowNumber hctl
        exact this
      split at h
      · simp only [List.mem_append] at h
        rcases h with h | h
        · exact absurd rfl (ho4 _ h)
        · exact absurd rfl (hout _ h)
      · simp only [List.mem_append] at h
        rcases h with (h | h) | h
        · exact absurd rfl (ho4 _ h)
        · exact absurd rfl (hout _ h)
        · unfold Bot.expectAll at h
          simp only [List.mem_map] at h
          obtain ⟨pr, _, hpr⟩ := h
          injection hpr with _ e2 _ _
          rw [← e2, hb3, hq, hc]

theorem tickEnd_quiet (b : Bot) (bell : Nat) (uc : Bool) : ∀ o ∈ (b.tickEnd bell uc).2, quietOut o = true := by
  intro o ho
  cases o with
  | rInit a b' c =>
    rcases tickEnd_kinds b bell uc _ ho with h | h <;> simp [Out.snrKind, Out.isRing] at h
  | rSetting k v =>
    rcases tickEnd_kinds b bell uc _ ho with h | h <;> simp [Out.snrKind, Out.isRing] at h
  | rExpect x r p hd =>
    have : r = b.rowNumber + 1 := by
      unfold Bot.tickEnd at ho
      simp only [] at ho
      have hn1 : ∀ o ∈ (if uc = true then [] else b.ringBell bell), o ≠ Out.rExpect x r p hd := by
        intro o ho e; subst e
        split at ho
        · simp at ho
        · unfold Bot.ringBell at ho
          split at ho
          · split at ho <;> simp at ho
          · simp at ho
      have hn2 : ∀ o ∈ (if (b.place == 0) = true then b.makeCalls b.calls else []), o ≠ Out.rExpect x r p hd := by
        intro o ho e; subst e
        split at ho
        · unfold Bot.makeCalls at ho
          split at ho <;> simp at ho
        · simp at ho
      split at ho
      · simp only [List.mem_append] at ho
        rcases ho with (ho | ho) | ho
        · exact absurd rfl (hn1 _ ho)
        · exact absurd rfl (hn2 _ ho)
        · exact startNextRow_expect_row _ x r p hd ho
      · simp only [List.mem_append] at ho
        rcases ho with ho | ho
        · exact absurd rfl (hn1 _ ho)
        · exact absurd rfl (hn2 _ ho)
    simp [quietOut, this]
  | _ => rfl

theorem onMsg_band (b : Bot) (m : Msg) (hB : Band (.msg m)) : ∀ o ∈ (b.onMsg m).2, quietOut o = true := by
  intro o ho
  cases m with
  | bellRung st who =>
    unfold Bot.onMsg at ho
    simp only [] at ho
    split at ho
    · simp at ho
    · split at ho
      · simp at ho; subst ho; rfl
      · simp at ho
  | globalState st =>
    unfold Bot.onMsg Bot.onSizeChange at ho
    simp only [] at ho
    split at ho
    · simp at ho; subst ho; rfl
    · simp at ho
  | sizeChange n =>
    unfold Bot.onMsg at ho
    simp only [] at ho
    split at ho
    · unfold Bot.onSizeChange at ho
      split at ho
      · simp at ho; subst ho; rfl
      · simp at ho
    · simp at ho
  | userEntered id name => simp [Bot.onMsg] at ho
  | userList us => simp [Bot.onMsg] at ho
  | assign bell user => simp [Bot.onMsg] at ho
  | userLeft id => simp [Bot.onMsg] at ho
  | setting kvs => exact absurd hB (by simp [Band])
  | rowGen g =>
    unfold Bot.onMsg at ho
    simp only [] at ho
    split at ho
    · split at ho <;> simp at ho
    · simp at ho
  | stopTouch =>
    unfold Bot.onMsg at ho
    simp only [] at ho
    split at ho
    · simp at ho; rcases ho with rfl | rfl <;> rfl
    · simp at ho
  | call c =>
    have hc : c ≠ Generated.call_LOOK_TO := hB
    unfold Bot.onMsg Bot.onCall at ho
    simp only [] at ho
    have hne : (c == Generated.call_LOOK_TO) = false := by simpa using hc
    simp only [hne, Bool.false_eq_true, if_false] at ho
    split at ho
    · unfold Bot.onGo at ho
      split at ho
      · have := makeCalls_kind _ _ o ho
        cases o <;> simp [Out.snrKind] at this <;> first | rfl | (unfold Bot.makeCalls at ho; split at ho <;> simp at ho)
      · simp at ho
    · repeat' split at ho
      all_goals simp at ho

theorem lookToSuspends_band (w : World K) (m : Msg) (hB : Band (.msg m)) : w.lookToSuspends m = none := by
  unfold World.lookToSuspends
  cases m with
  | call c =>
    have hc : c ≠ Generated.call_LOOK_TO := hB
    have hne : (c == Generated.call_LOOK_TO) = false := by simpa using hc
    simp [hne]
  | _ => rfl

theorem finishTick_deaf (wt : K → K) (w : World K) (bell : Nat) (uc : Bool) (s : Time K) (i : K) (h : Deaf w s i) :
    Deaf (w.finishTick wt bell uc).1 s i := by
  unfold World.finishTick
  simp only []
  have h0 : Deaf ({ w with bot := (w.bot.tickEnd bell uc).1 } : World K) s i := h.of_eq h.stub h.reg rfl rfl
  have h1 := foldl_applyOut_deaf wt w.now s i (w.bot.tickEnd bell uc).2 _ (tickEnd_quiet w.bot bell uc) h0
  split
  · exact h1.of_reg h1.stub h1.reg (by intro it t e; cases e) h1.awake
  · exact h1.of_reg h1.stub h1.reg (by intro it t e; cases e) h1.awake

theorem afterInner_deaf (wt : K → K) (w : World K) (bell : Nat) (uc hand : Bool) (d : K) (js : Bool) (s : Time K) (i : K)
    (h : Deaf w s i) : Deaf (w.afterInner wt bell uc hand d js).1 s i := by
  unfold World.afterInner
  split
  · split
    · simp only []
      split
      · exact finishTick_deaf wt _ bell uc s i (h.of_eq h.stub h.reg rfl rfl)
      · exact h.of_reg h.stub h.reg (by intro it t e; cases e) h.awake
    · exact finishTick_deaf wt _ bell uc s i (h.of_eq h.stub h.reg rfl rfl)
  · exact finishTick_deaf wt w bell uc s i h

theorem beginWait_deaf (w : World K) (bell : Nat) (uc hand : Bool) (s : Time K) (i : K) (h : Deaf w s i) :
    (w.beginWait bell uc hand).1.rh.stub = none ∧ RegDeaf (w.beginWait bell uc hand).1.rh.reg s i ∧
    (w.beginWait bell uc hand).1.suspended = none ∧
    (∀ it t, (w.beginWait bell uc hand).2.2 ≠ PC.waitLoaded it (some t)) := by
  unfold World.beginWait
  split
  · exact ⟨h.stub, h.reg, h.awake, by intro it t e; cases e⟩
  · simp only []
    split <;> (split <;> exact ⟨h.stub, h.reg, h.awake, by intro it t e; cases e⟩)

/-- One step of the main thread of a touch under way leaves a deaf rhythm's line alone. -/
theorem mainStep_deaf (wt : K → K) (w : World K) (s : Time K) (i : K) (h : Deaf w s i) : Deaf (w.mainStep wt).1 s i := by
  unfold World.mainStep
  split
  · exact h
  · rename_i it lt hpc
    cases lt with
    | some t => exact absurd hpc (h.notSpawn it t)
    | none =>
      split
      · split
        · exact h.of_reg h.stub h.reg (by intro it t e; cases e) h.awake
        · exact h.of_reg h.stub h.reg (by intro it t e; cases e) h.awake
      · exact h.of_reg h.stub h.reg (by intro it t e; cases e) h.awake
  · exact h.of_reg h.stub h.reg (by intro it t e; cases e) h.awake
  · split
    · exact h.of_reg h.stub h.reg (by intro it t e; cases e) h.awake
    · apply foldl_applyOut_deaf
      · intro o ho
        split at ho
        · simp at ho; rcases ho with rfl | rfl <;> rfl
        · simp at ho
      · exact h.of_reg h.stub h.reg (by intro it t e; cases e) h.awake
  · split
    · exact h.of_reg h.stub h.reg (by intro it t e; cases e) h.awake
    · exact h.of_reg h.stub h.reg (by intro it t e; cases e) h.awake
  · split
    · split
      · exact h.of_reg h.stub h.reg (by intro it t e; cases e) h.awake
      · obtain ⟨b1, b2, b3, b4⟩ := beginWait_deaf w _ _ w.bot.hand s i h
        exact h.of_reg b1 b2 b4 b3
    · apply foldl_applyOut_deaf
      · intro o ho
        split at ho
        · simp at ho; subst ho; rfl
        · simp at ho
      · exact h.of_reg h.stub h.reg (by intro it t e; cases e) h.awake
  · split
    · exact h
    · exact afterInner_deaf wt w _ _ _ _ _ s i h
  · apply afterInner_deaf
    split
    · exact h
    · exact h.of_eq h.stub
        { inertia := h.reg.inertia, start := h.reg.start, interval := h.reg.interval, stage := h.reg.stage,
          gap := h.reg.gap, rows := h.reg.rows } rfl rfl
  · exact afterInner_deaf wt w _ _ _ _ _ s i h
  · exact h.of_reg h.stub h.reg (by intro it t e; cases e) h.awake

/-- The delivery of any event of the class to a deaf rhythm leaves its line alone: a human strike at any time, an
assignment, a call, a selection, Stop Touch, a size change. -/
theorem deliver_deaf (wt : K → K) (w : World K) (e : Ev) (s : Time K) (i : K) (hB : Band e) (h : Deaf w s i) :
    Deaf (World.deliver wt w e) s i := by
  cases e with
  | resume => exact absurd hB (by simp [Band])
  | msg m =>
    unfold World.deliver
    simp only [lookToSuspends_band w m hB]
    unfold World.deliverMsg
    simp only []
    have h0 : Deaf ({ w with bot := (w.bot.onMsg m).1 } : World K) s i := h.of_eq h.stub h.reg rfl rfl
    have h1 := foldl_applyOut_deaf wt w.now s i (w.bot.onMsg m).2 _ (onMsg_band w.bot m hB) h0
    split
    · exact h1.of_eq h1.stub h1.reg rfl rfl
    · exact h1

theorem sleep_go_deaf (wt : K → K) (limit : K) (s : Time K) (i : K) :
    ∀ (events : List (K × Ev)) (w : World K), (∀ ev ∈ events, Band ev.2) → Deaf w s i →
      Deaf (World.sleep.go wt limit w events).1 s i ∧ (∀ ev ∈ (World.sleep.go wt limit w events).2, Band ev.2) := by
  intro events
  induction events with
  | nil => intro w _ h; exact ⟨h, by intro ev hev; cases hev⟩
  | cons ev rest ih =>
    intro w hs h
    obtain ⟨t, m⟩ := ev
    unfold World.sleep.go
    split
    · apply ih _ (fun ev' h' => hs ev' (by simp [h']))
      apply deliver_deaf wt _ m s i (hs (t, m) (by simp))
      split
      · exact h.of_eq h.stub h.reg rfl rfl
      · exact h
    · exact ⟨h, hs⟩

theorem sleep_deaf (wt : K → K) (endTime : K) (w : World K) (d : K) (events : List (K × Ev)) (s : Time K) (i : K)
    (hs : ∀ ev ∈ events, Band ev.2) (h : Deaf w s i) :
    Deaf (World.sleep wt endTime w d events).1 s i ∧ (∀ ev ∈ (World.sleep wt endTime w d events).2.1, Band ev.2) := by
  unfold World.sleep
  simp only []
  split
  · exact sleep_go_deaf wt endTime s i events w hs h
  · obtain ⟨h1, h2⟩ := sleep_go_deaf wt (w.now + d) s i events w hs h
    exact ⟨h1.of_eq h1.stub h1.reg rfl rfl, h2⟩

theorem run_deaf (wt : K → K) (endTime : K) (s : Time K) (i : K) :
    ∀ (fuel : Nat) (w : World K) (events : List (K × Ev)), (∀ ev ∈ events, Band ev.2) → Deaf w s i →
      Deaf (World.run wt endTime fuel w events).1 s i := by
  intro fuel
  induction fuel with
  | zero => intro w events _ h; exact h
  | succ fuel ih =>
    intro w events hs h
    unfold World.run
    have hm := mainStep_deaf wt w s i h
    split
    · rename_i w1 heq; rw [heq] at hm; exact hm
    · rename_i w1 heq; rw [heq] at hm; exact ih w1 events hs hm
    · rename_i w1 d heq
      rw [heq] at hm
      obtain ⟨hsl, hsq⟩ := sleep_deaf wt endTime w1 d events s i hs hm
      simp only []
      split
      · exact hsl
      · exact ih _ _ hsq hsl

/-- **With inertia 1 the band cannot move Wheatley's line.**  Take a touch under way whose rhythm has inertia 1 and
has no expectation left from the first row (that is: the first whole pull is over).  Then in every state of every
run - whatever the humans strike and whenever (early, late, rows ahead, bells that are not theirs), whoever takes or
drops a rope, comes or goes, whatever is called (Go, Bob, Single, That's all, Rounds, Stand), selected or stopped,
for as many steps as you like - the line Wheatley rings to is the line it was: same start, same interval.  Only a
Look To (a new touch) or a setting (a new speed, another inertia) can change it; those are the events excluded. -/
theorem line_never_moves (wt : K → K) (endTime : K) (fuel : Nat) (w : World K) (events : List (K × Ev))
    (s : Time K) (i : K) (hs : ∀ ev ∈ events, Band ev.2) (h : Deaf w s i) :
    (World.run wt endTime fuel w events).1.rh.reg.start = s ∧
    (World.run wt endTime fuel w events).1.rh.reg.interval = i :=
  let h' := run_deaf wt endTime s i fuel w events hs h
  ⟨h'.reg.start, h'.reg.interval⟩

/-- Non-vacuity: a rhythm in its second row on six bells, inertia 1, waiting for bell 2 - `Deaf`; a strike, an
assignment, a Bob and Stop Touch are events of the class. -/
example : ∃ w : World ℚ, Deaf w (.fin 3) (1 / 4) ∧
    (∀ e ∈ [Ev.msg (.bellRung [true, false, true, true, true, true] 2), .msg (.assign 3 11), .msg (.call "Bob"),
            .msg .stopTouch], Band e) := by
  refine ⟨{ World.init (0 : ℚ) (Bot.init (Gen.init .placeholder none []) false false true none none)
              { reg := { Reg.init (1 : ℚ) 180 1 4 15 0 with stage := 6, start := .fin 3, interval := 1 / 4,
                                                             expected := [((2, true), (2, 1))] },
                wait := none, stub := none } [] none with pc := .ringCheck }, ?_, ?_⟩
  · exact { stub := rfl,
            reg := { inertia := rfl, start := rfl, interval := rfl, stage := (by decide), gap := (by decide),
                     rows := (by
                       intro p hp
                       have : p = ((2, true), (2, 1)) := by simpa [World.init] using hp
                       subst this; decide) },
            notSpawn := (by intro it t e; cases e),
            awake := rfl }
  · intro e he
    simp only [List.mem_cons, List.mem_nil_iff, or_false] at he
    rcases he with rfl | rfl | rfl | rfl <;> simp [Band, Generated.call_LOOK_TO]


end System

/-! ### The command line (`Model/Cli.lean`: `console_main`) -/

/-- The inertia is the last `-I` given, else the default - an explicit 0 or 1 included. -/
theorem cli_inertia (c : Parse.Chars) (os : List Cli.Opt) (u : Option (List Char × List Char)) (cfg : Cli.Cfg)
    (h : Cli.consoleMain c os u = .built cfg) :
    cfg.inertia = (Cli.inertiasGiven os).getLast?.getD Generated.cliInertiaBits :=
  (Cli.main_built c os u cfg h).2.2.2.2.1

end Wheatley.C13
