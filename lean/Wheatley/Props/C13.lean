/-
C13 — inertia 1 ignores the band; a gross blunder never drags the rhythm.
-/
import Mathlib.Analysis.Complex.ExponentialBounds
import Wheatley.Props.C12
import Wheatley.Model.World
import Wheatley.Lemmas.Cli
namespace Wheatley.C13
open Generated

variable {K : Type} [Field K] [LinearOrder K] [IsStrictOrderedRing K]

/-- **Inertia 1**: a data point never changes start or interval (the early return), whatever its time
and weight — so after the first whole pull (row ≥ 1 uses the preferred inertia) the line is
independent of everything the humans do. -/
theorem inertia1_line_invariant (r : Reg K) (reg : List (K × K × K) → K × K) (row place : Nat) (t w : K)
    (hrow : 0 < row) (hi : r.preferredInertia = 1) :
    (r.addDataPoint reg row place t w).start = r.start ∧
    (r.addDataPoint reg row place t w).interval = r.interval := by
  apply addDataPoint_line_unchanged
  left
  simp [hrow, hi]

/-- … hence a whole human strike leaves the line alone too (it only consumes the expectation). -/
theorem inertia1_strike (r : Reg K) (wt : K → K) (reg : List (K × K × K) → K × K) (bell : Nat) (hand : Bool)
    (t : K) (row place : Nat) (hexp : r.lookupExpected bell hand = some (row, place)) (hrow : 0 < row)
    (hi : r.preferredInertia = 1) (hb : r.blowTime row place ≠ 0) :
    (r.onBellRing wt reg bell hand t).start = r.start ∧
    (r.onBellRing wt reg bell hand t).interval = r.interval := by
  unfold Reg.onBellRing
  simp only [hexp]
  have hb' : Num.eqb (r.blowTime row place) (Num.ofNat 0) = false := by simpa using hb
  simp only [hb', Bool.false_eq_true, if_false]
  exact inertia1_line_invariant r reg row place t _ hrow hi

/-- `exp(-9) < 0.001` — for the real exponential function. -/
theorem exp_neg9 : Real.exp (-9) < 1 / 1000 := by
  have h := Real.exp_one_gt_d9
  have h9 : Real.exp (-9) = (Real.exp 1)⁻¹ ^ 9 := by
    rw [← Real.exp_neg, ← Real.exp_nat_mul]; norm_num
  rw [h9]
  have hpos : (0 : ℝ) < Real.exp 1 := Real.exp_pos 1
  have hinv : (Real.exp 1)⁻¹ < (2.7182818283 : ℝ)⁻¹ := by
    apply inv_strictAnti₀ (by norm_num) h
  have h0 : (0 : ℝ) ≤ (Real.exp 1)⁻¹ := le_of_lt (inv_pos.mpr hpos)
  calc (Real.exp 1)⁻¹ ^ 9 < ((2.7182818283 : ℝ)⁻¹) ^ 9 := pow_lt_pow_left₀ hinv h0 (by norm_num)
    _ < 1 / 1000 := by norm_num

/-- A strike three or more places from its slot gets a weight below the rejection threshold. -/
theorem blunder_weight (d : ℝ) (h : 3 ≤ |d|) : Real.exp (-(d ^ 2)) < 1 / 1000 := by
  have h9 : (9 : ℝ) ≤ d ^ 2 := by
    have : |d| ^ 2 = d ^ 2 := sq_abs d
    nlinarith [abs_nonneg d]
  calc Real.exp (-(d ^ 2)) ≤ Real.exp (-9) := Real.exp_le_exp.mpr (by linarith)
    _ < 1 / 1000 := exp_neg9

/-- **The blunder is dropped at once**: a new point whose weight is not above the threshold leaves the
data set exactly as it was, provided the remembered points are all above it (they were kept) and the
memory is not over-full (it never is, `C12.memory_bounded`). -/
theorem blunder_dropped (r : Reg K) (row place : Nat) (t w : K)
    (hw : ¬ (Num.ofQ weightRejectionThreshold : K) < w)
    (hkept : ∀ d ∈ r.dataSet, (Num.ofQ weightRejectionThreshold : K) < d.2.2)
    (hlen : (r.dataSet.length : Int) < r.maxBells) :
    r.newDataSet row place t w = r.dataSet := by
  unfold Reg.newDataSet
  simp only []
  have hf : (r.dataSet ++ [(r.blowTime row place, t, w)]).filter
      (fun d => decide (Num.ofQ weightRejectionThreshold < d.2.2)) = r.dataSet := by
    rw [List.filter_append]
    have h1 : r.dataSet.filter (fun d => decide (Num.ofQ weightRejectionThreshold < d.2.2)) = r.dataSet :=
      List.filter_eq_self.mpr (fun d hd => by simpa using hkept d hd)
    have h2 : [(r.blowTime row place, t, w)].filter (fun d => decide (Num.ofQ weightRejectionThreshold < d.2.2)) = [] := by
      simp [hw]
    rw [h1, h2, List.append_nil]
  rw [hf]
  split
  · omega
  · rfl

/-- **… and harmless once the rhythm is settled** (all remembered points on the current line): the line
after the blunder is the line before it — the same as if the strike had not happened. -/
theorem blunder_harmless (r : Reg K) (row place : Nat) (t w s : K) (hs : r.start = .fin s)
    (hw : ¬ (Num.ofQ weightRejectionThreshold : K) < w)
    (hkept : ∀ d ∈ r.dataSet, (Num.ofQ weightRejectionThreshold : K) < d.2.2)
    (hlen : (r.dataSet.length : Int) < r.maxBells)
    (hsettled : OnLine s r.interval r.dataSet) (hdet : det r.dataSet ≠ 0) :
    (r.addDataPoint regress row place t w).start = .fin s ∧
    (r.addDataPoint regress row place t w).interval = r.interval ∧
    (r.addDataPoint regress row place t w).dataSet = r.dataSet := by
  have hds := blunder_dropped r row place t w hw hkept hlen
  obtain ⟨h1, h2⟩ := C12.fixed_point r row place t w s hs (by rw [hds]; exact hsettled) (by rw [hds]; exact hdet)
  exact ⟨h1, h2, by rw [(addDataPoint_cfg r regress row place t w).2.1, hds]⟩

theorem threshold_value : (Num.ofQ weightRejectionThreshold : K) = 1 / 1000 := by
  simp [num_ofQ, weightRejectionThreshold]

/-- A strike a whole row early lands on the other stroke: it is not expected there and changes nothing. -/
theorem unexpected_stroke_ignored (r : Reg K) (wt : K → K) (reg : List (K × K × K) → K × K) (bell : Nat)
    (hand : Bool) (t : K) (h : r.lookupExpected bell hand = none) :
    r.onBellRing wt reg bell hand t = r := by
  simp [Reg.onBellRing, h]

/-- **Inertia 1 can be switched on at run time**: an `inertia` setting of 0 or 1 (the integers the
settings channel sends) becomes the rhythm's preferred inertia — in particular exactly 1 is accepted,
and from then on (`inertia1_line_invariant`) no strike moves the line. -/
theorem inertia_setting_applies {K : Type} [Num K] (w : World K) (wt : K → K) (ct : K) (n : Int)
    (hstub : w.rh.stub = none) (h0 : 0 ≤ n) (h1 : n ≤ 1) :
    (World.applyOut wt ct w (.rSetting "inertia" (.int n))).rh.reg.preferredInertia = Num.ofNat n.toNat := by
  unfold World.applyOut
  simp only [hstub]
  have hk : ("inertia" == "peal_speed") = false := by decide
  simp [hk, h0, h1]

/-- **An expectation is used once**: the strike that matches it removes it, so a later strike of the same
bell on the same stroke that arrives before the next expectation has been set (rung more than a row
ahead) is "unexpected" and (`unexpected_stroke_ignored`) changes nothing. -/
theorem expectation_used_once (r : Reg K) (wt : K → K) (reg : List (K × K × K) → K × K) (bell : Nat)
    (hand : Bool) (t : K) :
    (r.onBellRing wt reg bell hand t).lookupExpected bell hand = none := by
  unfold Reg.onBellRing
  cases hq : r.lookupExpected bell hand with
  | none => simpa using hq
  | some p =>
    obtain ⟨row, place⟩ := p
    simp only []
    unfold Reg.lookupExpected
    rw [List.find?_eq_none.mpr]
    intro x hx
    simp only [List.mem_filter] at hx
    simpa using hx.2

/-! ### The command line (`Model/Cli.lean`: `console_main`) -/

/-- The inertia is the last `-I` given, else the default - an explicit 0 or 1 included. -/
theorem cli_inertia (c : Parse.Chars) (os : List Cli.Opt) (u : Option (List Char × List Char)) (cfg : Cli.Cfg)
    (h : Cli.consoleMain c os u = .built cfg) :
    cfg.inertia = (Cli.inertiasGiven os).getLast?.getD Generated.cliInertiaBits :=
  (Cli.main_built c os u cfg h).2.2.2.2.1

end Wheatley.C13
